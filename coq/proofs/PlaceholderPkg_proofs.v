(** C13, deck level: proofs about model/PlaceholderPkg.v (which part every entry of the slide list
    designates, over histories of additions, edits, deletions and saving / re-opening). *)
From Coq Require Import Permutation.
From V.lib Require Import Prelude.
From V.gen Require Import GenC13.
From V.model Require Import Placeholder PlaceholderPkg.
From V.model Require Ids Opc PkgOps.
From V.proofs Require Import Prelude_proofs Placeholder_proofs.
From V.proofs Require Ids_proofs Opc_proofs.

Local Notation rr_id := PkgOps.rr_id.
Local Notation rr_tgt := PkgOps.rr_tgt.
Local Notation TInt := PkgOps.TInt.
Local Notation TExt := PkgOps.TExt.
Local Notation mkR := PkgOps.mkR.
Local Notation find_rel := PkgOps.find_rel.
Local Notation related_part := PkgOps.related_part.
Local Notation int_targets := PkgOps.int_targets.

(* ------------------------------------------------------------------------------ *)
(** * lists *)

Lemma dedup_nat_NoDup l : NoDup l -> dedup_nat l = l.
Proof.
  induction l as [|x l IH]; intros H; cbn; auto. inversion H as [|? ? Hx Hl]; subst.
  rewrite (IH Hl). f_equal. clear IH H Hl. induction l as [|y l IH]; cbn; auto.
  destruct (Nat.eqb_spec x y) as [->|Hne]; cbn.
  - exfalso. apply Hx. left; auto.
  - f_equal. apply IH. intros Hin. apply Hx. right; auto.
Qed.

Lemma nth_error_remove_nth_lt {A} : forall (l : list A) i j, j < i -> nth_error (remove_nth i l) j = nth_error l j.
Proof. induction l as [|x l IH]; intros [|i] [|j] H; cbn; auto; try lia. apply IH; lia. Qed.

Lemma nth_error_remove_nth_ge {A} : forall (l : list A) i j, i <= j -> nth_error (remove_nth i l) j = nth_error l (S j).
Proof.
  induction l as [|x l IH]; intros [|i] [|j] H; cbn; auto; try lia.
  apply IH; lia.
Qed.

Lemma remove_nth_split {A} : forall (l : list A) i x, nth_error l i = Some x ->
  exists a b, l = a ++ x :: b /\ length a = i /\ remove_nth i l = a ++ b.
Proof.
  induction l as [|y l IH]; intros [|i] x H; cbn in *; try discriminate.
  - inversion H; subst. exists [], l. auto.
  - destruct (IH i x H) as [a [b [E [Hl Hr]]]]. exists (y :: a), b. cbn. rewrite <- E, Hl, Hr. auto.
Qed.

Lemma map_remove_nth {A B} (f : A -> B) : forall l i, map f (remove_nth i l) = remove_nth i (map f l).
Proof. induction l as [|x l IH]; intros [|i]; cbn; auto. rewrite IH; auto. Qed.

Lemma NoDup_remove_nth {A} : forall (l : list A) i, NoDup l -> NoDup (remove_nth i l).
Proof.
  intros l i H. destruct (nth_error l i) as [x|] eqn:E.
  - destruct (remove_nth_split l i x E) as [a [b [-> [_ ->]]]]. eapply NoDup_remove_1; eauto.
  - assert (Hr : remove_nth i l = l); [|rewrite Hr; auto].
    clear H. revert i E. induction l as [|y l IH]; intros [|i] E; cbn in *; auto; try discriminate.
    rewrite IH; auto.
Qed.

Lemma In_remove_nth {A} : forall (l : list A) i x, In x (remove_nth i l) -> In x l.
Proof.
  induction l as [|y l IH]; intros [|i] x H; cbn in *; auto.
  destruct H as [H|H]; auto. right. eapply IH; eauto.
Qed.

Lemma upd_nth_app1 {A} (f : A -> A) : forall (l r : list A) n, n < length l -> upd_nth n f (l ++ r) = upd_nth n f l ++ r.
Proof. induction l as [|x l IH]; intros r [|n] H; cbn in *; auto; try lia. rewrite IH; auto; lia. Qed.

(* ------------------------------------------------------------------------------ *)
(** * the relationship collection *)

Lemma find_rel_some rid rs r : find_rel rid rs = Some r -> In r rs /\ rr_id r = rid.
Proof.
  induction rs as [|x rs IH]; cbn; [discriminate|].
  destruct (str_eqb (rr_id x) rid) eqn:E.
  - intros H; inversion H; subst. apply str_eqb_eq in E. auto.
  - intros H. destruct (IH H). auto.
Qed.

Lemma find_rel_none rid rs : find_rel rid rs = None <-> ~ In rid (map rr_id rs).
Proof.
  induction rs as [|x rs IH]; cbn; [tauto|].
  destruct (str_eqb (rr_id x) rid) eqn:E.
  - apply str_eqb_eq in E. split; [discriminate|]. intros H; exfalso; apply H; auto.
  - rewrite IH. split; intros H; [intros [H1|H1]|]; auto.
    subst. rewrite str_eqb_refl in E. discriminate.
Qed.

Lemma find_rel_app_in rid rs r : In rid (map rr_id rs) -> find_rel rid (rs ++ [r]) = find_rel rid rs.
Proof.
  induction rs as [|x rs IH]; cbn; [tauto|].
  destruct (str_eqb (rr_id x) rid) eqn:E; auto.
  intros [H|H]; auto. subst. rewrite str_eqb_refl in E. discriminate.
Qed.

Lemma find_rel_app_new rs r : ~ In (rr_id r) (map rr_id rs) -> find_rel (rr_id r) (rs ++ [r]) = Some r.
Proof.
  induction rs as [|x rs IH]; cbn; intros H.
  - rewrite str_eqb_refl. auto.
  - destruct (str_eqb (rr_id x) (rr_id r)) eqn:E.
    + apply str_eqb_eq in E. exfalso; auto.
    + apply IH. tauto.
Qed.

Lemma find_rel_filter rid x rs : rid <> x ->
  find_rel rid (filter (fun r => negb (str_eqb (rr_id r) x)) rs) = find_rel rid rs.
Proof.
  intros Hne. induction rs as [|y rs IH]; cbn; auto.
  destruct (str_eqb (rr_id y) x) eqn:E; cbn.
  - apply str_eqb_eq in E. destruct (str_eqb (rr_id y) rid) eqn:E2; auto.
    apply str_eqb_eq in E2. congruence.
  - rewrite IH. auto.
Qed.

Lemma find_rel_NoDup rs r : NoDup (map rr_id rs) -> In r rs -> find_rel (rr_id r) rs = Some r.
Proof.
  induction rs as [|x rs IH]; cbn; [tauto|]. intros Hnd [->|Hin].
  - rewrite str_eqb_refl; auto.
  - inversion Hnd as [|? ? Hx Hr]; subst. destruct (str_eqb (rr_id x) (rr_id r)) eqn:E; auto.
    apply str_eqb_eq in E. exfalso. apply Hx. rewrite E. apply in_map; auto.
Qed.

Lemma int_targets_app a b : int_targets (a ++ b) = int_targets a ++ int_targets b.
Proof. unfold PkgOps.int_targets. apply flat_map_app. Qed.

Lemma int_targets_In q rs : In q (int_targets rs) <-> exists r, In r rs /\ rr_tgt r = TInt q.
Proof.
  unfold PkgOps.int_targets. rewrite in_flat_map. split.
  - intros [r [H1 H2]]. exists r. split; auto. destruct (rr_tgt r); cbn in H2; [|tauto].
    destruct H2 as [->|[]]; auto.
  - intros [r [H1 H2]]. exists r. split; auto. rewrite H2. left; auto.
Qed.

Lemma related_part_ok rid rs p : related_part rid rs = Ok p ->
  exists r, In r rs /\ rr_id r = rid /\ rr_tgt r = TInt p.
Proof.
  unfold PkgOps.related_part. destruct (find_rel rid rs) as [r|] eqn:E; [|discriminate].
  destruct (find_rel_some _ _ _ E) as [F1 F2]. destruct (rr_tgt r) eqn:Et; [|discriminate].
  intros H; inversion H; subst. eauto.
Qed.

Lemma related_part_app_in rid rs r : In rid (map rr_id rs) -> related_part rid (rs ++ [r]) = related_part rid rs.
Proof. intros H. unfold PkgOps.related_part. rewrite find_rel_app_in; auto. Qed.

Lemma related_part_in_keys rid rs p : related_part rid rs = Ok p -> In rid (map rr_id rs).
Proof. intros H. destruct (related_part_ok _ _ _ H) as [r [H1 [H2 _]]]. subst. apply in_map; auto. Qed.

Lemma int_targets_filter_sub f rs q : In q (int_targets (filter f rs)) -> In q (int_targets rs).
Proof.
  rewrite !int_targets_In. intros [r [H1 H2]]. apply filter_In in H1. exists r. tauto.
Qed.

Lemma int_targets_cons x rs :
  int_targets (x :: rs) = match rr_tgt x with TInt p => p :: int_targets rs | TExt _ => int_targets rs end.
Proof. unfold PkgOps.int_targets. cbn. destruct (rr_tgt x); reflexivity. Qed.

Lemma NoDup_int_targets_filter f rs : NoDup (int_targets rs) -> NoDup (int_targets (filter f rs)).
Proof.
  induction rs as [|x rs IH]; cbn [filter]; auto. rewrite int_targets_cons. intros H.
  assert (Hs : NoDup (int_targets rs)) by (destruct (rr_tgt x); [inversion H|]; auto).
  destruct (f x); auto. rewrite int_targets_cons. destruct (rr_tgt x); auto.
  inversion H; subst. constructor; auto. intros Hin. apply int_targets_filter_sub in Hin. auto.
Qed.

(* ------------------------------------------------------------------------------ *)
(** * the listing *)

Lemma lparts_length ps : length (lparts ps) = length (p_ids ps).
Proof. unfold lparts. apply map_length. Qed.

Lemma part_at_lparts ps i : i < length (p_ids ps) -> nth_error (lparts ps) i = Some (part_at ps i).
Proof.
  intros H. unfold lparts, part_at. rewrite nth_error_map.
  destruct (nth_error (p_ids ps) i) eqn:E; auto. apply nth_error_None in E. lia.
Qed.

Lemma part_at_ok ps l i p : lparts ps = map (@Ok nat) l -> nth_error l i = Some p -> part_at ps i = Ok p.
Proof.
  intros Hl Hn. assert (Hi : i < length (p_ids ps)).
  { rewrite <- lparts_length, Hl, map_length. apply nth_error_Some. congruence. }
  pose proof (part_at_lparts ps i Hi) as H. rewrite Hl, nth_error_map, Hn in H. cbn in H. congruence.
Qed.

Lemma lparts_len ps l : lparts ps = map (@Ok nat) l -> length l = length (p_ids ps).
Proof. intros H. rewrite <- lparts_length, H, map_length. auto. Qed.

Lemma map_Ok_inj {A} (a b : list A) : map (@Ok A) a = map (@Ok A) b -> a = b.
Proof.
  revert b; induction a as [|x a IH]; intros [|y b] H; cbn in *; try discriminate; auto.
  inversion H. f_equal; auto.
Qed.

(** every p:sldId of a well-formed presentation designates a slide part *)
Theorem pres_wf_resolves ps i : pres_wf ps -> i < length (p_ids ps) ->
  exists p sl, slide_at ps i = Ok (p, sl) /\ p < length (p_parts ps).
Proof.
  intros [_ [_ [Hr [_ [l [Hl [_ Hf]]]]]]] Hi.
  assert (Hlen := lparts_len _ _ Hl).
  destruct (nth_error l i) as [p|] eqn:E; [|apply nth_error_None in E; lia].
  pose proof (part_at_ok _ _ _ _ Hl E) as Hp.
  rewrite Forall_forall in Hf. destruct (Hf p (nth_error_In _ _ E)) as [x [sl [H1 H2]]].
  exists p, sl. split.
  - unfold slide_at, slide_of. rewrite Hp. cbn. rewrite H1, H2. reflexivity.
  - apply nth_error_Some. congruence.
Qed.

Lemma slide_at_part ps i p sl : slide_at ps i = Ok (p, sl) -> part_at ps i = Ok p /\ slide_of ps p = Ok sl.
Proof.
  unfold slide_at. destruct (part_at ps i) as [q|]; cbn; [|discriminate].
  destruct (slide_of ps q) as [s|] eqn:Es; cbn; [|discriminate]. intros H; inversion H; subst; split; auto.
Qed.

(** in a well-formed presentation two positions never designate the same part *)
Lemma wf_positions_distinct ps i j p : pres_wf ps -> part_at ps i = Ok p -> part_at ps j = Ok p -> i = j.
Proof.
  intros [_ [_ [_ [_ [l [Hl [Hnd _]]]]]]] Hi Hj.
  assert (Hlen := lparts_len _ _ Hl).
  assert (Bi : i < length (p_ids ps)).
  { unfold part_at in Hi. destruct (nth_error (p_ids ps) i) eqn:E; [|discriminate]. apply nth_error_Some; congruence. }
  assert (Bj : j < length (p_ids ps)).
  { unfold part_at in Hj. destruct (nth_error (p_ids ps) j) eqn:E; [|discriminate]. apply nth_error_Some; congruence. }
  pose proof (part_at_lparts ps i Bi) as H1. pose proof (part_at_lparts ps j Bj) as H2.
  rewrite Hl, nth_error_map, Hi in H1. rewrite Hl, nth_error_map, Hj in H2.
  destruct (nth_error l i) as [a|] eqn:Ea; cbn in H1; [|discriminate].
  destruct (nth_error l j) as [b|] eqn:Eb; cbn in H2; [|discriminate].
  inversion H1; inversion H2; subst.
  eapply NoDup_nth_error; eauto. rewrite Hlen; auto. congruence.
Qed.

(* ------------------------------------------------------------------------------ *)
(** * one more part, related through a fresh rId *)

Definition extend (ps : pres) (x : ppart) (rid t : str) : pres :=
  mk_pres (p_deck ps) (p_parts ps ++ [x]) (p_rels ps ++ [mkR rid t (TInt (length (p_parts ps))) None])
          (p_ids ps) (p_xrefs ps).

Lemma written_wf ps : pres_wf ps -> written ps = int_targets (p_rels ps).
Proof. intros [_ [H _]]. unfold written. apply dedup_nat_NoDup; auto. Qed.

Lemma name_of_extend ps x rid t q : q < length (p_parts ps) -> name_of (extend ps x rid t) q = name_of ps q.
Proof. intros H. unfold name_of, extend; cbn. rewrite nth_error_app1; auto. Qed.

Lemma name_of_extend_new ps x rid t : name_of (extend ps x rid t) (length (p_parts ps)) = pp_name x.
Proof. unfold name_of, extend; cbn. rewrite nth_error_app2, Nat.sub_diag; auto. Qed.

Lemma is_slide_part_extend ps x rid t p : is_slide_part ps p -> is_slide_part (extend ps x rid t) p.
Proof.
  intros [y [sl [H1 H2]]]. exists y, sl. split; auto. unfold extend; cbn.
  rewrite nth_error_app1; auto. apply nth_error_Some. congruence.
Qed.

Lemma lparts_extend ps x rid t l : lparts ps = map (@Ok nat) l -> lparts (extend ps x rid t) = lparts ps.
Proof.
  intros Hl. unfold lparts in *. cbn [extend p_ids p_rels]. apply map_ext_in. intros e He.
  apply related_part_app_in.
  assert (Hin : In (related_part (snd e) (p_rels ps)) (map (@Ok nat) l)).
  { rewrite <- Hl. apply in_map_iff. exists e; auto. }
  apply in_map_iff in Hin. destruct Hin as [p [Hp _]]. symmetry in Hp.
  eapply related_part_in_keys; eauto.
Qed.

Lemma int_targets_extend ps x rid t :
  int_targets (p_rels (extend ps x rid t)) = int_targets (p_rels ps) ++ [length (p_parts ps)].
Proof. unfold extend; cbn [p_rels]. rewrite int_targets_app. reflexivity. Qed.

Lemma NoDup_snoc {A} (l : list A) x : NoDup l -> ~ In x l -> NoDup (l ++ [x]).
Proof.
  induction l as [|y l IH]; cbn; intros H Hx; [constructor; auto; constructor|].
  inversion H; subst. constructor.
  - rewrite in_app_iff. cbn. intros [Hi|[->|[]]]; auto.
  - apply IH; auto.
Qed.

Lemma NoDup_snoc_inv {A} (l : list A) x : NoDup (l ++ [x]) -> NoDup l /\ ~ In x l.
Proof.
  induction l as [|y l IH]; cbn; intros H; [split; [constructor|auto]|].
  inversion H; subst. destruct (IH H3) as [I1 I2]. split.
  - constructor; auto. intros Hi. apply H2. apply in_or_app; auto.
  - intros [->|Hi]; auto. apply H2. apply in_or_app. right; left; auto.
Qed.

Lemma extend_wf ps x rid t : pres_wf ps -> ~ In rid (map rr_id (p_rels ps)) -> pres_wf (extend ps x rid t).
Proof.
  intros Hwf Hfresh. pose proof Hwf as [H1 [H2 [H3 [H4 [l [Hl [Hnd Hf]]]]]]].
  unfold pres_wf. rewrite int_targets_extend. split; [|split; [|split; [|split]]].
  - unfold extend; cbn [p_rels]. rewrite map_app. cbn. apply NoDup_snoc; auto.
  - apply NoDup_snoc; auto. intros Hin. apply H3 in Hin. lia.
  - intros p Hp. unfold extend; cbn [p_parts]. rewrite app_length; cbn. apply in_app_or in Hp.
    destruct Hp as [Hp|[<-|[]]]; [apply H3 in Hp|]; lia.
  - exact H4.
  - exists l. split; [|split]; auto.
    + rewrite (lparts_extend _ _ _ _ _ Hl). auto.
    + eapply Forall_impl; [|exact Hf]. intros p. apply is_slide_part_extend.
Qed.

Lemma reach_names_extend ps x rid t : pres_wf ps -> ~ In rid (map rr_id (p_rels ps)) ->
  reach_names (extend ps x rid t) = reach_names ps ++ [pp_name x].
Proof.
  intros Hwf Hfresh. unfold reach_names.
  rewrite (written_wf _ (extend_wf _ x _ t Hwf Hfresh)), (written_wf _ Hwf), int_targets_extend, map_app.
  cbn [map]. rewrite name_of_extend_new. f_equal. apply map_ext_in. intros q Hq.
  apply name_of_extend. destruct Hwf as [_ [_ [H3 _]]]. auto.
Qed.

Lemma slide_of_extend ps x rid t p : p < length (p_parts ps) -> slide_of (extend ps x rid t) p = slide_of ps p.
Proof. intros H. unfold slide_of, extend; cbn. rewrite nth_error_app1; auto. Qed.

Lemma part_at_extend ps x rid t l i : lparts ps = map (@Ok nat) l -> part_at (extend ps x rid t) i = part_at ps i.
Proof.
  intros Hl. destruct (Nat.lt_ge_cases i (length (p_ids ps))) as [Hi|Hi].
  - pose proof (part_at_lparts ps i Hi) as H1.
    pose proof (part_at_lparts (extend ps x rid t) i Hi) as H2.
    rewrite (lparts_extend _ _ _ _ _ Hl) in H2. congruence.
  - unfold part_at. cbn [extend p_ids]. destruct (nth_error (p_ids ps) i) eqn:E; auto.
    assert (i < length (p_ids ps)) by (apply nth_error_Some; congruence). lia.
Qed.

Lemma slide_at_extend ps x rid t i : pres_wf ps -> slide_at (extend ps x rid t) i = slide_at ps i.
Proof.
  intros Hwf. pose proof Hwf as [_ [_ [H3 [_ [l [Hl _]]]]]].
  unfold slide_at. rewrite (part_at_extend _ _ _ _ _ _ Hl).
  destruct (part_at ps i) as [p|] eqn:E; cbn; auto.
  rewrite slide_of_extend; auto. apply H3.
  unfold part_at in E. destruct (nth_error (p_ids ps) i); [|discriminate].
  destruct (related_part_ok _ _ _ E) as [r [R1 [_ R3]]]. apply int_targets_In. eauto.
Qed.

(* ------------------------------------------------------------------------------ *)
(** * Slides.add_slide *)

Lemma get_or_add_fresh rs n t : (forall p, In p (int_targets rs) -> p < n) ->
  exists rid, PkgOps.get_or_add t (TInt n) rs = Ok (rs ++ [mkR rid t (TInt n) None], rid) /\
              ~ In rid (map rr_id rs).
Proof.
  intros Hlt. unfold PkgOps.get_or_add, PkgOps.get_matching.
  destruct (find (fun r => str_eqb (PkgOps.rr_type r) t && PkgOps.tgt_eqb (rr_tgt r) (TInt n)) rs) as [r|] eqn:E.
  - exfalso. apply find_some in E. destruct E as [Hin Hb]. apply andb_true_iff in Hb. destruct Hb as [_ Hb].
    destruct (rr_tgt r) as [q|u] eqn:Et; cbn in Hb; [|discriminate]. apply Nat.eqb_eq in Hb. subst q.
    assert (n < n); [|lia]. apply Hlt. apply int_targets_In. eauto.
  - unfold PkgOps.add_rel. destruct (Ids_proofs.rid_fresh (map rr_id rs)) as [rid [H1 [H2 _]]].
    rewrite H1. cbn. exists rid. auto.
Qed.

Lemma next_slide_partname_spec ps :
  exists name k, next_slide_partname ps = Ok name /\ name = Ids.slide_name k /\ ~ In name (reach_names ps).
Proof.
  unfold next_slide_partname.
  destruct (Ids_proofs.next_slide_partname_spec (length (p_ids ps)) (reach_names ps)) as [k [_ [E [Hf _]]]].
  exists (Ids.slide_name k), k. auto.
Qed.

Lemma next_slide_id_spec ids : NoDup ids ->
  match Ids.next_slide_id_Z ids with
  | Ok n => Ids.slide_id_valid n = true /\ ~ In n ids
  | Err e => e = StopIter
  end.
Proof.
  intros Hnd. pose proof (Ids_proofs.slide_id_Z_gen ids) as H.
  assert (Hv : NoDup (Ids_proofs.valid_used ids)) by (apply NoDup_filter; auto).
  specialize (H Hv). destruct (Ids.next_slide_id_Z ids) as [n|e].
  - destruct H as [H1 [H2 _]]. split; auto. apply Ids_proofs.slide_id_valid_iff; auto.
  - tauto.
Qed.

(** the state after a successful addition: one more part, one more relationship, one more p:sldId *)
Definition appended (ps : pres) (x : ppart) (rid : str) (n : Z) : pres :=
  with_ids (extend ps x rid PkgOps.rt_slide) (p_ids ps ++ [(n, rid)]).

Theorem padd_slide_cases c ps l : pres_wf ps ->
  match nth_error (d_layouts (p_deck ps)) l with
  | None => padd_slide c ps l = (ps, Err IndexErr)
  | Some L =>
      exists name k rid,
        name = Ids.slide_name k /\ ~ In name (reach_names ps) /\ ~ In rid (map rr_id (p_rels ps)) /\
        let x := mk_ppart name (Some (mk_slide l (fst (new_slide_tree c (l_shapes L))) None)) in
        match snd (new_slide_tree c (l_shapes L)) with
        | Err e => padd_slide c ps l = (extend ps x rid PkgOps.rt_slide, Err e)
        | Ok _ =>
            match Ids.next_slide_id_Z (map fst (p_ids ps)) with
            | Ok n => ~ In n (map fst (p_ids ps)) /\ Ids.slide_id_valid n = true /\
                      padd_slide c ps l = (appended ps x rid n, Ok tt)
            | Err e => e = StopIter /\ padd_slide c ps l = (extend ps x rid PkgOps.rt_slide, Err StopIter)
            end
        end
  end.
Proof.
  intros Hwf. pose proof Hwf as [_ [_ [H3 [H4 _]]]]. unfold padd_slide.
  destruct (nth_error (d_layouts (p_deck ps)) l) as [L|]; [|reflexivity].
  destruct (next_slide_partname_spec ps) as [name [k [Hn [Hk Hfresh]]]].
  destruct (get_or_add_fresh (p_rels ps) (length (p_parts ps)) PkgOps.rt_slide H3) as [rid [Hg Hr]].
  exists name, k, rid. split; [|split; [|split]]; auto.
  destruct (new_slide_tree c (l_shapes L)) as [t r0]. cbn [fst snd]. rewrite Hn, Hg.
  destruct r0 as [u|e]; [|reflexivity].
  pose proof (next_slide_id_spec _ H4) as Hid.
  destruct (Ids.next_slide_id_Z (map fst (p_ids ps))) as [n|e].
  - destruct Hid as [Hv Hnin]. rewrite Hv. destruct u. auto.
  - subst e. auto.
Qed.

Lemma related_part_new rs rid t n : ~ In rid (map rr_id rs) ->
  related_part rid (rs ++ [mkR rid t (TInt n) None]) = Ok n.
Proof.
  intros H. unfold PkgOps.related_part.
  pose proof (find_rel_app_new rs (mkR rid t (TInt n) None)) as F. cbn in F. rewrite (F H). reflexivity.
Qed.

Lemma lparts_appended ps x rid n l : lparts ps = map (@Ok nat) l -> ~ In rid (map rr_id (p_rels ps)) ->
  lparts (appended ps x rid n) = map (@Ok nat) (l ++ [length (p_parts ps)]).
Proof.
  intros Hl Hr. unfold appended, lparts. cbn [with_ids p_ids p_rels extend].
  rewrite (map_app _ (p_ids ps)). rewrite (map_app _ l). cbn [map snd]. rewrite related_part_new; auto. f_equal.
  pose proof (lparts_extend ps x rid PkgOps.rt_slide l Hl) as H. unfold lparts in H. cbn [extend p_ids p_rels] in H.
  rewrite H. exact Hl.
Qed.

Lemma appended_wf ps x rid n : pres_wf ps -> ~ In rid (map rr_id (p_rels ps)) -> ~ In n (map fst (p_ids ps)) ->
  pp_is_slide x = true -> pres_wf (appended ps x rid n).
Proof.
  intros Hwf Hr Hn Hx. pose proof (extend_wf ps x rid PkgOps.rt_slide Hwf Hr) as [E1 [E2 [E3 [E4 _]]]].
  pose proof Hwf as [_ [_ [H3 [_ [l [Hl [Hnd Hf]]]]]]].
  assert (Er : p_rels (appended ps x rid n) = p_rels (extend ps x rid PkgOps.rt_slide)) by reflexivity.
  assert (Ep : p_parts (appended ps x rid n) = p_parts (extend ps x rid PkgOps.rt_slide)) by reflexivity.
  assert (Ei : p_ids (appended ps x rid n) = p_ids ps ++ [(n, rid)]) by reflexivity.
  unfold pres_wf. rewrite Er, Ep, Ei.
  split; [|split; [|split; [|split]]]; auto.
  - rewrite map_app. cbn. apply NoDup_snoc; auto.
  - exists (l ++ [length (p_parts ps)]). split; [apply lparts_appended; auto|]. split.
    + apply NoDup_snoc; auto. intros Hin. rewrite Forall_forall in Hf. destruct (Hf _ Hin) as [y [sl [F1 _]]].
      assert (length (p_parts ps) < length (p_parts ps)); [apply nth_error_Some; congruence|lia].
    + apply Forall_app. split.
      * eapply Forall_impl; [|exact Hf]. intros p [y [sl [F1 F2]]]. exists y, sl. split; auto.
        unfold appended; cbn. rewrite nth_error_app1; auto. apply nth_error_Some; congruence.
      * constructor; [|constructor]. unfold pp_is_slide in Hx. destruct (pp_slide x) as [sl|] eqn:Es; [|discriminate].
        exists x, sl. split; auto. unfold appended; cbn. rewrite nth_error_app2, Nat.sub_diag; auto.
Qed.

Lemma slide_at_appended_old ps x rid n i : pres_wf ps -> i < length (p_ids ps) ->
  slide_at (appended ps x rid n) i = slide_at ps i.
Proof.
  intros Hwf Hi. rewrite <- (slide_at_extend ps x rid PkgOps.rt_slide i Hwf).
  unfold slide_at, part_at, appended. cbn [with_ids p_ids p_rels p_parts]. rewrite nth_error_app1; auto.
Qed.

Lemma slide_at_appended_new ps x rid n sl : ~ In rid (map rr_id (p_rels ps)) -> pp_slide x = Some sl ->
  slide_at (appended ps x rid n) (length (p_ids ps)) = Ok (length (p_parts ps), sl).
Proof.
  intros Hr Hx. unfold slide_at, part_at, slide_of, appended. cbn [with_ids p_ids p_rels p_parts extend].
  rewrite nth_error_app2, Nat.sub_diag; auto. cbn [nth_error snd]. rewrite related_part_new; auto. cbn [bind].
  rewrite nth_error_app2, Nat.sub_diag; auto. cbn. rewrite Hx. reflexivity.
Qed.

(* ------------------------------------------------------------------------------ *)
(** * the invariant over additions *)

Lemma slide_name_not_nm k : Ids.slide_name k <> PkgOps.n_notes_master.
Proof.
  unfold Ids.slide_name, Ids.tmpl_apply, Ids.s_slide_pre. cbn [app]. intros H.
  inversion H.
Qed.

Lemma extend_inv ps x rid t : pres_inv ps -> ~ In rid (map rr_id (p_rels ps)) ->
  ~ In (pp_name x) (reach_names ps) -> (pp_name x <> PkgOps.n_notes_master \/ has_nm ps = true) ->
  pres_inv (extend ps x rid t).
Proof.
  intros [Hwf [Hc Hn]] Hr Hx Hnm. split; [apply extend_wf; auto|]. split.
  - unfold clash_free. rewrite reach_names_extend; auto. apply NoDup_snoc; auto.
  - intros Hh. change (has_nm (extend ps x rid t)) with (has_nm ps) in Hh.
    rewrite reach_names_extend; auto. intros Hin. apply in_app_or in Hin.
    destruct Hnm as [Hnm|Hnm]; [|congruence].
    destruct Hin as [Hin|[Hin|[]]]; [|congruence]. revert Hin. apply Hn. exact Hh.
Qed.

Lemma appended_inv ps x rid n k : pres_inv ps -> ~ In rid (map rr_id (p_rels ps)) -> ~ In n (map fst (p_ids ps)) ->
  pp_is_slide x = true -> pp_name x = Ids.slide_name k -> ~ In (pp_name x) (reach_names ps) ->
  pres_inv (appended ps x rid n).
Proof.
  intros Hinv Hr Hn Hs Hk Hx. pose proof Hinv as [Hwf _].
  destruct (extend_inv ps x rid PkgOps.rt_slide Hinv Hr Hx) as [_ [E2 E3]].
  { left. rewrite Hk. apply slide_name_not_nm. }
  split; [apply appended_wf; auto|]. split; [exact E2|exact E3].
Qed.

(** add_slide, whatever its outcome, keeps the invariant *)
Lemma padd_slide_inv c ps l ps' r : pres_inv ps -> padd_slide c ps l = (ps', r) -> pres_inv ps'.
Proof.
  intros Hinv H. pose proof Hinv as [Hwf _]. pose proof (padd_slide_cases c ps l Hwf) as C.
  destruct (nth_error (d_layouts (p_deck ps)) l) as [L|]; [|rewrite C in H; inversion H; subst; auto].
  destruct C as [name [k [rid [Hk [Hfresh [Hr C]]]]]]. cbv zeta in C.
  assert (Hext : pres_inv (extend ps (mk_ppart name (Some (mk_slide l (fst (new_slide_tree c (l_shapes L))) None))) rid PkgOps.rt_slide)).
  { apply extend_inv; auto. left. cbn. rewrite Hk. apply slide_name_not_nm. }
  destruct (snd (new_slide_tree c (l_shapes L))).
  - destruct (Ids.next_slide_id_Z (map fst (p_ids ps))) as [n|e].
    + destruct C as [Hn [_ C]]. rewrite C in H. inversion H; subst.
      apply (appended_inv ps _ rid n k); auto.
    + destruct C as [_ C]. rewrite C in H. inversion H; subst. auto.
  - rewrite C in H. inversion H; subst. auto.
Qed.

(** the new slide is the last entry and designates a part that did not exist before; every earlier
    entry designates the same part with the same state; ids and rIds are fresh *)
Theorem padd_slide_ok c ps l ps' : pres_wf ps -> padd_slide c ps l = (ps', Ok tt) ->
  exists L t name rid n,
    nth_error (d_layouts (p_deck ps)) l = Some L /\ new_slide_tree c (l_shapes L) = (t, Ok tt) /\
    ~ In name (reach_names ps) /\ ~ In rid (map rr_id (p_rels ps)) /\ ~ In n (map fst (p_ids ps)) /\
    Ids.slide_id_valid n = true /\
    p_ids ps' = p_ids ps ++ [(n, rid)] /\
    p_parts ps' = p_parts ps ++ [mk_ppart name (Some (mk_slide l t None))] /\
    p_rels ps' = p_rels ps ++ [mkR rid PkgOps.rt_slide (TInt (length (p_parts ps))) None] /\
    p_deck ps' = p_deck ps /\ p_xrefs ps' = p_xrefs ps /\
    slide_at ps' (length (p_ids ps)) = Ok (length (p_parts ps), mk_slide l t None) /\
    (forall i, i < length (p_ids ps) -> slide_at ps' i = slide_at ps i) /\
    (forall i p sl, slide_at ps i = Ok (p, sl) -> p <> length (p_parts ps)).
Proof.
  intros Hwf H. pose proof (padd_slide_cases c ps l Hwf) as C.
  destruct (nth_error (d_layouts (p_deck ps)) l) as [L|]; [|rewrite C in H; discriminate].
  destruct C as [name [k [rid [Hk [Hfresh [Hr C]]]]]]. cbv zeta in C.
  destruct (new_slide_tree c (l_shapes L)) as [t r0] eqn:Et. cbn [fst snd] in C.
  destruct r0 as [u|e]; [|rewrite C in H; discriminate].
  destruct (Ids.next_slide_id_Z (map fst (p_ids ps))) as [n|e]; [|destruct C as [_ C]; rewrite C in H; discriminate].
  destruct C as [Hn [Hv C]]. rewrite C in H. inversion H; subst ps'. destruct u.
  exists L, t, name, rid, n. repeat (split; [solve [auto]|]). split; [|split].
  - apply slide_at_appended_new; auto.
  - intros i Hi. apply slide_at_appended_old; auto.
  - intros i p sl Hs Hp. apply slide_at_part in Hs. destruct Hs as [_ Hs]. unfold slide_of in Hs.
    destruct (nth_error (p_parts ps) p) eqn:E; [|discriminate].
    assert (p < length (p_parts ps)) by (apply nth_error_Some; congruence). lia.
Qed.

(** a failed addition leaves the slide list alone (a related, unlisted part may stay behind) *)
Theorem padd_slide_err c ps l ps' e : pres_wf ps -> padd_slide c ps l = (ps', Err e) ->
  p_ids ps' = p_ids ps /\ p_deck ps' = p_deck ps /\ forall i, slide_at ps' i = slide_at ps i.
Proof.
  intros Hwf H. pose proof (padd_slide_cases c ps l Hwf) as C.
  destruct (nth_error (d_layouts (p_deck ps)) l) as [L|]; [|rewrite C in H; inversion H; subst; auto].
  destruct C as [name [k [rid [Hk [Hfresh [Hr C]]]]]]. cbv zeta in C.
  assert (X : forall x, p_ids (extend ps x rid PkgOps.rt_slide) = p_ids ps /\ p_deck (extend ps x rid PkgOps.rt_slide) = p_deck ps /\
                        forall i, slide_at (extend ps x rid PkgOps.rt_slide) i = slide_at ps i).
  { intros x. split; [reflexivity|]. split; [reflexivity|]. intros i. apply slide_at_extend; auto. }
  destruct (snd (new_slide_tree c (l_shapes L))).
  - destruct (Ids.next_slide_id_Z (map fst (p_ids ps))) as [n|e'].
    + destruct C as [_ [_ C]]. rewrite C in H. discriminate.
    + destruct C as [_ C]. rewrite C in H. inversion H; subst. apply X.
  - rewrite C in H. inversion H; subst. apply X.
Qed.

(* ------------------------------------------------------------------------------ *)
(** * deleting a slide *)

Lemma NoDup_map_Ok {A} (l : list A) : NoDup l -> NoDup (map (@Ok A) l).
Proof.
  induction 1 as [|x l Hx Hl IH]; cbn; constructor; auto.
  intros Hin. apply in_map_iff in Hin. destruct Hin as [y [Hy Hin]]. inversion Hy; subst. auto.
Qed.

Lemma wf_rids_NoDup ps : pres_wf ps -> NoDup (map snd (p_ids ps)).
Proof.
  intros [_ [_ [_ [_ [l [Hl [Hnd _]]]]]]].
  apply (NoDup_map_inv (fun r => related_part r (p_rels ps))).
  rewrite map_map. unfold lparts in Hl. rewrite Hl. apply NoDup_map_Ok; auto.
Qed.

Lemma NoDup_map_int_targets_filter {B} (g : nat -> B) f rs :
  NoDup (map g (int_targets rs)) -> NoDup (map g (int_targets (filter f rs))).
Proof.
  induction rs as [|x rs IH]; cbn [filter]; auto. rewrite int_targets_cons. intros H.
  assert (Hs : NoDup (map g (int_targets rs))) by (destruct (rr_tgt x); [inversion H|]; auto).
  destruct (f x); auto. rewrite int_targets_cons. destruct (rr_tgt x); auto.
  cbn [map] in *. inversion H; subst. constructor; auto. intros Hin. apply H2.
  apply in_map_iff in Hin. destruct Hin as [q [Hq Hin]]. apply int_targets_filter_sub in Hin.
  apply in_map_iff. eauto.
Qed.

Lemma NoDup_keys_filter f rs : NoDup (map rr_id rs) -> NoDup (map rr_id (filter f rs)).
Proof.
  induction rs as [|x rs IH]; cbn; auto. intros H. inversion H; subst.
  destruct (f x); cbn; auto. constructor; auto. intros Hin. apply H2.
  apply in_map_iff in Hin. destruct Hin as [r [Hr Hin]]. apply filter_In in Hin. apply in_map_iff. exists r. tauto.
Qed.

(** the state after position [i] left the slide list, the relationships being [rs'] now *)
Definition delisted (ps : pres) (rs' : list PkgOps.relr) (i : nat) : pres :=
  with_ids (with_rels ps rs') (remove_nth i (p_ids ps)).

Section Removal.
  Variables (ps : pres) (rs' : list PkgOps.relr) (i : nat) (e : Z * str).
  Hypothesis Hwf : pres_wf ps.
  Hypothesis He : nth_error (p_ids ps) i = Some e.
  Hypothesis Hrel : forall r, r <> snd e -> related_part r rs' = related_part r (p_rels ps).
  Hypothesis Hkeys : NoDup (map rr_id rs').
  Hypothesis Hsub : forall q, In q (int_targets rs') -> In q (int_targets (p_rels ps)).
  Hypothesis Hnd : forall (g : nat -> str), NoDup (map g (int_targets (p_rels ps))) -> NoDup (map g (int_targets rs')).

  Lemma delisted_lparts l : lparts ps = map (@Ok nat) l -> lparts (delisted ps rs' i) = map (@Ok nat) (remove_nth i l).
  Proof.
    intros Hl. pose proof (wf_rids_NoDup ps Hwf) as Hr.
    destruct (remove_nth_split _ _ _ He) as [a [b [Eab [Hla Erm]]]].
    unfold lparts, delisted. cbn [with_ids with_rels p_ids p_rels]. rewrite Erm.
    assert (Hm : map (fun x => related_part (snd x) rs') (a ++ b) = map (fun x => related_part (snd x) (p_rels ps)) (a ++ b)).
    { apply map_ext_in. intros x Hx. apply Hrel. intros Heq.
      rewrite Eab, map_app in Hr. cbn [map] in Hr. apply NoDup_remove_2 in Hr. apply Hr.
      rewrite <- Heq, <- map_app. apply in_map; auto. }
    rewrite Hm. unfold lparts in Hl.
    rewrite (map_remove_nth (@Ok nat)), <- Hl, <- map_remove_nth, Erm. reflexivity.
  Qed.

  Lemma delisted_wf : pres_wf (delisted ps rs' i).
  Proof.
    pose proof Hwf as [H1 [H2 [H3 [H4 [l [Hl [Hndl Hf]]]]]]].
    unfold pres_wf. split; [exact Hkeys|]. split; [|split; [|split]].
    - specialize (Hnd (fun q => [N.of_nat q])). cbn [delisted with_ids with_rels p_rels].
      apply (NoDup_map_inv (fun q => [N.of_nat q])). apply Hnd.
      apply FinFun.Injective_map_NoDup; auto. intros a b Hab. inversion Hab. lia.
    - intros p Hp. apply H3. apply Hsub. exact Hp.
    - unfold delisted; cbn [with_ids p_ids]. rewrite map_remove_nth. apply NoDup_remove_nth. auto.
    - exists (remove_nth i l). split; [apply delisted_lparts; auto|]. split; [apply NoDup_remove_nth; auto|].
      rewrite Forall_forall in *. intros p Hp. apply In_remove_nth in Hp. apply Hf in Hp. exact Hp.
  Qed.

  Lemma delisted_inv : pres_inv ps -> pres_inv (delisted ps rs' i).
  Proof.
    intros [_ [Hc Hn]]. split; [apply delisted_wf|].
    assert (Ew : written (delisted ps rs' i) = int_targets rs') by (apply (written_wf _ delisted_wf)).
    assert (En : reach_names (delisted ps rs' i) = map (name_of ps) (int_targets rs')).
    { unfold reach_names. rewrite Ew. reflexivity. }
    split.
    - unfold clash_free. rewrite En. apply Hnd. unfold clash_free, reach_names in Hc.
      rewrite (written_wf _ Hwf) in Hc. exact Hc.
    - intros Hh Hin. rewrite En in Hin. apply (Hn Hh). unfold reach_names. rewrite (written_wf _ Hwf).
      apply in_map_iff in Hin. destruct Hin as [q [Hq Hin]]. apply in_map_iff. exists q. split; auto.
  Qed.

  (** the other entries designate the same parts, with the same states *)
  Lemma delisted_slide_at j : slide_at (delisted ps rs' i) j = slide_at ps (if j <? i then j else S j).
  Proof.
    pose proof Hwf as [_ [_ [_ [_ [l [Hl _]]]]]].
    assert (Hp : part_at (delisted ps rs' i) j = part_at ps (if j <? i then j else S j)).
    { pose proof (wf_rids_NoDup ps Hwf) as Hr.
      unfold part_at, delisted. cbn [with_ids with_rels p_ids p_rels].
      assert (Hn : nth_error (remove_nth i (p_ids ps)) j = nth_error (p_ids ps) (if j <? i then j else S j)).
      { destruct (Nat.ltb_spec j i); [apply nth_error_remove_nth_lt|apply nth_error_remove_nth_ge]; auto. }
      rewrite Hn. destruct (nth_error (p_ids ps) (if j <? i then j else S j)) as [x|] eqn:Ex; auto.
      apply Hrel. intros Heq.
      assert (Hij : (if j <? i then j else S j) = i).
      { eapply (NoDup_nth_error (map snd (p_ids ps))); eauto.
        - rewrite map_length. apply nth_error_Some. congruence.
        - rewrite !nth_error_map, Ex, He. cbn. congruence. }
      destruct (Nat.ltb_spec j i); lia. }
    unfold slide_at. rewrite Hp. reflexivity.
  Qed.
End Removal.

Lemma remove_nth_none {A} : forall (l : list A) i, nth_error l i = None -> remove_nth i l = l.
Proof. induction l as [|y l IH]; intros [|i] E; cbn in *; auto; try discriminate. rewrite IH; auto. Qed.

Lemma wf_ref_in_keys ps i e : pres_wf ps -> nth_error (p_ids ps) i = Some e -> In (snd e) (map rr_id (p_rels ps)).
Proof.
  intros Hwf He. assert (Hi : i < length (p_ids ps)) by (apply nth_error_Some; congruence).
  destruct (pres_wf_resolves ps i Hwf Hi) as [p [sl [Hs _]]]. apply slide_at_part in Hs. destruct Hs as [Hp _].
  unfold part_at in Hp. rewrite He in Hp. eapply related_part_in_keys; eauto.
Qed.

(** the outcome of the deletion recipe on a well-formed presentation *)
Theorem premove_cases ps i : pres_wf ps ->
  match nth_error (p_ids ps) i with
  | None => premove ps i = (ps, Err IndexErr)
  | Some e =>
      let rs' := if Nat.ltb (ref_count ps (snd e)) 2
                 then filter (fun r => negb (str_eqb (rr_id r) (snd e))) (p_rels ps) else p_rels ps in
      premove ps i = (delisted ps rs' i, Ok tt)
  end.
Proof.
  intros Hwf. unfold premove. destruct (nth_error (p_ids ps) i) as [e|] eqn:He; [|reflexivity]. cbv zeta.
  destruct (Nat.ltb (ref_count ps (snd e)) 2); [|reflexivity].
  unfold PkgOps.pop_rel. pose proof (wf_ref_in_keys ps i e Hwf He) as Hin. apply mem_str_In in Hin. rewrite Hin.
  reflexivity.
Qed.

Theorem punlist_cases ps i :
  match nth_error (p_ids ps) i with
  | None => punlist ps i = (ps, Err IndexErr)
  | Some e => punlist ps i = (delisted ps (p_rels ps) i, Ok tt)
  end.
Proof.
  unfold punlist, delisted. destruct (nth_error (p_ids ps) i); [|reflexivity]. destruct ps; reflexivity.
Qed.

Lemma removal_hyps ps (e : Z * str) (b : bool) :
  let rs' := if b then filter (fun r => negb (str_eqb (rr_id r) (snd e))) (p_rels ps) else p_rels ps in
  pres_wf ps ->
  (forall r, r <> snd e -> related_part r rs' = related_part r (p_rels ps)) /\
  NoDup (map rr_id rs') /\
  (forall q, In q (int_targets rs') -> In q (int_targets (p_rels ps))) /\
  (forall (g : nat -> str), NoDup (map g (int_targets (p_rels ps))) -> NoDup (map g (int_targets rs'))).
Proof.
  intros rs' [H1 _]. subst rs'. destruct b; [|tauto]. split; [|split; [|split]].
  - intros r Hr. unfold PkgOps.related_part. rewrite find_rel_filter; auto.
  - apply NoDup_keys_filter; auto.
  - intros q. apply int_targets_filter_sub.
  - intros g. apply NoDup_map_int_targets_filter.
Qed.

Lemma premove_inv ps i ps' r : pres_inv ps -> premove ps i = (ps', r) -> pres_inv ps'.
Proof.
  intros Hinv H. pose proof Hinv as [Hwf _]. pose proof (premove_cases ps i Hwf) as C.
  destruct (nth_error (p_ids ps) i) as [e|] eqn:He; rewrite C in H; inversion H; subst; auto.
  destruct (removal_hyps ps e (Nat.ltb (ref_count ps (snd e)) 2) Hwf) as [A [B [C' D]]].
  eapply delisted_inv; eauto.
Qed.

Lemma punlist_inv ps i ps' r : pres_inv ps -> punlist ps i = (ps', r) -> pres_inv ps'.
Proof.
  intros Hinv H. pose proof Hinv as [Hwf _]. pose proof (punlist_cases ps i) as C.
  destruct (nth_error (p_ids ps) i) as [e|] eqn:He; rewrite C in H; inversion H; subst; auto.
  destruct (removal_hyps ps e false Hwf) as [A [B [C' D]]].
  eapply delisted_inv; eauto.
Qed.

(* ------------------------------------------------------------------------------ *)
(** * edits: the operations of Placeholder.step on the part a position designates *)

Lemma step_nm_some c d o d' r : step c d o = (d', r) -> d_notes_master d <> None -> d_notes_master d' <> None.
Proof.
  intros H Hn.
  destruct o as [l|s|tg e|s x y cx cy|s l i]; cbn [step] in H.
  - unfold add_slide in H. destruct (nth_error (d_layouts d) l) as [L|].
    + destruct (new_slide_tree c (l_shapes L)) as [t [[]|e0]]; inversion H; subst; cbn; auto.
    + inversion H; subst; auto.
  - unfold notes_slide in H. destruct (nth_error (d_slides d) s) as [sl|]; [|inversion H; subst; auto].
    destruct (sl_notes sl); [inversion H; subst; auto|].
    destruct (new_notes_tree c (the_notes_master d)) as [t [[]|e0]]; inversion H; subst; cbn; discriminate.
  - destruct tg as [s i|s i|l i|m i|i].
    + destruct (nth_error (d_slides d) s) as [sl|]; [|inversion H; subst; auto].
      destruct (edit_tree _ (sl_shapes sl) i e) as [t r0]. inversion H; subst; cbn; auto.
    + destruct (nth_error (d_slides d) s) as [sl|]; [|inversion H; subst; auto].
      destruct (sl_notes sl) as [nt|]; [|inversion H; subst; auto].
      destruct (edit_tree _ nt i e) as [t r0]. inversion H; subst; cbn; auto.
    + destruct (nth_error (d_layouts d) l) as [L|]; [|inversion H; subst; auto].
      destruct (edit_tree _ (l_shapes L) i e) as [t r0]. inversion H; subst; cbn; auto.
    + destruct (nth_error (d_masters d) m) as [M|]; [|inversion H; subst; auto].
      destruct (edit_tree _ M i e) as [t r0]. inversion H; subst; cbn; auto.
    + destruct (edit_tree _ (the_notes_master d) i e) as [t r0]. inversion H; subst; cbn; discriminate.
  - destruct (nth_error (d_slides d) s) as [sl|]; inversion H; subst; cbn; auto.
  - destruct (nth_error (d_slides d) s) as [sl|]; [|inversion H; subst; auto].
    destruct (nth_error (d_layouts d) l) as [L|]; [|inversion H; subst; auto].
    destruct (nth_error (phs (l_shapes L)) i) as [p|]; [|inversion H; subst; auto].
    destruct (clone_placeholder c KSlide (sl_shapes sl) p) as [t|e0]; inversion H; subst; cbn; auto.
Qed.

Section Reshape.
  Variables (ps : pres) (d' : deck) (parts' : list ppart).
  Hypothesis Hwf : pres_wf ps.
  Hypothesis Hnames : map pp_name parts' = map pp_name (p_parts ps).
  Hypothesis Hkind : map pp_is_slide parts' = map pp_is_slide (p_parts ps).
  Let ps1 := with_parts (with_deck ps d') parts'.

  Lemma reshaped_len : length parts' = length (p_parts ps).
  Proof. rewrite <- (map_length pp_is_slide parts'), Hkind, map_length. reflexivity. Qed.

  Lemma reshaped_name q : name_of ps1 q = name_of ps q.
  Proof.
    unfold name_of. cbn [ps1 with_parts p_parts].
    pose proof (f_equal (fun l => nth_error l q) Hnames) as H. cbn in H. rewrite !nth_error_map in H.
    destruct (nth_error parts' q), (nth_error (p_parts ps) q); cbn in H; congruence.
  Qed.

  Lemma reshaped_is_slide q : is_slide_part ps q -> is_slide_part ps1 q.
  Proof.
    intros [x [sl [H1 H2]]].
    pose proof (f_equal (fun l => nth_error l q) Hkind) as H. cbn in H. rewrite !nth_error_map, H1 in H.
    unfold is_slide_part, ps1; cbn [with_parts p_parts].
    destruct (nth_error parts' q) as [y|]; cbn in H; [|discriminate]. inversion H as [Hy].
    unfold pp_is_slide in Hy. rewrite H2 in Hy. destruct (pp_slide y) as [sl'|] eqn:Ey; [|discriminate].
    exists y, sl'. split; auto.
  Qed.

  Lemma reshaped_wf : pres_wf ps1.
  Proof.
    pose proof Hwf as [H1 [H2 [H3 [H4 [l [Hl [Hnd Hf]]]]]]].
    split; [exact H1|]. split; [exact H2|]. split; [|split; [exact H4|]].
    - intros p Hp. cbn [ps1 with_parts p_parts]. rewrite reshaped_len. apply H3. exact Hp.
    - exists l. split; [exact Hl|]. split; [exact Hnd|]. eapply Forall_impl; [|exact Hf]. apply reshaped_is_slide.
  Qed.

  Lemma reshaped_names : reach_names ps1 = reach_names ps.
  Proof. unfold reach_names. apply map_ext. apply reshaped_name. Qed.

  Lemma reshaped_part_at i : part_at ps1 i = part_at ps i.
  Proof. reflexivity. Qed.
End Reshape.

Lemma sync_nm_cases had ps1 :
  (sync_nm had ps1 = ps1 /\ (had = true \/ has_nm ps1 = false)) \/
  (had = false /\ has_nm ps1 = true /\
   exists rid, ~ In rid (map rr_id (p_rels ps1)) /\
     sync_nm had ps1 = extend ps1 (mk_ppart PkgOps.n_notes_master None) rid PkgOps.rt_notes_master).
Proof.
  unfold sync_nm. destruct had; cbn [orb]; [left; auto|].
  destruct (has_nm ps1) eqn:E; cbn [negb]; [|left; auto]. right. split; auto. split; auto.
  unfold PkgOps.add_rel. destruct (Ids_proofs.rid_fresh (map rr_id (p_rels ps1))) as [rid [H1 [H2 _]]].
  rewrite H1. cbn. exists rid. split; auto; try (destruct ps1; reflexivity).
Qed.

Lemma sync_nm_wf had ps1 : pres_wf ps1 -> pres_wf (sync_nm had ps1).
Proof.
  intros H. destruct (sync_nm_cases had ps1) as [[-> _]|[_ [_ [rid [Hr ->]]]]]; auto. apply extend_wf; auto.
Qed.

Lemma sync_nm_slide_at had ps1 i : pres_wf ps1 -> slide_at (sync_nm had ps1) i = slide_at ps1 i.
Proof.
  intros H. destruct (sync_nm_cases had ps1) as [[-> _]|[_ [_ [rid [Hr ->]]]]]; auto. apply slide_at_extend; auto.
Qed.

Lemma sync_nm_ids had ps1 : p_ids (sync_nm had ps1) = p_ids ps1.
Proof. destruct (sync_nm_cases had ps1) as [[-> _]|[_ [_ [rid [Hr ->]]]]]; auto. Qed.

(** the invariant through a step of Placeholder.step applied to deck [d] (the one-slide or the
    slide-less deck of the presentation) with result [d'], parts reshaped *)
Lemma edited_inv c ps d o d' r parts' :
  pres_inv ps -> d_notes_master d = d_notes_master (p_deck ps) -> step c d o = (d', r) ->
  map pp_name parts' = map pp_name (p_parts ps) -> map pp_is_slide parts' = map pp_is_slide (p_parts ps) ->
  pres_inv (sync_nm (has_nm ps) (with_parts (with_deck ps d') parts')).
Proof.
  intros [Hwf [Hc Hn]] Hd Hs Hnames Hkind.
  pose proof (reshaped_wf ps d' parts' Hwf Hkind) as Hwf1.
  pose proof (reshaped_names ps d' parts' Hnames) as En.
  set (ps1 := with_parts (with_deck ps d') parts') in *.
  destruct (sync_nm_cases (has_nm ps) ps1) as [[-> Hcase]|[Hhad [Hnow [rid [Hr ->]]]]].
  - split; [exact Hwf1|]. split; [unfold clash_free; rewrite En; exact Hc|].
    intros Hh. rewrite En. destruct Hcase as [Hcase|_].
    + exfalso. assert (X : d_notes_master d' <> None).
      { eapply step_nm_some; eauto. rewrite Hd. unfold has_nm in Hcase. destruct (d_notes_master (p_deck ps)); congruence. }
      unfold has_nm in Hh. cbn in Hh. destruct (d_notes_master d'); congruence.
    + apply Hn. unfold has_nm in *. cbn in Hh.
      destruct (d_notes_master (p_deck ps)) eqn:E; auto. exfalso.
      assert (X : d_notes_master d' <> None) by (eapply step_nm_some; eauto; congruence).
      destruct (d_notes_master d'); congruence.
  - assert (I1 : pres_inv ps1).
    { split; [exact Hwf1|]. split; [unfold clash_free; rewrite En; exact Hc|]. intros Hh. congruence. }
    apply (extend_inv ps1 _ rid PkgOps.rt_notes_master I1 Hr).
    + cbn [pp_name]. rewrite En. apply Hn. exact Hhad.
    + right. exact Hnow.
Qed.

Lemma map_upd_nth_at {A B} (g : A -> B) (f : A -> A) : forall l n x,
  nth_error l n = Some x -> g (f x) = g x -> map g (upd_nth n f l) = map g l.
Proof.
  induction l as [|y l IH]; intros [|n] x H Hg; cbn in *; try discriminate; auto.
  - inversion H; subst. rewrite Hg. reflexivity.
  - f_equal. eapply IH; eauto.
Qed.

Lemma slide_of_parts ps p sl : slide_of ps p = Ok sl ->
  exists x, nth_error (p_parts ps) p = Some x /\ pp_slide x = Some sl.
Proof.
  unfold slide_of. destruct (nth_error (p_parts ps) p) as [x|]; [|discriminate].
  destruct (pp_slide x) as [s|] eqn:E; [|discriminate]. intros H; inversion H; subst. eauto.
Qed.

Lemma set_slide_shape ps p sl sl' : slide_of ps p = Ok sl ->
  map pp_name (set_slide p sl' (p_parts ps)) = map pp_name (p_parts ps) /\
  map pp_is_slide (set_slide p sl' (p_parts ps)) = map pp_is_slide (p_parts ps).
Proof.
  intros H. destruct (slide_of_parts _ _ _ H) as [x [H1 H2]]. unfold set_slide. split.
  - apply map_upd_nth_preserve. reflexivity.
  - eapply map_upd_nth_at; eauto. unfold pp_is_slide. cbn. rewrite H2. reflexivity.
Qed.

(** an operation aimed at position [s] acts on the part that position designates: that entry keeps
    designating the same part, whose state is the one Placeholder.step computes; every other entry
    designates the same part with the same state; the list of p:sldId is untouched *)
Theorem on_slide_spec c ps s o ps' r : pres_wf ps -> on_slide c ps s o = (ps', r) ->
  match slide_at ps s with
  | Err e => ps' = ps /\ r = Err e
  | Ok (p, sl) =>
      exists d', step c (deck_for ps [sl]) (retarget o) = (d', r) /\
        pres_wf ps' /\ p_ids ps' = p_ids ps /\
        slide_at ps' s = Ok (p, match d_slides d' with x :: _ => x | [] => sl end) /\
        (forall i, i <> s -> slide_at ps' i = slide_at ps i)
  end.
Proof.
  intros Hwf H. unfold on_slide in H. destruct (slide_at ps s) as [[p sl]|e] eqn:Es; [|inversion H; auto].
  destruct (step c (deck_for ps [sl]) (retarget o)) as [d' r'] eqn:Ed. inversion H; subst r'. clear H.
  exists d'. split; auto.
  set (sl' := match d_slides d' with x :: _ => x | [] => sl end) in *.
  destruct (slide_at_part _ _ _ _ Es) as [Hp Hs].
  destruct (set_slide_shape ps p sl sl' Hs) as [Hn Hk].
  pose proof (reshaped_wf ps d' _ Hwf Hk) as Hwf1.
  set (ps1 := with_parts (with_deck ps d') (set_slide p sl' (p_parts ps))) in *.
  subst ps'. split; [apply sync_nm_wf; auto|]. split; [rewrite sync_nm_ids; reflexivity|].
  destruct (slide_of_parts _ _ _ Hs) as [x [X1 X2]].
  split.
  - rewrite sync_nm_slide_at; auto. unfold slide_at.
    change (part_at ps1 s) with (part_at ps s). rewrite Hp. cbn [bind].
    unfold slide_of, ps1. cbn [with_parts p_parts]. unfold set_slide. rewrite nth_error_upd_nth_same, X1. reflexivity.
  - intros i Hi. rewrite sync_nm_slide_at; auto. unfold slide_at.
    change (part_at ps1 i) with (part_at ps i). destruct (part_at ps i) as [q|] eqn:Eq; cbn [bind]; auto.
    assert (Hq : q <> p).
    { intros ->. apply Hi. eapply wf_positions_distinct; eauto. }
    unfold slide_of, ps1. cbn [with_parts p_parts]. unfold set_slide. rewrite nth_error_upd_nth_other; auto.
Qed.

Theorem on_deck_spec c ps o ps' r : pres_wf ps -> on_deck c ps o = (ps', r) ->
  exists d', step c (deck_for ps []) o = (d', r) /\ pres_wf ps' /\ p_ids ps' = p_ids ps /\
             forall i, slide_at ps' i = slide_at ps i.
Proof.
  intros Hwf H. unfold on_deck in H. destruct (step c (deck_for ps []) o) as [d' r'] eqn:Ed.
  inversion H; subst. exists d'. split; auto.
  assert (E : with_deck ps d' = with_parts (with_deck ps d') (p_parts ps)) by reflexivity.
  pose proof (reshaped_wf ps d' (p_parts ps) Hwf eq_refl) as Hwf1. rewrite <- E in Hwf1.
  split; [apply sync_nm_wf; auto|]. split; [rewrite sync_nm_ids; reflexivity|].
  intros i. rewrite sync_nm_slide_at; auto.
Qed.

(** ** every operation of a session keeps the invariant *)
Theorem pstep_inv c ps o ps' r : pres_inv ps -> in_session o = true -> pstep c ps o = (ps', r) -> pres_inv ps'.
Proof.
  intros Hinv Hs H. destruct o as [o| i | i |]; try discriminate; cbn [pstep] in H.
  - assert (Hedit : forall s, on_slide c ps s o = (ps', r) -> pres_inv ps').
    { intros s H'. unfold on_slide in H'. destruct (slide_at ps s) as [[p sl]|e] eqn:Es; [|inversion H'; subst; auto].
      destruct (step c (deck_for ps [sl]) (retarget o)) as [d' r'] eqn:Ed. inversion H'; subst.
      destruct (slide_at_part _ _ _ _ Es) as [_ Hsl].
      destruct (set_slide_shape ps p sl (match d_slides d' with x :: _ => x | [] => sl end) Hsl) as [Hn Hk].
      exact (edited_inv c ps (deck_for ps [sl]) (retarget o) d' r _ Hinv eq_refl Ed Hn Hk). }
    assert (Hdeck : on_deck c ps o = (ps', r) -> pres_inv ps').
    { intros H'. unfold on_deck in H'. destruct (step c (deck_for ps []) o) as [d' r'] eqn:Ed. inversion H'; subst.
      change (with_deck ps d') with (with_parts (with_deck ps d') (p_parts ps)).
      exact (edited_inv c ps (deck_for ps []) o d' r _ Hinv eq_refl Ed eq_refl eq_refl). }
    destruct o as [l|s|tg e|s x y cx cy|s l i]; cbn [op_slide] in H.
    + eapply padd_slide_inv; eauto.
    + eapply Hedit; eauto.
    + destruct tg; cbn [op_slide] in H; eauto.
    + eapply Hedit; eauto.
    + eapply Hedit; eauto.
  - eapply premove_inv; eauto.
  - eapply punlist_inv; eauto.
Qed.

(** ... hence every history of additions, edits and deletions does *)
Theorem history_inv c : forall ops ps, pres_inv ps -> forallb in_session ops = true -> pres_inv (pfinal c ps ops).
Proof.
  unfold pfinal. induction ops as [|o ops IH]; intros ps Hinv Hs; cbn [prun]; auto.
  cbn [forallb] in Hs. apply andb_true_iff in Hs. destruct Hs as [Ho Hs].
  destruct (pstep c ps o) as [ps1 r] eqn:E1. specialize (IH ps1 (pstep_inv _ _ _ _ _ Hinv Ho E1) Hs).
  destruct (prun c ps1 ops) as [ps2 rs]. exact IH.
Qed.

(* ------------------------------------------------------------------------------ *)
(** * saving and re-opening *)

Lemma NoDup_map_inj_on {A B} (g : A -> B) l a b : NoDup (map g l) -> In a l -> In b l -> g a = g b -> a = b.
Proof.
  induction l as [|x l IH]; cbn; [tauto|]. intros H Ha Hb Hg. inversion H; subst.
  destruct Ha as [->|Ha], Hb as [->|Hb]; auto.
  - exfalso. apply H2. rewrite Hg. apply in_map; auto.
  - exfalso. apply H2. rewrite <- Hg. apply in_map; auto.
Qed.

Lemma NoDup_map_of_inj_on {A B} (g : A -> B) l :
  NoDup l -> (forall a b, In a l -> In b l -> g a = g b -> a = b) -> NoDup (map g l).
Proof.
  induction 1 as [|x l Hx Hl IH]; cbn; intros Hinj; constructor.
  - intros Hin. apply in_map_iff in Hin. destruct Hin as [y [Hy Hin]]. apply Hx.
    rewrite (Hinj x y); auto.
  - apply IH. intros a b Ha Hb. apply Hinj; auto.
Qed.

(** without a name clash every written part is found again under its own name *)
Lemma survivor_id ps p : clash_free ps -> In p (written ps) -> survivor ps p = p.
Proof.
  intros Hc Hp. unfold survivor.
  destruct (find (fun q => str_eqb (name_of ps q) (name_of ps p)) (rev (written ps))) as [q|] eqn:E.
  - apply find_some in E. destruct E as [Hq Hn]. apply str_eqb_eq in Hn. apply in_rev in Hq.
    eapply NoDup_map_inj_on; eauto.
  - reflexivity.
Qed.

Lemma reload_rel_same ps r : pres_wf ps -> clash_free ps -> In r (p_rels ps) ->
  rr_id (reload_rel ps r) = rr_id r /\ rr_tgt (reload_rel ps r) = rr_tgt r.
Proof.
  intros Hwf Hc Hin. unfold reload_rel. destruct (rr_tgt r) as [p|u] eqn:Et; [|rewrite Et; auto]. cbn. split; auto.
  rewrite survivor_id; auto. rewrite (written_wf _ Hwf). apply int_targets_In. eauto.
Qed.

Definition same_rel (a b : PkgOps.relr) : Prop := rr_id a = rr_id b /\ rr_tgt a = rr_tgt b.

Lemma same_rels_find rid : forall a b, Forall2 same_rel a b ->
  related_part rid a = related_part rid b.
Proof.
  unfold PkgOps.related_part. induction 1 as [|x y a b [H1 H2] HF IH]; cbn; auto.
  rewrite H1. destruct (str_eqb (rr_id y) rid); [rewrite H2; reflexivity|exact IH].
Qed.

Lemma same_rels_keys : forall a b, Forall2 same_rel a b -> map rr_id a = map rr_id b.
Proof. induction 1 as [|x y a b [H1 H2] HF IH]; cbn; congruence. Qed.

Lemma same_rels_targets : forall a b, Forall2 same_rel a b -> int_targets a = int_targets b.
Proof.
  induction 1 as [|x y a b [H1 H2] HF IH]; auto. rewrite !int_targets_cons, H2, IH. reflexivity.
Qed.

Lemma related_part_perm rid a b : Permutation a b -> NoDup (map rr_id a) -> related_part rid a = related_part rid b.
Proof.
  intros Hp Hnd. assert (Hndb : NoDup (map rr_id b)) by (eapply Permutation_NoDup; [apply Permutation_map; eauto|auto]).
  unfold PkgOps.related_part. destruct (find_rel rid a) as [r|] eqn:E.
  - destruct (find_rel_some _ _ _ E) as [Hin Hid]. subst rid.
    rewrite (find_rel_NoDup b r Hndb); auto. eapply Permutation_in; eauto.
  - apply find_rel_none in E. assert (E' : find_rel rid b = None).
    { apply find_rel_none. intros Hin. apply E. eapply Permutation_in; [apply Permutation_map, Permutation_sym; eauto|auto]. }
    rewrite E'. reflexivity.
Qed.

(** the relationships after re-opening: same keys, same targets, numeric order *)
Lemma reloaded_rels ps : pres_wf ps -> clash_free ps ->
  exists m, Forall2 same_rel m (p_rels ps) /\ Permutation (p_rels (reloaded ps)) m.
Proof.
  intros Hwf Hc. exists (map (reload_rel ps) (p_rels ps)). split.
  - assert (G : forall l, (forall r, In r l -> In r (p_rels ps)) -> Forall2 same_rel (map (reload_rel ps) l) l).
    { induction l as [|x l IH]; cbn; intros Hl; constructor.
      - apply reload_rel_same; auto.
      - apply IH. intros r Hr. apply Hl; right; auto. }
    apply G. auto.
  - unfold reloaded. cbn [with_rels p_rels]. apply Opc_proofs.sort_by_perm.
Qed.

Lemma reloaded_part rid ps : pres_wf ps -> clash_free ps ->
  related_part rid (p_rels (reloaded ps)) = related_part rid (p_rels ps).
Proof.
  intros Hwf Hc. destruct (reloaded_rels ps Hwf Hc) as [m [Hm Hp]]. pose proof Hwf as [H1 _].
  rewrite (related_part_perm rid _ m Hp).
  - apply same_rels_find; auto.
  - eapply Permutation_NoDup; [apply Permutation_map, Permutation_sym; exact Hp|].
    rewrite (same_rels_keys _ _ Hm). exact H1.
Qed.

Lemma reloaded_targets ps : pres_wf ps -> clash_free ps ->
  Permutation (int_targets (p_rels (reloaded ps))) (int_targets (p_rels ps)).
Proof.
  intros Hwf Hc. destruct (reloaded_rels ps Hwf Hc) as [m [Hm Hp]].
  rewrite <- (same_rels_targets _ _ Hm). unfold PkgOps.int_targets. apply Permutation_flat_map. exact Hp.
Qed.

Lemma reloaded_inv ps : pres_inv ps -> pres_inv (reloaded ps) /\ lparts (reloaded ps) = lparts ps.
Proof.
  intros [Hwf [Hc Hn]]. pose proof Hwf as [H1 [H2 [H3 [H4 [l [Hl [Hnd Hf]]]]]]].
  destruct (reloaded_rels ps Hwf Hc) as [m [Hm Hp]]. pose proof (reloaded_targets ps Hwf Hc) as Ht.
  assert (Hlp : lparts (reloaded ps) = lparts ps).
  { unfold lparts. cbn [reloaded with_rels p_ids]. apply map_ext. intros e. apply reloaded_part; auto. }
  assert (Hwf' : pres_wf (reloaded ps)).
  { split; [|split; [|split; [|split]]].
    - eapply Permutation_NoDup; [apply Permutation_map, Permutation_sym; exact Hp|].
      rewrite (same_rels_keys _ _ Hm). exact H1.
    - eapply Permutation_NoDup; [apply Permutation_sym; exact Ht|exact H2].
    - intros p Hp'. apply H3. eapply Permutation_in; eauto.
    - exact H4.
    - exists l. rewrite Hlp. auto. }
  split; [|exact Hlp]. split; [exact Hwf'|].
  assert (Hnames : Permutation (reach_names (reloaded ps)) (reach_names ps)).
  { unfold reach_names. rewrite (written_wf _ Hwf'), (written_wf _ Hwf).
    change (name_of (reloaded ps)) with (name_of ps). apply Permutation_map. exact Ht. }
  split.
  - eapply Permutation_NoDup; [apply Permutation_sym; exact Hnames|exact Hc].
  - intros Hh Hin. apply (Hn Hh). eapply Permutation_in; eauto.
Qed.

Lemma lookup_rel_idx rid : forall rs p, related_part rid rs = Ok p -> Ids.lookup_rel rid (rel_idx rs) = Some p.
Proof.
  unfold PkgOps.related_part. induction rs as [|x rs IH]; cbn; [discriminate|]. intros p.
  destruct (str_eqb (rr_id x) rid) eqn:E.
  - apply str_eqb_eq in E. destruct (rr_tgt x) as [q|u]; [|discriminate]. intros H; inversion H; subst.
    cbn. rewrite str_eqb_refl. reflexivity.
  - intros H. destruct (rr_tgt x) as [q|u]; cbn; auto.
    destruct (str_eqb rid (rr_id x)) eqn:E2; auto. apply str_eqb_eq in E2. subst. rewrite str_eqb_refl in E. discriminate.
Qed.

Lemma set_names_spec : forall parts names, length names = length parts ->
  map pp_name (set_names parts names) = names /\ map pp_slide (set_names parts names) = map pp_slide parts.
Proof.
  induction parts as [|x parts IH]; intros [|n names] H; cbn in *; try discriminate; auto.
  destruct (IH names) as [I1 I2]; [lia|]. rewrite I1, I2. auto.
Qed.

(** rename_slide_parts on a well-formed presentation: entry j of the slide list is named slide(j+1),
    every other part keeps its name, no state changes *)
Theorem prename_spec ps l : pres_wf ps -> lparts ps = map (@Ok nat) l ->
  exists ps', prename ps = Ok ps' /\
    p_deck ps' = p_deck ps /\ p_rels ps' = p_rels ps /\ p_ids ps' = p_ids ps /\ p_xrefs ps' = p_xrefs ps /\
    map pp_slide (p_parts ps') = map pp_slide (p_parts ps) /\
    (forall j p, nth_error l j = Some p -> name_of ps' p = Ids.slide_name (N.of_nat j + 1)%N) /\
    (forall q, ~ In q l -> name_of ps' q = name_of ps q).
Proof.
  intros Hwf Hl. pose proof Hwf as [_ [_ [H3 [_ [l' [Hl' [Hnd Hf]]]]]]].
  assert (l' = l) by (apply map_Ok_inj; congruence). subst l'.
  assert (Hres : Ids_proofs.resolves (rel_idx (p_rels ps)) (map snd (p_ids ps)) l).
  { unfold Ids_proofs.resolves. unfold lparts in Hl. clear - Hl. revert l Hl.
    induction (p_ids ps) as [|e ids IH]; intros [|p l] Hl; cbn in *; try discriminate; constructor.
    - inversion Hl. apply lookup_rel_idx; auto.
    - apply IH. inversion Hl; auto. }
  assert (Hrange : forall p, In p l -> p < length (map pp_name (p_parts ps))).
  { intros p Hp. rewrite map_length. rewrite Forall_forall in Hf. destruct (Hf p Hp) as [x [sl [X _]]].
    apply nth_error_Some. congruence. }
  destruct (Ids_proofs.rename_listed _ _ _ _ Hres Hnd Hrange) as [names' [E [Hlen [Hj [Hq _]]]]].
  unfold prename. rewrite E. cbn [bind]. eexists. split; [reflexivity|].
  rewrite map_length in Hlen. destruct (set_names_spec (p_parts ps) names' Hlen) as [S1 S2].
  cbn [with_parts p_deck p_rels p_ids p_xrefs p_parts]. repeat (split; [reflexivity|]). split; [exact S2|].
  assert (Hname : forall q, name_of (with_parts ps (set_names (p_parts ps) names')) q =
                            match nth_error names' q with Some n => n | None => [] end).
  { intros q. unfold name_of. cbn [with_parts p_parts]. rewrite <- S1 at 2. rewrite nth_error_map.
    destruct (nth_error (set_names (p_parts ps) names') q); reflexivity. }
  split.
  - intros j p Hjp. rewrite Hname, (Hj j p Hjp). reflexivity.
  - intros q Hnq. rewrite Hname, (Hq q Hnq). unfold name_of. rewrite nth_error_map.
    destruct (nth_error (p_parts ps) q); reflexivity.
Qed.

Lemma slide_of_same ps ps' q : map pp_slide (p_parts ps') = map pp_slide (p_parts ps) -> slide_of ps' q = slide_of ps q.
Proof.
  intros H. pose proof (f_equal (fun l => nth_error l q) H) as E. cbn in E. rewrite !nth_error_map in E.
  unfold slide_of. destruct (nth_error (p_parts ps') q), (nth_error (p_parts ps) q); cbn in E; try discriminate; auto.
  inversion E as [E']. rewrite E'. reflexivity.
Qed.

(** saving and re-opening a presentation that satisfies the invariant: it opens, the slide list is the
    same (same ids, every entry designates the same part with the same state), the presentation is
    well formed; and when no related part with a slide name is unlisted the invariant holds again *)
Theorem preopen_spec ps : pres_inv ps ->
  exists ps', preopen ps = (ps', Ok tt) /\ pres_wf ps' /\ p_ids ps' = p_ids ps /\ p_deck ps' = p_deck ps /\
    (forall i, slide_at ps' i = slide_at ps i) /\
    (orphan_free ps -> pres_inv ps' /\ orphan_free ps').
Proof.
  intros Hinv. destruct (reloaded_inv ps Hinv) as [[Hwf1 [Hc1 Hn1]] Hlp]. pose proof Hinv as [Hwf [Hc Hn]].
  pose proof Hwf1 as [_ [R2 [_ [_ [l [Hl [Hnd Hf]]]]]]].
  destruct (prename_spec (reloaded ps) l Hwf1 Hl) as [ps' [E [Ed [Er [Ei [Ex [Es [Hj Hq]]]]]]]].
  unfold preopen. rewrite E. exists ps'. split; [reflexivity|].
  assert (Hlen : length (p_parts ps') = length (p_parts ps)).
  { rewrite <- (map_length pp_slide (p_parts ps')), Es, map_length. reflexivity. }
  assert (Hlp' : lparts ps' = map (@Ok nat) l).
  { unfold lparts. rewrite Er, Ei. exact Hl. }
  assert (Hso : forall q, slide_of ps' q = slide_of ps q).
  { intros q. rewrite (slide_of_same (reloaded ps) ps' q Es). reflexivity. }
  assert (Hpa : forall i, part_at ps' i = part_at ps i).
  { intros i. unfold part_at. rewrite Er, Ei. cbn [reloaded with_rels p_ids].
    destruct (nth_error (p_ids ps) i); auto. apply reloaded_part; auto. }
  assert (Hwf' : pres_wf ps').
  { pose proof Hwf1 as [W1 [W2 [W3 [W4 _]]]]. unfold pres_wf. rewrite Er, Ei.
    split; [exact W1|]. split; [exact W2|]. split; [|split; [exact W4|]].
    - intros p Hp. rewrite Hlen. apply W3 in Hp. exact Hp.
    - exists l. split; [exact Hlp'|]. split; [exact Hnd|]. rewrite Forall_forall in *. intros p Hp.
      destruct (Hf p Hp) as [x [sl [X1 X2]]].
      assert (Hs : slide_of ps' p = Ok sl).
      { rewrite Hso. unfold slide_of. change (p_parts (reloaded ps)) with (p_parts ps) in X1. rewrite X1, X2. reflexivity. }
      destruct (slide_of_parts _ _ _ Hs) as [y [Y1 Y2]]. exists y, sl. auto. }
  split; [exact Hwf'|]. split; [exact Ei|]. split; [exact Ed|]. split.
  { intros i. unfold slide_at. rewrite Hpa. destruct (part_at ps i); cbn [bind]; auto. rewrite Hso. reflexivity. }
  intros Hof.
  assert (EW : written ps' = written (reloaded ps)) by (unfold written; rewrite Er; reflexivity).
  assert (HW : NoDup (written (reloaded ps))) by (rewrite (written_wf _ Hwf1); exact R2).
  assert (OF1 : forall q k, In q (written (reloaded ps)) -> name_of ps q = Ids.slide_name k -> In q l).
  { intros q k Hqw Hk. assert (Hq' : In q (written ps)).
    { rewrite (written_wf _ Hwf1) in Hqw. rewrite (written_wf _ Hwf). eapply Permutation_in; [apply reloaded_targets; auto|exact Hqw]. }
    specialize (Hof q k Hq' Hk). rewrite <- Hlp, Hl in Hof. apply in_map_iff in Hof.
    destruct Hof as [q' [Hq1 Hq2]]. inversion Hq1; subst; auto. }
  assert (Hidx : forall q, In q l -> exists j, nth_error l j = Some q /\ name_of ps' q = Ids.slide_name (N.of_nat j + 1)%N).
  { intros q Hq'. apply In_nth_error in Hq'. destruct Hq' as [j Hjq]. exists j. split; auto. }
  split; [split; [exact Hwf'|split]|].
  - unfold clash_free, reach_names. rewrite EW. apply NoDup_map_of_inj_on; [exact HW|].
    intros a b Ha Hb Hab.
    destruct (in_dec Nat.eq_dec a l) as [La|La], (in_dec Nat.eq_dec b l) as [Lb|Lb].
    + destruct (Hidx a La) as [j1 [J1 N1]]. destruct (Hidx b Lb) as [j2 [J2 N2]].
      rewrite N1, N2 in Hab. apply Ids_proofs.slide_name_inj in Hab. assert (j1 = j2) by lia. subst. congruence.
    + exfalso. destruct (Hidx a La) as [j1 [J1 N1]]. rewrite (Hq b Lb), N1 in Hab. apply Lb.
      apply (OF1 b (N.of_nat j1 + 1)%N Hb). symmetry. exact Hab.
    + exfalso. destruct (Hidx b Lb) as [j2 [J2 N2]]. rewrite (Hq a La), N2 in Hab. apply La.
      apply (OF1 a (N.of_nat j2 + 1)%N Ha). exact Hab.
    + rewrite (Hq a La), (Hq b Lb) in Hab. unfold clash_free, reach_names in Hc1.
      exact (NoDup_map_inj_on (name_of (reloaded ps)) _ a b Hc1 Ha Hb Hab).
  - intros Hh Hin. unfold reach_names in Hin. rewrite EW in Hin. apply in_map_iff in Hin.
    destruct Hin as [q [Hqn Hqw]]. destruct (in_dec Nat.eq_dec q l) as [Lq|Lq].
    + destruct (Hidx q Lq) as [j [_ Nq]]. rewrite Nq in Hqn. exact (slide_name_not_nm _ Hqn).
    + rewrite (Hq q Lq) in Hqn. apply (Hn1 ltac:(unfold has_nm in *; rewrite <- Ed; exact Hh)).
      unfold reach_names. apply in_map_iff. exists q. auto.
  - intros q k Hqw Hqn. rewrite EW in Hqw. rewrite Hlp'. apply in_map.
    destruct (in_dec Nat.eq_dec q l) as [Lq|Lq]; auto.
    rewrite (Hq q Lq) in Hqn. eapply OF1; eauto.
Qed.

(* ------------------------------------------------------------------------------ *)
(** * histories that span sessions *)

Lemma lparts_In ps l q : lparts ps = map (@Ok nat) l -> (In (Ok q) (lparts ps) <-> In q l).
Proof.
  intros ->. split; [|apply in_map]. intros H. apply in_map_iff in H. destruct H as [x [Hx Hin]].
  inversion Hx; subst; auto.
Qed.

Lemma extend_orphan_free ps x rid t : pres_wf ps -> ~ In rid (map rr_id (p_rels ps)) -> orphan_free ps ->
  (forall k, pp_name x <> Ids.slide_name k) -> orphan_free (extend ps x rid t).
Proof.
  intros Hwf Hr Hof Hx q k Hq Hk. pose proof Hwf as [_ [_ [H3 [_ [l [Hl _]]]]]].
  rewrite (written_wf _ (extend_wf _ x _ t Hwf Hr)), int_targets_extend in Hq.
  rewrite (lparts_extend _ _ _ _ _ Hl). apply in_app_or in Hq. destruct Hq as [Hq|[<-|[]]].
  - rewrite name_of_extend in Hk by (apply H3; auto). apply (Hof q k); auto. rewrite (written_wf _ Hwf). exact Hq.
  - rewrite name_of_extend_new in Hk. exfalso. exact (Hx k Hk).
Qed.

Lemma appended_orphan_free ps x rid n : pres_wf ps -> ~ In rid (map rr_id (p_rels ps)) -> orphan_free ps ->
  orphan_free (appended ps x rid n).
Proof.
  intros Hwf Hr Hof q k Hq Hk. pose proof Hwf as [_ [_ [H3 [_ [l [Hl _]]]]]].
  rewrite (lparts_appended ps x rid n l Hl Hr). apply in_map.
  change (written (appended ps x rid n)) with (written (extend ps x rid PkgOps.rt_slide)) in Hq.
  change (name_of (appended ps x rid n) q) with (name_of (extend ps x rid PkgOps.rt_slide) q) in Hk.
  rewrite (written_wf _ (extend_wf _ x _ _ Hwf Hr)), int_targets_extend in Hq.
  apply in_or_app. apply in_app_or in Hq. destruct Hq as [Hq|[<-|[]]]; [left|right; left; auto].
  rewrite name_of_extend in Hk by (apply H3; auto). apply (lparts_In ps l q Hl).
  apply (Hof q k); auto. rewrite (written_wf _ Hwf). exact Hq.
Qed.

Lemma padd_slide_good c ps l ps' : good ps -> padd_slide c ps l = (ps', Ok tt) -> good ps'.
Proof.
  intros [Hinv Hof] H. split; [eapply padd_slide_inv; eauto|]. pose proof Hinv as [Hwf _].
  pose proof (padd_slide_cases c ps l Hwf) as C.
  destruct (nth_error (d_layouts (p_deck ps)) l) as [L|]; [|rewrite C in H; discriminate].
  destruct C as [name [k [rid [Hk [Hfresh [Hr C]]]]]]. cbv zeta in C.
  destruct (snd (new_slide_tree c (l_shapes L))); [|rewrite C in H; discriminate].
  destruct (Ids.next_slide_id_Z (map fst (p_ids ps))) as [n|e]; [|destruct C as [_ C]; rewrite C in H; discriminate].
  destruct C as [_ [_ C]]. rewrite C in H. inversion H; subst. apply appended_orphan_free; auto.
Qed.

Lemma edited_orphan_free c ps d o d' r parts' :
  pres_wf ps -> orphan_free ps -> step c d o = (d', r) ->
  map pp_name parts' = map pp_name (p_parts ps) -> map pp_is_slide parts' = map pp_is_slide (p_parts ps) ->
  orphan_free (sync_nm (has_nm ps) (with_parts (with_deck ps d') parts')).
Proof.
  intros Hwf Hof Hs Hnames Hkind.
  pose proof (reshaped_wf ps d' parts' Hwf Hkind) as Hwf1.
  set (ps1 := with_parts (with_deck ps d') parts') in *.
  assert (Hof1 : orphan_free ps1).
  { intros q k Hq Hk. change (written ps1) with (written ps) in Hq. change (lparts ps1) with (lparts ps).
    unfold ps1 in Hk. rewrite (reshaped_name ps d' parts' Hnames) in Hk. eapply Hof; eauto. }
  destruct (sync_nm_cases (has_nm ps) ps1) as [[-> _]|[_ [_ [rid [Hr ->]]]]]; auto.
  apply extend_orphan_free; auto. cbn [pp_name]. intros k Hk. symmetry in Hk. exact (slide_name_not_nm k Hk).
Qed.

Lemma rel_ids_same_target rs : NoDup (int_targets rs) -> forall r r' p,
  In r rs -> In r' rs -> rr_tgt r = TInt p -> rr_tgt r' = TInt p -> rr_id r = rr_id r'.
Proof.
  induction rs as [|x rs IH]; cbn [In]; [tauto|]. rewrite int_targets_cons. intros Hnd r r' p Hr Hr' Ht Ht'.
  assert (Hs : NoDup (int_targets rs)) by (destruct (rr_tgt x); [inversion Hnd|]; auto).
  destruct Hr as [->|Hr], Hr' as [->|Hr']; auto.
  - exfalso. rewrite Ht in Hnd. inversion Hnd; subst. apply H1. apply int_targets_In. eauto.
  - exfalso. rewrite Ht' in Hnd. inversion Hnd; subst. apply H1. apply int_targets_In. eauto.
  - eapply IH; eauto.
Qed.

Lemma In_remove_nth_other {A} (l : list A) i x y : NoDup l -> nth_error l i = Some x -> In y l -> y <> x -> In y (remove_nth i l).
Proof.
  intros Hnd Hi Hy Hne. destruct (remove_nth_split l i x Hi) as [a [b [-> [_ ->]]]].
  apply in_or_app. apply in_app_or in Hy. destruct Hy as [Hy|[Hy|Hy]]; auto. congruence.
Qed.

Lemma premove_good ps i ps' r : good ps ->
  (forall e, nth_error (p_ids ps) i = Some e -> ~ In (snd e) (p_xrefs ps)) ->
  premove ps i = (ps', r) -> good ps'.
Proof.
  intros [Hinv Hof] Hx H. split; [eapply premove_inv; eauto|]. pose proof Hinv as [Hwf _].
  pose proof (premove_cases ps i Hwf) as C.
  destruct (nth_error (p_ids ps) i) as [e|] eqn:He; rewrite C in H; inversion H; subst; auto. clear C H.
  pose proof (wf_rids_NoDup ps Hwf) as Hrids. pose proof Hwf as [H1 [H2 [H3 [H4 [l [Hl [Hnd Hf]]]]]]].
  assert (Hcnt : Nat.ltb (ref_count ps (snd e)) 2 = true).
  { apply Nat.ltb_lt. unfold ref_count. rewrite filter_app, app_length.
    assert (X : filter (str_eqb (snd e)) (p_xrefs ps) = []).
    { specialize (Hx e eq_refl). induction (p_xrefs ps) as [|y ys IH]; cbn; auto.
      destruct (str_eqb (snd e) y) eqn:E; [apply str_eqb_eq in E; subst; exfalso; apply Hx; left; auto|].
      apply IH. intros Hin. apply Hx. right; auto. }
    rewrite X. cbn. rewrite Nat.add_0_r.
    assert (Y : forall rs, NoDup rs -> length (filter (str_eqb (snd e)) rs) <= 1).
    { induction rs as [|y ys IH]; cbn; intros Hn; [lia|]. inversion Hn; subst.
      destruct (str_eqb (snd e) y) eqn:E; [|specialize (IH H6); lia]. apply str_eqb_eq in E. subst y. cbn.
      assert (Z : filter (str_eqb (snd e)) ys = []).
      { clear - H5. induction ys as [|z zs IH]; cbn; auto. destruct (str_eqb (snd e) z) eqn:E.
        - apply str_eqb_eq in E. subst. exfalso. apply H5. left; auto.
        - apply IH. intros Hin. apply H5. right; auto. }
      rewrite Z. cbn. lia. }
    specialize (Y _ Hrids). lia. }
  rewrite Hcnt. set (rs' := filter (fun r0 => negb (str_eqb (rr_id r0) (snd e))) (p_rels ps)).
  destruct (removal_hyps ps e true Hwf) as [A [B [C' D]]]. fold rs' in A, B, C', D.
  pose proof (delisted_wf ps rs' i e Hwf He A B C' D) as Hwf'.
  intros q k Hq Hk. rewrite (written_wf _ Hwf') in Hq. cbn [delisted with_ids with_rels p_rels] in Hq.
  change (name_of (delisted ps rs' i) q) with (name_of ps q) in Hk.
  rewrite (delisted_lparts ps rs' i e Hwf He A l Hl). apply in_map.
  assert (Hql : In q l).
  { apply (lparts_In ps l q Hl). apply (Hof q k); auto. rewrite (written_wf _ Hwf). apply C'. exact Hq. }
  (* the part position i designated is no longer a target *)
  assert (Hi : i < length (p_ids ps)) by (apply nth_error_Some; congruence).
  destruct (nth_error l i) as [pi|] eqn:Epi; [|apply nth_error_None in Epi; rewrite (lparts_len _ _ Hl) in Epi; lia].
  eapply In_remove_nth_other; eauto. intros ->.
  pose proof (part_at_ok ps l i pi Hl Epi) as Hp. unfold part_at in Hp. rewrite He in Hp.
  destruct (related_part_ok _ _ _ Hp) as [r0 [R1 [R2 R3]]].
  apply int_targets_In in Hq. destruct Hq as [r1 [Q1 Q2]]. apply filter_In in Q1. destruct Q1 as [Q1 Q3].
  assert (Hid : rr_id r0 = rr_id r1) by (eapply rel_ids_same_target; eauto).
  rewrite <- Hid, R2, str_eqb_refl in Q3. discriminate.
Qed.

Lemma on_slide_good c ps s o ps' r : good ps -> on_slide c ps s o = (ps', r) -> orphan_free ps'.
Proof.
  intros [[Hwf _] Hof] H'. unfold on_slide in H'. destruct (slide_at ps s) as [[p sl]|e] eqn:Es; [|inversion H'; subst; auto].
  destruct (step c (deck_for ps [sl]) (retarget o)) as [d' r'] eqn:Ed. inversion H'; subst.
  destruct (slide_at_part _ _ _ _ Es) as [_ Hsl].
  destruct (set_slide_shape ps p sl (match d_slides d' with x :: _ => x | [] => sl end) Hsl) as [Hn Hk].
  exact (edited_orphan_free c ps _ _ d' r _ Hwf Hof Ed Hn Hk).
Qed.

Lemma on_deck_good c ps o ps' r : good ps -> on_deck c ps o = (ps', r) -> orphan_free ps'.
Proof.
  intros [[Hwf _] Hof] H'. unfold on_deck in H'. destruct (step c (deck_for ps []) o) as [d' r'] eqn:Ed. inversion H'; subst.
  change (with_deck ps d') with (with_parts (with_deck ps d') (p_parts ps)).
  exact (edited_orphan_free c ps _ _ d' r _ Hwf Hof Ed eq_refl eq_refl).
Qed.

(** a calm step keeps the invariant AND leaves no related slide part unlisted, saving included *)
Theorem pstep_good c ps o ps' r : good ps -> pstep c ps o = (ps', r) -> calm_opb ps o r = true -> good ps'.
Proof.
  intros Hg H Hc. pose proof Hg as [Hinv Hof]. destruct o as [o| i | i |]; cbn [pstep calm_opb] in *; try discriminate.
  - assert (Hi : pres_inv ps') by (eapply (pstep_inv c ps (Op o)); eauto).
    destruct o as [l|s|tg e|s x y cx cy|s l i]; cbn [op_slide] in H.
    + destruct r as [[]|]; [|discriminate]. eapply padd_slide_good; eauto.
    + split; auto. eapply on_slide_good; eauto.
    + split; auto. destruct tg; cbn [op_slide] in H; eauto using on_slide_good, on_deck_good.
    + split; auto. eapply on_slide_good; eauto.
    + split; auto. eapply on_slide_good; eauto.
  - eapply premove_good; eauto. intros e He. rewrite He in Hc. apply negb_true_iff in Hc.
    intros Hin. apply mem_str_In in Hin. congruence.
  - destruct (preopen_spec ps Hinv) as [ps2 [E [_ [_ [_ [_ G]]]]]]. rewrite E in H. inversion H; subst. apply G; auto.
Qed.

Theorem history_good c : forall ops ps, good ps -> calm_run c ps ops = true -> good (pfinal c ps ops).
Proof.
  unfold pfinal. induction ops as [|o ops IH]; intros ps Hg Hc; cbn [prun]; auto.
  cbn [calm_run] in Hc. destruct (pstep c ps o) as [ps1 r] eqn:E1. apply andb_true_iff in Hc. destruct Hc as [Ho Hc].
  specialize (IH ps1 (pstep_good _ _ _ _ _ Hg E1 Ho) Hc). destruct (prun c ps1 ops) as [ps2 rs]. exact IH.
Qed.

(* ------------------------------------------------------------------------------ *)
(** * the package level simulates Placeholder.add_slide *)

Lemma flat_map_ext_in {A B} (f g : A -> list B) l : (forall x, In x l -> f x = g x) -> flat_map f l = flat_map g l.
Proof.
  induction l as [|x l IH]; cbn; auto. intros H. rewrite (H x (or_introl eq_refl)), IH; auto.
Qed.

Lemma listed_ext ps ps' : length (p_ids ps') = length (p_ids ps) -> (forall i, slide_at ps' i = slide_at ps i) ->
  listed ps' = listed ps.
Proof. intros Hl H. unfold listed. rewrite Hl. apply flat_map_ext. intros i. rewrite H. reflexivity. Qed.

(** Slides.add_slide at package level is Placeholder.add_slide on the deck the presentation shows:
    every theorem about the new slide (mirror, names, ids, inherited geometry) carries over *)
Theorem padd_slide_view c ps l ps' : pres_wf ps -> padd_slide c ps l = (ps', Ok tt) ->
  add_slide c (view ps) l = (view ps', Ok tt) /\ exists s, listed ps' = listed ps ++ [s].
Proof.
  intros Hwf H. destruct (padd_slide_ok c ps l ps' Hwf H)
    as (L & t & name & rid & n & HL & Ht & _ & _ & _ & _ & Ei & _ & _ & Ed & _ & Hnew & Hold & _).
  assert (Hli : listed ps' = listed ps ++ [mk_slide l t None]).
  { unfold listed. rewrite Ei, app_length. cbn [length]. rewrite Nat.add_1_r, seq_S, flat_map_app. cbn [flat_map plus].
    rewrite Hnew, app_nil_r. f_equal. apply flat_map_ext_in. intros i Hi. apply in_seq in Hi.
    rewrite Hold by lia. reflexivity. }
  split; [|eauto].
  unfold add_slide, view, deck_for. cbn [d_layouts d_slides]. rewrite HL, Ht. cbn [set_slides d_masters d_layouts d_orphans d_notes_master d_slides].
  rewrite Hli, Ed. reflexivity.
Qed.

(* ------------------------------------------------------------------------------ *)
(** * witnesses *)

Lemma not_In_mem x l : mem_str x l = false -> ~ In x l.
Proof. intros H Hin. apply mem_str_In in Hin. congruence. Qed.

Lemma ex_pres_good : good ex_pres.
Proof.
  split; [split; [|split]|].
  - split; [|split; [|split; [|split]]].
    + apply Opc_proofs.nodupb_NoDup. vm_compute. reflexivity.
    + vm_compute. repeat constructor; cbn; lia.
    + vm_compute. intros p Hp. decompose [or] Hp; subst; try lia; try contradiction.
    + vm_compute. repeat constructor; cbn; lia.
    + exists [1; 2; 3]. split; [vm_compute; reflexivity|]. split; [repeat constructor; cbn; lia|].
      repeat constructor; eexists; eexists; split; reflexivity.
  - apply Opc_proofs.nodupb_NoDup. vm_compute. reflexivity.
  - intros _. apply not_In_mem. vm_compute. reflexivity.
  - intros q k Hq Hk. vm_compute in Hq. decompose [or] Hq; subst; try contradiction; try (vm_compute; tauto).
    exfalso. unfold Ids.slide_name, Ids.tmpl_apply, Ids.s_slide_pre in Hk. cbn in Hk. discriminate.
Qed.

(** delete the first slide, add, save, add, delete a middle one, edit, save: calm, so everything
    stays in place and the package can be saved again *)
Definition ex_hist : list pop :=
  [Remove 0; Op (AddSlide 0); SaveReopen; Op (AddSlide 0); Remove 1;
   Op (Edit (TSlide 1 0) (ESet ATop 9%Z)); Op (NotesSlide 2); SaveReopen].

Lemma ex_hist_calm : calm_run gen_cfg ex_pres ex_hist = true.
Proof. vm_compute. reflexivity. Qed.

Lemma ex_hist_final :
  let ps := pfinal gen_cfg ex_pres ex_hist in
  map fst (p_ids ps) = [257; 259; 260]%Z /\ lparts ps = [Ok 2; Ok 4; Ok 5] /\
  map (name_of ps) [2; 4; 5] = [Ids.slide_name 1; Ids.slide_name 2; Ids.slide_name 3] /\
  clash_freeb ps = true.
Proof. vm_compute. repeat split; reflexivity. Qed.

(** a history inside one session may also remove the p:sldId alone; the invariant survives and the
    new slide takes a name no reachable part carries (slide 4, not the conventional slide 3) *)
Lemma ex_session :
  let ps := pfinal gen_cfg ex_pres [Unlist 0; Op (AddSlide 0); Remove 0; Op (AddSlide 0)] in
  lparts ps = [Ok 3; Ok 4; Ok 5] /\
  map (name_of ps) [1; 3; 4; 5] = [Ids.slide_name 1; Ids.slide_name 3; Ids.slide_name 4; Ids.slide_name 2] /\
  clash_freeb ps = true.
Proof. vm_compute. repeat split; reflexivity. Qed.

(** the root cause recorded as unlisted-slide-partname-collision: once a related slide part is
    unlisted, the renaming on the first access of prs.slides after re-opening can give a listed part
    the name of the unlisted one, and the save after that loses a listed slide.  Here the slide added in
    the first session is replaced by the unlisted one. *)
Definition collide_hist : list pop := [Unlist 1; Remove 0; Op (AddSlide 0); SaveReopen].

Lemma unlisted_collision_witness :
  good ex_pres /\ forallb in_session (removelast collide_hist) = true /\
  calm_run gen_cfg ex_pres collide_hist = false /\
  let ps := pfinal gen_cfg ex_pres collide_hist in
  clash_freeb ps = false /\
  exists p sl p' sl', slide_at ps 1 = Ok (p, sl) /\ sl_shapes sl <> [] /\
    slide_at (fst (preopen ps)) 1 = Ok (p', sl') /\ sl_shapes sl' = [].
Proof.
  split; [exact ex_pres_good|]. split; [reflexivity|]. split; [vm_compute; reflexivity|].
  cbv zeta. split; [vm_compute; reflexivity|].
  do 4 eexists. split; [vm_compute; reflexivity|]. split; [discriminate|]. split; vm_compute; reflexivity.
Qed.

(* ------------------------------------------------------------------------------ *)
(** * closed forms of the statements used in props/C13.v *)

(** deleting slide [i] (either recipe): the presentation stays well formed, the p:sldId list loses entry
    [i], and every other entry designates the same part with the same state *)
Theorem premove_frame ps i ps' : pres_wf ps -> premove ps i = (ps', Ok tt) ->
  pres_wf ps' /\ p_ids ps' = remove_nth i (p_ids ps) /\ p_parts ps' = p_parts ps /\ p_deck ps' = p_deck ps /\
  forall j, slide_at ps' j = slide_at ps (if j <? i then j else S j).
Proof.
  intros Hwf H. pose proof (premove_cases ps i Hwf) as C.
  destruct (nth_error (p_ids ps) i) as [e|] eqn:He; rewrite C in H; [|discriminate]. inversion H; subst. clear C H.
  destruct (removal_hyps ps e (Nat.ltb (ref_count ps (snd e)) 2) Hwf) as [A [B [C' D]]].
  split; [eapply delisted_wf; eauto|]. repeat (split; [reflexivity|]).
  intros j. eapply delisted_slide_at; eauto.
Qed.

Theorem punlist_frame ps i ps' : pres_wf ps -> punlist ps i = (ps', Ok tt) ->
  pres_wf ps' /\ p_ids ps' = remove_nth i (p_ids ps) /\ p_parts ps' = p_parts ps /\ p_rels ps' = p_rels ps /\
  p_deck ps' = p_deck ps /\ forall j, slide_at ps' j = slide_at ps (if j <? i then j else S j).
Proof.
  intros Hwf H. pose proof (punlist_cases ps i) as C.
  destruct (nth_error (p_ids ps) i) as [e|] eqn:He; rewrite C in H; [|discriminate]. inversion H; subst. clear C H.
  destruct (removal_hyps ps e false Hwf) as [A [B [C' D]]].
  split; [eapply delisted_wf; eauto|]. repeat (split; [reflexivity|]).
  intros j. eapply delisted_slide_at; eauto.
Qed.

(** a deletion that fails changes nothing *)
Theorem removal_err ps i e : pres_wf ps ->
  (premove ps i = (ps, Err IndexErr) \/ exists ps', premove ps i = (ps', Ok tt)) /\
  (punlist ps i = (ps, Err IndexErr) \/ exists ps', punlist ps i = (ps', Ok tt)) /\
  (nth_error (p_ids ps) i = Some e -> exists ps', premove ps i = (ps', Ok tt)).
Proof.
  intros Hwf. pose proof (premove_cases ps i Hwf) as C. pose proof (punlist_cases ps i) as C2.
  destruct (nth_error (p_ids ps) i) as [x|]; [|split; [|split]; auto; discriminate].
  split; [right; eauto|]. split; [right; eauto|]. eauto.
Qed.

(** after ANY history of one session no part is listed twice and slide ids are distinct *)
Theorem history_distinct c ops ps : pres_inv ps -> forallb in_session ops = true ->
  let ps' := pfinal c ps ops in
  NoDup (map fst (p_ids ps')) /\ NoDup (map snd (p_ids ps')) /\
  (forall i j p, part_at ps' i = Ok p -> part_at ps' j = Ok p -> i = j) /\
  (forall i, i < length (p_ids ps') -> exists p sl, slide_at ps' i = Ok (p, sl)).
Proof.
  intros Hinv Hs. cbv zeta. pose proof (history_inv c ops ps Hinv Hs) as [Hwf _].
  split; [apply Hwf|]. split; [apply wf_rids_NoDup; auto|]. split.
  - intros i j p. apply wf_positions_distinct; auto.
  - intros i Hi. destruct (pres_wf_resolves _ i Hwf Hi) as [p [sl [H _]]]. eauto.
Qed.

(** ... and the presentation can be saved: no two reachable parts share a name, it re-opens, and the
    slide list of the re-opened presentation is the one that was saved *)
Theorem history_save c ops ps : pres_inv ps -> forallb in_session ops = true ->
  let ps1 := pfinal c ps ops in
  clash_free ps1 /\
  exists ps2, preopen ps1 = (ps2, Ok tt) /\ pres_wf ps2 /\ p_ids ps2 = p_ids ps1 /\ p_deck ps2 = p_deck ps1 /\
              forall i, slide_at ps2 i = slide_at ps1 i.
Proof.
  intros Hinv Hs. cbv zeta. pose proof (history_inv c ops ps Hinv Hs) as Hinv1. split; [apply Hinv1|].
  destruct (preopen_spec _ Hinv1) as [ps2 [E [W [I [D [S _]]]]]]. exists ps2. auto.
Qed.

Lemma clash_freeb_sound ps : clash_freeb ps = true -> clash_free ps.
Proof. apply Opc_proofs.nodupb_NoDup. Qed.
