"""Entry point: python -m corr.main Cxx [--tier quick|thorough] [--replay file]"""
import argparse
import importlib
import json
import os
import random
import sys
import traceback

from corr.harness import Check


def main():
    ap = argparse.ArgumentParser()
    ap.add_argument("pid")
    ap.add_argument("--tier", default=os.environ.get("VERIF_TIER") or "quick", choices=["quick", "thorough"])
    ap.add_argument("--replay")
    a = ap.parse_args()
    seed = int(os.environ.get("VERIF_SEED") or 20260929)
    mod = importlib.import_module("checks." + a.pid.lower())
    if a.replay:
        rec = json.load(open(a.replay))
        sys.exit(mod.replay(rec))
    ck = Check(a.pid, a.tier, seed)
    rng = random.Random(seed)
    try:
        rc = mod.run(ck, a.tier, rng)
    except Exception:
        # a crashing check must not look like a pass
        traceback.print_exc()
        ck.violation("harness-crash", "check crashed: see traceback above", {"traceback": traceback.format_exc()}, concrete=False)
        rc = ck.finish("check crashed before completing", [], [])
    sys.exit(rc)


if __name__ == "__main__":
    main()
