(** Semantics of src/pptx/oxml/xmlchemy.py on the list of child tags of an element.
    Faithful to the code: first_child_found_in scans the TAG TUPLE in order and
    returns the first child carrying the first tag of the tuple that is present;
    insert_element_before puts the new child immediately before that child, or
    appends.  Definitions only. *)
From V.lib Require Import Prelude.
From V.model Require Import Schema.

Fixpoint first_found (S l : list tag) : option tag :=
  match S with
  | [] => None
  | s :: S' => if memt s l then Some s else first_found S' l
  end.

(** insert x before the first child whose tag is s *)
Fixpoint ins_at (s x : tag) (l : list tag) : list tag :=
  match l with
  | [] => [x]
  | c :: l' => if N.eqb c s then x :: c :: l' else c :: ins_at s x l'
  end.

Definition insert_before (x : tag) (S l : list tag) : list tag :=
  match first_found S l with
  | Some s => ins_at s x l
  | None => l ++ [x]
  end.

(** _add_x = _new_x + _insert_x *)
Definition add_child := insert_before.

(** get_or_add_x (ZeroOrOne): add only when no child of that tag exists *)
Definition get_or_add (x : tag) (S l : list tag) : list tag :=
  if memt x l then l else insert_before x S l.

(** remove_all(tagnames) *)
Definition remove_all (ts l : list tag) : list tag :=
  filter (fun c => negb (memt c ts)) l.

(** Choice.get_or_change_to_x: members = tags of the choice group *)
Definition get_or_change_to (x : tag) (members S l : list tag) : list tag :=
  if memt x l then l else insert_before x S (remove_all members l).

(** ---- the declaration check (decision procedure with witnesses) ----
    f : flattened content model of the parent type, t : declared child,
    S : its successors tuple.
    D1 every successor known to f is ranked no earlier than t
    D2 every tag of f ranked strictly later than t is listed in S
    D3 for successors S_i before S_j in the tuple, distinct, both known, S_j ranked
       strictly later than t: S_i ranked strictly earlier than S_j, or same rank in a
       group that does not allow several members
    D4 S never contains the tag itself unless its group admits several children
       (otherwise a second insertion goes before the first; harmless) -- not needed. *)
Definition all_tags (f : flat) : list tag := flat_map fst f.

(** successors unknown to the content model can never be found among schema-valid
    children; the checks look at the known ones only (in tuple order) *)
Definition known_succ (f : flat) (S : list tag) : list tag := filter (known f) S.

Definition d1_bad (f : flat) (t : tag) (Sk : list tag) : list tag :=
  filter (fun s => Nat.ltb (rank f s) (rank f t)) Sk.
Definition d2_bad (f : flat) (t : tag) (Sk : list tag) : list tag :=
  filter (fun u => Nat.ltb (rank f t) (rank f u) && negb (memt u Sk)) (all_tags f).
Fixpoint d3_bad (f : flat) (t : tag) (Sk : list tag) : list (tag * tag) :=
  match Sk with
  | [] => []
  | si :: S' =>
      map (fun sj => (si, sj))
        (filter (fun sj => negb (N.eqb si sj)
                           && Nat.ltb (rank f t) (rank f sj)
                           && negb (Nat.ltb (rank f si) (rank f sj)
                                    || (Nat.eqb (rank f si) (rank f sj) && negb (multi f (rank f si))))) S')
      ++ d3_bad f t S'
  end.

Definition decl_ok (f : flat) (t : tag) (S : list tag) : bool :=
  known f t && disjoint_groups f &&
  match d1_bad f t (known_succ f S), d2_bad f t (known_succ f S), d3_bad f t (known_succ f S) with
  | [], [], [] => true
  | _, _, _ => false
  end.

(** One obligation of the C10 instance: a declared child of a registered element class
    judged against the content model of one XSD type the class's tags can have.
    ck_first: hand-written inserter that puts the child at index 0. *)
Record check := { ck_id : N; ck_cm : cm; ck_child : tag; ck_succ : list tag; ck_first : bool }.
Definition ck_apply (ck : check) (l : list tag) : list tag :=
  if ck_first ck then ck_child ck :: l else insert_before (ck_child ck) (ck_succ ck) l.
