(** Proofs about model/Image.v (C15).  The statements of the main lemmas (those listed
    in props/C15.v) are fixed; everything else is auxiliary. *)
From Coq Require Import QArith Qround Qabs Lia Lqa Permutation.
From V.lib Require Import Prelude.
From V.model Require Import PackUri Image.
From V.proofs Require Import Prelude_proofs PackUri_proofs.
Local Open Scope Z_scope.

(* ================================================================== decimal text *)

Definition dstep (acc c : N) : N := (acc * 10 + (c - 48))%N.

Lemma dec_value_fold s : dec_value s = fold_left dstep s 0%N.
Proof. reflexivity. Qed.

Lemma dec_digits_spec : forall f n acc, (n < 2 ^ N.of_nat f)%N ->
  exists pre, dec_digits_fuel (S f) n acc = pre ++ acc /\ pre <> [] /\
    forallb is_digit pre = true /\
    forall a, fold_left dstep pre a = (a * 10 ^ N.of_nat (length pre) + n)%N.
Proof.
  induction f as [|f IH]; intros n acc Hn.
  - assert (n = 0%N) by (simpl in Hn; lia). subst n.
    exists [48%N]. split; [reflexivity|]. split; [discriminate|]. split; [reflexivity|].
    intros a. simpl. unfold dstep. lia.
  - cbn [dec_digits_fuel]. destruct (n <? 10)%N eqn:E.
    + apply N.ltb_lt in E. exists [(48 + n mod 10)%N].
      rewrite N.mod_small by lia. split; [reflexivity|]. split; [discriminate|]. split.
      * cbn [forallb]. unfold is_digit. rewrite andb_true_r. apply andb_true_iff; split; apply N.leb_le; lia.
      * intros a. cbn [fold_left length]. unfold dstep. change (N.of_nat 1) with 1%N. lia.
    + apply N.ltb_ge in E.
      assert (Hq : (n / 10 < 2 ^ N.of_nat f)%N).
      { apply N.div_lt_upper_bound; [lia|].
        replace (N.of_nat (S f)) with (N.succ (N.of_nat f)) in Hn by lia.
        rewrite N.pow_succ_r' in Hn. lia. }
      destruct (IH (n / 10)%N ((48 + n mod 10)%N :: acc) Hq) as [pre [E1 [E2 [E3 E4]]]].
      exists (pre ++ [(48 + n mod 10)%N]). rewrite <- app_assoc. cbn [app]. split; [exact E1|].
      split; [destruct pre; discriminate|]. split.
      * rewrite forallb_app, E3. cbn [forallb andb]. unfold is_digit. rewrite andb_true_r.
        assert (n mod 10 < 10)%N by (apply N.mod_lt; lia).
        Show. apply andb_true_iff; split; apply N.leb_le; lia.
      * intros a. rewrite fold_left_app, E4. cbn [fold_left]. unfold dstep.
        rewrite app_length. cbn [length].
        replace (N.of_nat (length pre + 1)) with (N.succ (N.of_nat (length pre))) by lia.
        rewrite N.pow_succ_r'.
        pose proof (N.div_mod n 10). lia.
Qed.

Lemma dec_of_N_spec n :
  dec_of_N n <> [] /\ forallb is_digit (dec_of_N n) = true /\ dec_value (dec_of_N n) = n.
Proof.
  unfold dec_of_N.
  assert (Hn : (n < 2 ^ N.of_nat (N.to_nat (N.size n)))%N).
  { rewrite N2Nat.id. destruct n as [|p]; [simpl; lia|].
    apply N.size_gt. }
  destruct (dec_digits_spec _ n [] Hn) as [pre [E1 [E2 [E3 E4]]]].
  rewrite E1, app_nil_r. split; [exact E2|]. split; [exact E3|].
  rewrite dec_value_fold, E4. lia.
Qed.

(* ================================================================== sorting, first free index *)

Lemma insertN_In x y l : In y (insertN x l) <-> y = x \/ In y l.
Proof.
  induction l as [|z l IH]; simpl.
  - split; intros [H|H]; auto; try contradiction.
  - destruct (x <=? z)%N; simpl.
    + split; intros H; intuition.
    + rewrite IH. split; intros H; intuition.
Qed.

Lemma sortN_In y l : In y (sortN l) <-> In y l.
Proof.
  induction l as [|x l IH]; simpl; [tauto|].
  rewrite insertN_In, IH. split; intros [H|H]; auto.
Qed.

Inductive sortedN : list N -> Prop :=
  | sortedN_nil : sortedN []
  | sortedN_cons x l : (forall y, In y l -> (x <= y)%N) -> sortedN l -> sortedN (x :: l).

Lemma insertN_sorted x l : sortedN l -> sortedN (insertN x l).
Proof.
  induction 1 as [|z l Hz Hs IH]; simpl.
  - constructor; [intros y []|constructor].
  - destruct (x <=? z)%N eqn:E.
    + apply N.leb_le in E. constructor.
      * intros y [->|Hy]; auto. specialize (Hz y Hy). lia.
      * constructor; auto.
    + apply N.leb_gt in E. constructor; auto.
      intros y Hy. apply insertN_In in Hy as [->|Hy]; [lia|auto].
Qed.

Lemma sortN_sorted l : sortedN (sortN l).
Proof. induction l; simpl; [constructor|apply insertN_sorted; auto]. Qed.

Lemma first_below_ge l : forall i, (i <= first_below i l)%N.
Proof.
  induction l as [|x l IH]; intros i; simpl; [lia|].
  destruct (i <? x)%N; [lia|]. specialize (IH (i + 1)%N). lia.
Qed.

Lemma first_below_fresh l : sortedN l -> forall i, ~ In (first_below i l) l.
Proof.
  induction 1 as [|x l Hx Hs IH]; intros i; simpl; [tauto|].
  destruct (i <? x)%N eqn:E.
  - apply N.ltb_lt in E. intros [->|Hin]; [lia|]. specialize (Hx _ Hin). lia.
  - apply N.ltb_ge in E. intros [Heq|Hin].
    + pose proof (first_below_ge l (i + 1)%N). lia.
    + exact (IH _ Hin).
Qed.

Lemma opt_somes_In {A} (a : A) l : In a (opt_somes l) <-> In (Some a) l.
Proof.
  induction l as [|[b|] l IH]; simpl; [tauto| |].
  - rewrite IH. split; intros [H|H]; auto; left; congruence.
  - rewrite IH. split; [auto|]. intros [H|H]; [discriminate|auto].
Qed.

Lemma next_image_idx_fresh names :
  ~ In (Some (next_image_idx names)) (map image_idx_of names).
Proof.
  unfold next_image_idx. intros Hin. apply opt_somes_In in Hin.
  apply sortN_In in Hin. revert Hin. apply first_below_fresh. apply sortN_sorted.
Qed.

(* ================================================================== the new part name *)

Definition ext_ok (e : str) : bool := no_dot e && forallb not_slash e.

Lemma starts_with_app p s : starts_with p (p ++ s) = true.
Proof. induction p as [|x p IH]; simpl; auto. rewrite N.eqb_refl. exact IH. Qed.

Definition s_ppt : str := [112; 112; 116]%N.
Definition s_media : str := [109; 101; 100; 105; 97]%N.
Definition s_image : str := [105; 109; 97; 103; 101]%N.

Lemma image_partname_render n e :
  image_partname n e = render ([s_ppt; s_media] ++ [s_image ++ dec_of_N n ++ [] ++ c_dot :: e]).
Proof. reflexivity. Qed.

Lemma image_idx_of_partname n e : ext_ok e = true -> image_idx_of (image_partname n e) = Some n.
Proof.
  intros He. apply andb_true_iff in He as [He1 He2].
  destruct (dec_of_N_spec n) as [D1 [D2 D3]].
  unfold image_idx_of.
  assert (S1 : starts_with s_img_prefix (image_partname n e) = true)
    by (unfold image_partname; apply starts_with_app).
  rewrite S1, image_partname_render.
  rewrite (idx_some [s_ppt; s_media] s_image (dec_of_N n) [] e); auto.
  - rewrite D3. reflexivity.
  - repeat constructor.
  - discriminate.
  - rewrite app_nil_r. unfold no_dot. rewrite forallb_app. apply andb_true_iff. split; [reflexivity|].
    clear -D2. induction (dec_of_N n) as [|c l IH]; simpl in *; auto.
    apply andb_true_iff in D2 as [Hc Hl]. rewrite IH by auto. rewrite andb_true_r.
    unfold is_digit in Hc. apply andb_true_iff in Hc as [H1 H2]. apply N.leb_le in H1, H2.
    unfold is_dot, c_dot. apply negb_true_iff. apply N.eqb_neq. lia.
Qed.

Lemma next_image_partname_fresh names e nm : ext_ok e = true ->
  next_image_partname names e = Ok nm -> ~ In nm names.
Proof.
  intros He Hn Hin. unfold next_image_partname in Hn.
  assert (nm = image_partname (next_image_idx names) e).
  { unfold packuri_new, image_partname, s_img_prefix in Hn. simpl in Hn. congruence. }
  subst nm. apply (next_image_idx_fresh names).
  rewrite <- (image_idx_of_partname _ e He). apply in_map. exact Hin.
Qed.

Lemma next_image_partname_ok names e :
  next_image_partname names e = Ok (image_partname (next_image_idx names) e).
Proof. reflexivity. Qed.
