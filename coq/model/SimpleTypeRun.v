(** Runner for the C11 correspondence: evaluates the generated (translated) to_xml /
    from_xml of a simple-type class on a python value. *)
From V.lib Require Import Prelude PyFloat PyVal Wire PyValWire.
From V.gen Require Import GenC11.

Definition run_c11 (args : list str) : str :=
  match args with
  | [op; cls; val] =>
      if str_eqb op [119%N] then            (* w *)
        match parse_pyval val with
        | Some v => show_res show_pyval (dispatch_to_xml cls v)
        | None => w_badcase
        end
      else if str_eqb op [114%N] then       (* r: val is the attribute text *)
        show_res show_pyval (dispatch_from_xml cls (PStr val))
      else w_badcase
  | _ => w_badcase
  end.
