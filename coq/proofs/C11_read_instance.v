(** Read-side theorems (R) for the classes whose from_xml has no canonical descriptor, on the
    Gallina regenerated from simpletypes.py (gen/GenC11.v): for EVERY string of the lexical
    space of the schema type (an integer in range, a percent string, a universal-measure
    string, a string of one of the transcribed pattern facets, an xsd:double literal), from_xml
    returns a value.  Exclusions are CPython limits, stated as hypotheses and shown necessary by
    witnesses: the 4300-digit limit of int() ( R_int_digit_limit_refuted ), int / float overflow
    beyond the doubles ( R_Percentage_big_int_refuted ), float overflow inside round for
    universal measures of more than about 300 digits ( R_Coordinate_long_measure_refuted ).
    REFUTED: ST_Coordinate cannot read the guide-name alternative of ST_AdjCoordinate
    ( R_Coordinate_refuted; recorded finding r:ST_Coordinate:other ).
    Lifted to attribute rows in C11_rows_custom_read.v. *)
From V.lib Require Import Prelude PyFloat PyVal.
From V.model Require Import SimpleTypeLib.
From V.proofs Require Import Prelude_proofs PyFloat_proofs SimpleTypeLib_proofs C11_float_instance
  C11_regex C11_patterns C11_write_instance.
From V.gen Require Import GenC11.
From Coq Require Import Lia ZifyBool.
Local Open Scope Z_scope.

(** ---- python float() on decimal literals ---- *)
Lemma forallb_take_while {A} (f : A -> bool) l : forallb f (take_while f l) = true.
Proof. induction l as [|x l IH]; cbn [take_while forallb]; auto. destruct (f x) eqn:E; cbn [forallb]; auto. now rewrite E. Qed.

Lemma drop_while_hd {A} (f : A -> bool) l c r : drop_while f l = c :: r -> f c = false.
Proof.
  induction l as [|x l IH]; cbn [drop_while]; [discriminate|].
  destruct (f x) eqn:E; auto. intros [= -> _]. exact E.
Qed.

(** digits, optionally a point and digits: the body of the percent and universal-measure patterns *)
Definition dec_shape (b : str) : Prop :=
  exists ip, all_digits ip = true /\ (b = ip \/ exists fp, all_digits fp = true /\ b = ip ++ 46%N :: fp).

Lemma lex_decimal_shape b : lex_decimal_unsigned b = true -> dec_shape b.
Proof.
  unfold lex_decimal_unsigned. intros H.
  pose proof (take_drop_while is_digit b) as E.
  pose proof (forallb_take_while is_digit b) as D.
  destruct (take_while is_digit b) as [|c ip] eqn:Ei; [discriminate H|].
  exists (c :: ip). split; [exact D|].
  destruct (drop_while is_digit b) as [|d fr] eqn:Er.
  - left. rewrite app_nil_r in E. now symmetry.
  - right. apply andb_true_iff in H as [Hd Hf]. apply N.eqb_eq in Hd. change c_dot with 46%N in Hd. subst d.
    exists fr. split; [exact Hf|now symmetry].
Qed.

Lemma strip_us_none s : forall prev, (prev =? c_us)%N = false ->
  forallb (fun c => negb (c =? c_us)%N) s = true -> strip_us prev s = Some s.
Proof.
  induction s as [|c r IH]; intros prev Hp H; cbn [strip_us].
  - now rewrite Hp.
  - cbn [forallb] in H. apply andb_true_iff in H as [Hc Hr]. apply negb_true_iff in Hc.
    rewrite Hc, Hp. cbn [andb]. now rewrite (IH c Hc Hr).
Qed.

Lemma fl_div_e_not_nan n d k : 0 < d -> fl_div_e n d k <> NaN.
Proof.
  intros Hd. unfold fl_div_e. destruct (Z.leb_spec d 0); [exfalso; lia|].
  destruct (n =? 0); [discriminate|].
  destruct (0 <=? Z.log2 d - Z.log2 (Z.abs n) + 55);
  match goal with |- context [Z.div_eucl ?a ?b] => destruct (Z.div_eucl a b) end; apply round_dy_not_nan.
Qed.

Lemma dec_to_float_not_nan neg ds x : dec_to_float neg ds x <> NaN.
Proof.
  unfold dec_to_float. destruct (Z.of_N (dec_value ds) =? 0); [discriminate|].
  destruct (310 <? x); [destruct neg; discriminate|].
  destruct (x + Z.of_nat (length ds) <? -330); [discriminate|].
  unfold fl_div. destruct (Z.leb_spec 0 x); apply fl_div_e_not_nan; [lia|]. apply Z.pow_pos_nonneg; lia.
Qed.

Lemma digit_lower c : is_digit c = true -> ascii_lower c = c.
Proof.
  intros H. apply is_digit_bounds in H. unfold ascii_lower.
  destruct (N.leb_spec 65 c); [lia|]. reflexivity.
Qed.

Lemma str_eqb_hd_ne c r x y : (c =? x)%N = false -> str_eqb (c :: r) (x :: y) = false.
Proof. intros H. cbn [str_eqb]. now rewrite H. Qed.

(** python float() reads every string of the form  sign? digits ( . digits )?  as the
    correctly rounded value of its digits scaled by a non-positive power of ten *)
Lemma f_of_str_decimal_form sg b :
  (sg = [] \/ sg = [45%N]) -> dec_shape b ->
  exists ds x, f_of_str (sg ++ b) = Ok (dec_to_float (str_eqb sg [45%N]) ds x)
    /\ forallb is_digit ds = true /\ x <= 0 /\ (length ds <= length b)%nat.
Proof.
  intros Hsg (ip & Hip & Hb).
  destruct (all_digits_cons _ Hip) as (c & r & Eip & Hc & Fip).
  destruct (digit_not_sign c Hc) as (H45 & H43 & Hus & Hsp).
  (* the whole digit/point body *)
  assert (Bd : forallb (fun x => is_digit x || (x =? 46)%N) b = true).
  { destruct Hb as [->|(fp & Hfp & ->)].
    - rewrite forallb_forall in Fip |- *. intros x Hx. now rewrite (Fip x Hx).
    - destruct (all_digits_cons _ Hfp) as (_ & _ & _ & _ & Ffp).
      rewrite forallb_app. cbn [forallb]. rewrite N.eqb_refl, orb_true_r. cbn [andb].
      apply andb_true_iff. split; (rewrite forallb_forall in Fip, Ffp |- *; intros x Hx);
        [now rewrite (Fip x Hx)|now rewrite (Ffp x Hx)]. }
  assert (Last : exists l t, rev b = l :: t /\ is_digit l = true).
  { destruct Hb as [->|(fp & Hfp & ->)].
    - apply all_digits_rev_head; assumption.
    - destruct (all_digits_rev_head _ Hfp) as (l & t & Er & Hl).
      exists l, (t ++ 46%N :: rev ip). split; [|exact Hl].
      rewrite rev_app_distr. cbn [rev]. rewrite Er. rewrite <- app_assoc. reflexivity. }
  destruct Last as (l & t & Er & Hl).
  destruct (digit_not_sign l Hl) as (_ & _ & _ & Hlsp).
  assert (Hb0 : exists b', b = c :: b').
  { destruct Hb as [->|(fp & _ & ->)]; rewrite Eip; cbn [app]; eauto. }
  destruct Hb0 as (b' & Eb).
  assert (Hstrip : py_strip (sg ++ b) = sg ++ b).
  { destruct Hsg as [->| ->]; cbn [app].
    - eapply py_strip_id; [exact Eb|exact Er|exact Hsp|exact Hlsp].
    - eapply (py_strip_id (45%N :: b) 45%N b l (t ++ [45%N])); [reflexivity| |reflexivity|exact Hlsp].
      cbn [rev]. rewrite Er. reflexivity. }
  assert (Hnus : forallb (fun x => negb (x =? c_us)%N) (sg ++ b) = true).
  { rewrite forallb_app. apply andb_true_iff. split.
    - destruct Hsg as [->| ->]; reflexivity.
    - rewrite forallb_forall in Bd |- *. intros x Hx. specialize (Bd x Hx).
      apply negb_true_iff. apply N.eqb_neq. intros ->. vm_compute in Bd. discriminate Bd. }
  assert (Htake : take_sign (sg ++ b) = (str_eqb sg [45%N], b)).
  { destruct Hsg as [->| ->]; cbn [app str_eqb].
    - rewrite Eb. cbn [take_sign]. now rewrite H45, H43.
    - reflexivity. }
  unfold f_of_str. rewrite Hstrip, (strip_us_none _ 0%N eq_refl Hnus), Htake.
  assert (Hlow : map ascii_lower b = c :: map ascii_lower b').
  { rewrite Eb. cbn [map]. now rewrite (digit_lower c Hc). }
  rewrite Hlow.
  assert (Hc105 : (c =? 105)%N = false) by (apply is_digit_bounds in Hc; apply N.eqb_neq; clear - Hc; lia).
  assert (Hc110 : (c =? 110)%N = false) by (apply is_digit_bounds in Hc; apply N.eqb_neq; clear - Hc; lia).
  unfold s_inf, s_infinity, s_nan. rewrite !str_eqb_hd_ne by assumption. cbn [orb].
  destruct Hb as [Hb|(fp & Hfp & Hb)].
  - rewrite Hb, (take_while_all _ _ Fip), (drop_while_all _ _ Fip), app_nil_r.
    exists ip, (0 - Z.of_nat (@length N [])).
    split; [rewrite Eip; reflexivity|]. split; [exact Fip|]. split; [apply Z.leb_le; reflexivity|]. apply le_n.
  - destruct (all_digits_cons _ Hfp) as (_ & _ & _ & _ & Ffp).
    rewrite Hb, (take_while_app_stop is_digit ip 46%N fp Fip eq_refl), (drop_while_app_stop is_digit ip 46%N fp Fip eq_refl).
    rewrite N.eqb_refl, (take_while_all _ _ Ffp), (drop_while_all _ _ Ffp).
    exists (ip ++ fp), (0 - Z.of_nat (length fp)).
    split; [rewrite Eip; reflexivity|]. split; [rewrite forallb_app, Fip, Ffp; reflexivity|].
    split; [clear - fp; lia|]. rewrite !app_length. cbn [length]. clear - ip fp. lia.
Qed.

Lemma f_of_str_decimal sg b :
  (sg = [] \/ sg = [45%N]) -> dec_shape b ->
  exists f, f_of_str (sg ++ b) = Ok f /\ f <> NaN.
Proof.
  intros Hsg Hb. destruct (f_of_str_decimal_form sg b Hsg Hb) as (ds & x & E & _).
  eexists. split; [exact E|apply dec_to_float_not_nan].
Qed.

(** ---- strings: membership of a character, suffixes, slices ---- *)
Lemma is_substr1 c s : is_substr [c] s = existsb (N.eqb c) s.
Proof.
  induction s as [|x s IH]; [reflexivity|].
  cbn [is_substr starts_with existsb]. rewrite IH, andb_true_r. reflexivity.
Qed.

Lemma py_in_char c s : py_in (PStr [c]) (PStr s) = Ok (existsb (N.eqb c) s).
Proof. cbn [py_in]. now rewrite is_substr1. Qed.

Lemma existsb_digits_false c ds : is_digit c = false -> forallb is_digit ds = true -> existsb (N.eqb c) ds = false.
Proof.
  intros Hc. induction ds as [|d ds IH]; [reflexivity|]. cbn [forallb existsb]. intros H.
  apply andb_true_iff in H as [Hd Hr]. rewrite (IH Hr), orb_false_r.
  apply N.eqb_neq. intros ->. congruence.
Qed.

Lemma all_digits_forallb ds : all_digits ds = true -> forallb is_digit ds = true.
Proof. intros A. now destruct (all_digits_cons _ A) as (_ & _ & _ & _ & F). Qed.

(** a character that is neither a digit nor a sign does not occur in an integer literal *)
Lemma int_lit_free c s z : lex_integer s = Some z -> is_digit c = false -> c <> 45%N -> c <> 43%N ->
  existsb (N.eqb c) s = false.
Proof.
  intros H Hd H45 H43. destruct (lex_integer_shape s z H) as (sg & ds & -> & Hsg & A & _).
  rewrite existsb_app, (existsb_digits_false c ds Hd (all_digits_forallb _ A)), orb_false_r.
  destruct Hsg as [->|[->| ->]]; cbn [existsb]; [reflexivity| |]; rewrite orb_false_r; apply N.eqb_neq; assumption.
Qed.

(** nor does an integer literal end with it *)
Lemma int_lit_not_ends c s z : lex_integer s = Some z -> is_digit c = false -> ends_with [c] s = false.
Proof.
  intros H Hd. destruct (lex_integer_shape s z H) as (sg & ds & -> & _ & A & _).
  destruct (all_digits_rev_head _ A) as (l & t & Er & Hl).
  unfold ends_with. rewrite rev_app_distr, Er. cbn [rev app starts_with].
  rewrite andb_true_r. apply N.eqb_neq. intros ->. congruence.
Qed.

Lemma ends_with_snoc c a : ends_with [c] (a ++ [c]) = true.
Proof. unfold ends_with. rewrite rev_app_distr. cbn [rev app starts_with]. now rewrite N.eqb_refl. Qed.

Lemma existsb_snoc c a : existsb (N.eqb c) (a ++ [c]) = true.
Proof. rewrite existsb_app. cbn [existsb]. now rewrite N.eqb_refl, orb_true_r. Qed.

Lemma firstn_app_suffix {A} (a u : list A) : firstn (length (a ++ u) - length u) (a ++ u) = a.
Proof.
  rewrite app_length. replace (length a + length u - length u)%nat with (length a + 0)%nat by lia.
  rewrite firstn_app_2. cbn [firstn]. apply app_nil_r.
Qed.

Lemma skipn_app_suffix {A} (a u : list A) : skipn (length (a ++ u) - length u) (a ++ u) = u.
Proof.
  rewrite app_length. replace (length a + length u - length u)%nat with (length a) by lia.
  rewrite skipn_app, skipn_all, Nat.sub_diag. reflexivity.
Qed.

Lemma slice_to_neg a u : py_slice_to_neg (PStr (a ++ u)) (length u) = Ok (PStr a).
Proof. cbn [py_slice_to_neg with_str]. now rewrite firstn_app_suffix. Qed.
Lemma slice_from_neg a u : py_slice_from_neg (PStr (a ++ u)) (length u) = Ok (PStr u).
Proof. cbn [py_slice_from_neg with_str]. now rewrite skipn_app_suffix. Qed.

(** s.replace(c, empty) on a string that holds c only as its last character *)
Lemma replace1_snoc c a : existsb (N.eqb c) a = false ->
  py_replace1 (PStr (a ++ [c])) (PStr [c]) (PStr []) = Ok (PStr a).
Proof.
  intros H. cbn [py_replace1 with_str]. do 2 f_equal. rewrite flat_map_app. cbn [flat_map].
  rewrite N.eqb_refl. cbn [app]. rewrite app_nil_r.
  induction a as [|x a IH]; [reflexivity|]. cbn [existsb] in H. apply orb_false_iff in H as [Hx Hr].
  cbn [flat_map]. rewrite N.eqb_sym, Hx. cbn [app]. now rewrite (IH Hr).
Qed.

(** ---- python int() on the schema's integer literals ---- *)
Lemma lex_int_inv lo hi s : lex_ok (LInt lo hi) s = true -> exists z, lex_integer s = Some z /\ lo <= z <= hi.
Proof.
  cbn [lex_ok]. destruct (lex_integer s) as [z|]; [|discriminate]. intros H.
  apply andb_true_iff in H as [H1 H2]. apply Z.leb_le in H1, H2. eauto.
Qed.

Lemma py_int_lex s z : lex_integer s = Some z -> (N.of_nat (length s) <= int_max_str_digits)%N ->
  py_int (PStr s) = Ok (PInt z).
Proof. intros H L. cbn [py_int]. now rewrite (int_of_str_lex_len s z H L). Qed.

(** sign and digits: what the chart percent patterns leave once the percent sign is gone *)
Lemma py_int_signed_digits sg ds : (sg = [] \/ sg = [45%N]) -> all_digits ds = true ->
  (N.of_nat (length (sg ++ ds)) <= int_max_str_digits)%N ->
  exists z, py_int (PStr (sg ++ ds)) = Ok (PInt z).
Proof.
  intros Hsg A L. cbn [py_int]. rewrite int_of_str_signed_digits; [|tauto|exact A].
  rewrite app_length in L.
  destruct (N.ltb_spec int_max_str_digits (N.of_nat (length ds))); [lia|]. cbn [bind]. eauto.
Qed.

(** ---- float conversions and divisions that cannot fail ---- *)
Definition big300 : Z := 10 ^ 300.

Lemma fin_leb_int a b : a <= b -> f_leb (Fin a 0) (Fin b 0) = true.
Proof. intros H. rewrite (fin_leb_scale a 0 b 0 0) by lia. apply Z.leb_le. change (2 ^ (0 - 0)) with 1. lia. Qed.

(** float(int) of an integer of at most 300 digits is finite *)
Lemma f_of_Z_bounded z : - big300 <= z <= big300 -> exists m e, f_of_Z z = Ok (Fin m e).
Proof.
  intros [H1 H2].
  assert (U : f_leb (round_dy z 0) (round_dy big300 0) = true) by (apply round_dy_mono, fin_leb_int; exact H2).
  assert (L : f_leb (round_dy (- big300) 0) (round_dy z 0) = true) by (apply round_dy_mono, fin_leb_int; exact H1).
  unfold f_of_Z. pose proof (round_dy_not_nan z 0) as Hn.
  destruct (round_dy z 0) as [m e| | |]; [eauto| | |congruence].
  - vm_compute in U. discriminate U.
  - vm_compute in L. discriminate L.
Qed.

Lemma f_div_fin_ok a m e : m <> 0 -> exists r, f_div a (Fin m e) = Ok r.
Proof.
  intros Hm. unfold f_div. cbn [f_is_zero]. destruct (Z.eqb_spec m 0); [contradiction|].
  destruct a; eauto.
Qed.

Lemma truediv_float_float f m e : m <> 0 -> exists r, py_truediv (PFloat f) (PFloat (Fin m e)) = Ok (PFloat r).
Proof.
  intros Hm. unfold py_truediv, arith. cbn [as_num num_float bind].
  destruct (f_div_fin_ok f m e Hm) as [r ->]. cbn [bind]. eauto.
Qed.

Lemma truediv_float_int f c : c <> 0 -> Z.abs c < 2 ^ 53 -> exists r, py_truediv (PFloat f) (PInt c) = Ok (PFloat r).
Proof.
  intros Hc Hb. unfold py_truediv, arith. cbn [as_num num_float bind]. rewrite (f_of_Z_small c Hb).
  destruct (Z.eqb_spec c 0); [contradiction|]. cbn [bind].
  destruct (f_div_fin_ok f c 0 Hc) as [r ->]. cbn [bind]. eauto.
Qed.

Lemma truediv_int_float z m e : m <> 0 -> - big300 <= z <= big300 ->
  exists r, py_truediv (PInt z) (PFloat (Fin m e)) = Ok (PFloat r).
Proof.
  intros Hm Hz. unfold py_truediv, arith. cbn [as_num num_float bind].
  destruct (f_of_Z_bounded z Hz) as (m' & e' & ->). cbn [bind].
  destruct (f_div_fin_ok (Fin m' e') m e Hm) as [r ->]. cbn [bind]. eauto.
Qed.

(** ---- integer readers: ST_Angle, ST_PositiveFixedAngle, ST_TextSpacingPoint ---- *)
Lemma angle_read s z : lex_integer s = Some z -> (N.of_nat (length s) <= int_max_str_digits)%N ->
  exists v, (v_rot <- (t <- py_int (PStr s) ;; py_mod t (PInt 21600000)) ;;
             (t26 <- py_float v_rot ;; py_truediv t26 (PInt 60000))) = Ok v.
Proof.
  intros H L. rewrite (py_int_lex s z H L). cbn [bind]. unfold py_mod, arith. cbn [as_num].
  change (21600000 =? 0) with false. cbn [bind py_float].
  pose proof (Z.mod_pos_bound z 21600000 ltac:(lia)) as B.
  rewrite f_of_Z_small by (change (2 ^ 53) with 9007199254740992; lia). cbn [bind].
  match goal with |- context [py_truediv (PFloat ?f)] =>
    destruct (truediv_float_int f 60000 ltac:(lia) ltac:(change (2 ^ 53) with 9007199254740992; lia)) as [r ->] end.
  eauto.
Qed.

(** R for ST_Angle (a:xfrm/@rot): every integer literal is read (python int, then modulo a
    full turn, then degrees); the only exclusion is the interpreter's digit limit *)
Theorem R_Angle : forall lo hi s, lex_ok (LInt lo hi) s = true ->
  (N.of_nat (length s) <= int_max_str_digits)%N -> exists v, ST_Angle__from_xml (PStr s) = Ok v.
Proof.
  intros lo hi s H L. destruct (lex_int_inv lo hi s H) as (z & Hz & _).
  unfold ST_Angle__from_xml, ST_Angle__convert_from_xml. exact (angle_read s z Hz L).
Qed.

Theorem R_PositiveFixedAngle : forall lo hi s, lex_ok (LInt lo hi) s = true ->
  (N.of_nat (length s) <= int_max_str_digits)%N -> exists v, ST_PositiveFixedAngle__from_xml (PStr s) = Ok v.
Proof.
  intros lo hi s H L. destruct (lex_int_inv lo hi s H) as (z & Hz & _).
  unfold ST_PositiveFixedAngle__from_xml, ST_PositiveFixedAngle__convert_from_xml. exact (angle_read s z Hz L).
Qed.

Theorem R_TextSpacingPoint : forall lo hi s, lex_ok (LInt lo hi) s = true ->
  (N.of_nat (length s) <= int_max_str_digits)%N -> exists v, ST_TextSpacingPoint__from_xml (PStr s) = Ok v.
Proof.
  intros lo hi s H L. destruct (lex_int_inv lo hi s H) as (z & Hz & _).
  unfold ST_TextSpacingPoint__from_xml, ST_TextSpacingPoint__convert_from_xml.
  rewrite (py_int_lex s z Hz L). cbn [bind py_Centipoints py_mul arith as_num py_int]. eauto.
Qed.

(** the digit limit is necessary: 4301 zeros are the integer 0 for the schema, python int refuses them *)
Theorem R_int_digit_limit_refuted : exists s, lex_ok (LInt 0 158400) s = true
  /\ ST_TextSpacingPoint__from_xml (PStr s) = Err ValueErr /\ ST_Angle__from_xml (PStr s) = Err ValueErr.
Proof. exists (repeat 48%N 4301). vm_compute. repeat split. Qed.

Example R_int_examples :
  ST_Angle__from_xml (PStr [45; 53]%N) = Ok (PFloat (Fin 6333185509974256 (-44)))
  /\ lex_ok (LInt (-2147483648) 2147483647) [45; 53]%N = true
  /\ ST_TextSpacingPoint__from_xml (PStr [43; 50; 48; 48]%N) = Ok (PInt 25400)
  /\ lex_ok (LInt 0 158400) [43; 50; 48; 48]%N = true.
Proof. vm_compute. repeat split. Qed.

(** ---- percent literals: shapes of LPercent and of the transcribed pattern facets ---- *)
Lemma slice_to_neg1 a c : py_slice_to_neg (PStr (a ++ [c])) 1 = Ok (PStr a).
Proof. exact (slice_to_neg a [c]). Qed.

Lemma strip_sign_split signed s : exists sg, s = sg ++ strip_sign signed s /\ (sg = [] \/ sg = [45%N]).
Proof.
  unfold strip_sign. destruct s as [|c r]; [exists []; auto|]. destruct signed; cbn [andb].
  - change c_minus with 45%N. destruct (N.eqb_spec c 45) as [->|]; [exists [45%N]; auto|exists []; auto].
  - exists []; auto.
Qed.

Lemma lex_percent_inv signed s : lex_ok (LPercent signed) s = true ->
  exists sg body, s = (sg ++ body) ++ [37%N] /\ (sg = [] \/ sg = [45%N]) /\ dec_shape body.
Proof.
  cbn [lex_ok]. intros H. destruct (strip_sign_split signed s) as (sg & Es & Hsg).
  destruct (rev (strip_sign signed s)) as [|c body'] eqn:Er; [discriminate H|].
  apply andb_true_iff in H as [Hc Hd]. apply N.eqb_eq in Hc. subst c.
  exists sg, (rev body'). split; [|split; [exact Hsg|apply lex_decimal_shape; exact Hd]].
  rewrite Es at 1. rewrite <- app_assoc. f_equal.
  apply (f_equal (@rev N)) in Er. rewrite rev_involutive in Er. rewrite Er. reflexivity.
Qed.

Lemma all_digits_of ds : forallb is_digit ds = true -> ds <> [] -> all_digits ds = true.
Proof. destruct ds; [contradiction|]. intros H _. exact H. Qed.

Lemma re_all_digits r s : re_den r s -> re_within 48 57 r = true -> nullable r = false -> all_digits s = true.
Proof. intros H W N. apply all_digits_of; [eapply re_digits_den; eauto|eapply re_nonnull_den; eauto]. Qed.

(** 0*( one to three or four digits )%  : digits and a percent sign *)
Lemma chart_pct_shape k top s :
  re_within 48 57 (re_chart_pct_body k top) = true -> nullable (re_chart_pct_body k top) = false ->
  re_matches (re_chart_pct k top) s = true -> exists ds, s = ([] ++ ds) ++ [37%N] /\ all_digits ds = true.
Proof.
  intros W N H. apply re_matches_den in H. unfold re_chart_pct in H.
  destruct (inv_cat _ _ _ H) as (a & p & -> & Ha & Hp). apply rch_den in Hp. subst p.
  exists a. split; [reflexivity|]. eapply re_all_digits; eauto.
Qed.

(** the same with an optional minus sign in front ( c:overlap ) *)
Lemma overlap_shape s : re_matches re_overlap s = true ->
  exists sg ds, s = (sg ++ ds) ++ [37%N] /\ (sg = [] \/ sg = [45%N]) /\ all_digits ds = true.
Proof.
  intros H. apply re_matches_den in H. unfold re_overlap in H.
  destruct (inv_cat _ _ _ H) as (a & p & -> & Ha & Hp). apply rch_den in Hp. subst p.
  unfold re_overlap_body in Ha. destruct (inv_cat _ _ _ Ha) as (sg & ds & -> & Hsg & Hds).
  exists sg, ds. split; [reflexivity|]. split.
  - apply ropt_den in Hsg as [->|Hsg]; [now left|]. apply rch_den in Hsg. now right.
  - eapply re_all_digits; [exact Hds|reflexivity|reflexivity].
Qed.

(** ((100)|([0-9][0-9]?))(\.[0-9][0-9]?)?%  : an unsigned decimal and a percent sign *)
Lemma fixedpct_shape s : re_matches re_fixedpct s = true ->
  exists body, s = ([] ++ body) ++ [37%N] /\ dec_shape body.
Proof.
  intros H. apply re_matches_den in H. unfold re_fixedpct in H.
  destruct (inv_cat _ _ _ H) as (a & t & -> & Ha & Ht).
  destruct (inv_cat _ _ _ Ht) as (f & p & -> & Hf & Hp). apply rch_den in Hp. subst p.
  assert (Da : all_digits a = true) by (eapply re_all_digits; [exact Ha|reflexivity|reflexivity]).
  exists (a ++ f). split; [cbn [app]; now rewrite app_assoc|].
  exists a. split; [exact Da|]. unfold re_fixedpct_frac in Hf.
  apply ropt_den in Hf as [->|Hf]; [left; apply app_nil_r|right].
  destruct (inv_cat _ _ _ Hf) as (d & x & -> & Hd & Hx). apply rch_den in Hd. subst d.
  exists x. split; [|reflexivity]. eapply re_all_digits; [exact Hx|reflexivity|reflexivity].
Qed.

Lemma sign_digits_free c sg ds : (sg = [] \/ sg = [45%N]) -> all_digits ds = true ->
  is_digit c = false -> c <> 45%N -> existsb (N.eqb c) (sg ++ ds) = false.
Proof.
  intros Hsg A Hd H45. rewrite existsb_app, (existsb_digits_false c ds Hd (all_digits_forallb _ A)), orb_false_r.
  destruct Hsg as [->| ->]; cbn [existsb]; [reflexivity|]. rewrite orb_false_r. now apply N.eqb_neq.
Qed.

(** int( s.replace( percent sign, empty ) ) on sign, digits, percent sign *)
Lemma chart_literal_int sg ds : (sg = [] \/ sg = [45%N]) -> all_digits ds = true ->
  (N.of_nat (length ((sg ++ ds) ++ [37%N])) <= int_max_str_digits)%N ->
  exists z, (v <- py_replace1 (PStr ((sg ++ ds) ++ [37%N])) (PStr [37%N]) (PStr []) ;; py_int v) = Ok (PInt z).
Proof.
  intros Hsg A L. rewrite replace1_snoc by (apply sign_digits_free; auto; discriminate). cbn [bind].
  apply py_int_signed_digits; auto. rewrite app_length in L. lia.
Qed.

(** float( s[:-1] ) on sign, decimal, percent sign *)
Lemma pct_literal_float sg body : (sg = [] \/ sg = [45%N]) -> dec_shape body ->
  exists f, (v <- py_slice_to_neg (PStr ((sg ++ body) ++ [37%N])) 1 ;; py_float v) = Ok (PFloat f).
Proof.
  intros Hsg Hb. rewrite slice_to_neg1. cbn [bind py_float].
  destruct (f_of_str_decimal sg body Hsg Hb) as (f & -> & _). cbn [bind]. eauto.
Qed.

Lemma pct_literal_div sg body m e : (sg = [] \/ sg = [45%N]) -> dec_shape body -> m <> 0 ->
  exists r, (v <- py_slice_to_neg (PStr ((sg ++ body) ++ [37%N])) 1 ;;
             (t <- py_float v ;; py_truediv t (PFloat (Fin m e)))) = Ok (PFloat r).
Proof.
  intros Hsg Hb Hm. rewrite slice_to_neg1. cbn [bind py_float].
  destruct (f_of_str_decimal sg body Hsg Hb) as (f & -> & _). cbn [bind]. now apply truediv_float_float.
Qed.

Lemma int_div_float s z m e : lex_integer s = Some z -> (N.of_nat (length s) <= int_max_str_digits)%N ->
  - big300 <= z <= big300 -> m <> 0 ->
  exists r, (t <- py_int (PStr s) ;; py_truediv t (PFloat (Fin m e))) = Ok (PFloat r).
Proof. intros H L B Hm. rewrite (py_int_lex s z H L). cbn [bind]. now apply truediv_int_float. Qed.

Lemma union2_inv a b s : lex_ok (LUnion [a; b]) s = true -> lex_ok a s = true \/ lex_ok b s = true.
Proof. rewrite lex_ok_union. cbn [existsb]. rewrite orb_false_r. apply orb_true_iff. Qed.

(** ---- percent-or-integer readers of DrawingML ---- *)
Definition int300 : lexspec := LInt (- big300) big300.

Ltac not_pct := first [reflexivity | discriminate].

(** R for ST_Percentage ( a:alpha/@val, a:srcRect/@l ... ): an integer literal ( thousandths of a
    percent; up to 300 digits, beyond which int / float overflows ) or a percent literal *)
Theorem R_Percentage : forall sgn s, lex_ok (LUnion [int300; LPercent sgn]) s = true ->
  (N.of_nat (length s) <= int_max_str_digits)%N -> exists v, ST_Percentage__from_xml (PStr s) = Ok v.
Proof.
  intros sgn s H L. unfold ST_Percentage__from_xml, ST_Percentage__convert_from_xml. rewrite py_in_char.
  apply union2_inv in H as [H|H].
  - destruct (lex_int_inv _ _ _ H) as (z & Hz & B). rewrite (int_lit_free 37 s z Hz) by not_pct. cbn [bind].
    destruct (int_div_float s z 100000 0 Hz L B ltac:(lia)) as [r ->]. eauto.
  - destruct (lex_percent_inv _ _ H) as (sg & body & -> & Hsg & Hb). rewrite existsb_snoc. cbn [bind].
    unfold ST_Percentage___convert_from_percent_literal.
    destruct (pct_literal_div sg body 100 0 Hsg Hb ltac:(lia)) as [r ->]. eauto.
Qed.

(** R for ST_PositiveFixedPercentage ( a:gs/@pos ): integer literal, percent literal, or a string of
    the pattern facet of s:ST_PositiveFixedPercentage *)
Theorem R_PositiveFixedPercentage : forall sgn s,
  lex_ok (LUnion [int300; LPercent sgn]) s = true \/ re_matches re_fixedpct s = true ->
  (N.of_nat (length s) <= int_max_str_digits)%N -> exists v, ST_PositiveFixedPercentage__from_xml (PStr s) = Ok v.
Proof.
  intros sgn s H L. unfold ST_PositiveFixedPercentage__from_xml, ST_PositiveFixedPercentage__convert_from_xml.
  rewrite py_in_char.
  assert (P : forall sg body, (sg = [] \/ sg = [45%N]) -> dec_shape body ->
     exists v, (t165 <- Ok (existsb (N.eqb 37) ((sg ++ body) ++ [37%N])) ;;
        if t165 then ST_PositiveFixedPercentage___convert_from_percent_literal (PStr ((sg ++ body) ++ [37%N]))
        else t167 <- py_int (PStr ((sg ++ body) ++ [37%N])) ;; py_truediv t167 (PFloat (Fin 100000 0))) = Ok v).
  { intros sg body Hsg Hb. rewrite existsb_snoc. cbn [bind].
    unfold ST_PositiveFixedPercentage___convert_from_percent_literal.
    destruct (pct_literal_div sg body 100 0 Hsg Hb ltac:(lia)) as [r ->]. eauto. }
  destruct H as [H|H]; [apply union2_inv in H as [H|H]|].
  - destruct (lex_int_inv _ _ _ H) as (z & Hz & B). rewrite (int_lit_free 37 s z Hz) by not_pct. cbn [bind].
    destruct (int_div_float s z 100000 0 Hz L B ltac:(lia)) as [r ->]. eauto.
  - destruct (lex_percent_inv _ _ H) as (sg & body & -> & Hsg & Hb). now apply P.
  - destruct (fixedpct_shape s H) as (body & -> & Hb). apply P; auto.
Qed.

Lemma endswith_pct s : as_bool (py_endswith (PStr s) (PStr [37%N])) = Ok (ends_with [37%N] s).
Proof. reflexivity. Qed.

(** R for ST_TextSpacingPercentOrPercentString ( a:spcPct/@val ) *)
Theorem R_TextSpacingPercent : forall sgn s, lex_ok (LUnion [int300; LPercent sgn]) s = true ->
  (N.of_nat (length s) <= int_max_str_digits)%N ->
  exists v, ST_TextSpacingPercentOrPercentString__from_xml (PStr s) = Ok v.
Proof.
  intros sgn s H L.
  unfold ST_TextSpacingPercentOrPercentString__from_xml, ST_TextSpacingPercentOrPercentString__convert_from_xml.
  rewrite endswith_pct. apply union2_inv in H as [H|H].
  - destruct (lex_int_inv _ _ _ H) as (z & Hz & B). rewrite (int_lit_not_ends 37 s z Hz eq_refl). cbn [bind].
    destruct (int_div_float s z 100000 0 Hz L B ltac:(lia)) as [r ->]. eauto.
  - destruct (lex_percent_inv _ _ H) as (sg & body & -> & Hsg & Hb). rewrite ends_with_snoc. cbn [bind].
    unfold ST_TextSpacingPercentOrPercentString___convert_from_percent_literal.
    rewrite slice_to_neg1. cbn [bind py_float].
    destruct (f_of_str_decimal sg body Hsg Hb) as (f & -> & _). cbn [bind].
    destruct (truediv_float_float f 100 0 ltac:(lia)) as [r ->]. cbn [bind]. eauto.
Qed.

(** R for ST_TextFontScalePercentOrPercentString ( a:normAutofit/@fontScale ) *)
Theorem R_TextFontScalePercent : forall sgn s, lex_ok (LUnion [int300; LPercent sgn]) s = true ->
  (N.of_nat (length s) <= int_max_str_digits)%N ->
  exists v, ST_TextFontScalePercentOrPercentString__from_xml (PStr s) = Ok v.
Proof.
  intros sgn s H L.
  unfold ST_TextFontScalePercentOrPercentString__from_xml, ST_TextFontScalePercentOrPercentString__convert_from_xml.
  rewrite endswith_pct. apply union2_inv in H as [H|H].
  - destruct (lex_int_inv _ _ _ H) as (z & Hz & B). rewrite (int_lit_not_ends 37 s z Hz eq_refl). cbn [bind].
    destruct (int_div_float s z 1000 0 Hz L B ltac:(lia)) as [r ->]. eauto.
  - destruct (lex_percent_inv _ _ H) as (sg & body & -> & Hsg & Hb). rewrite ends_with_snoc. cbn [bind].
    destruct (pct_literal_float sg body Hsg Hb) as [f ->]. eauto.
Qed.

(** the 300-digit bound on the integer form is necessary: int / float overflows beyond the doubles *)
Theorem R_Percentage_big_int_refuted : exists s, lex_ok (LInt (- 10 ^ 400) (10 ^ 400)) s = true
  /\ (N.of_nat (length s) <= int_max_str_digits)%N /\ ST_Percentage__from_xml (PStr s) = Err OverflowErr.
Proof. exists (49%N :: repeat 48%N 310). vm_compute. repeat split; discriminate. Qed.

Example R_percent_examples :
  lex_ok (LUnion [int300; LPercent true]) [45; 49; 50; 46; 53; 37]%N = true
  /\ ST_Percentage__from_xml (PStr [45; 49; 50; 46; 53; 37]%N) = Ok (PFloat (Fin (-4503599627370496) (-55)))
  /\ ST_TextFontScalePercentOrPercentString__from_xml (PStr [45; 49; 50; 46; 53; 37]%N) = Ok (PFloat (Fin (-7036874417766400) (-49)))
  /\ re_matches re_fixedpct [49; 48; 48; 46; 57; 57; 37]%N = true
  /\ lex_ok (LUnion [int300; LPercent true]) [43; 53]%N = true
  /\ ST_PositiveFixedPercentage__from_xml (PStr [43; 53]%N) = Ok (PFloat (Fin 7378697629483821 (-67))).
Proof. vm_compute. repeat split. Qed.

(** ---- chart percent readers: the percent sign is dropped and the rest read as an integer ---- *)
Lemma chart_in_reader lit s :
  (forall sg ds, (sg = [] \/ sg = [45%N]) -> all_digits ds = true ->
     lit (PStr ((sg ++ ds) ++ [37%N])) = (v <- py_replace1 (PStr ((sg ++ ds) ++ [37%N])) (PStr [37%N]) (PStr []) ;; py_int v)) ->
  (N.of_nat (length s) <= int_max_str_digits)%N ->
  ((exists z, lex_integer s = Some z) \/
   (exists sg ds, s = (sg ++ ds) ++ [37%N] /\ (sg = [] \/ sg = [45%N]) /\ all_digits ds = true)) ->
  exists v, (t <- py_in (PStr [37%N]) (PStr s) ;; if t then lit (PStr s) else py_int (PStr s)) = Ok v.
Proof.
  intros Hlit L [[z Hz]|(sg & ds & -> & Hsg & A)]; rewrite py_in_char.
  - rewrite (int_lit_free 37 s z Hz) by not_pct. cbn [bind]. rewrite (py_int_lex s z Hz L). eauto.
  - rewrite existsb_snoc. cbn [bind]. rewrite (Hlit sg ds Hsg A).
    destruct (chart_literal_int sg ds Hsg A L) as [z ->]. eauto.
Qed.

Lemma chart_shape_of lo hi k top s :
  re_within 48 57 (re_chart_pct_body k top) = true -> nullable (re_chart_pct_body k top) = false ->
  lex_ok (LInt lo hi) s = true \/ re_matches (re_chart_pct k top) s = true ->
  (exists z, lex_integer s = Some z) \/
  (exists sg ds, s = (sg ++ ds) ++ [37%N] /\ (sg = [] \/ sg = [45%N]) /\ all_digits ds = true).
Proof.
  intros W N [H|H].
  - left. destruct (lex_int_inv _ _ _ H) as (z & Hz & _). eauto.
  - right. destruct (chart_pct_shape k top s W N H) as (ds & -> & A). exists [], ds. auto.
Qed.

(** R for ST_BubbleScale ( c:bubbleScale/@val ): integer literal or a string of the pattern facet *)
Theorem R_BubbleScale : forall lo hi s, lex_ok (LInt lo hi) s = true \/ re_matches re_bubble s = true ->
  (N.of_nat (length s) <= int_max_str_digits)%N -> exists v, ST_BubbleScale__from_xml (PStr s) = Ok v.
Proof.
  intros lo hi s H L. unfold ST_BubbleScale__from_xml, ST_BubbleScale__convert_from_xml.
  apply (chart_in_reader ST_BubbleScale__convert_from_percent_literal s); [reflexivity|exact L|].
  eapply chart_shape_of; [| |exact H]; reflexivity.
Qed.

Theorem R_GapAmount : forall lo hi s, lex_ok (LInt lo hi) s = true \/ re_matches re_gap s = true ->
  (N.of_nat (length s) <= int_max_str_digits)%N -> exists v, ST_GapAmount__from_xml (PStr s) = Ok v.
Proof.
  intros lo hi s H L. unfold ST_GapAmount__from_xml, ST_GapAmount__convert_from_xml.
  apply (chart_in_reader ST_GapAmount__convert_from_percent_literal s); [reflexivity|exact L|].
  eapply chart_shape_of; [| |exact H]; reflexivity.
Qed.

Theorem R_Overlap : forall lo hi s, lex_ok (LInt lo hi) s = true \/ re_matches re_overlap s = true ->
  (N.of_nat (length s) <= int_max_str_digits)%N -> exists v, ST_Overlap__from_xml (PStr s) = Ok v.
Proof.
  intros lo hi s H L. unfold ST_Overlap__from_xml, ST_Overlap__convert_from_xml.
  apply (chart_in_reader ST_Overlap__convert_from_percent_literal s); [reflexivity|exact L|].
  destruct H as [H|H].
  - left. destruct (lex_int_inv _ _ _ H) as (z & Hz & _). eauto.
  - right. exact (overlap_shape s H).
Qed.

(** ST_LblOffset ( c:lblOffset/@val ) tests the END of the string for the percent sign *)
Theorem R_LblOffset : forall lo hi s, lex_ok (LInt lo hi) s = true \/ re_matches re_lbloff s = true ->
  (N.of_nat (length s) <= int_max_str_digits)%N -> exists v, ST_LblOffset__from_xml (PStr s) = Ok v.
Proof.
  intros lo hi s H L. unfold ST_LblOffset__from_xml, ST_LblOffset__convert_from_xml. rewrite endswith_pct.
  destruct (chart_shape_of lo hi 57 [49; 48; 48; 48]%N s eq_refl eq_refl H) as [[z Hz]|(sg & ds & -> & Hsg & A)].
  - rewrite (int_lit_not_ends 37 s z Hz eq_refl). cbn [bind]. rewrite (py_int_lex s z Hz L). eauto.
  - rewrite ends_with_snoc. cbn [bind]. unfold ST_LblOffset__convert_from_percent_literal.
    destruct (chart_literal_int sg ds Hsg A L) as [z ->]. eauto.
Qed.

Example R_chart_examples :
  re_matches re_bubble [48; 48; 48; 53; 37]%N = true
  /\ ST_BubbleScale__from_xml (PStr [48; 48; 48; 53; 37]%N) = Ok (PInt 5)
  /\ re_matches re_overlap [45; 48; 48; 49; 48; 48; 37]%N = true
  /\ ST_Overlap__from_xml (PStr [45; 48; 48; 49; 48; 48; 37]%N) = Ok (PInt (-100))
  /\ re_matches re_lbloff [49; 48; 48; 48; 37]%N = true
  /\ ST_LblOffset__from_xml (PStr [49; 48; 48; 48; 37]%N) = Ok (PInt 1000)
  /\ re_matches re_gap [53; 48; 48; 37]%N = true
  /\ ST_GapAmount__from_xml (PStr [53; 48; 48; 37]%N) = Ok (PInt 500).
Proof. vm_compute. repeat split. Qed.

(** ---- correctly rounded decimal to float conversion stays finite on short literals ---- *)
Lemma dstep_fold_lt ds : forall acc, forallb is_digit ds = true ->
  (fold_left dstep ds acc < (acc + 1) * 10 ^ N.of_nat (length ds))%N.
Proof.
  induction ds as [|c r IH]; intros acc H.
  - cbn [fold_left length]. change (10 ^ N.of_nat 0)%N with 1%N. lia.
  - cbn [forallb] in H. apply andb_true_iff in H as [Hc Hr]. apply is_digit_bounds in Hc.
    cbn [fold_left length]. specialize (IH (dstep acc c) Hr). rewrite Nat2N.inj_succ, N.pow_succ_r'.
    eapply N.lt_le_trans; [exact IH|]. unfold dstep.
    replace ((acc + 1) * (10 * 10 ^ N.of_nat (length r)))%N with ((acc * 10 + 10) * 10 ^ N.of_nat (length r))%N by lia.
    apply N.mul_le_mono_r. lia.
Qed.

Lemma dec_value_lt ds : forallb is_digit ds = true -> Z.of_N (dec_value ds) < 10 ^ Z.of_nat (length ds).
Proof.
  intros H. rewrite dec_value_fold. pose proof (dstep_fold_lt ds 0%N H) as L.
  rewrite N.mul_1_l in L. apply N2Z.inj_lt in L. rewrite N2Z.inj_pow in L.
  rewrite nat_N_Z in L. exact L.
Qed.

Lemma fl_div_e_opp n d k : 0 < n -> fl_div_e (- n) d k = f_neg (fl_div_e n d k).
Proof.
  intros Hn. unfold fl_div_e. destruct (d <=? 0); [reflexivity|].
  destruct (Z.eqb_spec n 0); [lia|]. destruct (Z.eqb_spec (- n) 0); [lia|].
  rewrite Z.abs_opp. destruct (Z.ltb_spec (- n) 0); [|lia]. destruct (Z.ltb_spec n 0); [lia|].
  destruct (0 <=? Z.log2 d - Z.log2 (Z.abs n) + 55);
  match goal with |- context [Z.div_eucl ?a ?b] => destruct (Z.div_eucl a b) end; apply round_dy_opp.
Qed.

(** the correctly rounded quotient of positive integers is between 0 and the rounding of twice any integer bound of the quotient *)
Lemma fl_div_bound n d B : 0 < n -> 0 < d -> 0 < B -> n <= B * d ->
  f_leb (fl_div_e n d 0) (round_dy (2 * B) 0) = true /\ f_leb (Fin 0 0) (fl_div_e n d 0) = true.
Proof.
  intros Hn Hd HB Hq. unfold fl_div_e.
  destruct (Z.leb_spec d 0); [lia|]. destruct (Z.eqb_spec n 0); [lia|].
  rewrite (Z.abs_eq n) by lia. destruct (Z.ltb_spec n 0); [lia|].
  remember (Z.log2 d - Z.log2 n + 55) as s eqn:Hs.
  destruct (Z.leb_spec 0 s) as [S0|S0].
  - destruct (Z.div_eucl (Z.shiftl n s) d) as [q r] eqn:E.
    pose proof (Z_div_mod (Z.shiftl n s) d ltac:(lia)) as DM. rewrite E in DM. destruct DM as [EQ RB].
    rewrite Z.shiftl_mul_pow2 in EQ by lia.
    assert (P := pow2_pos s S0).
    assert (Q0 : 0 <= q) by nia.
    assert (QB : q <= B * 2 ^ s) by nia.
    set (m := 2 * q + (if r =? 0 then 0 else 1)).
    assert (M0 : 0 <= m) by (unfold m; destruct (r =? 0); lia).
    assert (M1 : m <= 2 * q + 1) by (unfold m; destruct (r =? 0); lia).
    split; [|apply round_dy_nonneg; exact M0].
    apply round_dy_mono. rewrite (fin_leb_scale m (0 - s - 1) (2 * B) 0 (0 - s - 1)) by lia.
    apply Z.leb_le. replace (0 - s - 1 - (0 - s - 1)) with 0 by lia.
    replace (0 - (0 - s - 1)) with (s + 1) by lia. rewrite Z.pow_add_r by lia.
    change (2 ^ 0) with 1. change (2 ^ 1) with 2. nia.
  - destruct (Z.div_eucl n (Z.shiftl d (- s))) as [q r] eqn:E.
    assert (T0 : 0 < - s) by lia.
    assert (P := pow2_pos (- s - 1) ltac:(lia)).
    assert (PT : 2 ^ (- s) = 2 * 2 ^ (- s - 1)).
    { replace (- s) with (1 + (- s - 1)) at 1 by lia. rewrite Z.pow_add_r by lia. reflexivity. }
    rewrite Z.shiftl_mul_pow2 in E by lia.
    pose proof (Z_div_mod n (d * 2 ^ (- s)) ltac:(nia)) as DM. rewrite E in DM. destruct DM as [EQ RB].
    (* the quotient is at least one *)
    assert (Big : d * 2 ^ (- s) <= n).
    { pose proof (log2_bounds n Hn) as [Ln _]. pose proof (log2_bounds d Hd) as [_ Ld].
      assert (L0 : 0 <= Z.log2 d) by apply Z.log2_nonneg.
      assert (E2 : 2 ^ (Z.log2 d + 1) * 2 ^ (- s) <= 2 ^ Z.log2 n).
      { rewrite <- Z.pow_add_r by lia. apply Z.pow_le_mono_r; lia. }
      nia. }
    assert (Q1 : 1 <= q) by nia.
    assert (QB : q * 2 ^ (- s) <= B) by nia.
    set (m := 2 * q + (if r =? 0 then 0 else 1)).
    assert (M0 : 0 <= m) by (unfold m; destruct (r =? 0); lia).
    assert (M1 : m <= 2 * q + 1) by (unfold m; destruct (r =? 0); lia).
    split; [|apply round_dy_nonneg; exact M0].
    apply round_dy_mono. rewrite (fin_leb_scale m (0 - s - 1) (2 * B) 0 0) by lia.
    apply Z.leb_le. replace (0 - s - 1 - 0) with (- s - 1) by lia. change (2 ^ (0 - 0)) with 1. nia.
Qed.

Definition um_top : pyfloat := round_dy (2 * big300) 0.

Lemma between_finite F lo hi : f_leb (Fin 0 0) F = true -> f_leb F (Fin lo hi) = true -> exists m e, F = Fin m e /\ 0 <= m.
Proof.
  destruct F as [m e| | |]; intros H0 H1; try discriminate.
  exists m, e. split; [reflexivity|].
  rewrite (fin_leb_scale 0 0 m e (Z.min 0 e)) in H0 by lia. apply Z.leb_le in H0.
  assert (P := pow2_pos (e - Z.min 0 e) ltac:(lia)). nia.
Qed.

(** float of at most 300 digits scaled down by a power of ten: finite, magnitude at most 2e300 *)
Lemma dec_to_float_bounded neg ds x : forallb is_digit ds = true -> x <= 0 -> (length ds <= 300)%nat ->
  exists m e, 0 <= m /\ f_leb (Fin m e) um_top = true
    /\ dec_to_float neg ds x = (if neg then Fin (- m) e else Fin m e).
Proof.
  intros Hd Hx Hl. unfold dec_to_float.
  assert (Z0 : exists m e, 0 <= m /\ f_leb (Fin m e) um_top = true /\ Fin 0 0 = (if neg then Fin (- m) e else Fin m e)).
  { exists 0, 0. split; [lia|]. split; [reflexivity|]. destruct neg; reflexivity. }
  pose proof (dec_value_lt ds Hd) as DL. set (D := Z.of_N (dec_value ds)) in *.
  destruct (Z.eqb_spec D 0) as [|Dn]; [exact Z0|].
  destruct (Z.ltb_spec 310 x); [lia|].
  destruct (x + Z.of_nat (length ds) <? -330); [exact Z0|].
  assert (D0 : 0 < D) by (unfold D in *; lia).
  assert (DB : D <= big300).
  { unfold big300. apply Z.lt_le_incl. eapply Z.lt_le_trans; [exact DL|]. apply Z.pow_le_mono_r; lia. }
  assert (G : forall n d, 0 < n -> 0 < d -> n <= big300 * d ->
     exists m e, 0 <= m /\ f_leb (Fin m e) um_top = true
       /\ fl_div (if neg then - n else n) d = (if neg then Fin (- m) e else Fin m e)).
  { intros n d Hn Hd0 Hb. destruct (fl_div_bound n d big300 Hn Hd0 ltac:(reflexivity) Hb) as [U L].
    fold um_top in U. assert (Uf : exists a b, um_top = Fin a b) by (vm_compute; eauto).
    destruct Uf as (a & b & Ea). rewrite Ea in U.
    destruct (between_finite _ _ _ L U) as (m & e & Em & M0).
    exists m, e. split; [exact M0|]. split; [rewrite <- Em, Ea; exact U|].
    unfold fl_div. destruct neg; [rewrite fl_div_e_opp by exact Hn|]; rewrite Em; reflexivity. }
  destruct (Z.leb_spec 0 x).
  - replace x with 0 by lia. change (10 ^ 0) with 1.
    replace ((if neg then - D else D) * 1) with (if neg then - D else D) by (destruct neg; lia).
    apply G; lia.
  - apply G; [exact D0|apply Z.pow_pos_nonneg; lia|].
    assert (0 < 10 ^ (- x)) by (apply Z.pow_pos_nonneg; lia).
    assert (0 < big300) by reflexivity. nia.
Qed.

Lemma f_round_fin m e : exists z, f_round (Fin m e) = Ok z.
Proof. cbn [f_round]. destruct (0 <=? e); eauto. Qed.

(** round( float * multiplier ) succeeds for the six unit multipliers *)
Lemma um_mul_round (neg : bool) (m e c : Z) : 0 <= m -> f_leb (Fin m e) um_top = true ->
  In c [36000; 360000; 914400; 12700; 152400] ->
  exists z, (t <- py_mul (PFloat (if neg then Fin (- m) e else Fin m e)) (PInt c) ;; py_round t) = Ok (PInt z).
Proof.
  intros M0 U Hc.
  assert (C : 0 < c /\ f_of_Z c = Ok (Fin c 0) /\ exists a b, f_mul um_top (Fin c 0) = Fin a b).
  { cbn [In] in Hc. destruct Hc as [<-|[<-|[<-|[<-|[<-|[]]]]]]; (split; [lia|]); (split; [reflexivity|]); vm_compute; eauto. }
  destruct C as (C0 & Cf & a & b & Ct).
  assert (Uf : exists a b, um_top = Fin a b) by (vm_compute; eauto).
  destruct Uf as (ua & ub & Eu).
  assert (P : f_leb (f_mul (Fin m e) (Fin c 0)) (Fin a b) = true).
  { rewrite <- Ct. apply f_mul_mono_l; [reflexivity|rewrite Eu; reflexivity|exact C0|exact U]. }
  cbn [f_mul] in P.
  assert (N0 : f_leb (Fin 0 0) (round_dy (m * c) (e + 0)) = true) by (apply round_dy_nonneg; nia).
  destruct (between_finite _ _ _ N0 P) as (m' & e' & Em & _).
  unfold py_mul, arith. destruct neg; cbn [as_num num_float bind]; rewrite Cf; cbn [bind f_mul py_round].
  - replace (- m * c) with (- (m * c)) by lia. rewrite round_dy_opp, Em. cbn [f_neg].
    destruct (f_round_fin (- m') e') as [z ->]. cbn [bind]. eauto.
  - rewrite Em. destruct (f_round_fin m' e') as [z ->]. cbn [bind]. eauto.
Qed.

(** ---- universal measures: ST_UniversalMeasure, ST_Coordinate, ST_Coordinate32 ---- *)
Lemma lex_um_inv signed s : lex_ok (LUnivMeasure signed) s = true ->
  exists sg body u, s = (sg ++ body) ++ u /\ (sg = [] \/ sg = [45%N]) /\ dec_shape body /\ In u units.
Proof.
  cbn [lex_ok]. intros H. destruct (strip_sign_split signed s) as (sg & Es & Hsg).
  set (b := strip_sign signed s) in *. apply andb_true_iff in H as [Hu Hd].
  exists sg, (firstn (length b - 2) b), (skipn (length b - 2) b).
  split; [rewrite <- app_assoc, firstn_skipn; exact Es|]. split; [exact Hsg|].
  split; [apply lex_decimal_shape; exact Hd|apply mem_str_In; exact Hu].
Qed.

Definition has_imp (s : str) : bool :=
  existsb (N.eqb 105) s || (existsb (N.eqb 109) s || existsb (N.eqb 112) s).

Lemma imp_test s :
  (t53 <- py_in (PStr [105%N]) (PStr s) ;; if t53 then Ok true
   else (t52 <- py_in (PStr [109%N]) (PStr s) ;; if t52 then Ok true else py_in (PStr [112%N]) (PStr s)))
  = Ok (has_imp s).
Proof.
  rewrite !py_in_char. cbn [bind]. unfold has_imp. destruct (existsb (N.eqb 105) s); [reflexivity|].
  cbn [bind orb]. destruct (existsb (N.eqb 109) s); reflexivity.
Qed.

Lemma has_imp_app a u : has_imp u = true -> has_imp (a ++ u) = true.
Proof.
  unfold has_imp. rewrite !existsb_app. intros H.
  destruct (existsb (N.eqb 105) u); [now rewrite orb_true_r|].
  destruct (existsb (N.eqb 109) u); [rewrite !orb_true_r; reflexivity|].
  cbn [orb] in H. rewrite H, !orb_true_r. reflexivity.
Qed.

Lemma int_lit_no_imp s z : lex_integer s = Some z -> has_imp s = false.
Proof. intros H. unfold has_imp. now rewrite !(int_lit_free _ s z H) by not_pct. Qed.

Lemma um_units u : In u units ->
  length u = 2%nat /\ has_imp u = true /\ exists c,
    py_dict_get [((PStr [109; 109]%N), (PInt (36000))); ((PStr [99; 109]%N), (PInt (360000))); ((PStr [105; 110]%N), (PInt (914400))); ((PStr [112; 116]%N), (PInt (12700))); ((PStr [112; 99]%N), (PInt (152400))); ((PStr [112; 105]%N), (PInt (152400)))] (PStr u) = Ok (PInt c)
    /\ In c [36000; 360000; 914400; 12700; 152400].
Proof.
  unfold units. cbn [In]. intros [<-|[<-|[<-|[<-|[<-|[<-|[]]]]]]]; (split; [reflexivity|]); (split; [reflexivity|]);
    eexists; (split; [vm_compute; reflexivity|]); cbn [In]; tauto.
Qed.

Definition um_max_len : N := 300.

Lemma um_read sg body u : (sg = [] \/ sg = [45%N]) -> dec_shape body -> In u units ->
  (N.of_nat (length ((sg ++ body) ++ u)) <= um_max_len)%N ->
  exists v, ST_UniversalMeasure__convert_from_xml (PStr ((sg ++ body) ++ u)) = Ok v.
Proof.
  intros Hsg Hb Hu L. destruct (um_units u Hu) as (Lu & _ & c & Hd & Hc).
  unfold ST_UniversalMeasure__convert_from_xml. rewrite <- Lu. rewrite slice_to_neg, slice_from_neg.
  cbn [bind py_float]. destruct (f_of_str_decimal_form sg body Hsg Hb) as (ds & x & -> & Fd & X0 & Ld).
  cbn [bind]. rewrite Hd. cbn [bind].
  assert (L300 : (length ds <= 300)%nat).
  { rewrite !app_length in L. unfold um_max_len in L. lia. }
  destruct (dec_to_float_bounded (str_eqb sg [45%N]) ds x Fd X0 L300) as (m & e & M0 & U & ->).
  destruct (um_mul_round (str_eqb sg [45%N]) m e c M0 U Hc) as [z Hz]. rewrite Hz.
  cbn [bind py_int py_Emu]. eauto.
Qed.

(** R for ST_UniversalMeasure: every universal-measure string of at most 300 characters is read *)
Theorem R_UniversalMeasure : forall sgn s, lex_ok (LUnivMeasure sgn) s = true ->
  (N.of_nat (length s) <= um_max_len)%N -> exists v, ST_UniversalMeasure__from_xml (PStr s) = Ok v.
Proof.
  intros sgn s H L. destruct (lex_um_inv sgn s H) as (sg & body & u & -> & Hsg & Hb & Hu).
  unfold ST_UniversalMeasure__from_xml. now apply um_read.
Qed.

Lemma coordinate_read rd s lo hi sgn :
  (forall s, rd (PStr s) = (t <- py_int (PStr s) ;; py_Emu t)) ->
  lex_ok (LUnion [LInt lo hi; LUnivMeasure sgn]) s = true -> (N.of_nat (length s) <= um_max_len)%N ->
  exists v, (t51 <- (t53 <- py_in (PStr [105%N]) (PStr s) ;; if t53 then Ok true
                     else (t52 <- py_in (PStr [109%N]) (PStr s) ;; if t52 then Ok true else py_in (PStr [112%N]) (PStr s))) ;;
             if t51 then ST_UniversalMeasure__convert_from_xml (PStr s) else rd (PStr s)) = Ok v.
Proof.
  intros Hrd H L. rewrite imp_test. cbn [bind]. apply union2_inv in H as [H|H].
  - destruct (lex_int_inv _ _ _ H) as (z & Hz & _). rewrite (int_lit_no_imp s z Hz), Hrd.
    rewrite (py_int_lex s z Hz) by (unfold um_max_len, int_max_str_digits in *; lia).
    cbn [bind py_Emu py_int]. eauto.
  - destruct (lex_um_inv sgn s H) as (sg & body & u & -> & Hsg & Hb & Hu).
    destruct (um_units u Hu) as (_ & Hi & _). rewrite (has_imp_app _ u Hi). now apply um_read.
Qed.

(** R for ST_Coordinate ( a:off/@x, a:ext/@cx, a:gridCol/@w ... ): integer literal or universal measure *)
(** a helper function that returns the truth value of a test, called where a test is expected, is the test *)
Lemma as_bool_of_bool (x : res bool) : as_bool (of_bool x) = x.
Proof. destruct x as [[|]|]; reflexivity. Qed.

(** both sides are brought to the same normal form (all generated definitions unfolded), so that the statement
    survives the units-suffix test being moved into a helper function of the module *)
Theorem R_Coordinate : forall lo hi sgn s, lex_ok (LUnion [LInt lo hi; LUnivMeasure sgn]) s = true ->
  (N.of_nat (length s) <= um_max_len)%N -> exists v, ST_Coordinate__from_xml (PStr s) = Ok v.
Proof.
  intros lo hi sgn s H L.
  pose proof (coordinate_read (fun v => t <- py_int v ;; py_Emu t) s lo hi sgn (fun _ => eq_refl) H L) as P.
  revert P. unfold_gen. rewrite ?as_bool_of_bool. exact (fun P => P).
Qed.

Theorem R_Coordinate32 : forall lo hi sgn s, lex_ok (LUnion [LInt lo hi; LUnivMeasure sgn]) s = true ->
  (N.of_nat (length s) <= um_max_len)%N -> exists v, ST_Coordinate32__from_xml (PStr s) = Ok v.
Proof.
  intros lo hi sgn s H L.
  pose proof (coordinate_read ST_Coordinate32Unqualified__convert_from_xml s lo hi sgn (fun _ => eq_refl) H L) as P.
  revert P. unfold_gen. rewrite ?as_bool_of_bool. exact (fun P => P).
Qed.

(** REFUTED for the type of a:pt/@x, a:pt/@y ( ST_AdjCoordinate = ST_Coordinate or a guide name ):
    the guide name x is schema-valid there and ST_Coordinate cannot read it *)
Theorem R_Coordinate_refuted : exists s,
  lex_ok (LUnion [LUnion [LInt (-27273042329600) 27273042316900; LUnivMeasure true]; LString]) s = true
  /\ ST_Coordinate__from_xml (PStr s) = Err ValueErr.
Proof. exists [120%N]. vm_compute. split; reflexivity. Qed.

(** the length bound on universal measures is necessary: the float overflows inside round *)
Theorem R_Coordinate_long_measure_refuted : exists s, lex_ok (LUnivMeasure true) s = true
  /\ (N.of_nat (length s) <= int_max_str_digits)%N
  /\ ST_Coordinate__from_xml (PStr s) = Err OverflowErr /\ ST_Coordinate32__from_xml (PStr s) = Err OverflowErr.
Proof. exists (repeat 57%N 310 ++ [109; 109]%N). vm_compute. repeat split; discriminate. Qed.

Example R_coordinate_examples :
  lex_ok (LUnivMeasure true) [45; 49; 46; 53; 112; 116]%N = true
  /\ ST_Coordinate__from_xml (PStr [45; 49; 46; 53; 112; 116]%N) = Ok (PInt (-19050))
  /\ ST_Coordinate32__from_xml (PStr [45; 49; 46; 53; 112; 105]%N) = Ok (PInt (-228600))
  /\ ST_Coordinate__from_xml (PStr [43; 57; 49; 52; 52; 48; 48]%N) = Ok (PInt 914400).
Proof. vm_compute. repeat split. Qed.

(** ---- xsd:double literals: XsdDouble, ST_AxisUnit ---- *)
(** the characters of a numeric xsd:double literal: digits, signs, point, E, e *)
Definition dchar (c : N) : bool :=
  (is_digit c || (c =? 43) || (c =? 45) || (c =? 46) || (c =? 69) || (c =? 101))%N.

Lemma dchar_facts c : dchar c = true -> is_pyspace c = false /\ (c =? c_us)%N = false.
Proof. unfold dchar, is_pyspace, is_digit, c_us. intros H. split; lia. Qed.

Lemma drop_while_nohead {A} (f : A -> bool) l : forallb (fun x => negb (f x)) l = true -> drop_while f l = l.
Proof.
  destruct l as [|x l]; [reflexivity|]. cbn [forallb drop_while]. intros H.
  apply andb_true_iff in H as [H _]. apply negb_true_iff in H. now rewrite H.
Qed.

Lemma forallb_impl {A} (f g : A -> bool) l : (forall x, f x = true -> g x = true) ->
  forallb f l = true -> forallb g l = true.
Proof. intros I. rewrite !forallb_forall. auto. Qed.

Lemma py_strip_dchars s : forallb dchar s = true -> py_strip s = s.
Proof.
  intros H. assert (Hn : forallb (fun x => negb (is_pyspace x)) s = true).
  { eapply forallb_impl; [|exact H]. intros x Hx. apply negb_true_iff. now apply dchar_facts. }
  unfold py_strip. rewrite (drop_while_nohead _ s Hn).
  rewrite drop_while_nohead by (rewrite forallb_rev; exact Hn). apply rev_involutive.
Qed.

Lemma strip_us_dchars s : forallb dchar s = true -> strip_us 0%N s = Some s.
Proof.
  intros H. apply strip_us_none; [reflexivity|].
  eapply forallb_impl; [|exact H]. intros x Hx. apply negb_true_iff. now apply dchar_facts.
Qed.

Definition sign3 (sg : str) : Prop := sg = [] \/ sg = [45%N] \/ sg = [43%N].

Definition exp_shape (ex : str) : Prop :=
  ex = [] \/ exists c sg ds, ex = c :: sg ++ ds /\ (c = 69%N \/ c = 101%N) /\ sign3 sg /\ all_digits ds = true.

Lemma dchar_digits l : forallb is_digit l = true -> forallb dchar l = true.
Proof. apply forallb_impl. intros x Hx. unfold dchar. now rewrite Hx. Qed.

Lemma dchar_sign sg : sign3 sg -> forallb dchar sg = true.
Proof. intros [->|[->| ->]]; reflexivity. Qed.

Lemma dchar_exp ex : exp_shape ex -> forallb dchar ex = true.
Proof.
  intros [->|(c & sg & ds & -> & Hc & Hsg & A)]; [reflexivity|].
  cbn [forallb]. rewrite forallb_app, (dchar_sign sg Hsg), (dchar_digits ds (all_digits_forallb _ A)).
  destruct Hc as [->| ->]; reflexivity.
Qed.

Lemma take_sign_digits sg ds : sign3 sg -> all_digits ds = true -> take_sign (sg ++ ds) = (str_eqb sg [45%N], ds).
Proof.
  intros Hsg A. destruct (all_digits_cons _ A) as (c & r & -> & Hc & _).
  destruct (digit_not_sign c Hc) as (H45 & H43 & _).
  destruct Hsg as [->|[->| ->]]; cbn [app take_sign str_eqb]; [now rewrite H45, H43|reflexivity|reflexivity].
Qed.

Lemma parse_exp_shape ex : exp_shape ex -> exists x, parse_exp ex = Some x.
Proof.
  intros [->|(c & sg & ds & -> & Hc & Hsg & A)]; [cbn; eauto|].
  cbn [parse_exp]. assert (E : ((c =? 101) || (c =? 69))%N = true) by (destruct Hc as [->| ->]; reflexivity).
  rewrite E, (take_sign_digits sg ds Hsg A). change (all_digits1 ds) with (all_digits ds). rewrite A. eauto.
Qed.

(** an exponent part is empty or starts with a letter *)
Lemma exp_head ex : exp_shape ex -> match ex with [] => true | x :: _ => negb (is_digit x) && negb (x =? 46)%N end = true.
Proof. intros [->|(c & sg & ds & -> & [->| ->] & _)]; reflexivity. Qed.

(** python float() reads every numeric xsd:double literal:
    sign?  digits* ( . digits* )?  exponent?   with at least one digit in the mantissa *)
Lemma f_of_str_double sg ip dot ex :
  sign3 sg -> forallb is_digit ip = true ->
  ((dot = [] /\ ip <> []) \/ exists fp, dot = 46%N :: fp /\ forallb is_digit fp = true /\ ip ++ fp <> []) ->
  exp_shape ex -> exists f, f_of_str (sg ++ ip ++ dot ++ ex) = Ok f.
Proof.
  intros Hsg Hip Hdot Hex.
  assert (Ddot : forallb dchar dot = true).
  { destruct Hdot as [[-> _]|(fp & -> & Hfp & _)]; [reflexivity|]. cbn [forallb]. now rewrite (dchar_digits fp Hfp). }
  assert (Dall : forallb dchar (sg ++ ip ++ dot ++ ex) = true).
  { rewrite !forallb_app, (dchar_sign sg Hsg), (dchar_digits ip Hip), Ddot, (dchar_exp ex Hex). reflexivity. }
  (* the mantissa starts with a digit or the point *)
  assert (Hu : exists c r, ip ++ dot ++ ex = c :: r /\ (is_digit c = true \/ c = 46%N)).
  { destruct ip as [|c r].
    - destruct Hdot as [[_ H]|(fp & -> & _ & _)]; [contradiction|]. cbn [app]. eauto.
    - cbn [forallb] in Hip. apply andb_true_iff in Hip as [Hc _]. cbn [app]. eauto. }
  destruct Hu as (c & r & Eu & Hc).
  assert (Cf : (c =? 45)%N = false /\ (c =? 43)%N = false /\ (c =? 105)%N = false /\ (c =? 110)%N = false /\ ascii_lower c = c).
  { unfold ascii_lower. destruct Hc as [Hc| ->]; [|repeat split; reflexivity].
    apply is_digit_bounds in Hc. clear - Hc. repeat split; try lia.
    destruct (N.leb_spec 65 c); [lia|reflexivity]. }
  destruct Cf as (C45 & C43 & C105 & C110 & Clow).
  unfold f_of_str. rewrite (py_strip_dchars _ Dall), (strip_us_dchars _ Dall).
  assert (Htake : take_sign (sg ++ ip ++ dot ++ ex) = (str_eqb sg [45%N], ip ++ dot ++ ex)).
  { rewrite Eu. destruct Hsg as [->|[->| ->]]; cbn [app take_sign str_eqb]; [now rewrite C45, C43|reflexivity|reflexivity]. }
  rewrite Htake.
  assert (Hlow : map ascii_lower (ip ++ dot ++ ex) = c :: map ascii_lower r) by (rewrite Eu; cbn [map]; now rewrite Clow).
  rewrite Hlow. unfold s_inf, s_infinity, s_nan. rewrite !str_eqb_hd_ne by assumption. cbn [orb].
  destruct (parse_exp_shape ex Hex) as [x Hx]. pose proof (exp_head ex Hex) as Hh.
  destruct Hdot as [[-> Hne]|(fp & -> & Hfp & Hne)].
  - (* no point *) cbn [app].
    rewrite (take_while_app_hd is_digit ip ex Hip), (drop_while_app_hd is_digit ip ex Hip);
      try (destruct ex; [reflexivity|]; now apply andb_true_iff in Hh as [-> _]).
    destruct ip as [|i0 ip']; [contradiction|].
    destruct ex as [|c0 r0].
    + cbv beta iota zeta. rewrite app_nil_r, Hx. eauto.
    + apply andb_true_iff in Hh as [_ Hh]. apply negb_true_iff in Hh. rewrite Hh.
      cbv beta iota zeta. rewrite app_nil_r, Hx. eauto.
  - (* a point *) cbn [app].
    rewrite (take_while_app_stop is_digit ip 46%N (fp ++ ex) Hip eq_refl),
            (drop_while_app_stop is_digit ip 46%N (fp ++ ex) Hip eq_refl).
    rewrite N.eqb_refl.
    rewrite (take_while_app_hd is_digit fp ex Hfp), (drop_while_app_hd is_digit fp ex Hfp);
      try (destruct ex; [reflexivity|]; now apply andb_true_iff in Hh as [-> _]).
    destruct (ip ++ fp) as [|d0 ds0] eqn:Ed; [contradiction|]. rewrite Hx. eauto.
Qed.

Lemma cls2_mem a b c : cls_mem [(a, a); (b, b)] [] c = true -> c = a \/ c = b.
Proof.
  unfold cls_mem, in_ranges. cbn [existsb fst snd negb]. intros H. clear - H. lia.
Qed.

Lemma sign_den s : re_den rsign s -> sign3 s.
Proof.
  intros H. apply ropt_den in H as [->|H]; [now left|]. destruct (inv_cls _ _ _ H) as (c & -> & M).
  apply cls2_mem in M as [->| ->]; [right; now right|right; now left].
Qed.

Lemma mantissa_den m : re_den re_mantissa m ->
  exists ip dot, m = ip ++ dot /\ forallb is_digit ip = true /\
    ((dot = [] /\ ip <> []) \/ exists fp, dot = 46%N :: fp /\ forallb is_digit fp = true /\ ip ++ fp <> []).
Proof.
  intros H. unfold re_mantissa in H. apply inv_alt in H as [H|H].
  - destruct (inv_cat _ _ _ H) as (ip & dot & -> & Hi & Hd). exists ip, dot. split; [reflexivity|].
    assert (A : all_digits ip = true) by (eapply re_all_digits; [exact Hi|reflexivity|reflexivity]).
    split; [now apply all_digits_forallb|].
    assert (Ne : ip <> []) by (intros ->; discriminate A).
    apply ropt_den in Hd as [->|Hd]; [left; auto|right].
    destruct (inv_cat _ _ _ Hd) as (p & fp & -> & Hp & Hf). apply rch_den in Hp. subst p.
    exists fp. split; [reflexivity|]. split; [eapply re_digits_den; [exact Hf|reflexivity]|].
    intros E. apply app_eq_nil in E as [E _]. contradiction.
  - destruct (inv_cat _ _ _ H) as (p & fp & -> & Hp & Hf). apply rch_den in Hp. subst p.
    exists [], (46%N :: fp). split; [reflexivity|]. split; [reflexivity|]. right. exists fp. split; [reflexivity|].
    assert (A : all_digits fp = true) by (eapply re_all_digits; [exact Hf|reflexivity|reflexivity]).
    split; [now apply all_digits_forallb|]. cbn [app]. intros ->. discriminate A.
Qed.

Lemma exponent_den ex : re_den re_exponent ex -> exp_shape ex.
Proof.
  intros H. unfold re_exponent in H. apply ropt_den in H as [->|H]; [now left|right].
  destruct (inv_cat _ _ _ H) as (p & rest & -> & Hp & Hr). destruct (inv_cls _ _ _ Hp) as (c & -> & M).
  destruct (inv_cat _ _ _ Hr) as (sg & ds & -> & Hsg & Hds).
  exists c, sg, ds. split; [reflexivity|]. split; [now apply cls2_mem|]. split; [now apply sign_den|].
  eapply re_all_digits; [exact Hds|reflexivity|reflexivity].
Qed.

(** python float() reads every xsd:double literal ( the transcribed lexical space re_double ) *)
Lemma py_float_double s : re_matches re_double s = true -> exists f, py_float (PStr s) = Ok (PFloat f).
Proof.
  intros H. apply re_matches_den in H. unfold re_double in H.
  apply inv_alt in H as [H|H]; [|apply inv_alt in H as [H|H]; [|apply inv_alt in H as [H|H]]].
  - unfold re_double_num in H. destruct (inv_cat _ _ _ H) as (sg & rest & -> & Hsg & Hr).
    destruct (inv_cat _ _ _ Hr) as (m & ex & -> & Hm & Hex).
    destruct (mantissa_den m Hm) as (ip & dot & -> & Hip & Hdot).
    rewrite <- app_assoc. cbn [py_float].
    destruct (f_of_str_double sg ip dot ex (sign_den _ Hsg) Hip Hdot (exponent_den _ Hex)) as [f ->].
    cbn [bind]. eauto.
  - apply rlit_den in H. subst s. vm_compute. eauto.
  - apply rlit_den in H. subst s. vm_compute. eauto.
  - apply rlit_den in H. subst s. vm_compute. eauto.
Qed.

(** R for XsdDouble ( c:v text ... /@val of xsd:double ) and ST_AxisUnit: every xsd:double literal is read;
    no length limit: python float never raises on a numeric literal *)
Theorem R_XsdDouble : forall s, re_matches re_double s = true -> exists v, XsdDouble__from_xml (PStr s) = Ok v.
Proof.
  intros s H. destruct (py_float_double s H) as [f E].
  unfold XsdDouble__from_xml, XsdDouble__convert_from_xml. rewrite E. eauto.
Qed.

Theorem R_AxisUnit : forall s, re_matches re_double s = true -> exists v, ST_AxisUnit__from_xml (PStr s) = Ok v.
Proof.
  intros s H. destruct (py_float_double s H) as [f E].
  unfold ST_AxisUnit__from_xml, ST_AxisUnit__convert_from_xml. rewrite E. eauto.
Qed.

Example R_double_examples :
  re_matches re_double [43; 46; 53; 101; 45; 51]%N = true
  /\ XsdDouble__from_xml (PStr [43; 46; 53; 101; 45; 51]%N) = Ok (PFloat (Fin 4611686018427388 (-63)))
  /\ re_matches re_double [49; 46]%N = true /\ XsdDouble__from_xml (PStr [49; 46]%N) = Ok (PFloat (Fin 4503599627370496 (-52)))
  /\ re_matches re_double [45; 73; 78; 70]%N = true /\ ST_AxisUnit__from_xml (PStr [45; 73; 78; 70]%N) = Ok (PFloat NInf)
  /\ re_matches re_double [78; 97; 78]%N = true /\ XsdDouble__from_xml (PStr [78; 97; 78]%N) = Ok (PFloat NaN).
Proof. vm_compute. repeat split. Qed.

(** ---- identity readers whose type is a pattern facet: ST_ContentType, ST_Extension ( OPC ) ---- *)
Theorem R_ContentType : forall s, exists v, ST_ContentType__from_xml (PStr s) = Ok v.
Proof. intros s. eexists. reflexivity. Qed.
Theorem R_Extension : forall s, exists v, ST_Extension__from_xml (PStr s) = Ok v.
Proof. intros s. eexists. reflexivity. Qed.
