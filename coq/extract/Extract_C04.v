From Coq Require Import Extraction ExtrOcamlBasic.
From V.model Require Import TextRun.
Extraction Language OCaml.
Cd "extract".
Extraction "c04.ml" run_c04.
Cd "..".
