(** Instance obligations over the tables regenerated from /repo (gen/GenC20.v).
    The domain is finite and complete: every check is a boolean over the whole table,
    computed by vm_compute and lifted with forallb_forall. *)
From V.lib Require Import Prelude Wire.
From V.model Require Import EnumLib.
From V.proofs Require Import EnumLib_proofs.
From V.gen Require Import GenC20.

Lemma no_unmodelled : n_unmodelled = 0.
Proof. vm_compute. reflexivity. Qed.

(** *** bijection *)
Lemma all_bij : forallb (fun e => forallb (fun m => memN (m_id m) known_bij || bij_row_ok (e_rows e) m) (e_rows e)) enums = true.
Proof. vm_compute. reflexivity. Qed.

Lemma bijective : forall e, In e enums -> forall m, In m (e_rows e) ->
  has_xml (canon_of (e_rows e) m) = true -> memN (m_id m) known_bij = false ->
  let rows := e_rows e in let c := canon_of rows m in
  In c (canonical rows) /\ m_value c = m_value m
  /\ (forall m', In m' (canonical rows) -> m_xml m' = m_xml c -> m' = c)
  /\ to_xml rows (m_value m) = Ok (token c)
  /\ from_xml rows (token c) = Ok c
  /\ m_xml m = m_xml c.
Proof.
  intros e He m Hm Hx Hk rows c.
  pose proof (proj1 (forallb_forall _ _) all_bij e He) as H. cbv beta in H.
  pose proof (proj1 (forallb_forall _ _) H m Hm) as H'. cbv beta in H'.
  rewrite Hk in H'. cbn [negb orb] in H'. unfold bij_row_ok in H'. rewrite Hx in H'. cbn [negb orb] in H'.
  destruct (canon_of_spec (e_rows e) m Hm) as (Hc & Hv & _).
  destruct (bij_ok_sound (e_rows e) m Hm Hx H') as (D & T & F & X).
  repeat split; auto.
Qed.

Lemma all_bij_refuted : forallb (fun e => forallb (fun m => negb (memN (m_id m) known_bij) || negb (bij_row_ok (e_rows e) m)) (e_rows e)) enums = true.
Proof. vm_compute. reflexivity. Qed.

Lemma bij_known_refuted : forall e, In e enums -> forall m, In m (e_rows e) ->
  memN (m_id m) known_bij = true ->
  has_xml (canon_of (e_rows e) m) = true /\ bij_ok (e_rows e) m = false.
Proof.
  intros e He m Hm Hk.
  pose proof (proj1 (forallb_forall _ _) all_bij_refuted e He) as H. cbv beta in H.
  pose proof (proj1 (forallb_forall _ _) H m Hm) as H'. cbv beta in H'.
  rewrite Hk in H'. cbn [negb orb] in H'. apply negb_true_iff in H'. unfold bij_row_ok in H'.
  apply orb_false_iff in H' as [H1 H2]. apply negb_false_iff in H1. auto.
Qed.

(** a recorded finding is THIS failure: every excluded row has a recorded resolution, and reading the row's token
    gives exactly the recorded member (another member sharing the token, or the row itself when it is the one the
    shared token resolves to) *)
Lemma all_known_back : forallb (fun e => forallb (fun m =>
    negb (memN (m_id m) known_bij)
    || match back_of known_back (m_id m) with Some j => back_is (e_rows e) m j | None => false end) (e_rows e)) enums = true.
Proof. vm_compute. reflexivity. Qed.

Lemma known_back_resolution : forall e, In e enums -> forall m, In m (e_rows e) ->
  memN (m_id m) known_bij = true ->
  exists j m', back_of known_back (m_id m) = Some j
    /\ from_xml (e_rows e) (token (canon_of (e_rows e) m)) = Ok m' /\ m_id m' = j.
Proof.
  intros e He m Hm Hk.
  pose proof (proj1 (forallb_forall _ _) all_known_back e He) as H. cbv beta in H.
  pose proof (proj1 (forallb_forall _ _) H m Hm) as H'. cbv beta in H'.
  rewrite Hk in H'. cbn [negb orb] in H'.
  destruct (back_of known_back (m_id m)) as [j|]; [|discriminate].
  unfold back_is in H'. destruct (from_xml (e_rows e) (token (canon_of (e_rows e) m))) as [m'|] eqn:E; [|discriminate].
  apply N.eqb_eq in H'. exists j, m'. auto.
Qed.

(** *** tokens in the schema *)
Local Notation tok_ok := (EnumLib.tok_ok stypes).
Local Notation use_rows := (EnumLib.use_rows enums).

Lemma all_uses_resolve : forallb (fun u => match enum_by_id enums (u_enum u) with Some _ => true | None => false end) uses = true.
Proof. vm_compute. reflexivity. Qed.

Lemma uses_resolve : forall u, In u uses -> exists e, In e enums /\ e_id e = u_enum u /\ enum_by_id enums (u_enum u) = Some e.
Proof.
  intros u Hu. pose proof (proj1 (forallb_forall _ _) all_uses_resolve u Hu) as H. cbv beta in H.
  destruct (enum_by_id enums (u_enum u)) as [e|] eqn:E; [|discriminate].
  exists e. unfold enum_by_id in E. apply find_some in E as E'. destruct E' as [Hin Hid].
  apply N.eqb_eq in Hid. auto.
Qed.

Lemma all_enums_used : forallb (fun e => existsb (fun u => N.eqb (u_enum u) (e_id e)) uses) enums = true.
Proof. vm_compute. reflexivity. Qed.

Lemma every_enum_used : forall e, In e enums -> exists u, In u uses /\ u_enum u = e_id e.
Proof.
  intros e He. pose proof (proj1 (forallb_forall _ _) all_enums_used e He) as H. cbv beta in H.
  apply existsb_exists in H as (u & Hu & E). apply N.eqb_eq in E. eauto.
Qed.

Lemma all_tok : forallb (fun u => forallb (fun m => memNN (u_id u, m_id m) known_tok || tok_ok u m) (use_rows u)) uses = true.
Proof. vm_compute. reflexivity. Qed.

Lemma tokens_in_schema : forall u, In u uses -> forall e, enum_by_id enums (u_enum u) = Some e ->
  forall m, In m (canonical (e_rows e)) -> has_xml m = true ->
  memNN (u_id u, m_id m) known_tok = false ->
  token_in_P stypes (u_stype u) (token m).
Proof.
  intros u Hu e He m Hm Hx Hk.
  pose proof (proj1 (forallb_forall _ _) all_tok u Hu) as H. cbv beta in H.
  unfold use_rows in H. rewrite He in H.
  pose proof (proj1 (forallb_forall _ _) H m Hm) as H'. cbv beta in H'.
  rewrite Hk in H'. cbn [negb orb] in H'. unfold tok_ok in H'. rewrite Hx in H'. cbn [negb orb] in H'.
  apply token_in_sound. exact H'.
Qed.

Lemma all_tok_refuted : forallb (fun u => forallb (fun m => negb (memNN (u_id u, m_id m) known_tok) || negb (tok_ok u m)) (use_rows u)) uses = true.
Proof. vm_compute. reflexivity. Qed.

Lemma tok_known_refuted : forall u, In u uses -> forall m, In m (use_rows u) ->
  memNN (u_id u, m_id m) known_tok = true ->
  has_xml m = true /\ token_in stypes (u_stype u) (token m) = false.
Proof.
  intros u Hu m Hm Hk.
  pose proof (proj1 (forallb_forall _ _) all_tok_refuted u Hu) as H. cbv beta in H.
  pose proof (proj1 (forallb_forall _ _) H m Hm) as H'. cbv beta in H'.
  rewrite Hk in H'. cbn [negb orb] in H'. apply negb_true_iff in H'. unfold tok_ok in H'.
  apply orb_false_iff in H' as [H1 H2]. apply negb_false_iff in H1. auto.
Qed.

(** *** preset table *)
Lemma all_presets : forallb (fun m => memN (m_id m) known_presets || preset_ok spec_table preset_defs m) (canonical shape_rows) = true.
Proof. vm_compute. reflexivity. Qed.

Lemma presets : forall m, In m (canonical shape_rows) -> memN (m_id m) known_presets = false ->
  exists sp d, find_spec spec_table (m_value m) = Some sp /\ sp_value sp = m_value m
    /\ find_def preset_defs (token m) = Some d /\ In d preset_defs /\ pd_name d = token m
    /\ has_xml m = true
    /\ map fst (sp_av sp) = map fst (pd_av d)
    /\ map (fun p => Some (snd p)) (sp_av sp) = map (fun p => parse_val (snd p)) (pd_av d).
Proof.
  intros m Hm Hk. pose proof (proj1 (forallb_forall _ _) all_presets m Hm) as H. cbv beta in H.
  rewrite Hk in H. cbn [negb orb] in H. apply preset_ok_sound. exact H.
Qed.

Lemma all_presets_refuted : forallb (fun m => negb (memN (m_id m) known_presets) || negb (preset_ok spec_table preset_defs m)) (canonical shape_rows) = true.
Proof. vm_compute. reflexivity. Qed.

Lemma presets_known_refuted : forall m, In m (canonical shape_rows) -> memN (m_id m) known_presets = true ->
  preset_ok spec_table preset_defs m = false.
Proof.
  intros m Hm Hk. pose proof (proj1 (forallb_forall _ _) all_presets_refuted m Hm) as H. cbv beta in H.
  rewrite Hk in H. cbn [negb orb] in H. apply negb_true_iff in H. exact H.
Qed.

(** the table has no key outside the enumeration *)
Lemma all_spec_keys : forallb (fun sp => existsb (fun m => Z.eqb (m_value m) (sp_value sp)) (canonical shape_rows)) spec_table = true.
Proof. vm_compute. reflexivity. Qed.

Lemma spec_keys_are_members : forall sp, In sp spec_table ->
  exists m, In m (canonical shape_rows) /\ m_value m = sp_value sp.
Proof.
  intros sp Hs. pose proof (proj1 (forallb_forall _ _) all_spec_keys sp Hs) as H. cbv beta in H.
  apply existsb_exists in H as (m & Hm & E). apply Z.eqb_eq in E. eauto.
Qed.

Lemma shape_enum_in : In shape_enum enums.
Proof. apply (nth_error_In enums shape_enum_index). reflexivity. Qed.

(** a shape whose table row passes reports, when new, exactly the definition's guides *)
Lemma preset_read_back : forall m, In m (canonical shape_rows) -> memN (m_id m) known_presets = false ->
  memN (m_id m) known_bij = false -> has_xml m = true ->
  exists d l, find_def preset_defs (token m) = Some d
    /\ init_adjustments shape_rows spec_table (token m) [] = Ok l
    /\ map a_name l = map fst (pd_av d)
    /\ map (fun a => Some (a_def a)) l = map (fun p => parse_val (snd p)) (pd_av d)
    /\ forall a, In a l -> a_actual a = None.
Proof.
  intros m Hm Hk Hb Hx.
  destruct (presets m Hm Hk) as (sp & d & S & Sv & D & _ & _ & _ & E1 & E2).
  (* the round trip for this member, from the bijection instance *)
  assert (F : from_xml shape_rows (token m) = Ok m).
  { assert (Hm' : In m (e_rows shape_enum)) by (apply canonical_incl; auto).
    assert (Hc : canon_of (e_rows shape_enum) m = m) by (apply canon_of_canonical; auto).
    pose proof (bijective shape_enum shape_enum_in m Hm') as B. cbv zeta in B. rewrite Hc in B.
    destruct (B Hx Hb) as (_ & _ & _ & _ & F & _). exact F. }
  assert (Dv : default_adjustments spec_table (m_value m) = Ok (sp_av sp)).
  { unfold default_adjustments. rewrite S. reflexivity. }
  destruct (init_adjustments_fresh _ _ _ _ _ F Dv) as (l & I & N1 & N2 & N3).
  exists d, l. repeat split; auto.
  - congruence.
  - rewrite <- E2. rewrite <- (map_map a_def Some), N2, map_map. reflexivity.
Qed.

(** *** chart types *)
Lemma chart_values_distinct : NoDup (map snd chart_types).
Proof. apply nodupZ_sound. vm_compute. reflexivity. Qed.

Lemma all_charts : forallb (fun r => memN (c_id r) known_charts || chart_ok stypes chart_types r) chart_rows = true.
Proof. vm_compute. reflexivity. Qed.

Lemma charts : forall r, In r chart_rows -> memN (c_id r) known_charts = false ->
  In (c_value r) (map snd chart_types)
  /\ (forall p, In p (c_tokens r) -> token_in_P stypes (fst p) (snd p))
  /\ c_inspected r = Some (c_value r).
Proof.
  intros r Hr Hk. pose proof (proj1 (forallb_forall _ _) all_charts r Hr) as H. cbv beta in H.
  rewrite Hk in H. cbn [negb orb] in H. apply chart_ok_sound. exact H.
Qed.

Lemma all_charts_refuted : forallb (fun r => negb (memN (c_id r) known_charts) || negb (chart_ok stypes chart_types r)) chart_rows = true.
Proof. vm_compute. reflexivity. Qed.

Lemma charts_known_refuted : forall r, In r chart_rows -> memN (c_id r) known_charts = true ->
  chart_ok stypes chart_types r = false.
Proof.
  intros r Hr Hk. pose proof (proj1 (forallb_forall _ _) all_charts_refuted r Hr) as H. cbv beta in H.
  rewrite Hk in H. cbn [negb orb] in H. apply negb_true_iff in H. exact H.
Qed.

Lemma dispatch_is_table : forall v w, writer_dispatch chart_rows v = Ok w ->
  exists r, In r chart_rows /\ c_value r = v /\ c_writer r = w.
Proof. intros. apply writer_dispatch_sound. auto. Qed.
