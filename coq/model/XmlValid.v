(** C03 model: XML trees, schema tables (regenerated from the XSDs by tx/tx_c03.py),
    the validator [valid_node], its diagnostic twin [errs_node], the xmlchemy operation
    language at tree level ([xop], [apply_op]) and the order invariant [order_valid].
    Definitions only. *)
From Coq Require Import String Ascii.
From V.lib Require Import Prelude PyFloat PyVal.
From V.model Require Import Schema SchemaMatch Xmlchemy SimpleTypeLib.

(** ---- trees ---- *)
Definition aname := N.                  (* attribute names are interned; 0 = character content *)
Definition a_text : aname := 0%N.

Inductive node := Elem (t : tag) (attrs : list (aname * str)) (kids : list node).

Definition tag_of (n : node) : tag := match n with Elem t _ _ => t end.
Definition attrs_of (n : node) : list (aname * str) := match n with Elem _ a _ => a end.
Definition kids_of (n : node) : list node := match n with Elem _ _ k => k end.
Definition ktags (ks : list node) : list tag := map tag_of ks.

(** ASCII string literal -> code points (used by the generated template terms only) *)
Definition Tx (s : string) : str := map (fun a => N_of_ascii a) (list_ascii_of_string s).

(** ---- schema tables ---- *)
Record adecl := { ad_name : aname; ad_lex : lexspec; ad_req : bool }.
Record ctype := {
  ct_cm : cm;                           (* content model over child tags; 0 = xsd:any *)
  ct_attrs : list adecl;
  ct_kids : list (tag * N);             (* declared child tag -> type id *)
  ct_text : option lexspec              (* Some: simple content; None: element-only content *)
}.
Record schema := { sc_types : list (N * ctype); sc_globals : list (tag * N) }.

Fixpoint assocN {A} (k : N) (l : list (N * A)) : option A :=
  match l with
  | [] => None
  | (k', v) :: l' => if N.eqb k k' then Some v else assocN k l'
  end.

Definition lookup_type (s : schema) (ty : N) : option ctype := assocN ty (sc_types s).
Fixpoint find_adecl (a : aname) (l : list adecl) : option adecl :=
  match l with
  | [] => None
  | d :: l' => if N.eqb a (ad_name d) then Some d else find_adecl a l'
  end.

(** a child tag the content model does not name can only match an xsd:any particle *)
Definition norm_tag (c : cm) (t : tag) : tag := if memt t (tags_of c) then t else tag_any.

(** type of a child: declared by the parent type, else (xsd:any content) a global element;
    None = not judged (lax wildcard content, children of schemas that are not loaded) *)
Definition kid_type (s : schema) (T : ctype) (t : tag) : option N :=
  match assocN t (ct_kids T) with
  | Some ty => Some ty
  | None => if memt t (tags_of (ct_cm T)) then None else assocN t (sc_globals s)
  end.

(** ---- lexical check used by the validator ----
    xsd:double gets a real lexical check here; a lexical space the translator could not
    express (a pattern facet outside the ones modelled) is not judged. *)
Definition c_e : N := 101%N.
Definition c_E : N := 69%N.
Definition unsigned_decimal (s : str) : bool :=
  let ip := take_while is_digit s in
  match drop_while is_digit s with
  | [] => negb (match ip with [] => true | _ => false end)
  | c :: fr => N.eqb c c_dot && forallb is_digit fr && negb (match ip, fr with [], [] => true | _, _ => false end)
  end.
Definition strip_any_sign (s : str) : str :=
  match s with c :: r => if N.eqb c SimpleTypeLib.c_minus || N.eqb c c_plus then r else s | [] => s end.
Definition lex_double (s : str) : bool :=
  mem_str s [[73; 78; 70]; [45; 73; 78; 70]; [78; 97; 78]]%N ||
  (let b := strip_any_sign s in
   let m := take_while (fun c => negb (N.eqb c c_e || N.eqb c c_E)) b in
   match drop_while (fun c => negb (N.eqb c c_e || N.eqb c c_E)) b with
   | [] => unsigned_decimal m
   | _ :: ex => unsigned_decimal m && all_digits (strip_any_sign ex)
   end).

Fixpoint vlex (t : lexspec) (s : str) : bool :=
  match t with
  | LDouble => lex_double s
  | LUnknown => true
  | LUnion l => (fix any (l : list lexspec) := match l with [] => false | t :: l' => vlex t s || any l' end) l
  | _ => lex_ok t s
  end.

Definition is_ws (c : N) : bool := N.eqb c 32 || N.eqb c 9 || N.eqb c 10 || N.eqb c 13.

Definition mem_pair (p : tag * aname) (l : list (tag * aname)) : bool :=
  existsb (fun q => N.eqb (fst p) (fst q) && N.eqb (snd p) (snd q)) l.

(** one attribute (or the character content) of an element of type T.
    ex: recorded deviations (tag, attribute) whose lexical check is skipped. *)
Definition attr_ok (ex : list (tag * aname)) (T : ctype) (t : tag) (av : aname * str) : bool :=
  let (a, v) := av in
  if N.eqb a a_text then
    match ct_text T with
    | Some lx => vlex lx v
    | None => forallb is_ws v
    end
  else
    match find_adecl a (ct_attrs T) with
    | Some d => mem_pair (t, a) ex || vlex (ad_lex d) v
    | None => false
    end.

Definition has_attr (a : aname) (attrs : list (aname * str)) : bool := existsb (fun av => N.eqb a (fst av)) attrs.
Definition req_ok (T : ctype) (attrs : list (aname * str)) : bool :=
  forallb (fun d => negb (ad_req d) || has_attr (ad_name d) attrs) (ct_attrs T).
(** simple content with no character data at all is the empty string *)
Definition text_present_ok (T : ctype) (attrs : list (aname * str)) : bool :=
  match ct_text T with
  | Some lx => has_attr a_text attrs || vlex lx []
  | None => true
  end.

(** recorded deviations of the second kind: a child tag c under a parent tag t travels in the
    same list as (t, content_key c); such children are left out of the content-model match *)
Definition content_key (c : tag) : N := (1000000 + c)%N.
Definition kept (ex : list (tag * aname)) (t : tag) (kts : list tag) : list tag :=
  filter (fun c => negb (mem_pair (t, content_key c) ex)) kts.

Definition local_ok (ex : list (tag * aname)) (T : ctype) (t : tag) (attrs : list (aname * str)) (kts : list tag) : bool :=
  cm_match (ct_cm T) (map (norm_tag (ct_cm T)) (kept ex t kts))
  && forallb (attr_ok ex T t) attrs && req_ok T attrs && text_present_ok T attrs.

(** THE VALIDATOR: the element's children match the content model of its type, every
    attribute present is declared and lexically valid, every required attribute is
    present, and every child is valid at its own type. *)
Fixpoint valid_node (s : schema) (ex : list (tag * aname)) (ty : N) (n : node) {struct n} : bool :=
  match n with
  | Elem t attrs kids =>
      match lookup_type s ty with
      | None => false
      | Some T =>
          local_ok ex T t attrs (ktags kids)
          && (fix all (ks : list node) : bool :=
                match ks with
                | [] => true
                | k :: ks' =>
                    match kid_type s T (tag_of k) with
                    | Some ty' => valid_node s ex ty' k
                    | None => true
                    end && all ks'
                end) kids
      end
  end.

Definition valid_root (s : schema) (ex : list (tag * aname)) (n : node) : bool :=
  match assocN (tag_of n) (sc_globals s) with
  | Some ty => valid_node s ex ty n
  | None => false
  end.

(** ---- diagnostics: the same judgement, as a list of errors ---- *)
(* kind: 1 content model, 2 undeclared attribute, 3 attribute value, 4 required attribute
   missing, 5 character content, 6 unknown type id, 7 no global element for the root *)
Record verr := { ve_kind : N; ve_elem : tag; ve_what : N; ve_pos : N }.

Fixpoint cm_dead (c : cm) : bool :=
  match c with
  | Elt _ => false
  | Seq l => (fix any (l : list cm) := match l with [] => false | c :: l' => cm_dead c || any l' end) l
  | Alt l => (fix all (l : list cm) := match l with [] => true | c :: l' => cm_dead c && all l' end) l
  | Rep mn _ c => negb (Nat.eqb mn 0) && cm_dead c
  end.
(* index and tag of the first child after which no completion exists; (length, 0) when the
   sequence is a proper prefix of an accepted one *)
Fixpoint cm_first_bad (c : cm) (w : list tag) (i : N) : N * tag :=
  match w with
  | [] => (i, 0%N)
  | a :: w' => let c' := deriv a c in if cm_dead c' then (i, a) else cm_first_bad c' w' (i + 1)%N
  end.

Definition attr_errs (ex : list (tag * aname)) (T : ctype) (t : tag) (attrs : list (aname * str)) : list verr :=
  flat_map (fun av =>
    if attr_ok ex T t av then []
    else [{| ve_kind := (if N.eqb (fst av) a_text then 5 else
                         match find_adecl (fst av) (ct_attrs T) with Some _ => 3 | None => 2 end)%N;
             ve_elem := t; ve_what := fst av; ve_pos := 0%N |}]) attrs.
Definition req_errs (T : ctype) (t : tag) (attrs : list (aname * str)) : list verr :=
  flat_map (fun d => if negb (ad_req d) || has_attr (ad_name d) attrs then []
                     else [{| ve_kind := 4%N; ve_elem := t; ve_what := ad_name d; ve_pos := 0%N |}]) (ct_attrs T).
Definition local_errs (ex : list (tag * aname)) (T : ctype) (t : tag) (attrs : list (aname * str)) (kts : list tag) : list verr :=
  (if cm_match (ct_cm T) (map (norm_tag (ct_cm T)) (kept ex t kts)) then []
   else let (i, a) := cm_first_bad (ct_cm T) (map (norm_tag (ct_cm T)) (kept ex t kts)) 0%N in
        [{| ve_kind := 1%N; ve_elem := t; ve_what := nth (N.to_nat i) (kept ex t kts) 0%N; ve_pos := i |}])
  ++ attr_errs ex T t attrs ++ req_errs T t attrs
  ++ (if text_present_ok T attrs then [] else [{| ve_kind := 5%N; ve_elem := t; ve_what := 0%N; ve_pos := 0%N |}]).

Fixpoint errs_node (s : schema) (ex : list (tag * aname)) (ty : N) (n : node) {struct n} : list verr :=
  match n with
  | Elem t attrs kids =>
      match lookup_type s ty with
      | None => [{| ve_kind := 6%N; ve_elem := t; ve_what := ty; ve_pos := 0%N |}]
      | Some T =>
          local_errs ex T t attrs (ktags kids)
          ++ (fix all (ks : list node) : list verr :=
                match ks with
                | [] => []
                | k :: ks' =>
                    match kid_type s T (tag_of k) with
                    | Some ty' => errs_node s ex ty' k
                    | None => []
                    end ++ all ks'
                end) kids
      end
  end.
Definition errs_root (s : schema) (ex : list (tag * aname)) (n : node) : list verr :=
  match assocN (tag_of n) (sc_globals s) with
  | Some ty => errs_node s ex ty n
  | None => [{| ve_kind := 7%N; ve_elem := tag_of n; ve_what := 0%N; ve_pos := 0%N |}]
  end.

(** ---- generated template rows ---- *)
Record tpl := { tp_id : N; tp_ty : N; tp_complete : bool; tp_node : node }.

(** ==== the xmlchemy operation language at tree level ==== *)

(** children-list operations of xmlchemy.py on nodes: the list-level functions of
    model/Xmlchemy.v decide WHERE by tags only *)
Fixpoint ins_node_at (s : tag) (x : node) (ks : list node) : list node :=
  match ks with
  | [] => [x]
  | c :: ks' => if N.eqb (tag_of c) s then x :: c :: ks' else c :: ins_node_at s x ks'
  end.
Definition insert_node (x : node) (Sx : list tag) (ks : list node) : list node :=
  match first_found Sx (ktags ks) with
  | Some s => ins_node_at s x ks
  | None => ks ++ [x]
  end.
Definition remove_nodes (ts : list tag) (ks : list node) : list node :=
  filter (fun c => negb (memt (tag_of c) ts)) ks.

Fixpoint set_assoc (a : aname) (v : str) (l : list (aname * str)) : list (aname * str) :=
  match l with
  | [] => [(a, v)]
  | (a', v') :: l' => if N.eqb a a' then (a, v) :: l' else (a', v') :: set_assoc a v l'
  end.
Definition del_assoc (a : aname) (l : list (aname * str)) : list (aname * str) :=
  filter (fun av => negb (N.eqb a (fst av))) l.

(** operations on ONE element (the target of the path) *)
Inductive lop :=
| InsertChild (x : node) (Sx : list tag)                 (* _insert_x / _add_x *)
| GetOrAdd (x : node) (Sx : list tag)                    (* get_or_add_x *)
| Remove (ts : list tag)                                 (* _remove_x / remove_all *)
| ChangeTo (x : node) (members Sx : list tag)            (* get_or_change_to_x *)
| SetAttr (a : aname) (d : desc) (v : pyval)             (* attribute setter: to_xml, THEN set *)
| DelAttr (a : aname).                                   (* optional attribute assigned None *)

Definition apply_lop (o : lop) (n : node) : node :=
  match n with
  | Elem t attrs kids =>
      match o with
      | InsertChild x Sx => Elem t attrs (insert_node x Sx kids)
      | GetOrAdd x Sx => if memt (tag_of x) (ktags kids) then n else Elem t attrs (insert_node x Sx kids)
      | Remove ts => Elem t attrs (remove_nodes ts kids)
      | ChangeTo x members Sx =>
          if memt (tag_of x) (ktags kids) then n
          else Elem t attrs (insert_node x Sx (remove_nodes members kids))
      | SetAttr a d v =>
          match desc_to_xml d v with
          | Ok (PStr s) => Elem t (set_assoc a s attrs) kids
          | _ => n                                        (* the setter raised before obj.set *)
          end
      | DelAttr a => Elem t (del_assoc a attrs) kids
      end
  end.

Fixpoint upd_nth {A} (i : nat) (f : A -> A) (l : list A) : list A :=
  match l, i with
  | [], _ => []
  | x :: l', O => f x :: l'
  | x :: l', S i' => x :: upd_nth i' f l'
  end.

(** apply f at the element reached by the child-index path (a path that leaves the tree
    changes nothing) *)
Fixpoint at_path (f : node -> node) (p : list nat) (n : node) : node :=
  match p with
  | [] => f n
  | i :: p' => match n with Elem t a ks => Elem t a (upd_nth i (at_path f p') ks) end
  end.

Record xop := { xo_path : list nat; xo_op : lop }.
Definition apply_op (n : node) (o : xop) : node := at_path (apply_lop (xo_op o)) (xo_path o) n.
Definition run_ops (n : node) (ops : list xop) : node := fold_left apply_op ops n.

(** ---- the order invariant ---- *)
(* two different tags of one rank coexist only in a group that admits several children *)
Definition amo_b (f : flat) (l : list tag) : bool :=
  forallb (fun a => forallb (fun b => N.eqb a b || negb (Nat.eqb (rank f a) (rank f b)) || multi f (rank f a)) l) l.
(* types whose content model holds a wildcard are not order-checked *)
Definition order_checked (T : ctype) : bool := negb (memt tag_any (tags_of (ct_cm T))).

Definition attr_lex_ok (T : ctype) (av : aname * str) : bool :=
  match find_adecl (fst av) (ct_attrs T) with
  | Some d => has_unknown (ad_lex d) || lex_ok (ad_lex d) (snd av)   (* unmodelled pattern: not judged *)
  | None => true                                          (* undeclared attributes are not judged here *)
  end.

Definition order_local (T : ctype) (attrs : list (aname * str)) (kts : list tag) : bool :=
  (negb (order_checked T)
   || (let f := flatten (ct_cm T) in
       forallb (known f) kts && ordb (rank f) kts && amo_b f kts))
  && forallb (attr_lex_ok T) attrs.

(** OrderValid: at every element whose type is known, the children are all named by the
    content model, rank-sorted for its flattening, choice members exclusive, and every
    declared attribute holds a value of its lexical space. *)
Fixpoint order_valid (s : schema) (ty : N) (n : node) {struct n} : bool :=
  match n with
  | Elem t attrs kids =>
      match lookup_type s ty with
      | None => true
      | Some T =>
          order_local T attrs (ktags kids)
          && (fix all (ks : list node) : bool :=
                match ks with
                | [] => true
                | k :: ks' =>
                    match kid_type s T (tag_of k) with
                    | Some ty' => order_valid s ty' k
                    | None => true
                    end && all ks'
                end) kids
      end
  end.

(** ---- admissibility of an operation at an element of type T ---- *)
(* no sibling of another tag shares the rank of x in a group that admits one child only *)
Definition addable (f : flat) (x : tag) (l : list tag) : bool :=
  forallb (fun b => N.eqb x b || negb (Nat.eqb (rank f x) (rank f b)) || multi f (rank f x)) l.

(* the inserted subtree is itself in order at the type the parent gives it *)
Definition child_ok (s : schema) (T : ctype) (x : node) : bool :=
  match kid_type s T (tag_of x) with Some ty' => order_valid s ty' x | None => true end.

Definition adm_lop (s : schema) (T : ctype) (o : lop) (n : node) : bool :=
  let f := flatten (ct_cm T) in
  let kts := ktags (kids_of n) in
  match o with
  | InsertChild x Sx =>
      order_checked T && decl_ok f (tag_of x) Sx && addable f (tag_of x) kts && child_ok s T x
  | GetOrAdd x Sx =>
      order_checked T && decl_ok f (tag_of x) Sx && addable f (tag_of x) kts && child_ok s T x
  | Remove _ => true
  | ChangeTo x members Sx =>
      order_checked T && decl_ok f (tag_of x) Sx
      && addable f (tag_of x) (remove_all members kts) && child_ok s T x
  | SetAttr a d _ =>
      match find_adecl a (ct_attrs T) with
      | Some ad => write_ok d (ad_lex ad)
      | None => true
      end
  | DelAttr _ => true
  end.

(* follow the path, typing each step; an untyped region or a path that leaves the tree
   carries no obligation *)
Fixpoint adm_at (s : schema) (ty : N) (n : node) (p : list nat) (o : lop) : bool :=
  match lookup_type s ty with
  | None => true
  | Some T =>
      match p with
      | [] => adm_lop s T o n
      | i :: p' =>
          match nth_error (kids_of n) i with
          | Some k => match kid_type s T (tag_of k) with
                      | Some ty' => adm_at s ty' k p' o
                      | None => true
                      end
          | None => true
          end
      end
  end.
Definition adm_op (s : schema) (ty : N) (n : node) (o : xop) : bool := adm_at s ty n (xo_path o) (xo_op o).

(** every operation of the sequence is admissible in the state it is applied to *)
Fixpoint all_adm (s : schema) (ty : N) (n : node) (ops : list xop) : Prop :=
  match ops with
  | [] => True
  | o :: ops' => adm_op s ty n o = true /\ all_adm s ty (apply_op n o) ops'
  end.

(** ---- generated declaration rows (instance of the operation theorem) ---- *)
Record decl := { dc_id : N; dc_ty : N; dc_child : tag; dc_succ : list tag }.
(* at_grp: one group per (element class, attribute); a class registered for a tag that has
   several XSD types yields one row per type *)
Record attrdecl := { at_id : N; at_grp : N; at_ty : N; at_name : aname; at_desc : desc }.

Definition decl_row_ok (s : schema) (r : decl) : bool :=
  match lookup_type s (dc_ty r) with
  | Some T => negb (order_checked T) || decl_ok (flatten (ct_cm T)) (dc_child r) (dc_succ r)
  | None => false
  end.
(* 0 holds, 1 fails, 2 not judged (custom simple-type class, unmodelled pattern) *)
Definition attr_row_verdict (s : schema) (r : attrdecl) : N :=
  match lookup_type s (at_ty r) with
  | Some T => match find_adecl (at_name r) (ct_attrs T) with
              | Some ad => if is_custom_w (at_desc r) then 2%N
                           else if write_ok (at_desc r) (ad_lex ad) then 0%N
                           else if has_unknown (ad_lex ad) then 2%N else 1%N
              | None => 1%N
              end
  | None => 1%N
  end.
