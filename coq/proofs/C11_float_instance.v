(** Write-side theorems for float-valued simple types that have no canonical descriptor:
    proved directly on the Gallina regenerated from simpletypes.py (gen/GenC11.v), for ALL
    python values. *)
From V.lib Require Import Prelude PyFloat PyVal.
From V.model Require Import SimpleTypeLib.
From V.proofs Require Import PyFloat_proofs SimpleTypeLib_proofs.
From V.gen Require Import GenC11.

Lemma py_int_int a b : py_int a = Ok b -> exists z, b = PInt z.
Proof.
  destruct a; simpl; try discriminate.
  - intros [= <-]; eauto.
  - intros [= <-]; eauto.
  - destruct (f_trunc f); simpl; [intros [= <-]; eauto|discriminate].
  - destruct (int_of_str false s); simpl; [intros [= <-]; eauto|discriminate].
Qed.

Lemma py_mod_int z m b : m <> 0%Z -> py_mod (PInt z) (PInt m) = Ok b -> b = PInt (z mod m).
Proof.
  intros Hm. unfold py_mod, arith. simpl. destruct (Z.eqb_spec m 0); [contradiction|].
  intros [= <-]; reflexivity.
Qed.

Lemma py_str_int k s : py_str (PInt k) = Ok (PStr s) -> s = str_of_Z k.
Proof. simpl. intros [= <-]; reflexivity. Qed.

Lemma lex_mod z m : (0 < m)%Z -> lex_ok (LInt 0 (m - 1)) (str_of_Z (z mod m)) = true.
Proof.
  intros Hm. cbn [lex_ok]. rewrite lex_integer_str_of_Z.
  pose proof (Z.mod_pos_bound z m Hm). apply andb_true_iff; split; apply Z.leb_le; lia.
Qed.

(** break [bind e k = Ok x] hypotheses into their stages *)
Ltac binv :=
  repeat match goal with
  | H : bind ?e ?k = Ok _ |- _ =>
      let E := fresh "E" in destruct e eqn:E; cbn [bind] in H; [|discriminate H]
  | H : (if ?b then _ else _) = Ok _ |- _ => destruct b
  | H : Ok _ = Ok _ |- _ => injection H as H; try subst
  end.

Ltac tail_mod :=
  match goal with
  | Hi : py_int _ = Ok ?p, Hm : py_mod ?p (PInt 21600000) = Ok ?q, Hs : py_str ?q = Ok (PStr ?s) |- _ =>
      let z := fresh "z" in
      destruct (py_int_int _ _ Hi) as [z ->];
      apply py_mod_int in Hm; [|discriminate]; subst q;
      apply py_str_int in Hs; subst s; apply (lex_mod z 21600000); reflexivity
  end.

(** ST_PositiveFixedAngle (a:lin/@ang, type ST_PositiveFixedAngle = 0 <= v < 21600000):
    whatever number is accepted, the text written is an integer in 0..21599999 *)
Theorem W_PositiveFixedAngle : forall v s,
  ST_PositiveFixedAngle__to_xml v = Ok (PStr s) -> lex_ok (LInt 0 21599999) s = true.
Proof.
  intros v s H. unfold ST_PositiveFixedAngle__to_xml in H. binv.
  unfold ST_PositiveFixedAngle__convert_to_xml in *. binv; tail_mod.
Qed.

(** ST_Angle (a:xfrm/@rot, type ST_Angle = xsd:int): the text written is an integer in
    0..21599999, in particular an xsd:int *)
Theorem W_Angle : forall v s,
  ST_Angle__to_xml v = Ok (PStr s) -> lex_ok (LInt 0 21599999) s = true.
Proof.
  intros v s H. unfold ST_Angle__to_xml in H. binv.
  unfold ST_Angle__convert_to_xml in *. binv; tail_mod.
Qed.

(** rejections of the angle classes are TypeError / ValueError / (from round or the int->float
    conversion) OverflowError: stated exactly *)
Example PositiveFixedAngle_examples :
  ST_PositiveFixedAngle__to_xml (PFloat (Fin 3166593487906919 (-43))) = Ok (PStr [48%N])   (* 359.99999999 -> 0 *)
  /\ ST_PositiveFixedAngle__to_xml (PInt 90) = Ok (PStr [53; 52; 48; 48; 48; 48; 48]%N)
  /\ ST_PositiveFixedAngle__to_xml (PFloat PInf) = Err ValueErr
  /\ ST_PositiveFixedAngle__to_xml (PStr [49%N]) = Err TypeErr.
Proof. vm_compute. auto. Qed.
