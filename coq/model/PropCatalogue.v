(** C09 catalogue: the public read/write properties of the proxy classes, each as a
    getter expression and a setter program over the flattened element below the proxy's
    anchor (model/Props.v).  Attribute-backed entries take the attribute's name,
    optional/required kind, default and codec from gen/GenC09.v (A_<class>__<prop>), i.e.
    from the live element classes and from the translated simple-type code the C11
    theorems are about; no range or scale is written by hand here.

    Entry names: class that DEFINES the property, property name, element flavour.
    Anchors: shape element (BaseShape, _InheritsDimensions, LineFormat, Picture,
    ShadowFormat), p:txBody (TextFrame), a:p (_Paragraph), a:rPr or a:defRPr or
    a:endParaRPr (Font), a:tc (_Cell), a:tbl (Table), a:tr (_Row), a:gridCol (_Column),
    p:presentation, p:sld, the fill element carrying the colour (ColorFormat),
    a:pattFill, a:gradFill, a:gs, c:chartSpace (Chart), the axis element (axes,
    TickLabels), c:legend, c:dLbls, the xChart element (plots), c:ser (series, Marker).
    Definitions only. *)
From V.lib Require Import Prelude PyFloat PyVal.
From V.model Require Import SimpleTypeLib Props.
From V.gen Require Import GenC11 GenC09.
Local Open Scope lit_scope.

Definition lv (p : lit) (m : lmode) (a : res pyval) : level :=
  {| lv_path := pth p; lv_mode := m; lv_absent := a |}.
Definition ok_none : res pyval := Ok PNone.
Definition no_attr : res pyval := Err OtherErr.     (* AttributeError / InvalidXmlError *)
Definition mk (cls name variant : lit) (g : gexp) (p : prog) : entry :=
  {| e_cls := s2l cls; e_name := s2l name; e_variant := s2l variant; e_get := g; e_set := p |}.
Definition zero : str := s2l "0".
Definition one : str := s2l "1".

(** an enumeration member named by its XML token *)
Definition member (t : list (Z * str)) (tok : lit) : pyval :=
  match enum_by_token t (s2l tok) with Some z => PInt z | None => PNone end.
Definition member_z (t : list (Z * str)) (tok : lit) : Z :=
  match enum_by_token t (s2l tok) with Some z => z | None => 0%Z end.

(** ** shapes: position, size, rotation, name *)
(** where a:xfrm lives: p:sp / p:pic / p:cxnSp (sp), p:graphicFrame (gf), p:grpSp (grp) *)
Definition xfrm_path (variant : lit) : lit :=
  if leqb variant "gf" then "p:xfrm"
  else if leqb variant "grp" then "p:grpSpPr/a:xfrm" else "p:spPr/a:xfrm".
Definition xfrm_chain (variant : lit) (absent : res pyval) : list level :=
  if leqb variant "gf" then [lv "p:xfrm" LMust no_attr]
  else if leqb variant "grp" then [lv "p:grpSpPr" LMust no_attr; lv "p:grpSpPr/a:xfrm" (LEnsure []) absent]
  else [lv "p:spPr" LMust no_attr; lv "p:spPr/a:xfrm" (LEnsure []) absent].
Definition off_level (variant : lit) : level :=
  lv (sub (xfrm_path variant) "a:off") (LEnsure [(s2l "x", zero); (s2l "y", zero)]) ok_none.
Definition ext_level (variant : lit) : level :=
  lv (sub (xfrm_path variant) "a:ext") (LEnsure [(s2l "cx", zero); (s2l "cy", zero)]) ok_none.

Definition pos_get (variant : lit) (l : level) (d : attr_decl) : gexp :=
  attr_gexp post_id (xfrm_chain variant ok_none ++ [l]) (lv_path l) d.
(** the element-level x / y / cx / cy setters validate with the simple type before the first get_or_add *)
Definition pos_set (variant : lit) (l : level) (d : attr_decl) : prog :=
  Seq (SCheck (ad_codec d) (ad_kind d)) (attr_prog pre_id (xfrm_chain variant ok_none ++ [l]) (lv_path l) d).

Definition shape_entries (variant : lit) : list entry :=
  [ mk "BaseShape" "left" variant (pos_get variant (off_level variant) A_CT_Point2D__x) (pos_set variant (off_level variant) A_CT_Point2D__x);
    mk "BaseShape" "top" variant (pos_get variant (off_level variant) A_CT_Point2D__y) (pos_set variant (off_level variant) A_CT_Point2D__y);
    mk "BaseShape" "width" variant (pos_get variant (ext_level variant) A_CT_PositiveSize2D__cx) (pos_set variant (ext_level variant) A_CT_PositiveSize2D__cx);
    mk "BaseShape" "height" variant (pos_get variant (ext_level variant) A_CT_PositiveSize2D__cy) (pos_set variant (ext_level variant) A_CT_PositiveSize2D__cy);
    mk "BaseShape" "rotation" variant
       (attr_gexp post_id (xfrm_chain variant (Ok (PFloat (Fin 0 0)))) (pth (xfrm_path variant)) A_CT_Transform2D__rot)
       (attr_prog pre_id (xfrm_chain variant (Ok (PFloat (Fin 0 0)))) (pth (xfrm_path variant)) A_CT_Transform2D__rot);
    mk "BaseShape" "name" variant
       (attr_gexp post_id [lv "*nv" LMust no_attr; lv "*nv/p:cNvPr" LMust no_attr] (pth "*nv/p:cNvPr") A_CT_NonVisualDrawingProps__name)
       (attr_prog pre_id [lv "*nv" LMust no_attr; lv "*nv/p:cNvPr" LMust no_attr] (pth "*nv/p:cNvPr") A_CT_NonVisualDrawingProps__name) ].

(** placeholders: _effective_value = the directly applied value unless it is None, else the
    value of the base placeholder (a reading of another element: pseudo attributes of the
    pseudo child [~base], absent when the base reports None or there is no base) *)
Definition inherited (name : lit) (d : attr_decl) : gexp :=
  GAttr (pth "~base") (s2l name) (ad_codec d) (AOpt PNone).

(** the element-level setter x / y / cx / cy as a straight-line list of steps (the same steps as [pos_set]) *)
Definition pos_steps (variant : lit) (l : level) (d : attr_decl) : list step :=
  SCheck (ad_codec d) (ad_kind d) :: SMap pre_id ::
  chain_steps (xfrm_chain variant ok_none ++ [l]) ++ [SSetAttr (lv_path l) (ad_attr d) (ad_codec d) (ad_kind d)].

(** _InheritsDimensions._set_dimension(attr_name, value), shapes/placeholder.py:
      inherited = [(elm_attr, self._inherited_value(name)) for name, elm_attr in elm_attrs.items()
                   if name != attr_name and getattr(shape_elm, elm_attr) is None]
      setattr(shape_elm, elm_attrs[attr_name], value)
      for elm_attr, inherited_value in inherited:
          if inherited_value is not None: setattr(shape_elm, elm_attr, inherited_value)
    elm_attrs in dict order left, top, width, height.  The own values and the base's readings are
    taken BEFORE the assignment (an exception of a reading ends the setter with nothing changed), the
    assignment validates first (a refused value changes nothing), the remembered values that are not
    None are then assigned through the same element-level setters (each validating again). *)
Record dim := { dm_name : lit; dm_level : level; dm_decl : attr_decl }.
Definition ph_dims : list dim :=
  [ {| dm_name := "left";   dm_level := off_level "sp"; dm_decl := A_CT_Point2D__x |};
    {| dm_name := "top";    dm_level := off_level "sp"; dm_decl := A_CT_Point2D__y |};
    {| dm_name := "width";  dm_level := ext_level "sp"; dm_decl := A_CT_PositiveSize2D__cx |};
    {| dm_name := "height"; dm_level := ext_level "sp"; dm_decl := A_CT_PositiveSize2D__cy |} ].
Definition ph_own (m : dim) : gexp := pos_get "sp" (dm_level m) (dm_decl m).
Definition ph_keep (m : dim) : keep :=
  {| kp_own := ph_own m; kp_inh := inherited (dm_name m) (dm_decl m); kp_wr := pos_steps "sp" (dm_level m) (dm_decl m) |}.
Fixpoint drop_nth {A} (i : nat) (l : list A) : list A :=
  match l, i with
  | [], _ => []
  | _ :: r, O => r
  | x :: r, S j => x :: drop_nth j r
  end.
Definition ph_get (m : dim) : gexp := GOrElse (ph_own m) (inherited (dm_name m) (dm_decl m)).
Definition ph_set (i : nat) (m : dim) : prog :=
  Keep (map ph_keep (drop_nth i ph_dims)) (pos_set "sp" (dm_level m) (dm_decl m)).
Definition ph_entry (i : nat) (m : dim) : entry :=
  mk "_InheritsDimensions" (dm_name m) "sp" (ph_get m) (ph_set i m).
Definition ph_entries : list entry :=
  map (fun im => ph_entry (fst im) (snd im)) (combine (seq 0 (length ph_dims)) ph_dims).

(** ** presentation, slide *)
Definition sldSz : list level := [lv "p:sldSz" (LEnsure []) ok_none].
Definition pre_none_to (x : pyval) (v : aval) : res aval :=
  match av_val v with PNone => Ok (plain x) | _ => Ok v end.
Definition prs_entries : list entry :=
  [ (* ST_SlideSizeCoordinate.validate first, then get_or_add_sldSz *)
    mk "Presentation" "slide_width" "" (attr_gexp post_id sldSz (pth "p:sldSz") A_CT_SlideSize__cx)
       (Seq (SCheck (ad_codec A_CT_SlideSize__cx) (ad_kind A_CT_SlideSize__cx)) (attr_prog pre_id sldSz (pth "p:sldSz") A_CT_SlideSize__cx));
    mk "Presentation" "slide_height" "" (attr_gexp post_id sldSz (pth "p:sldSz") A_CT_SlideSize__cy)
       (Seq (SCheck (ad_codec A_CT_SlideSize__cy) (ad_kind A_CT_SlideSize__cy)) (attr_prog pre_id sldSz (pth "p:sldSz") A_CT_SlideSize__cy));
    mk "_BaseSlide" "name" ""
       (attr_gexp post_id [lv "p:cSld" LMust no_attr] (pth "p:cSld") A_CT_CommonSlideData__name)
       (attr_prog (pre_none_to (PStr [])) [lv "p:cSld" LMust no_attr] (pth "p:cSld") A_CT_CommonSlideData__name) ].

(** ** text frame *)
Definition bodyPr : list level := [lv "a:bodyPr" LMust no_attr].
Definition tf_attr (name : lit) (d : attr_decl) : entry :=
  mk "TextFrame" name "" (attr_gexp post_id bodyPr (pth "a:bodyPr") d) (attr_prog pre_id bodyPr (pth "a:bodyPr") d).

(** word_wrap: value not in (True, False, None) raises ValueError; then a dict literal *)
Definition wrap_square : pyval := PStr (s2l "square").
Definition wrap_none : pyval := PStr (s2l "none").
Definition pre_word_wrap (v : aval) : res aval :=
  if existsb (py_eqb (av_val v)) [PBool true; PBool false; PNone]
  then match py_dict_get [(PBool true, wrap_square); (PBool false, wrap_none); (PNone, PNone)] (av_val v) with
       | Ok x => Ok (plain x)
       | Err e => Err e
       end
  else Err ValueErr.
Definition post_word_wrap (v : pyval) : res pyval :=
  py_dict_get [(wrap_square, PBool true); (wrap_none, PBool false); (PNone, PNone)] v.

(** auto_size: MSO_AUTO_SIZE is a plain int enumeration; membership test, then the choice
    group noAutofit / normAutofit / spAutoFit is replaced *)
Definition pre_auto_size (v : aval) : res aval :=
  match av_val v with
  | PNone => Ok v
  | x => match int_value x with
         | Some z => if existsb (Z.eqb z) (map fst E_MSO_AUTO_SIZE)
                     then (if Z.eqb z (-2) then Err ValueErr else Ok v)      (* MIXED is a return value only *)
                     else Err ValueErr
         | None => Err ValueErr
         end
  end.
Definition auto_size_set : prog :=
  Seq (SMap pre_auto_size) (Seq (SRequire (pth "a:bodyPr"))
    (Seq (SRemove (pth "a:bodyPr/a:noAutofit")) (Seq (SRemove (pth "a:bodyPr/a:normAutofit")) (Seq (SRemove (pth "a:bodyPr/a:spAutoFit"))
      (If (CEq (PInt 0)) (Seq (SAdd (pth "a:bodyPr/a:noAutofit") []) Done)
      (If (CEq (PInt 2)) (Seq (SAdd (pth "a:bodyPr/a:normAutofit") []) Done)
      (If (CEq (PInt 1)) (Seq (SAdd (pth "a:bodyPr/a:spAutoFit") []) Done) Done))))))).
Definition auto_size_get : gexp :=
  GIfAbsent (pth "a:bodyPr") (GConst no_attr)
    (GIfAbsent (pth "a:bodyPr/a:noAutofit")
       (GIfAbsent (pth "a:bodyPr/a:normAutofit")
          (GIfAbsent (pth "a:bodyPr/a:spAutoFit") (GConst ok_none) (GConst (Ok (PInt 1))))
          (GConst (Ok (PInt 2))))
       (GConst (Ok (PInt 0)))).

Definition tf_entries : list entry :=
  [ tf_attr "margin_left" A_CT_TextBodyProperties__lIns;
    tf_attr "margin_top" A_CT_TextBodyProperties__tIns;
    tf_attr "margin_right" A_CT_TextBodyProperties__rIns;
    tf_attr "margin_bottom" A_CT_TextBodyProperties__bIns;
    tf_attr "vertical_anchor" A_CT_TextBodyProperties__anchor;
    mk "TextFrame" "word_wrap" "" (attr_gexp post_word_wrap bodyPr (pth "a:bodyPr") A_CT_TextBodyProperties__wrap)
       (attr_prog pre_word_wrap bodyPr (pth "a:bodyPr") A_CT_TextBodyProperties__wrap);
    mk "TextFrame" "auto_size" "" auto_size_get auto_size_set ].

(** ** paragraph *)
Definition pPr : list level := [lv "a:pPr" (LEnsure []) ok_none].
(** _Paragraph._pPr is get_or_add_pPr() also on the reading side; the value read through a
    freshly added a:pPr is the attribute default *)
Definition para_attr (name : lit) (d : attr_decl) : entry :=
  mk "_Paragraph" name ""
     (GIfAbsent (pth "a:pPr") (GConst (match ad_kind d with AOpt x => Ok x | AReq => no_attr end))
                (GAttr (pth "a:pPr") (ad_attr d) (ad_codec d) (ad_kind d)))
     (attr_prog pre_id pPr (pth "a:pPr") d).

(** spacing: a:lnSpc / a:spcBef / a:spcAft hold a:spcPts (Length) or a:spcPct (lines).  The new
    element is completed while still loose (a refused value changes nothing), then it replaces
    the current one. *)
Definition spc_set_pts (c : lit) : prog :=
  Seq (SCheck (ad_codec A_CT_TextSpacingPoint__val) (ad_kind A_CT_TextSpacingPoint__val))
  (Seq (SRemove (pth (sub "a:pPr" c)))
  (Seq (SAdd (pth (sub "a:pPr" c)) [])
   (Seq (SRemove (pth (sub (sub "a:pPr" c) "a:spcPct")))
    (Seq (SEnsure (pth (sub (sub "a:pPr" c) "a:spcPts")) [])
     (Seq (SSetAttr (pth (sub (sub "a:pPr" c) "a:spcPts")) (ad_attr A_CT_TextSpacingPoint__val)
                    (ad_codec A_CT_TextSpacingPoint__val) (ad_kind A_CT_TextSpacingPoint__val)) Done))))).
Definition spc_set_pct (c : lit) : prog :=
  Seq (SCheck (ad_codec A_CT_TextSpacingPercent__val) (ad_kind A_CT_TextSpacingPercent__val))
  (Seq (SRemove (pth (sub "a:pPr" c)))
  (Seq (SAdd (pth (sub "a:pPr" c)) [])
   (Seq (SRemove (pth (sub (sub "a:pPr" c) "a:spcPts")))
    (Seq (SEnsure (pth (sub (sub "a:pPr" c) "a:spcPct")) [])
     (Seq (SSetAttr (pth (sub (sub "a:pPr" c) "a:spcPct")) (ad_attr A_CT_TextSpacingPercent__val)
                    (ad_codec A_CT_TextSpacingPercent__val) (ad_kind A_CT_TextSpacingPercent__val)) Done))))).
Definition spc_pts_get (c : lit) : gexp :=
  GAttr (pth (sub (sub "a:pPr" c) "a:spcPts")) (ad_attr A_CT_TextSpacingPoint__val)
        (ad_codec A_CT_TextSpacingPoint__val) (ad_kind A_CT_TextSpacingPoint__val).
Definition spc_pct_get (c : lit) : gexp :=
  GAttr (pth (sub (sub "a:pPr" c) "a:spcPct")) (ad_attr A_CT_TextSpacingPercent__val)
        (ad_codec A_CT_TextSpacingPercent__val) (ad_kind A_CT_TextSpacingPercent__val).

Definition line_spacing_set : prog :=
  Seq (SEnsure (pth "a:pPr") [])
    (If CNone (Seq (SRemove (pth "a:pPr/a:lnSpc")) Done)
        (If CIsLength (spc_set_pts "a:lnSpc") (spc_set_pct "a:lnSpc"))).
Definition line_spacing_get : gexp :=
  GIfAbsent (pth "a:pPr") (GConst ok_none)
    (GIfAbsent (pth "a:pPr/a:lnSpc") (GConst ok_none)
       (GIfAbsent (pth "a:pPr/a:lnSpc/a:spcPts")
          (GIfAbsent (pth "a:pPr/a:lnSpc/a:spcPct") (GConst no_attr) (spc_pct_get "a:lnSpc"))
          (spc_pts_get "a:lnSpc"))).
Definition space_set (c : lit) : prog :=
  Seq (SEnsure (pth "a:pPr") [])
    (If CNone (Seq (SRemove (pth (sub "a:pPr" c))) Done) (spc_set_pts c)).
Definition space_get (c : lit) : gexp :=
  GIfAbsent (pth "a:pPr") (GConst ok_none)
    (GIfAbsent (pth (sub "a:pPr" c)) (GConst ok_none)
       (GIfAbsent (pth (sub (sub "a:pPr" c) "a:spcPts")) (GConst ok_none) (spc_pts_get c))).

Definition para_entries : list entry :=
  [ para_attr "alignment" A_CT_TextParagraphProperties__algn;
    para_attr "level" A_CT_TextParagraphProperties__lvl;
    mk "_Paragraph" "line_spacing" "" line_spacing_get line_spacing_set;
    mk "_Paragraph" "space_before" "" (space_get "a:spcBef") (space_set "a:spcBef");
    mk "_Paragraph" "space_after" "" (space_get "a:spcAft") (space_set "a:spcAft") ].

(** ** font (anchor: the a:rPr / a:defRPr / a:endParaRPr element itself) *)
Definition font_attr (name : lit) (d : attr_decl) : entry :=
  mk "Font" name "" (attr_gexp post_id [] [] d) (attr_prog pre_id [] [] d).

(** size: Emu(emu).centipoints on the way in, Centipoints(sz) on the way out *)
Definition pre_font_size (v : aval) : res aval :=
  match av_val v with
  | PNone => Ok v
  | x => match py_Emu x with
         | Ok e => match py_centipoints_attr e with Ok c => Ok (plain c) | Err er => Err er end
         | Err er => Err er
         end
  end.
Definition post_font_size (v : pyval) : res pyval :=
  match v with PNone => Ok PNone | x => py_Centipoints x end.

(** underline: value is True / value is False are replaced by SINGLE_LINE / NONE *)
Definition u_none : Z := member_z E_MSO_TEXT_UNDERLINE_TYPE "none".
Definition u_sng : Z := member_z E_MSO_TEXT_UNDERLINE_TYPE "sng".
Definition pre_underline (v : aval) : res aval :=
  match av_tag v, av_val v with
  | TPlain, PBool true => Ok (AV TMember (PInt u_sng))
  | TPlain, PBool false => Ok (AV TMember (PInt u_none))
  | _, _ => Ok v
  end.
Definition post_underline (v : pyval) : res pyval :=
  match v with
  | PInt z => if Z.eqb z u_none then Ok (PBool false) else if Z.eqb z u_sng then Ok (PBool true) else Ok v
  | _ => Ok v
  end.

(** language_id: NONE (0, no xml value) stands for the absent attribute on both sides *)
Definition pre_language (v : aval) : res aval :=
  if py_eqb (av_val v) (PInt 0) then Ok a_none else Ok v.
Definition post_language (v : pyval) : res pyval :=
  match v with PNone => Ok (PInt 0) | _ => Ok v end.

(** _add_x(attr=v): the attribute is assigned on the loose element, which is inserted only then *)
Definition add_val (c : lit) (d : attr_decl) : prog :=
  Seq (SCheck (ad_codec d) (ad_kind d)) (Seq (SAdd (pth c) []) (Seq (SSetAttr (pth c) (ad_attr d) (ad_codec d) (ad_kind d)) Done)).
Definition font_name_set : prog :=
  If CNone (Seq (SRemove (pth "a:latin")) Done)
     (If (CAbsent (pth "a:latin")) (add_val "a:latin" A_CT_TextFont__typeface)
        (Seq (SSetAttr (pth "a:latin") (ad_attr A_CT_TextFont__typeface) (ad_codec A_CT_TextFont__typeface)
                       (ad_kind A_CT_TextFont__typeface)) Done)).
Definition font_name_get : gexp :=
  GIfAbsent (pth "a:latin") (GConst ok_none)
    (GAttr (pth "a:latin") (ad_attr A_CT_TextFont__typeface) (ad_codec A_CT_TextFont__typeface) (ad_kind A_CT_TextFont__typeface)).

Definition font_entries : list entry :=
  [ font_attr "bold" A_CT_TextCharacterProperties__b;
    font_attr "italic" A_CT_TextCharacterProperties__i;
    mk "Font" "size" "" (attr_gexp post_font_size [] [] A_CT_TextCharacterProperties__sz)
       (attr_prog pre_font_size [] [] A_CT_TextCharacterProperties__sz);
    mk "Font" "underline" "" (attr_gexp post_underline [] [] A_CT_TextCharacterProperties__u)
       (attr_prog pre_underline [] [] A_CT_TextCharacterProperties__u);
    mk "Font" "language_id" "" (attr_gexp post_language [] [] A_CT_TextCharacterProperties__lang)
       (attr_prog pre_language [] [] A_CT_TextCharacterProperties__lang);
    mk "Font" "name" "" font_name_get font_name_set ].

(** ** table *)
(** Table.first_row ...: value not in (True, False) raises ValueError; a:tblPr get_or_add;
    reading maps None to False through a dict literal *)
Definition pre_true_false (v : aval) : res aval :=
  if existsb (py_eqb (av_val v)) [PBool true; PBool false] then Ok v else Err ValueErr.
Definition post_tbl_bool (v : pyval) : res pyval :=
  py_dict_get [(PBool true, PBool true); (PBool false, PBool false); (PNone, PBool false)] v.
Definition tblPr : list level := [lv "a:tblPr" (LEnsure []) (Ok (PBool false))].
Definition tbl_bool (name : lit) (d : attr_decl) : entry :=
  mk "Table" name "" (attr_gexp post_tbl_bool tblPr (pth "a:tblPr") d) (attr_prog pre_true_false tblPr (pth "a:tblPr") d).

(** _Cell margins: isinstance(value, int) or None, else TypeError; nothing happens for
    None when there is no a:tcPr; reading is Emu(int(text)) of the raw attribute *)
Definition pre_cell_margin (v : aval) : res aval :=
  match av_val v with
  | PNone | PInt _ | PBool _ => Ok v
  | _ => Err TypeErr
  end.
Definition raw_int_decl (d : attr_decl) : attr_decl :=
  {| ad_attr := ad_attr d; ad_row := ad_row d; ad_kind := ad_kind d;
     ad_codec := {| enc := enc (ad_codec d); dec := fun s => py_int (PStr s) |} |}.
Definition cell_set (pre : aval -> res aval) (d : attr_decl) : prog :=
  Seq (SMap pre)
    (If (CAnd CNone (CAbsent (pth "a:tcPr"))) Done
       (Seq (SEnsure (pth "a:tcPr") [])
          (Seq (SSetAttr (pth "a:tcPr") (ad_attr d) (ad_codec d) (ad_kind d)) Done))).
Definition cell_margin (name : lit) (d : attr_decl) (dflt : Z) : entry :=
  mk "_Cell" name ""
     (GMap (fun v => match v with PNone => Ok (PInt dflt) | _ => Ok v end)
        (GIfAbsent (pth "a:tcPr") (GConst ok_none)
           (GAttr (pth "a:tcPr") (ad_attr d) (ad_codec (raw_int_decl d)) (ad_kind d))))
     (cell_set pre_cell_margin d).

(** _Row.height / _Column.width: the attribute, then the graphic frame is resized to the
    sum of all rows (columns); if the frame refuses the total the old value is restored and
    the exception propagates.  The sum of the OTHER rows is the pseudo attribute ~others@sum *)
Definition others_sum (s : st) : Z :=
  match lookup (pth "~others", Some (s2l "sum")) s with
  | Some t => match parse_Zs t with Some z => z | None => 0%Z end
  | None => 0%Z
  end.
Definition frame_guard (frame : attr_decl) (s : st) (v : aval) : res aval :=
  match int_value (av_val v) with
  | Some z => match enc (ad_codec frame) (PInt (z + others_sum s)) with
              | Ok _ => Ok v
              | Err e => Err e
              end
  | None => Ok v
  end.
Definition dim_set (d frame : attr_decl) : prog :=
  Seq (SCheck (ad_codec d) (ad_kind d)) (Seq (SGuard (frame_guard frame))
    (Seq (SSetAttr [] (ad_attr d) (ad_codec d) (ad_kind d)) Done)).

Definition table_entries : list entry :=
  [ tbl_bool "first_row" A_CT_TableProperties__firstRow;
    tbl_bool "first_col" A_CT_TableProperties__firstCol;
    tbl_bool "last_row" A_CT_TableProperties__lastRow;
    tbl_bool "last_col" A_CT_TableProperties__lastCol;
    tbl_bool "horz_banding" A_CT_TableProperties__bandRow;
    tbl_bool "vert_banding" A_CT_TableProperties__bandCol;
    cell_margin "margin_left" A_CT_TableCellProperties__marL 91440;
    cell_margin "margin_right" A_CT_TableCellProperties__marR 91440;
    cell_margin "margin_top" A_CT_TableCellProperties__marT 45720;
    cell_margin "margin_bottom" A_CT_TableCellProperties__marB 45720;
    mk "_Cell" "vertical_anchor" ""
       (GIfAbsent (pth "a:tcPr") (GConst ok_none)
          (GAttr (pth "a:tcPr") (ad_attr A_CT_TableCellProperties__anchor) (ad_codec A_CT_TableCellProperties__anchor)
                 (ad_kind A_CT_TableCellProperties__anchor)))
       (cell_set pre_id A_CT_TableCellProperties__anchor);
    mk "_Row" "height" "" (attr_gexp post_id [] [] A_CT_TableRow__h) (dim_set A_CT_TableRow__h A_CT_PositiveSize2D__cy);
    mk "_Column" "width" "" (attr_gexp post_id [] [] A_CT_TableCol__w) (dim_set A_CT_TableCol__w A_CT_PositiveSize2D__cx) ].

(** ** line *)
Definition ln_chain (absent : res pyval) : list level :=
  [lv "p:spPr" LMust no_attr; lv "p:spPr/a:ln" (LEnsure []) absent].
Definition dash_set : prog :=
  If CNone
     (If (CAbsent (pth "p:spPr/a:ln")) (Seq (SRequire (pth "p:spPr")) Done)
         (Seq (SRemove (pth "p:spPr/a:ln/a:prstDash")) (Seq (SRemove (pth "p:spPr/a:ln/a:custDash")) Done)))
     (chain_prog (ln_chain ok_none)
        (Seq (SRemove (pth "p:spPr/a:ln/a:custDash"))
           (Seq (SEnsure (pth "p:spPr/a:ln/a:prstDash") [])
              (Seq (SSetAttr (pth "p:spPr/a:ln/a:prstDash") (ad_attr A_CT_PresetLineDashProperties__val)
                             (ad_codec A_CT_PresetLineDashProperties__val) (ad_kind A_CT_PresetLineDashProperties__val)) Done)))).
Definition line_entries : list entry :=
  [ mk "LineFormat" "width" "sp"
       (attr_gexp post_id (ln_chain (Ok (PInt 0))) (pth "p:spPr/a:ln") A_CT_LineProperties__w)
       (attr_prog (pre_none_to (PInt 0)) (ln_chain (Ok (PInt 0))) (pth "p:spPr/a:ln") A_CT_LineProperties__w);
    mk "LineFormat" "dash_style" "sp"
       (child_gexp post_id (ln_chain ok_none) (pth "p:spPr/a:ln/a:prstDash") ok_none A_CT_PresetLineDashProperties__val)
       dash_set ].

(** ** colour (anchor: the fill element whose colour choice child is the colour) *)
(** ColorFormat.rgb: isinstance(rgb, RGBColor) else ValueError; str(rgb) is six upper-case
    hex digits.  An RGBColor travels as a member-tagged string of its str(). *)
Definition pre_rgb (v : aval) : res aval :=
  match av_tag v, av_val v with
  | TMember, PStr _ => Ok v
  | _, _ => Err ValueErr
  end.
Definition colour_tags : list lit :=
  ["a:scrgbClr"; "a:srgbClr"; "a:hslClr"; "a:sysClr"; "a:schemeClr"; "a:prstClr"].
Fixpoint remove_all (l : list lit) (k : prog) : prog :=
  match l with [] => k | t :: r => Seq (SRemove (pth t)) (remove_all r k) end.
Definition set_val (p : lit) (d : attr_decl) : prog :=
  Seq (SSetAttr (pth p) (ad_attr d) (ad_codec d) (ad_kind d)) Done.
Definition rgb_set : prog :=
  Seq (SMap pre_rgb)
    (If (CAbsent (pth "a:srgbClr"))
        (remove_all colour_tags (Seq (SAdd (pth "a:srgbClr") []) (set_val "a:srgbClr" A_CT_SRgbColor__val)))
        (set_val "a:srgbClr" A_CT_SRgbColor__val)).
Definition theme_set : prog :=
  Seq (SCheck (ad_codec A_CT_SchemeColor__val) AReq)          (* MSO_THEME_COLOR.to_xml(value) first *)
  (If (CAbsent (pth "a:schemeClr"))
     (remove_all colour_tags (Seq (SAdd (pth "a:schemeClr") []) (set_val "a:schemeClr" A_CT_SchemeColor__val)))
     (set_val "a:schemeClr" A_CT_SchemeColor__val)).
(** the colour object is fixed by which choice child exists: eg_colorChoice is the first member found, looked for in
    the order of the declaration (scrgbClr, srgbClr, hslClr, sysClr, schemeClr, prstClr); a schema-valid element
    has at most one.  Only _SRgbColor has .rgb, only _SchemeColor a theme colour of its own (the other kinds answer
    NOT_THEME_COLOR); without a colour both raise AttributeError. *)
Fixpoint first_colour (tags : list lit) (none : gexp) (k : lit -> gexp) : gexp :=
  match tags with
  | [] => none
  | t :: r => GIfAbsent (pth t) (first_colour r none k) (k t)
  end.
Fixpoint first_colour_prog (tags : list lit) (none : prog) (k : lit -> prog) : prog :=
  match tags with
  | [] => none
  | t :: r => If (CAbsent (pth t)) (first_colour_prog r none k) (k t)
  end.
Definition rgb_get : gexp :=
  first_colour colour_tags (GConst no_attr)
    (fun t => if leqb t "a:srgbClr"
              then GAttr (pth "a:srgbClr") (ad_attr A_CT_SRgbColor__val) (ad_codec A_CT_SRgbColor__val) (ad_kind A_CT_SRgbColor__val)
              else GConst no_attr).
Definition theme_get : gexp :=
  first_colour colour_tags (GConst no_attr)
    (fun t => if leqb t "a:schemeClr"
              then GAttr (pth "a:schemeClr") (ad_attr A_CT_SchemeColor__val) (ad_codec A_CT_SchemeColor__val) (ad_kind A_CT_SchemeColor__val)
              else GConst (Ok (PInt 0))).

(** brightness: validation by comparisons (TypeError for non-numbers), then tint / shade /
    clear on the colour element *)
Definition lum_get (x : lit) : gexp :=
  GIfAbsent (pth (sub x "a:lumOff"))
    (GIfAbsent (pth (sub x "a:lumMod")) (GConst (Ok (PInt 0)))
       (GMap (fun v => py_sub v (PFloat (Fin 1 0)))
          (GAttr (pth (sub x "a:lumMod")) (ad_attr A_CT_Percentage__val) (ad_codec A_CT_Percentage__val) (ad_kind A_CT_Percentage__val))))
    (GAttr (pth (sub x "a:lumOff")) (ad_attr A_CT_Percentage__val) (ad_codec A_CT_Percentage__val) (ad_kind A_CT_Percentage__val)).
Definition brightness_get : gexp := first_colour colour_tags (GConst no_attr) lum_get.
Definition pre_brightness_range (v : aval) : res aval :=
  match py_lt (av_val v) (PFloat (Fin (-1) 0)) with
  | Err e => Err e
  | Ok true => Err ValueErr
  | Ok false => match py_gt (av_val v) (PFloat (Fin 1 0)) with
                | Err e => Err e
                | Ok true => Err ValueErr
                | Ok false => if py_eqb (av_val v) (av_val v) then Ok v else Err ValueErr    (* value != value: NaN *)
                end
  end.
Definition one_minus (v : aval) : res aval :=
  match py_sub (PFloat (Fin 1 0)) (av_val v) with Ok x => Ok (plain x) | Err e => Err e end.
Definition one_minus_abs (v : aval) : res aval :=
  match av_val v with
  | PFloat f => Ok (plain (PFloat (f_sub (Fin 1 0) (f_abs f))))
  | x => match int_value x with
         | Some z => Ok (plain (PFloat (f_sub (Fin 1 0) (Fin (Z.abs z) 0))))
         | None => Err TypeErr
         end
  end.
Definition lum_add (x c : lit) : prog -> prog :=
  fun k => Seq (SAdd (pth (sub x c)) [])
             (Seq (SSetAttr (pth (sub x c)) (ad_attr A_CT_Percentage__val) (ad_codec A_CT_Percentage__val) (ad_kind A_CT_Percentage__val)) k).
Definition lum_clear (x : lit) (k : prog) : prog :=
  Seq (SRemove (pth (sub x "a:lumMod"))) (Seq (SRemove (pth (sub x "a:lumOff"))) k).
Definition pos_num (v : aval) : bool := match py_gt (av_val v) (PInt 0) with Ok b => b | Err _ => false end.
Definition neg_num (v : aval) : bool := match py_lt (av_val v) (PInt 0) with Ok b => b | Err _ => false end.
Definition set_pct (x c : lit) : step :=
  SSetAttr (pth (sub x c)) (ad_attr A_CT_Percentage__val) (ad_codec A_CT_Percentage__val) (ad_kind A_CT_Percentage__val).
(** add_lumMod / add_lumOff assign val before the element is inserted *)
Definition chk_pct : step := SCheck (ad_codec A_CT_Percentage__val) (ad_kind A_CT_Percentage__val).
Definition brightness_on (x : lit) : prog :=
  If (CPred pos_num)
     (lum_clear x (Seq (SWith one_minus chk_pct) (Seq (SAdd (pth (sub x "a:lumMod")) []) (Seq (SWith one_minus (set_pct x "a:lumMod"))
                  (Seq chk_pct (Seq (SAdd (pth (sub x "a:lumOff")) []) (Seq (set_pct x "a:lumOff") Done)))))))
     (If (CPred neg_num)
         (lum_clear x (Seq (SWith one_minus_abs chk_pct) (Seq (SAdd (pth (sub x "a:lumMod")) []) (Seq (SWith one_minus_abs (set_pct x "a:lumMod")) Done))))
         (lum_clear x Done)).
Definition brightness_set : prog :=
  Seq (SMap pre_brightness_range) (first_colour_prog colour_tags (Raise ValueErr) brightness_on).

(** the typed colour objects (anchor: the a:srgbClr / a:schemeClr element itself) *)
Definition pre_str (v : aval) : res aval :=
  match py_str (av_val v) with Ok x => Ok (plain x) | Err e => Err e end.
Definition color_entries : list entry :=
  [ mk "_SRgbColor" "rgb" "" (attr_gexp post_id [] [] A_CT_SRgbColor__val) (attr_prog pre_str [] [] A_CT_SRgbColor__val);
    mk "_SchemeColor" "theme_color" "" (attr_gexp post_id [] [] A_CT_SchemeColor__val) (attr_prog pre_id [] [] A_CT_SchemeColor__val);
    mk "ColorFormat" "rgb" "" rgb_get rgb_set;
    mk "ColorFormat" "theme_color" "" theme_get theme_set;
    mk "ColorFormat" "brightness" "" brightness_get brightness_set ].

(** ** fills *)
Definition pre_float (v : aval) : res aval :=
  match py_float (av_val v) with Ok x => Ok (plain x) | Err e => Err e end.
Definition f360 : pyval := PFloat (Fin 360 0).
Definition pre_ccw (v : aval) : res aval :=
  match py_sub f360 (av_val v) with Ok x => Ok (plain x) | Err e => Err e end.
Definition post_ccw (v : pyval) : res pyval :=
  if py_eqb v (PFloat (Fin 0 0)) then Ok (PFloat (Fin 0 0)) else py_sub f360 v.
Definition grad_angle_get (root : lit) : gexp :=
  let g := fun c => if leqb root "" then c else sub root c in
  GIfAbsent (pth (g "a:path"))
    (GIfAbsent (pth (g "a:lin")) (GConst ok_none)
       (GMap post_ccw (GAttr (pth (g "a:lin")) (ad_attr A_CT_LinearShadeProperties__ang)
                             (ad_codec A_CT_LinearShadeProperties__ang) (ad_kind A_CT_LinearShadeProperties__ang))))
    (GConst (Err ValueErr)).
Definition grad_angle_set (root : lit) : prog :=
  let g := fun c => if leqb root "" then c else sub root c in
  If (CAbsent (pth (g "a:lin"))) (Raise ValueErr)
     (Seq (SMap pre_ccw)
        (Seq (SSetAttr (pth (g "a:lin")) (ad_attr A_CT_LinearShadeProperties__ang)
                       (ad_codec A_CT_LinearShadeProperties__ang) (ad_kind A_CT_LinearShadeProperties__ang)) Done)).
Definition fill_entries : list entry :=
  [ mk "_GradientStop" "position" "" (attr_gexp post_id [] [] A_CT_GradientStop__pos) (attr_prog pre_float [] [] A_CT_GradientStop__pos);
    mk "_GradFill" "gradient_angle" "" (grad_angle_get "") (grad_angle_set "");
    mk "FillFormat" "gradient_angle" ""
       (GIfAbsent (pth "a:gradFill") (GConst (Err TypeErr)) (grad_angle_get "a:gradFill"))
       (If (CAbsent (pth "a:gradFill")) (Raise TypeErr) (grad_angle_set "a:gradFill"));
    mk "_PattFill" "pattern" "" (attr_gexp post_id [] [] A_CT_PatternFillProperties__prst) (attr_prog pre_id [] [] A_CT_PatternFillProperties__prst);
    mk "FillFormat" "pattern" ""
       (attr_gexp post_id [lv "a:pattFill" LMust (Err TypeErr)] (pth "a:pattFill") A_CT_PatternFillProperties__prst)
       (attr_prog pre_id [lv "a:pattFill" LMust (Err TypeErr)] (pth "a:pattFill") A_CT_PatternFillProperties__prst);
    mk "ShadowFormat" "inherit" "" (flag_gexp [] (pth "a:effectLst") true) (flag_prog [] (pth "a:effectLst") [] true) ].

(** ** picture *)
Definition srcRect : list level :=
  [lv "p:blipFill" LMust no_attr; lv "p:blipFill/a:srcRect" (LEnsure []) (Ok (PFloat (Fin 0 0)))].
Definition crop (name : lit) (d : attr_decl) : entry :=
  mk "_BasePicture" name "" (attr_gexp post_id srcRect (pth "p:blipFill/a:srcRect") d) (attr_prog pre_id srcRect (pth "p:blipFill/a:srcRect") d).
Definition pic_entries : list entry :=
  [ crop "crop_left" A_CT_RelativeRect__l; crop "crop_top" A_CT_RelativeRect__t;
    crop "crop_right" A_CT_RelativeRect__r; crop "crop_bottom" A_CT_RelativeRect__b ].

(** ** charts *)
(** CT_Boolean_Explicit.val setter: bool(value), always written as 1 / 0, never raises *)
Definition explicit_decl (d : attr_decl) : attr_decl :=
  {| ad_attr := ad_attr d; ad_row := ad_row d; ad_kind := AReq;
     ad_codec := {| enc := fun v => Ok (if py_truth v then one else zero); dec := dec (ad_codec d) |} |}.
Definition pre_bool (v : aval) : res aval := Ok (plain (PBool (py_truth (av_val v)))).
Definition pre_not_true_false (v : aval) : res aval :=
  if existsb (py_eqb (av_val v)) [PBool true; PBool false] then Ok (plain (PBool (negb (py_truth (av_val v))))) else Err ValueErr.
Definition post_not (v : pyval) : res pyval := Ok (PBool (negb (py_truth v))).
Definition post_none_to (x : pyval) (v : pyval) : res pyval := match v with PNone => Ok x | _ => Ok v end.
Definition dflt_res (d : attr_decl) : res pyval := match ad_kind d with AOpt x => Ok x | AReq => no_attr end.

(** get_or_add the child, assign val *)
Definition ensure_val (cls name variant : lit) (pre : aval -> res aval) (post : pyval -> res pyval)
           (ch : list level) (c : lit) (absent : res pyval) (dset dget : attr_decl) : entry :=
  mk cls name variant (child_gexp post ch (pth c) absent dget)
     (attr_prog pre (ch ++ [lv c (LEnsure []) absent]) (pth c) dset).
(** remove the child, return on [skip], add it again, assign val *)
Definition fresh_val (cls name variant : lit) (ch : list level) (c : lit) (skip : cond) (loose : bool)
           (absent : res pyval) (d : attr_decl) : entry :=
  mk cls name variant (child_gexp post_id ch (pth c) absent d) (fresh_prog pre_id ch (pth c) [] skip loose d).

Definition chart_ch : list level := [lv "c:chart" LMust no_attr].
Definition has_title_set : prog :=
  Seq (SRequire (pth "c:chart"))
    (If CTruthy (Seq (SEnsure (pth "c:chart/c:title") []) Done)
       (Seq (SRemove (pth "c:chart/c:title"))
          (Seq (SEnsure (pth "c:chart/c:autoTitleDeleted") [])
             (Seq (SPutAttr (pth "c:chart/c:autoTitleDeleted") (s2l "val") one) Done)))).
Definition chart_entries : list entry :=
  [ fresh_val "Chart" "chart_style" "" [] "c:style" CNone true ok_none A_CT_Style__val;
    mk "Chart" "has_legend" "" (flag_gexp chart_ch (pth "c:chart/c:legend") false) (flag_prog chart_ch (pth "c:chart/c:legend") [] false);
    mk "Chart" "has_title" "" (flag_gexp chart_ch (pth "c:chart/c:title") false) has_title_set ].

Definition scaling : list level := [lv "c:scaling" LMust no_attr].
Definition max_min : pyval := PStr (s2l "maxMin").
Definition reverse_set : prog :=
  Seq (SRequire (pth "c:scaling")) (Seq (SRemove (pth "c:scaling/c:orientation"))
    (If CTruthy
       (Seq (SAdd (pth "c:scaling/c:orientation") [])
          (Seq (SWith (fun _ => Ok (plain max_min))
                  (SSetAttr (pth "c:scaling/c:orientation") (ad_attr A_CT_Orientation__val) (ad_codec A_CT_Orientation__val) (ad_kind A_CT_Orientation__val))) Done))
       Done)).
Definition reverse_get : gexp :=
  GMap (fun v => Ok (PBool (py_eqb v max_min)))
    (chain_get scaling (GIfAbsent (pth "c:scaling/c:orientation") (GConst (dflt_res A_CT_Orientation__val))
        (GAttr (pth "c:scaling/c:orientation") (ad_attr A_CT_Orientation__val) (ad_codec A_CT_Orientation__val) (ad_kind A_CT_Orientation__val)))).
Definition cross_tick : Z := member_z E_XL_TICK_MARK "cross".
Definition next_to : pyval := member E_XL_TICK_LABEL_POSITION "nextTo".

Definition axis_entries : list entry :=
  [ mk "_BaseAxis" "has_major_gridlines" "" (flag_gexp [] (pth "c:majorGridlines") false) (flag_prog [] (pth "c:majorGridlines") [] false);
    mk "_BaseAxis" "has_minor_gridlines" "" (flag_gexp [] (pth "c:minorGridlines") false) (flag_prog [] (pth "c:minorGridlines") [] false);
    mk "_BaseAxis" "has_title" "" (flag_gexp [] (pth "c:title") false) (flag_prog [] (pth "c:title") [] false);
    fresh_val "_BaseAxis" "major_tick_mark" "" [] "c:majorTickMark" (CIsMember cross_tick) true (Ok (PInt cross_tick)) A_CT_TickMark__val;
    fresh_val "_BaseAxis" "minor_tick_mark" "" [] "c:minorTickMark" (CIsMember cross_tick) true (Ok (PInt cross_tick)) A_CT_TickMark__val;
    fresh_val "_BaseAxis" "maximum_scale" "" scaling "c:scaling/c:max" CNone true ok_none A_CT_Double__val;
    fresh_val "_BaseAxis" "minimum_scale" "" scaling "c:scaling/c:min" CNone true ok_none A_CT_Double__val;
    mk "_BaseAxis" "reverse_order" "" reverse_get reverse_set;
    ensure_val "_BaseAxis" "tick_label_position" "" pre_id (post_none_to next_to) [] "c:tickLblPos" (Ok next_to) A_CT_TickLblPos__val A_CT_TickLblPos__val;
    ensure_val "_BaseAxis" "visible" "" pre_not_true_false post_not [] "c:delete" (Ok (PBool true)) A_CT_Boolean__val A_CT_Boolean__val;
    fresh_val "ValueAxis" "major_unit" "" [] "c:majorUnit" CNone true ok_none A_CT_AxisUnit__val;
    fresh_val "ValueAxis" "minor_unit" "" [] "c:minorUnit" CNone true ok_none A_CT_AxisUnit__val ].

(** crosses / crosses_at live on the CROSSING axis element (anchor) *)
Definition custom_cross : Z := match find (fun r => match snd r with [] => true | _ => false end) E_XL_AXIS_CROSSES with
                               | Some r => fst r | None => 0%Z end.
Definition crosses_set : prog :=
  If (CAnd (CEq (PInt custom_cross)) (CNot (CAbsent (pth "c:crossesAt")))) Done
     (Seq (SRemove (pth "c:crosses")) (Seq (SRemove (pth "c:crossesAt"))
        (If (CEq (PInt custom_cross))
            (Seq (SAdd (pth "c:crossesAt") [])
               (Seq (SWith (fun _ => Ok (plain (PFloat (Fin 0 0))))
                       (SSetAttr (pth "c:crossesAt") (ad_attr A_CT_Double__val) (ad_codec A_CT_Double__val) (ad_kind A_CT_Double__val))) Done))
            (add_val "c:crosses" A_CT_Crosses__val)))).
Definition crosses_at_set : prog :=
  Seq (SRemove (pth "c:crosses")) (Seq (SRemove (pth "c:crossesAt"))
    (If CNone Done (add_val "c:crossesAt" A_CT_Double__val))).
Definition cross_entries : list entry :=
  [ mk "ValueAxis" "crosses" "cross" (child_gexp post_id [] (pth "c:crosses") (Ok (PInt custom_cross)) A_CT_Crosses__val) crosses_set;
    mk "ValueAxis" "crosses_at" "cross" (child_gexp post_id [] (pth "c:crossesAt") ok_none A_CT_Double__val) crosses_at_set ].

(** number_format: a new c:numFmt is inserted only with its formatCode; then sourceLinked = False.
    number_format_is_linked: a new c:numFmt gets formatCode General and the flag *)
Definition general : pyval := PStr (s2l "General").
Definition set_linked : step :=
  SSetAttr (pth "c:numFmt") (ad_attr A_CT_NumFmt__sourceLinked) (ad_codec A_CT_NumFmt__sourceLinked) (ad_kind A_CT_NumFmt__sourceLinked).
Definition set_format : step :=
  SSetAttr (pth "c:numFmt") (ad_attr A_CT_NumFmt__formatCode) (ad_codec A_CT_NumFmt__formatCode) (ad_kind A_CT_NumFmt__formatCode).
Definition numfmt_set : prog :=
  let unlink := Seq (SWith (fun _ => Ok (plain (PBool false))) set_linked) Done in
  If (CAbsent (pth "c:numFmt"))
     (Seq (SCheck (ad_codec A_CT_NumFmt__formatCode) (ad_kind A_CT_NumFmt__formatCode))
        (Seq (SAdd (pth "c:numFmt") []) (Seq set_format unlink)))
     (Seq set_format unlink).
Definition linked_set : prog :=
  If (CAbsent (pth "c:numFmt"))
     (Seq (SCheck (ad_codec A_CT_NumFmt__sourceLinked) (ad_kind A_CT_NumFmt__sourceLinked))
        (Seq (SAdd (pth "c:numFmt") [])
           (Seq (SPutAttr (pth "c:numFmt") (ad_attr A_CT_NumFmt__formatCode) (s2l "General")) (Seq set_linked Done))))
     (Seq set_linked Done).
Definition numfmt_entries (cls : lit) (absent_linked : bool) : list entry :=
  [ mk cls "number_format" "" (child_gexp post_id [] (pth "c:numFmt") (Ok general) A_CT_NumFmt__formatCode) numfmt_set;
    mk cls "number_format_is_linked" ""
       (child_gexp (post_none_to (PBool true)) [] (pth "c:numFmt") (Ok (PBool absent_linked)) A_CT_NumFmt__sourceLinked)
       linked_set ].

Definition offset_set : prog :=
  Seq (SRemove (pth "c:lblOffset"))
    (If (CEq (PInt 100)) Done
       (Seq (SAdd (pth "c:lblOffset") [])
          (Seq (SSetAttr (pth "c:lblOffset") (ad_attr A_CT_LblOffset__val) (ad_codec A_CT_LblOffset__val) (ad_kind A_CT_LblOffset__val)) Done))).
Definition ticklabel_entries : list entry :=
  numfmt_entries "TickLabels" false ++
  [ mk "TickLabels" "offset" "catAx" (child_gexp post_id [] (pth "c:lblOffset") (Ok (PInt 100)) A_CT_LblOffset__val) offset_set;
    (* c:valAx declares no c:lblOffset child: reading raises AttributeError, assigning ValueError *)
    mk "TickLabels" "offset" "valAx" (GConst no_attr) (Raise ValueErr) ].

Definition right_pos : pyval := member E_XL_LEGEND_POSITION "r".
(** Legend.horz_offset (chart/legend.py, oxml/chart/legend.py, oxml/chart/shared.py):
      XsdDouble.to_xml(offset); layout = get_or_add_layout()
      if offset == 0.0: layout._remove_manualLayout(); return
      manualLayout = layout.get_or_add_manualLayout()
      manualLayout.get_or_add_xMode().val = ST_LayoutMode.FACTOR   (the attribute default: the attribute is deleted)
      manualLayout.get_or_add_x().val = offset
    and the reader answers 0.0 unless c:layout, c:manualLayout, c:x and c:xMode exist and c:xMode reads factor.
    The state space includes every other mode a producer may have written (c:xMode val=edge). *)
Definition f_zero : pyval := PFloat (Fin 0 0).
Definition mode_factor : pyval := PStr (s2l "factor").
Definition layout_ch : list level := [lv "c:layout" (LEnsure []) (Ok f_zero)].
Definition manual_layout : lit := "c:layout/c:manualLayout".
Definition ho_box : path := pth manual_layout.
Definition ho_m : path := pth (sub manual_layout "c:xMode").
Definition ho_x : path := pth (sub manual_layout "c:x").
Definition horz_offset_get : gexp :=
  moded_gexp layout_ch ho_box ho_m ho_x (Ok f_zero) A_CT_LayoutMode__val mode_factor A_CT_Double__val.
Definition horz_offset_set : prog :=
  moded_prog layout_ch ho_box ho_m ho_x (CEq f_zero) A_CT_LayoutMode__val mode_factor A_CT_Double__val.
Definition legend_entries : list entry :=
  [ ensure_val "Legend" "position" "" pre_id post_id [] "c:legendPos" (Ok right_pos) A_CT_LegendPos__val A_CT_LegendPos__val;
    mk "Legend" "include_in_layout" ""
       (child_gexp post_id [] (pth "c:overlay") (Ok (PBool true)) A_CT_Boolean_Explicit___val)
       (ensure_or_remove_prog pre_id [] (pth "c:overlay") [] CNone (explicit_decl A_CT_Boolean_Explicit___val));
    mk "Legend" "horz_offset" "" horz_offset_get horz_offset_set ].

(** DataLabels.show_*: the reader answers False without the child (a new child is written with val=0, then assigned) *)
Definition show_flag (name c : lit) : entry :=
  ensure_val "DataLabels" name "" pre_id post_id [] c (Ok (PBool false)) (explicit_decl A_CT_Boolean_Explicit___val) A_CT_Boolean_Explicit___val.
Definition dlbls_entries : list entry :=
  numfmt_entries "DataLabels" true ++
  [ mk "DataLabels" "position" "" (child_gexp post_id [] (pth "c:dLblPos") ok_none A_CT_DLblPos__val)
       (* XL_DATA_LABEL_POSITION.to_xml(value) is evaluated before c:dLblPos is added *)
       (If CNone (Seq (SRemove (pth "c:dLblPos")) Done)
           (Seq (SCheck (ad_codec A_CT_DLblPos__val) AReq)
              (Seq (SEnsure (pth "c:dLblPos") [])
                 (Seq (SSetAttr (pth "c:dLblPos") (ad_attr A_CT_DLblPos__val) (ad_codec A_CT_DLblPos__val) (ad_kind A_CT_DLblPos__val)) Done))));
    show_flag "show_category_name" "c:showCatName"; show_flag "show_legend_key" "c:showLegendKey";
    show_flag "show_percentage" "c:showPercent"; show_flag "show_series_name" "c:showSerName";
    show_flag "show_value" "c:showVal" ].

Definition bubble_set : prog :=
  Seq (SRemove (pth "c:bubbleScale"))
    (If CNone Done
       (Seq (SAdd (pth "c:bubbleScale") [])
          (Seq (SSetAttr (pth "c:bubbleScale") (ad_attr A_CT_BubbleScale__val) (ad_codec A_CT_BubbleScale__val) (ad_kind A_CT_BubbleScale__val)) Done))).
Definition has_dlbls_set : prog :=
  If CTruthy
     (If (CAbsent (pth "c:dLbls"))
         (Seq (SAdd (pth "c:dLbls") []) (Seq (SEnsure (pth "c:dLbls/c:showVal") []) (Seq (SPutAttr (pth "c:dLbls/c:showVal") (s2l "val") one) Done)))
         Done)
     (Seq (SRemove (pth "c:dLbls")) Done).
Definition plot_entries : list entry :=
  [ ensure_val "BarPlot" "gap_width" "" pre_id post_id [] "c:gapWidth" (dflt_res A_CT_GapAmount__val) A_CT_GapAmount__val A_CT_GapAmount__val;
    mk "BarPlot" "overlap" "" (child_gexp post_id [] (pth "c:overlap") (Ok (PInt 0)) A_CT_Overlap__val)
       (ensure_or_remove_prog pre_id [] (pth "c:overlap") [] (CEq (PInt 0)) A_CT_Overlap__val);
    mk "BubblePlot" "bubble_scale" "" (child_gexp post_id [] (pth "c:bubbleScale") (Ok (PInt 100)) A_CT_BubbleScale__val) bubble_set;
    ensure_val "_BasePlot" "vary_by_categories" "" pre_bool post_id [] "c:varyColors" (Ok (PBool true)) A_CT_Boolean__val A_CT_Boolean__val;
    mk "_BasePlot" "has_data_labels" "" (flag_gexp [] (pth "c:dLbls") false) has_dlbls_set ].

Definition marker_ch : list level := [lv "c:marker" (LEnsure []) ok_none].
Definition marker_set (c : lit) (d : attr_decl) : prog :=
  chain_prog marker_ch (Seq (SRemove (pth c))
    (If CNone Done (Seq (SAdd (pth c) []) (Seq (SSetAttr (pth c) (ad_attr d) (ad_codec d) (ad_kind d)) Done)))).
Definition series_entries : list entry :=
  [ ensure_val "LineSeries" "smooth" "" pre_id post_id [] "c:smooth" (Ok (PBool true)) A_CT_Boolean__val A_CT_Boolean__val;
    ensure_val "BarSeries" "invert_if_negative" "" pre_id post_id [] "c:invertIfNegative" (Ok (PBool true))
               (explicit_decl A_CT_Boolean_Explicit___val) A_CT_Boolean_Explicit___val;
    (* size: ST_MarkerSize.to_xml(value) is evaluated first unless value is None *)
    mk "Marker" "size" "" (child_gexp post_id marker_ch (pth "c:marker/c:size") ok_none A_CT_MarkerSize__val)
       (If CNone (marker_set "c:marker/c:size" A_CT_MarkerSize__val)
           (Seq (SCheck (ad_codec A_CT_MarkerSize__val) AReq) (marker_set "c:marker/c:size" A_CT_MarkerSize__val)));
    (* style: XL_MARKER_STYLE.to_xml(value) is evaluated first unless value is None *)
    mk "Marker" "style" "" (child_gexp post_id marker_ch (pth "c:marker/c:symbol") ok_none A_CT_MarkerStyle__val)
       (If CNone (marker_set "c:marker/c:symbol" A_CT_MarkerStyle__val)
           (Seq (SCheck (ad_codec A_CT_MarkerStyle__val) AReq) (marker_set "c:marker/c:symbol" A_CT_MarkerStyle__val))) ].

(** ** adjustments: Adjustment.effective_value over the in-memory pair (actual, def_val);
    pseudo attributes ~adj@actual (absent = None) and ~adj@def *)
Definition raw_int_codec : codec :=
  {| enc := fun v => match v with PInt z => Ok (str_of_Z z) | _ => Err TypeErr end;
     dec := fun s => py_int (PStr s) |}.
Definition pre_adjust (v : aval) : res aval :=
  match av_val v with
  | PFloat NaN | PFloat PInf | PFloat NInf => Err ValueErr          (* must be finite *)
  | PInt _ | PBool _ | PFloat _ =>
      match py_mul (av_val v) (PFloat (Fin 100000 0)) with
      | Ok x => match py_int x with Ok z => Ok (plain z) | Err e => Err e end
      | Err e => Err e
      end
  | _ => Err ValueErr
  end.
Definition post_adjust (v : pyval) : res pyval := py_truediv v (PFloat (Fin 100000 0)).
Definition adj_entries : list entry :=
  [ mk "Adjustment" "effective_value" ""
       (GMap post_adjust (GOrElse (GAttr (pth "~adj") (s2l "actual") raw_int_codec (AOpt PNone))
                                  (GAttr (pth "~adj") (s2l "def") raw_int_codec AReq)))
       (Seq (SMap pre_adjust) (Seq (SSetAttr (pth "~adj") (s2l "actual") raw_int_codec AReq) Done)) ].

Definition catalogue : list entry :=
  shape_entries "sp" ++ shape_entries "gf" ++ shape_entries "grp" ++ ph_entries ++ prs_entries ++ tf_entries ++
  para_entries ++ font_entries ++ table_entries ++ line_entries ++ color_entries ++ fill_entries ++ pic_entries ++
  chart_entries ++ axis_entries ++ cross_entries ++ ticklabel_entries ++ legend_entries ++ dlbls_entries ++
  plot_entries ++ series_entries ++ adj_entries.

Definition entry_label (e : entry) : str :=
  e_cls e ++ [46%N] ++ e_name e ++ match e_variant e with [] => [] | v => 64%N :: v end.

Definition find_entry (label : str) : option entry :=
  find (fun e => str_eqb (entry_label e) label) catalogue.

(** every settable property is in the catalogue or on the oracle-only list *)
Definition covered (cp : str * str) : bool :=
  existsb (fun e => str_eqb (e_cls e) (fst cp) && str_eqb (e_name e) (snd cp)) catalogue
  || existsb (fun o => str_eqb (fst o) (fst cp) && str_eqb (snd o) (snd cp)) oracle_only.
Definition uncovered : list (str * str) := filter (fun cp => negb (covered cp)) settable.

(** ** search for a refused assignment that changes the element (model-level witnesses) *)
Definition st_le (a b : st) : bool :=
  forallb (fun kv => match lookup (fst kv) b with
                     | Some t => str_eqb t (snd kv) && match lookup (fst kv) a with Some t' => str_eqb t' (snd kv) | None => false end
                     | None => false
                     end) a.
Definition st_same (a b : st) : bool :=
  forallb (fun kv => match lookup (fst kv) a, lookup (fst kv) b with
                     | Some x, Some y => str_eqb x y
                     | _, _ => false
                     end) (a ++ b).

Fixpoint prefixes_from (acc : path) (p : path) : list path :=
  match p with
  | [] => []
  | x :: r => (acc ++ [x]) :: prefixes_from (acc ++ [x]) r
  end.
Fixpoint steps_required (xs : list step) : list path :=
  match xs with
  | [] => []
  | SRequire q :: r => q :: steps_required r
  | _ :: r => steps_required r
  end.
Fixpoint required_paths (p : prog) : list path :=
  match p with
  | Done | Raise _ => []
  | Seq (SRequire q) k => q :: required_paths k
  | Seq _ k => required_paths k
  | If _ th el => required_paths th ++ required_paths el
  | Keep rs k => required_paths k ++ flat_map (fun r => steps_required (kp_wr r)) rs
  end.
(** the elements a setter dereferences without creating them *)
Definition base_state (p : prog) : st :=
  fold_left (fun s q => if present q s then s else put (q, None) [] s)
            (flat_map (prefixes_from []) (required_paths p)) [].

Definition probe_values : list aval :=
  [ plain (PInt 1); plain (PInt 5); plain (PInt 100); plain (PInt 914400); plain (PInt 1000000); plain (PFloat (Fin 1 (-1)));
    plain (PBool true); plain (PStr (s2l "x")); AV TLength (PInt 12700); AV TMember (PInt 1); AV TMember (PInt 2); AV TMember (PInt 3);
    AV TMember (PInt 4); AV TMember (PInt 5); AV TMember (PInt (-4152)); AV TMember (PStr (s2l "0A1B2C")) ].
Definition bad_values : list aval :=
  [ plain (PStr (s2l "abc")); plain (PInt (-7)); plain (PInt 1000000000000000000); plain (POther 0); a_none;
    plain (PFloat NaN); plain (PInt 987654); plain (PFloat (Fin (-3) (-1))) ].

(** states reached from the base state by one accepted assignment *)
Definition probe_states (e : entry) : list st :=
  let s0 := base_state (e_set e) in
  s0 :: flat_map (fun v => match run (e_set e) v s0 with (s1, Ok _) => [s1] | _ => [] end) probe_values.

Definition nonatomic_on (e : entry) (s : st) (v : aval) : bool :=
  match run (e_set e) v s with
  | (s', Err _) => negb (st_same s s')
  | _ => false
  end.
Definition nonatomic_witness (e : entry) : option (st * aval) :=
  find (fun sv => nonatomic_on e (fst sv) (snd sv))
       (flat_map (fun s => map (fun v => (s, v)) bad_values) (probe_states e)).
Definition nonatomic_labels : list str :=
  map entry_label (filter (fun e => match nonatomic_witness e with Some _ => true | None => false end) catalogue).
(** Class.name: the signature used for known findings *)
Definition entry_cn (e : entry) : str := e_cls e ++ [46%N] ++ e_name e.

(** the part of this that the property's statement forbids: after the refused assignment the
    property's own getter raises although it did not before *)
Definition is_ok (r : res pyval) : bool := match r with Ok _ => true | Err _ => false end.
Definition breaks_getter_on (e : entry) (s : st) (v : aval) : bool :=
  match run (e_set e) v s with
  | (s', Err _) => is_ok (eval (e_get e) s) && negb (is_ok (eval (e_get e) s'))
  | _ => false
  end.
Definition breaking_witness (e : entry) : option (st * aval) :=
  find (fun sv => breaks_getter_on e (fst sv) (snd sv))
       (flat_map (fun s => map (fun v => (s, v)) bad_values) (probe_states e)).
Definition breaking_labels : list str :=
  map entry_label (filter (fun e => match breaking_witness e with Some _ => true | None => false end) catalogue).
Definition breaking_cns : list str :=
  map entry_cn (filter (fun e => match breaking_witness e with Some _ => true | None => false end) catalogue).
Definition unknown_breaking : list str := filter (fun l => negb (mem_str l known_breaking)) breaking_cns.
