(** C16: recoverable irregular packages open intact; non-packages are refused cleanly.
    Statements only; every proof is [exact] of a lemma of proofs/Opc_proofs.v.  Same
    model as C01 (model/Opc.v) with the well-formedness hypothesis dropped.

    [open_presentation E s] models pptx.Presentation on what the physical reader hands
    over: [SrcNotFound] (a path that is neither a directory nor a zip file), [SrcNotZip]
    (a stream zipfile cannot read) or [SrcMembers p].  Outcomes: [ONotFound]
    (PackageNotFoundError), [OBadZip] (BadZipFile), [OErr KeyErr | ValueErr | OtherErr]
    (OtherErr: lxml could not parse an item), [OOk (package, main part)]. *)
From V.lib Require Import Prelude.
From V.model Require Import PackUri Opc OpcRun.
From V.gen Require Import GenC01.
From V.proofs Require Import Opc_proofs.

Theorem C16_no_unmodelled : unmodelled = [].
Proof. reflexivity. Qed.
Print Assumptions C16_no_unmodelled.

(** every outcome of opening, and what it says about the input: nothing but the four
    refusals of the property and lxml's parse error can come out *)
Theorem C16_classify : forall blob (E : env blob) (s : source blob),
  match open_presentation E s with
  | ONotFound => s = SrcNotFound
  | OBadZip => s = SrcNotZip
  | OErr e => exists p, s = SrcMembers p /\ load_presentation E p = Err e /\
                        (e = KeyErr \/ e = ValueErr \/ e = OtherErr)
  | OOk km => exists p, s = SrcMembers p /\ load_presentation E p = Ok km
  end.
Proof. exact @open_classify. Qed.
Print Assumptions C16_classify.

(** each refusal has one of the listed causes, stated on the physical package:
    KeyError: no content types item, a reached member without content type, a dangling
    relationship of unknown TargetMode, or no officeDocument relationship (which covers a
    missing package rels item and a missing main part);
    ValueError: several officeDocument relationships, an external one, or a main part whose
    content type is not a presentation type;
    parse error: an undecodable content types item or rels item, or an XML-class part that
    does not parse *)
Theorem C16_refusal_causes : forall blob (E : env blob) (p : phys blob) e,
  load_presentation E p = Err e ->
  (e = KeyErr /\ (cause_no_ct_item p \/ cause_untyped_part E p \/ cause_dangling_other_mode E p \/
                  exists k, load E p = Ok k /\ od_rels E k = [])) \/
  (e = ValueErr /\ exists k, load E p = Ok k /\
       ((exists r1 r2 l, od_rels E k = r1 :: r2 :: l) \/
        (exists r, od_rels E k = [r] /\ l_ext r = true) \/
        (exists r pt, od_rels E k = [r] /\ l_ext r = false /\ find_part k (l_target r) = Some pt /\
                      mem_str (p_ct pt) (prescts E) = false))) \/
  (e = OtherErr /\ (cause_ct_undecodable E p \/ cause_rels_undecodable E p \/ cause_xml_unparseable E p)).
Proof. exact @load_presentation_err. Qed.
Print Assumptions C16_refusal_causes.

(** the loader alone (OpcPackage.open) fails only with KeyError or a parse error *)
Theorem C16_load_errors : forall blob (E : env blob) (p : phys blob) e, load E p = Err e ->
  (e = KeyErr /\ (cause_no_ct_item p \/ cause_untyped_part E p \/ cause_dangling_other_mode E p)) \/
  (e = OtherErr /\ (cause_ct_undecodable E p \/ cause_rels_undecodable E p \/ cause_xml_unparseable E p)).
Proof. exact @load_err. Qed.
Print Assumptions C16_load_errors.

(** a successful opening: exactly one internal officeDocument relationship, resolving to a
    loaded part whose type is a presentation type *)
Theorem C16_opened : forall blob (E : env blob) (p : phys blob) k main,
  load_presentation E p = Ok (k, main) ->
  load E p = Ok k /\ exists r, od_rels E k = [r] /\ l_ext r = false /\
    find_part k (l_target r) = Some main /\ mem_str (p_ct main) (prescts E) = true.
Proof. exact @load_presentation_ok. Qed.
Print Assumptions C16_opened.

(** whatever loads: one part per reached member, and every internal relationship that was
    kept points at a loaded part (dangling ones were dropped) *)
Theorem C16_loaded_closed : forall blob (E : env blob) (p : phys blob) k, load E p = Ok k ->
  map p_name (k_parts k) = part_names E p /\
  (forall r, In r (k_rels k) -> l_ext r = false -> In (l_target r) (part_names E p)) /\
  (forall pt r, In pt (k_parts k) -> In r (p_rels pt) -> l_ext r = false ->
                In (l_target r) (part_names E p)).
Proof. exact @load_ok_shape. Qed.
Print Assumptions C16_loaded_closed.

(** case: the lookup depends on Default extensions and Override part names only through
    their lower-cased form, and on the part name only through its lower-cased form *)
Theorem C16_case_declarations : forall ds os ds' os' x,
  low_pairs ds = low_pairs ds' -> low_pairs os = low_pairs os' ->
  ct_lookup (ds, os) x = ct_lookup (ds', os') x.
Proof. exact ct_lookup_case_decl. Qed.
Print Assumptions C16_case_declarations.

Theorem C16_case_part_name : forall c x y, lower x = lower y -> ct_lookup c x = ct_lookup c y.
Proof. exact ct_lookup_case_name. Qed.
Print Assumptions C16_case_part_name.

(** regularise: take out everything the loader ignores (dangling internal relationships,
    unreferenced members, rels items of absent parts) and give every instantiated part a
    rels item.  When what is left is a well-formed package - that is, when the package's only
    defects are the tolerated irregularities - opening the irregular package gives the same
    package relationships and the same parts (name, type, payload, relationships) as
    opening its regularised form *)
Theorem C16_regularise : forall blob (E : env blob) (p : phys blob) k,
  codec_ok E -> load E p = Ok k -> (forall n, In n (part_names E p) -> part_name n) ->
  wf E (regularise E p) ->
  exists k', load E (regularise E p) = Ok k' /\ k_rels k' = k_rels k /\
             (forall pt, In pt (iter_parts k') <-> In pt (iter_parts k)).
Proof. exact @c16_regularise. Qed.
Print Assumptions C16_regularise.

(** with C01 on the regularised form: an irregular package opens with exactly the parts
    still reachable once the dangling relationships are left out, and the loaded graph is
    closed (every kept internal relationship points at one of those parts) *)
Theorem C16_preserved : forall blob (E : env blob) (p : phys blob) k,
  codec_ok E -> load E p = Ok k -> (forall n, In n (part_names E p) -> part_name n) ->
  wf E (regularise E p) ->
  (forall x, In x (map p_name (iter_parts k)) <-> (reachable E (regularise E p) x /\ x <> root)) /\
  (forall r, In r (k_rels k) -> l_ext r = false -> In (l_target r) (map p_name (iter_parts k))) /\
  (forall pt r, In pt (iter_parts k) -> In r (p_rels pt) -> l_ext r = false ->
                In (l_target r) (map p_name (iter_parts k))).
Proof. exact @c16_preserved. Qed.
Print Assumptions C16_preserved.

(* C16_save_partial (not proved): save E k and save E k' of C16_regularise have the same
   members with the same bytes (same_package), under env_ok and no_default_clash on the
   regularised form.  What is missing is that save does not depend on the order in which
   iter_parts yields the parts; C01_idem proves that for a package and its own saved form
   only.  The correspondence (checks/c16.py, c01.py malformed stream) exercises it. *)

(** rename_slide_parts (first access of prs.slides): when the listed relationship ids lead
    to distinct parts, the j-th listed slide part is named /ppt/slides/slide(j+1).xml
    afterwards, whatever it was called before (non-contiguous, out of order) *)
Theorem C16_rename : forall rs rids m, rename_map rs rids 1 = Ok m -> NoDup (map fst m) ->
  forall j rid, nth_error rids j = Some rid ->
    exists r, find (fun r => str_eqb (l_id r) rid) rs = Some r /\ l_ext r = false /\
              renamed m (l_target r) = slide_name (S j).
Proof. exact rename_in_order. Qed.
Print Assumptions C16_rename.

(** it fails only with KeyError (a listed id is not among the relationships, e.g. because
    its dangling relationship was dropped at load) or ValueError (the id is external) *)
Theorem C16_rename_errors : forall rs rids i e, rename_map rs rids i = Err e ->
  (e = KeyErr /\ exists rid, In rid rids /\ find (fun r => str_eqb (l_id r) rid) rs = None) \/
  (e = ValueErr /\ exists rid r, In rid rids /\ find (fun r => str_eqb (l_id r) rid) rs = Some r /\ l_ext r = true).
Proof. exact rename_map_err. Qed.
Print Assumptions C16_rename_errors.

(** ---- non-vacuity ---- *)

(* the deck of C01 opens as a presentation; its main part is /ppt/presentation.xml *)
Example C16_ex_opens :
  match open_presentation wenv (SrcMembers ex_deck) with
  | OOk (k, main) => p_name main = n_ppt_presentation_xml
  | _ => False
  end.
Proof. vm_compute. reflexivity. Qed.

(* the two-part package of C01 has no officeDocument relationship: KeyError *)
Example C16_ex_refused_key : open_presentation wenv (SrcMembers ex_clash) = OErr KeyErr.
Proof. vm_compute. reflexivity. Qed.

Example C16_ex_refused_reader :
  open_presentation wenv (@SrcNotFound wblob) = ONotFound /\ open_presentation wenv (@SrcNotZip wblob) = OBadZip.
Proof. split; reflexivity. Qed.

(* an empty member list: no content types item *)
Example C16_ex_refused_empty : open_presentation wenv (SrcMembers []) = OErr KeyErr /\ cause_no_ct_item (@nil (str * wblob)).
Proof. split; reflexivity. Qed.

(* case: upper-case Override part name and Default extension in ex_deck resolve *)
Example C16_ex_case :
  ct_in wenv ex_deck n_ppt_slides_slide1_xml = Ok ct_slide /\ ct_in wenv ex_deck n_ppt_media_image1_png = Ok ct_png.
Proof. vm_compute. split; reflexivity. Qed.

(* an irregular package (dangling core-properties and slide relationships, the absent slide
   still owning a rels item, a slide without rels item, an unreferenced thumbnail) meets
   the hypotheses of C16_regularise and C16_preserved *)
Example C16_ex_irregular_loads :
  match load wenv ex_irregular with
  | Ok k => map p_name (iter_parts k) = [n_ppt_presentation_xml; n_ppt_slides_slide1_xml]
            /\ map p_name (k_parts k) = [n_ppt_presentation_xml; n_ppt_slides_slide1_xml; n_ppt_media_image1_png]
            /\ length (k_rels k) = 1%nat
  | Err _ => False
  end.
Proof. vm_compute. repeat split. Qed.

Example C16_ex_irregular_names : forall n, In n (part_names wenv ex_irregular) -> part_name n.
Proof. exact ex_irregular_names. Qed.

Example C16_ex_irregular_reg_wf : wf wenv (regularise wenv ex_irregular).
Proof. exact ex_irregular_reg_wf. Qed.

Example C16_ex_regularised_members :
  has n_docProps_thumbnail_jpeg (regularise wenv ex_irregular) = false
  /\ has n_ppt_slides_NULL (regularise wenv ex_irregular) = false
  /\ has n_ppt_slides__rels_slide1_xml_rels (regularise wenv ex_irregular) = true
  /\ length (regularise wenv ex_irregular) = 8%nat.
Proof. vm_compute. repeat split. Qed.

(* renaming on the deck of C01: rId7 of the main part is its one slide *)
Example C16_ex_rename :
  match load_presentation wenv ex_deck with
  | Ok (k, main) =>
      exists m, rename_map (p_rels main) [s_rId7] 1 = Ok m /\ NoDup (map fst m) /\
                renamed m n_ppt_slides_slide1_xml = slide_name 1
  | Err _ => False
  end.
Proof. exact ex_deck_rename. Qed.
