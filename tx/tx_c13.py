"""Translator for C13: regenerate coq/gen/GenC13.v from /repo's current tree.

The model (coq/model/Placeholder.v) takes every table it uses from the generated file, so
an edit to one of the literal tables of python-pptx changes the model on the next run:

  * PP_PLACEHOLDER members that have an XML value (import of the live enum);
  * latent_ph_types (SlideLayout.iter_cloneable_placeholders) and the notes `cloneable`
    tuple (NotesSlide.clone_master_placeholders) -- tuple literals inside functions (AST);
  * the dict literals of _BaseShapes.ph_basename, NotesSlideShapes.ph_basename and
    LayoutPlaceholder._base_placeholder (AST);
  * placeholder_types_that_have_a_text_frame in CT_Shape.new_placeholder_sp (AST);
  * the two format strings of _BaseShapes._next_ph_name (AST) and its `numpart = id - 1`;
  * the attribute defaults of CT_Placeholder (read from a live <p:ph/> element) and the
    member lists of ST_Direction / ST_PlaceholderSize;
  * the shape trees of the new-slide, new-notes-slide and default notes-master templates
    (built by the live constructors, then read with lxml).

Fail-closed: every construct that does not have the expected shape is listed in
a comment and counted by
`n_unmodelled` (props/C13.v states n_unmodelled = 0; the texts are in gen/c13_meta.json).  The sets of enum members for which a
literal dict has no entry are also computed here, independently of the Coq side
(py_missing_*), and props/C13.v proves both computations agree.
"""
import ast
import json
import os
import sys

sys.path.insert(0, os.path.dirname(os.path.abspath(__file__)))
from xsdlib import REPO, write_if_changed  # noqa: E402

sys.path.insert(0, REPO + "/src")
VERIF = os.path.dirname(os.path.dirname(os.path.abspath(__file__)))
SRC = REPO + "/src/pptx/"


def find_func(tree, path):
    """path = [class-or-function names ...]; returns the innermost FunctionDef or None."""
    node = tree
    for name in path:
        nxt = None
        for ch in ast.walk(node) if node is not tree else tree.body:
            if isinstance(ch, (ast.ClassDef, ast.FunctionDef)) and ch.name == name and ch is not node:
                nxt = ch
                break
        if nxt is None:
            return None
        node = nxt
    return node


def enum_member(node):
    """PP_PLACEHOLDER.X -> member, else None."""
    from pptx.enum.shapes import PP_PLACEHOLDER

    if isinstance(node, ast.Attribute) and isinstance(node.value, ast.Name) and node.value.id == "PP_PLACEHOLDER":
        return getattr(PP_PLACEHOLDER, node.attr, None)
    return None


def tuple_assigned(func, var):
    """members of `var = (PP_PLACEHOLDER.A, ...)` inside func; None when not of that shape."""
    hits = [n for n in ast.walk(func) if isinstance(n, ast.Assign) and len(n.targets) == 1
            and isinstance(n.targets[0], ast.Name) and n.targets[0].id == var]
    if len(hits) != 1 or not isinstance(hits[0].value, ast.Tuple):
        return None
    ms = [enum_member(e) for e in hits[0].value.elts]
    return None if any(m is None for m in ms) else ms


def membership_tuple(func, module_tree):
    """The single tuple of PP_PLACEHOLDER members that a membership test (in / not in) of func refers to, whatever the
    tuple is called and wherever it is bound (inline, a local of func or of a nested function, or a module-level constant).
    None when there is no such test or the tests refer to different tuples."""
    def bound(name):
        hits = [n for n in ast.walk(func) if isinstance(n, ast.Assign) and len(n.targets) == 1
                and isinstance(n.targets[0], ast.Name) and n.targets[0].id == name]
        if not hits:
            hits = [n for n in module_tree.body if isinstance(n, ast.Assign) and len(n.targets) == 1
                    and isinstance(n.targets[0], ast.Name) and n.targets[0].id == name]
        return hits[0].value if len(hits) == 1 else None

    found = []
    for n in ast.walk(func):
        if isinstance(n, ast.Compare) and len(n.ops) == 1 and isinstance(n.ops[0], (ast.In, ast.NotIn)):
            c = n.comparators[0]
            if isinstance(c, ast.Name):
                c = bound(c.id)
            if isinstance(c, ast.Tuple):
                ms = [enum_member(e) for e in c.elts]
                if ms and all(m is not None for m in ms):
                    found.append(ms)
    if not found or any(f != found[0] for f in found):
        return None
    return found[0]


def dict_literal(func):
    """The single dict literal keyed by PP_PLACEHOLDER members that is subscripted in func."""
    hits = [n for n in ast.walk(func) if isinstance(n, ast.Subscript) and isinstance(n.value, ast.Dict)]
    if len(hits) != 1:
        return None
    d = hits[0].value
    out = []
    for k, v in zip(d.keys, d.values):
        km = enum_member(k)
        if km is None:
            return None
        if isinstance(v, ast.Constant) and isinstance(v.value, str):
            out.append((km, v.value))
        elif enum_member(v) is not None:
            out.append((km, enum_member(v)))
        else:
            return None
    return out


def coq_str(s):
    return "[" + "; ".join("%d%%N" % ord(c) for c in s) + "]"


def coq_nlist(ns):
    return "[" + "; ".join("%d%%N" % n for n in ns) + "]"


def coq_opt(v, f):
    return "None" if v is None else "Some (%s)" % f(v)


def tree_shapes(spTree, unmodelled, what):
    """Top-level shapes of a template tree: (id, name, ph attrs raw, off, ext, has_txBody)."""
    from pptx.oxml.ns import qn

    rows = []
    for e in spTree.iter_shape_elms():
        if e.tag != qn("p:sp"):
            unmodelled.append("%s: non-sp shape %s" % (what, e.tag))
            continue
        ph = e.ph
        attrs = None
        if ph is not None:
            attrs = (ph.get("type"), ph.get("idx"), ph.get("orient"), ph.get("sz"))
        xfrm = e.spPr.xfrm
        off = ext = None
        if xfrm is not None:
            if xfrm.off is not None:
                off = (int(xfrm.off.x), int(xfrm.off.y))
            if xfrm.ext is not None:
                ext = (int(xfrm.ext.cx), int(xfrm.ext.cy))
        rows.append((int(e.shape_id), e.shape_name, attrs, off, ext, e.txBody is not None))
    return rows


def main():
    import pptx  # noqa
    from pptx.enum.shapes import PP_PLACEHOLDER
    from pptx.oxml import parse_xml
    from pptx.oxml.ns import nsdecls
    from pptx.oxml.simpletypes import ST_Direction, ST_PlaceholderSize
    from pptx.oxml.slide import CT_NotesMaster, CT_NotesSlide, CT_Slide

    unmodelled = []
    members = [m for m in PP_PLACEHOLDER if m.xml_value]
    no_xml = [m for m in PP_PLACEHOLDER if not m.xml_value]

    def load(rel):
        return ast.parse(open(SRC + rel, encoding="utf-8").read())

    slide_py = load("slide.py")
    tree_py = load("shapes/shapetree.py")
    ph_py = load("shapes/placeholder.py")
    auto_py = load("oxml/shapes/autoshape.py")

    def need(val, what):
        if val is None:
            unmodelled.append(what)
            return []
        return val

    f = find_func(slide_py, ["SlideLayout", "iter_cloneable_placeholders"])
    latent = need((tuple_assigned(f, "latent_ph_types") or membership_tuple(f, slide_py)) if f else None,
                  "slide.py SlideLayout.iter_cloneable_placeholders latent_ph_types")
    f = find_func(slide_py, ["NotesSlide", "clone_master_placeholders"])
    notes_cloneable = need((tuple_assigned(f, "cloneable") or membership_tuple(f, slide_py)) if f else None,
                           "slide.py NotesSlide.clone_master_placeholders cloneable")
    f = find_func(tree_py, ["_BaseShapes", "ph_basename"])
    base_slide = need(dict_literal(f) if f else None, "shapetree.py _BaseShapes.ph_basename dict")
    f = find_func(tree_py, ["NotesSlideShapes", "ph_basename"])
    base_notes = need(dict_literal(f) if f else None, "shapetree.py NotesSlideShapes.ph_basename dict")
    f = find_func(ph_py, ["LayoutPlaceholder", "_base_placeholder"])
    lm_map = need(dict_literal(f) if f else None, "placeholder.py LayoutPlaceholder._base_placeholder dict")
    f = find_func(auto_py, ["CT_Shape", "new_placeholder_sp"])
    txbody = need((tuple_assigned(f, "placeholder_types_that_have_a_text_frame") or membership_tuple(f, auto_py)) if f else None,
                  "autoshape.py CT_Shape.new_placeholder_sp placeholder_types_that_have_a_text_frame")

    # SlideShapes must not override ph_basename (slides use the _BaseShapes table)
    from pptx.shapes.shapetree import NotesSlideShapes, SlideShapes, _BaseShapes
    if SlideShapes.ph_basename is not _BaseShapes.ph_basename:
        unmodelled.append("SlideShapes overrides ph_basename")
    if NotesSlideShapes.ph_basename is _BaseShapes.ph_basename:
        unmodelled.append("NotesSlideShapes no longer overrides ph_basename")
    if SlideShapes._next_ph_name is not _BaseShapes._next_ph_name or NotesSlideShapes._next_ph_name is not _BaseShapes._next_ph_name:
        unmodelled.append("_next_ph_name overridden")
    if SlideShapes.clone_placeholder is not _BaseShapes.clone_placeholder or NotesSlideShapes.clone_placeholder is not _BaseShapes.clone_placeholder:
        unmodelled.append("clone_placeholder overridden")

    # _next_ph_name: the prefix of vertical placeholders, the separator before the number and the starting number
    # (id - offset).  Read from the source when it has the expected shape; otherwise measured by calling the function
    # (its answers for a horizontal and a vertical placeholder on a fresh slide determine the three values; the
    # correspondence of every run re-checks the naming on every layout)
    f = find_func(tree_py, ["_BaseShapes", "_next_ph_name"])
    vertical_prefix, name_sep, numpart_offset = "", "", None
    local_unm = []
    if f is None:
        local_unm.append("shapetree.py _BaseShapes._next_ph_name")
    else:
        fmts = [n.left.value for n in ast.walk(f) if isinstance(n, ast.BinOp) and isinstance(n.op, ast.Mod)
                and isinstance(n.left, ast.Constant) and isinstance(n.left.value, str)]
        v = [s for s in fmts if s.endswith("%s") and s.count("%") == 1]
        n2 = [s for s in fmts if s.startswith("%s") and s.endswith("%d") and s.count("%") == 2]
        fmts, v, n2 = sorted(set(fmts)), sorted(set(v)), sorted(set(n2))      # the same literal may be spelled at two places
        if len(fmts) != 2 or len(v) != 1 or len(n2) != 1:
            local_unm.append("_next_ph_name format strings %r" % (fmts,))
        else:
            vertical_prefix = v[0][:-2]
            name_sep = n2[0][2:-2]
        nums = [n for n in ast.walk(f) if isinstance(n, ast.Assign) and isinstance(n.targets[0], ast.Name)
                and n.targets[0].id == "numpart"]
        if (len(nums) == 1 and isinstance(nums[0].value, ast.BinOp) and isinstance(nums[0].value.op, ast.Sub)
                and isinstance(nums[0].value.left, ast.Name) and nums[0].value.left.id == "id"
                and isinstance(nums[0].value.right, ast.Constant) and isinstance(nums[0].value.right.value, int)):
            numpart_offset = nums[0].value.right.value
        else:
            local_unm.append("_next_ph_name numpart initialisation")
            numpart_offset = 0
        cmp_vert = [n for n in ast.walk(f) if isinstance(n, ast.Compare) and isinstance(n.ops[0], ast.Eq)
                    and isinstance(n.comparators[0], ast.Attribute) and n.comparators[0].attr == "VERT"]
        if len(cmp_vert) != 1:
            local_unm.append("_next_ph_name orient test")
    if local_unm:
        try:
            import re as _re
            from pptx import Presentation
            _prs = Presentation()
            _shapes = _prs.slides.add_slide(_prs.slide_layouts[6]).shapes
            _base = _shapes.ph_basename(PP_PLACEHOLDER.BODY)
            _h = _shapes._next_ph_name(PP_PLACEHOLDER.BODY, 7, ST_Direction.HORZ)
            _v = _shapes._next_ph_name(PP_PLACEHOLDER.BODY, 7, ST_Direction.VERT)
            _m = _re.fullmatch(_re.escape(_base) + r"(\D*?)(\d+)", _h)
            if _m is None or not _v.endswith(_h):
                raise ValueError("names %r / %r do not have the shape prefix + base + separator + number" % (_h, _v))
            vertical_prefix, name_sep, numpart_offset = _v[: len(_v) - len(_h)], _m.group(1), 7 - int(_m.group(2))
            local_unm = []
        except Exception as e:  # noqa
            local_unm.append("_next_ph_name could not be measured either: %r" % (e,))
    unmodelled += local_unm

    # attribute defaults of p:ph
    ph = parse_xml("<p:ph %s/>" % nsdecls("p"))
    dirs = list(ST_Direction._members)
    szs = list(ST_PlaceholderSize._members)
    try:
        d_type, d_idx = ph.type, int(ph.idx)
        d_orient, d_sz = dirs.index(ph.orient), szs.index(ph.sz)
        vert = dirs.index(ST_Direction.VERT)
    except Exception as e:  # noqa
        unmodelled.append("CT_Placeholder defaults: %r" % e)
        d_type, d_idx, d_orient, d_sz, vert = PP_PLACEHOLDER.OBJECT, 0, 0, 0, 1
    if d_type not in members:
        unmodelled.append("default placeholder type has no XML value")

    # template trees
    def tmpl(root, what):
        spTree = root.cSld.spTree
        ids = [int(s) for s in root.xpath("//@id") if s.isdigit()]
        names = [str(s) for s in root.xpath("//p:cNvPr/@name")]
        return ids, names, tree_shapes(spTree, unmodelled, what)

    sld_ids, sld_names, sld_shapes = tmpl(CT_Slide.new(), "CT_Slide.new")
    nts_ids, nts_names, nts_shapes = tmpl(CT_NotesSlide.new(), "CT_NotesSlide.new")
    if sld_shapes or nts_shapes:
        unmodelled.append("new slide / notes slide template is not empty")
    nm_ids, nm_names, nm_shapes = tmpl(CT_NotesMaster.new_default(), "CT_NotesMaster.new_default")

    xml_to_val = {m.xml_value: m.value for m in members}

    def shape_term(row):
        sid, name, attrs, off, ext, tx = row
        if attrs is None:
            pht = "None"
        else:
            t, i, o, z = attrs
            bad = (t is not None and t not in xml_to_val) or (o is not None and o not in dirs) or (z is not None and z not in szs)
            if bad:
                unmodelled.append("template placeholder attributes %r" % (attrs,))
                pht = "None"
            else:
                pht = "Some (mk_ph (%s) (%s) (%s) (%s))" % (
                    coq_opt(t, lambda x: "%d%%N" % xml_to_val[x]), coq_opt(i, lambda x: "%d%%N" % int(x)),
                    coq_opt(o, lambda x: "%d%%N" % dirs.index(x)), coq_opt(z, lambda x: "%d%%N" % szs.index(x)))
        pr = lambda p: "(%d, %d)%%Z" % p
        return "mk_shape %d%%N %s (%s) (%s) (%s) %s" % (
            sid, coq_str(name), pht, coq_opt(off, pr), coq_opt(ext, pr), "true" if tx else "false")

    def missing(tbl):
        keys = {k for k, _ in tbl}
        return [m for m in members if m not in keys]

    def tbl_str(name, tbl, doc):
        rows = ";\n   ".join("(%d%%N, %s)  (* %s *)" % (k.value, coq_str(v), k.name) for k, v in tbl)
        return "(** %s *)\nDefinition %s : list (N * str) :=\n  [%s].\n" % (doc, name, rows)

    out = []
    out.append("(** GENERATED by tx/tx_c13.py from the current tree of /repo -- do not edit.\n"
               "    Literal tables of python-pptx that the C13 model (model/Placeholder.v) consumes. *)")
    out.append("From V.lib Require Import Prelude.\n")
    out.append("(** Raw p:ph attributes (None = attribute absent) and a top-level shape of a tree. *)")
    out.append("Record ph := mk_ph { a_type : option N; a_idx : option N; a_orient : option N; a_sz : option N }.")
    out.append("Record shape := mk_shape { s_id : N; s_name : str; s_ph : option ph;\n"
               "  s_off : option (Z * Z); s_ext : option (Z * Z); s_txbody : bool }.\n")
    out.append("(** PP_PLACEHOLDER members having an XML value: (enum value, code points of the XML token). *)")
    out.append("Definition ph_type_xml : list (N * str) :=\n  [%s].\n" % ";\n   ".join(
        "(%d%%N, %s)  (* %s %s *)" % (m.value, coq_str(m.xml_value), m.name, m.xml_value) for m in members))
    out.append("Definition all_ph_types : list N := %s.\n" % coq_nlist([m.value for m in members]))
    out.append("(** slide.py SlideLayout.iter_cloneable_placeholders: latent_ph_types = %s *)" % ", ".join(m.name for m in latent))
    out.append("Definition latent_types : list N := %s.\n" % coq_nlist([m.value for m in latent]))
    out.append("(** slide.py NotesSlide.clone_master_placeholders: cloneable = %s *)" % ", ".join(m.name for m in notes_cloneable))
    out.append("Definition notes_cloneable : list N := %s.\n" % coq_nlist([m.value for m in notes_cloneable]))
    out.append(tbl_str("basename_slide", base_slide, "shapes/shapetree.py _BaseShapes.ph_basename (used by SlideShapes)"))
    out.append(tbl_str("basename_notes", base_notes, "shapes/shapetree.py NotesSlideShapes.ph_basename"))
    out.append("(** shapes/placeholder.py LayoutPlaceholder._base_placeholder: layout type -> master type *)")
    out.append("Definition layout_master_map : list (N * N) :=\n  [%s].\n" % ";\n   ".join(
        "(%d%%N, %d%%N)  (* %s -> %s *)" % (k.value, v.value, k.name, v.name) for k, v in lm_map))
    out.append("(** oxml/shapes/autoshape.py CT_Shape.new_placeholder_sp: types given a p:txBody: %s *)" % ", ".join(m.name for m in txbody))
    out.append("Definition txbody_types : list N := %s.\n" % coq_nlist([m.value for m in txbody]))
    out.append("(** _BaseShapes._next_ph_name: 'Vertical %%s' prefix, separator of '%%s %%d', numpart = id - %s *)" % numpart_offset)
    out.append("Definition vertical_prefix : str := %s.  (* %r *)" % (coq_str(vertical_prefix), vertical_prefix))
    out.append("Definition name_sep : str := %s.  (* %r *)" % (coq_str(name_sep), name_sep))
    out.append("Definition numpart_offset : N := %d%%N.\n" % (numpart_offset or 0))
    out.append("(** CT_Placeholder attribute defaults; orient / sz are indices into ST_Direction._members = %r and\n"
               "    ST_PlaceholderSize._members = %r; orient_vert is the index of ST_Direction.VERT. *)" % (tuple(dirs), tuple(szs)))
    out.append("Definition default_type : N := %d%%N.  (* %s *)" % (d_type.value, d_type.name))
    out.append("Definition default_idx : N := %d%%N." % d_idx)
    out.append("Definition default_orient : N := %d%%N." % d_orient)
    out.append("Definition default_sz : N := %d%%N." % d_sz)
    out.append("Definition orient_vert : N := %d%%N." % vert)
    out.append("Definition n_orients : N := %d%%N." % len(dirs))
    out.append("Definition n_szs : N := %d%%N.\n" % len(szs))
    out.append("(** every @id and every p:cNvPr/@name of the element built by CT_Slide.new / CT_NotesSlide.new *)")
    out.append("Definition slide_tmpl_ids : list N := %s." % coq_nlist(sld_ids))
    out.append("Definition slide_tmpl_names : list str := [%s]." % "; ".join(coq_str(n) for n in sld_names))
    out.append("Definition notes_tmpl_ids : list N := %s." % coq_nlist(nts_ids))
    out.append("Definition notes_tmpl_names : list str := [%s].\n" % "; ".join(coq_str(n) for n in nts_names))
    out.append("(** top-level shapes of templates/notesMaster.xml (CT_NotesMaster.new_default) *)")
    out.append("Definition default_notes_master : list shape :=\n  [%s].\n" % ";\n   ".join(shape_term(r) for r in nm_shapes))
    out.append("(** computed on the python side: enum members (with an XML value) that have no key in the dict *)")
    out.append("Definition py_missing_basename_slide : list N := %s.  (* %s *)" % (
        coq_nlist([m.value for m in missing(base_slide)]), ", ".join(m.name for m in missing(base_slide))))
    out.append("Definition py_missing_basename_notes : list N := %s.  (* %s *)" % (
        coq_nlist([m.value for m in missing(base_notes)]), ", ".join(m.name for m in missing(base_notes))))
    out.append("Definition py_missing_layout_master_map : list N := %s.  (* %s *)\n" % (
        coq_nlist([m.value for m in missing(lm_map)]), ", ".join(m.name for m in missing(lm_map))))
    for u in unmodelled:
        out.append("(** unmodelled: %s *)" % "".join(c if (c.isalnum() or c in " ._-:/,=") else "?" for c in u))
    out.append("Definition n_unmodelled : nat := %d%%nat." % len(unmodelled))
    text = "\n".join(out) + "\n"
    changed = write_if_changed(os.path.join(VERIF, "coq", "gen", "GenC13.v"), text)
    meta = {
        "types": {m.name: [m.value, m.xml_value] for m in members},
        "types_without_xml": [m.name for m in no_xml],
        "latent": [m.value for m in latent],
        "notes_cloneable": [m.value for m in notes_cloneable],
        "missing_basename_slide": [m.value for m in missing(base_slide)],
        "missing_basename_notes": [m.value for m in missing(base_notes)],
        "missing_layout_master_map": [m.value for m in missing(lm_map)],
        "orients": dirs, "szs": szs,
        "basename_slide": {k.xml_value: v for k, v in base_slide},
        "vertical_prefix": vertical_prefix,
        "unmodelled": unmodelled,
    }
    write_if_changed(os.path.join(VERIF, "coq", "gen", "c13_meta.json"), json.dumps(meta, indent=1, sort_keys=True) + "\n")
    print("tx_c13: %d types, %d/%d/%d table rows, %d unmodelled%s" % (
        len(members), len(base_slide), len(base_notes), len(lm_map), len(unmodelled), " (GenC13.v rewritten)" if changed else ""))
    return 0


if __name__ == "__main__":
    sys.exit(main())
