(** Instance obligations over the data regenerated from /repo (gen/GenC10.v). *)
From V.lib Require Import Prelude.
From V.model Require Import Schema Xmlchemy.
From V.proofs Require Import Schema_proofs Xmlchemy_proofs C10_proofs.
From V.gen Require Import GenC10.

Lemma no_unmodelled : n_unmodelled = 0.
Proof. vm_compute. reflexivity. Qed.

Definition ck_ok (ck : check) : bool := memN (ck_id ck) known_failing || ck_decl_ok ck.

Lemma all_ck_ok : forallb ck_ok checks = true.
Proof. vm_compute. reflexivity. Qed.

Lemma all_declared : forall ck, In ck checks -> memN (ck_id ck) known_failing = false ->
  forall w, lang (ck_cm ck) w ->
  ord (rank (flatten (ck_cm ck))) (ck_apply ck w)
  /\ exists w1 w2, w = w1 ++ w2 /\ ck_apply ck w = w1 ++ ck_child ck :: w2
     /\ (forall u, In u w1 -> rank (flatten (ck_cm ck)) u <= rank (flatten (ck_cm ck)) (ck_child ck))
     /\ (forall u, In u w2 -> rank (flatten (ck_cm ck)) (ck_child ck) <= rank (flatten (ck_cm ck)) u).
Proof.
  intros ck Hin Hk w Hw. pose proof (proj1 (forallb_forall _ _) all_ck_ok ck Hin) as H.
  unfold ck_ok in H. rewrite Hk in H. simpl in H. unfold ck_decl_ok, ck_apply in *.
  destruct (ck_first ck).
  - destruct (insert_first_ordered _ _ H w Hw) as [Ho Hr]. split; auto.
    exists [], w. repeat split; auto. intros u [].
  - apply insert_schema_ordered; auto.
Qed.

Definition ck_refuted (ck : check) : bool :=
  negb (memN (ck_id ck) known_failing) ||
  (let f := flatten (ck_cm ck) in
   let w := ck_witness ck in
   ordb (rank f) w && negb (ordb (rank f) (ck_apply ck w))).

Lemma all_ck_refuted : forallb ck_refuted checks = true.
Proof. vm_compute. reflexivity. Qed.

Lemma known_failing_refuted : forall ck, In ck checks -> memN (ck_id ck) known_failing = true ->
  let f := flatten (ck_cm ck) in
  let w := ck_witness ck in
  ordb (rank f) w = true /\ ordb (rank f) (ck_apply ck w) = false.
Proof.
  intros ck Hin Hk. pose proof (proj1 (forallb_forall _ _) all_ck_refuted ck Hin) as H.
  unfold ck_refuted in H. rewrite Hk in H. simpl in H.
  apply andb_true_iff in H as [H1 H2]. apply negb_true_iff in H2. auto.
Qed.
