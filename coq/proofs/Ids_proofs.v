(** Proofs about model/Ids.v (C06). *)
From V.lib Require Import Prelude Wire.
From V.model Require Import PackUri Ids.
