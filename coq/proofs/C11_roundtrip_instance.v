(** Round-trip clause ( RT ) of C11 for the simple-type classes WITHOUT a canonical descriptor:
    reading the written form returns the value written, to within the quantum of the type.
    Proved at class level on the Gallina regenerated from simpletypes.py ( gen/GenC11.v ), for ALL
    python values the class accepts.  The generated definitions are only ever unfolded all at once
    ( unfold_gen ), never by name, so that the proofs survive harmless refactorings of the source.

    integer classes                        exact: the value read equals the value written
    ST_TextSpacingPoint                    EMU in, centipoints out: reads back v // 127 * 127, less than 127 EMU below v
    percentage classes                     float read back within 1/100000 of float( v )
    ST_TextFontScalePercentOrPercentString float read back within 1/1000 ( + 1e-13 of float noise ) of float( v )
    ST_Angle                               float read back within 1/60000 degree of float( v ) modulo 360
    ST_PositiveFixedAngle                  float read back within 1/60000 degree of the EXACT value of v modulo 360
                                           ( an int is reduced as an int; ST_Angle reduces float( v ): the two differ
                                           for ints beyond 2^53, Example angle_big_int )
    XsdDouble / ST_AxisUnit                PARTIAL: the text is repr( float( v ) ) and determines that float;
                                           that python float( repr( f ) ) = f is in the trusted base
    ST_HexColorRGB                         reads back the upper-cased string *)
From V.lib Require Import Prelude PyFloat PyVal.
From V.model Require Import SimpleTypeLib.
From V.proofs Require Import PyFloat_proofs SimpleTypeLib_proofs Props_proofs C11_float_instance C11_write_instance
  C11_regex C11_patterns C11_read_instance.
From V.gen Require Import GenC11.
From Coq Require Import Lia ZifyBool QArith Qabs Lqa.
Local Open Scope Z_scope.

(** ------------------------------------------------------------------------------------------
    1. integer classes: exact *)

(** comparisons of two python ints *)
Lemma py_le_ints a b : py_le (PInt a) (PInt b) = Ok (a <=? b).
Proof. unfold py_le, py_order. cbn [as_num cmp_num]. unfold Z.leb. destruct (a ?= b); reflexivity. Qed.
Lemma py_ge_ints a b : py_ge (PInt a) (PInt b) = Ok (b <=? a).
Proof.
  unfold py_ge, py_order. cbn [as_num cmp_num]. rewrite Z.leb_antisym, Z.ltb_compare.
  destruct (a ?= b); reflexivity.
Qed.

(** what an integer literal written by str( int ) looks like to the readers *)
Lemma in_lit c z : is_digit c = false -> c <> 45%N -> c <> 43%N ->
  py_in (PStr [c]) (PStr (str_of_Z z)) = Ok false.
Proof.
  intros Hd H45 H43. rewrite py_in_char.
  now rewrite (int_lit_free c _ z (lex_integer_str_of_Z z) Hd H45 H43).
Qed.
Lemma endswith_lit c z : is_digit c = false ->
  as_bool (py_endswith (PStr (str_of_Z z)) (PStr [c])) = Ok false.
Proof.
  intros Hd. cbn [py_endswith with_str as_bool bind py_truth].
  now rewrite (int_lit_not_ends c _ z (lex_integer_str_of_Z z) Hd).
Qed.
Lemma py_int_lit z : - big < z < big -> py_int (PStr (str_of_Z z)) = Ok (PInt z).
Proof. intros H. cbn [py_int]. now rewrite (int_of_str_of_Z z (big_small z H)). Qed.

(** stages of a successful to_xml, then the range tests as facts about z *)
Ltac crunch :=
  repeat (progress (binv3; cbn [py_int py_str py_Emu bind as_bool py_truth negb] in * |- ; norm_range;
                    try match goal with
                        | H : true = false |- _ => discriminate H
                        | H : false = true |- _ => discriminate H
                        end)).

Ltac int_ranges :=
  repeat match goal with
  | H : py_lt (PInt _) (PInt _) = Ok _ |- _ => rewrite py_lt_ints in H; injection H as H
  | H : py_gt (PInt _) (PInt _) = Ok _ |- _ => rewrite py_gt_ints in H; injection H as H
  | H : py_le (PInt _) (PInt _) = Ok _ |- _ => rewrite py_le_ints in H; injection H as H
  | H : py_ge (PInt _) (PInt _) = Ok _ |- _ => rewrite py_ge_ints in H; injection H as H
  end.

(** what the readers do with an integer literal *)
Ltac read_lit :=
  repeat first
    [ rewrite in_lit by (first [reflexivity | discriminate])
    | rewrite endswith_lit by reflexivity
    | rewrite py_int_lit by (unfold big; lia)
    | progress cbn [bind py_Emu py_int] ].

Ltac isinst := cbn [py_isinstance existsb isinstance1 as_bool bind py_truth negb orb].

(** the whole argument for an integer class: an int in range is written as its decimal literal, which has no
    letter and no percent sign and is read by int( ); a bool is an int; anything else is refused *)
Ltac rt_int_class :=
  let v := fresh "v" in let s := fresh "s" in let H := fresh "H" in
  intros v s; destruct v as [z|b|f|s0| |l|n];
  [ unfold_gen; isinst; intros H; crunch; int_ranges; read_lit;
    eexists; split; [reflexivity|apply py_eqb_int]
  | destruct b; intros H; vm_compute in H;
    first [ discriminate H | injection H as <-; eexists; split; vm_compute; reflexivity ]
  | unfold_gen; isinst; intros H; discriminate H .. ].

Definition rt_exact (to_xml from_xml : pyval -> res pyval) : Prop :=
  forall v s, to_xml v = Ok (PStr s) -> exists v', from_xml (PStr s) = Ok v' /\ py_eqb v' v = true.

Theorem RT_Coordinate : rt_exact ST_Coordinate__to_xml ST_Coordinate__from_xml.
Proof. unfold rt_exact. rt_int_class. Qed.
Theorem RT_Coordinate32 : rt_exact ST_Coordinate32__to_xml ST_Coordinate32__from_xml.
Proof. unfold rt_exact. rt_int_class. Qed.
Theorem RT_PositiveCoordinate : rt_exact ST_PositiveCoordinate__to_xml ST_PositiveCoordinate__from_xml.
Proof. unfold rt_exact. rt_int_class. Qed.
Theorem RT_LineWidth : rt_exact ST_LineWidth__to_xml ST_LineWidth__from_xml.
Proof. unfold rt_exact. rt_int_class. Qed.
Theorem RT_SlideSizeCoordinate : rt_exact ST_SlideSizeCoordinate__to_xml ST_SlideSizeCoordinate__from_xml.
Proof. unfold rt_exact. rt_int_class. Qed.
Theorem RT_BubbleScale : rt_exact ST_BubbleScale__to_xml ST_BubbleScale__from_xml.
Proof. unfold rt_exact. rt_int_class. Qed.
Theorem RT_GapAmount : rt_exact ST_GapAmount__to_xml ST_GapAmount__from_xml.
Proof. unfold rt_exact. rt_int_class. Qed.
Theorem RT_Overlap : rt_exact ST_Overlap__to_xml ST_Overlap__from_xml.
Proof. unfold rt_exact. rt_int_class. Qed.
Theorem RT_LblOffset : rt_exact ST_LblOffset__to_xml ST_LblOffset__from_xml.
Proof. unfold rt_exact. rt_int_class. Qed.

(** ------------------------------------------------------------------------------------------
    2. ST_TextSpacingPoint ( a:spcPts/@val ): a Length in EMU is written in centipoints, rounding down
    ( Length.centipoints = emu // 127 ), and read back as Centipoints( n ) = n * 127 EMU.  The quantum of the
    type is one centipoint = 127 EMU: what comes back is the largest multiple of 127 not above the value. *)
Definition as_int (v : pyval) : option Z :=
  match v with PInt z => Some z | PBool b => Some (if b then 1 else 0) | _ => None end.

Lemma as_int_eqb v z : as_int v = Some z -> py_eqb (PInt z) v = true.
Proof.
  destruct v as [z'|b| | | | |]; cbn [as_int]; intros [= <-]; cbn [py_eqb as_num cmp_num];
    now rewrite Z.compare_refl.
Qed.

Lemma py_centipoints_int z : Length__centipoints (PInt z) = Ok (PInt (z / 127)).
Proof. reflexivity. Qed.
Lemma py_floordiv127_int z : py_floordiv (PInt z) (PInt 127) = Ok (PInt (z / 127)).
Proof. reflexivity. Qed.
Lemma py_Centipoints_int k : py_Centipoints (PInt k) = Ok (PInt (k * 127)).
Proof. reflexivity. Qed.
Lemma quantum127 z : 0 <= z - z / 127 * 127 < 127.
Proof. pose proof (Z.div_mod z 127 ltac:(lia)). pose proof (Z.mod_pos_bound z 127 ltac:(lia)). lia. Qed.
Lemma div127_small z : 0 <= z <= 20116800 -> - big < z / 127 < big.
Proof.
  intros H. assert (0 <= z / 127) by (apply Z.div_pos; lia).
  assert (z / 127 <= 20116800) by (apply Z.div_le_upper_bound; lia). unfold big. lia.
Qed.

Theorem RT_TextSpacingPoint : forall v s, ST_TextSpacingPoint__to_xml v = Ok (PStr s) ->
  exists z, as_int v = Some z /\ 0 <= z <= 20116800
    /\ ST_TextSpacingPoint__from_xml (PStr s) = Ok (PInt (z / 127 * 127))
    /\ 0 <= z - z / 127 * 127 < 127.
Proof.
  intros v s; destruct v as [z|b|f|s0| |l|n].
  - unfold_gen; isinst; intros H; crunch. rewrite ?py_centipoints_int, ?py_floordiv127_int in *. crunch. int_ranges.
    exists z. split; [reflexivity|]. split; [lia|]. split; [|apply quantum127].
    rewrite py_int_lit by (apply div127_small; lia). cbn [bind]. apply py_Centipoints_int.
  - destruct b; intros H; vm_compute in H; first [discriminate H | injection H as <-];
      (eexists; split; [reflexivity|]; split; [lia|]; split; [vm_compute; reflexivity|apply quantum127]).
  - unfold_gen; isinst; intros H; discriminate H.
  - unfold_gen; isinst; intros H; discriminate H.
  - unfold_gen; isinst; intros H; discriminate H.
  - unfold_gen; isinst; intros H; discriminate H.
  - unfold_gen; isinst; intros H; discriminate H.
Qed.

(** non-vacuity and the worst case: 253 EMU is written 1 ( centipoint ) and read back as 127 EMU *)
Example TextSpacingPoint_rt_examples :
  ST_TextSpacingPoint__to_xml (PInt 253) = Ok (PStr [49]%N)
  /\ ST_TextSpacingPoint__from_xml (PStr [49]%N) = Ok (PInt 127)
  /\ ST_TextSpacingPoint__to_xml (PInt 12700) = Ok (PStr [49; 48; 48]%N)
  /\ ST_TextSpacingPoint__from_xml (PStr [49; 48; 48]%N) = Ok (PInt 12700).
Proof. vm_compute. repeat split. Qed.

(** ------------------------------------------------------------------------------------------
    3. float-valued classes: error bounds over Q ( exact values of the binary64 model: Props_proofs.Qv ) *)
Local Open Scope Q_scope.

Lemma Qabs_le_iff x y : Qabs x <= y <-> - y <= x /\ x <= y.
Proof. apply Qabs_Qle_condition. Qed.

Definition mul_err (B : Q) : Q := p2 (-53) * B + p2 (-1075).
Definition rt_bound (B h C : Q) : Q :=
  (p2 (-52) * ((B + mul_err B + h) / C) + p2 (-1075)) + (h + mul_err B) / C.

Lemma rt_sandwich x y kq r C B h :
  0 < C -> 
  Qabs (x * C) <= B ->
  Qabs (y - x * C) <= p2 (-53) * Qabs (x * C) + p2 (-1075) ->
  Qabs (kq - y) <= h ->
  Qabs (r - kq / C) <= p2 (-52) * Qabs (kq / C) + p2 (-1075) ->
  Qabs (r - x) <= rt_bound B h C.
Proof.
  intros HC HB Hy Hk Hr. unfold rt_bound, mul_err.
  pose proof (p2_pos (-53)) as P53. pose proof (p2_pos (-52)) as P52. pose proof (p2_pos (-1075)) as Pe.
  set (eps := p2 (-1075)) in *. set (p53 := p2 (-53)) in *. set (p52 := p2 (-52)) in *.
  assert (Hic : 0 < / C) by (apply Qinv_lt_0_compat; exact HC).
  assert (Hci : C * / C == 1) by (apply Qmult_inv_r; lra).
  unfold Qdiv in *. set (ic := / C) in *. set (xc := x * C) in *.
  assert (Hx : x == xc * ic) by (unfold xc; rewrite <- Qmult_assoc, Hci; ring).
  assert (Hy' : Qabs (y - xc) <= p53 * B + eps).
  { eapply Qle_trans; [exact Hy|]. assert (p53 * Qabs xc <= p53 * B) by (apply Qmult_le_l; auto). lra. }
  set (a1 := p53 * B + eps) in *.
  apply Qabs_le_iff in HB, Hy', Hk.
  assert (Hkx : Qabs (kq - xc) <= h + a1) by (apply Qabs_le_iff; lra).
  assert (Hkq : Qabs kq <= B + a1 + h) by (apply Qabs_le_iff; lra).
  assert (Hkqi : Qabs (kq * ic) <= (B + a1 + h) * ic).
  { rewrite Qabs_Qmult, (Qabs_pos ic) by lra. apply Qmult_le_compat_r; lra. }
  assert (Hr' : Qabs (r - kq * ic) <= p52 * ((B + a1 + h) * ic) + eps).
  { eapply Qle_trans; [exact Hr|]. assert (p52 * Qabs (kq * ic) <= p52 * ((B + a1 + h) * ic)) by (apply Qmult_le_l; auto). lra. }
  assert (Hd : Qabs (kq * ic - x) <= (h + a1) * ic).
  { setoid_replace (kq * ic - x) with ((kq - xc) * ic) by (rewrite Hx; ring).
    rewrite Qabs_Qmult, (Qabs_pos ic) by lra. apply Qmult_le_compat_r; lra. }
  setoid_replace (r - x) with ((r - kq * ic) + (kq * ic - x)) by ring.
  eapply Qle_trans; [apply Qabs_triangle|]. lra.
Qed.

(** int( x ) is within 1 of x *)
Lemma f_trunc_Q x k : f_trunc x = Ok k -> Qabs (inject_Z k - Qv x) <= 1.
Proof.
  intros H. destruct x as [m e| | |]; try discriminate H.
  rewrite (f_trunc_exact (Fin m e) eq_refl) in H. injection H as <-.
  rewrite (Qv_num_den (Fin m e) eq_refl). pose proof (f_den_pos (Fin m e)) as Hd.
  set (n := f_num (Fin m e)) in *. set (d := f_den (Fin m e)) in *.
  assert (Hdq : 0 < inject_Z d) by (change 0 with (inject_Z 0); rewrite <- Zlt_Qlt; lia).
  pose proof (Z.quot_rem' n d) as Hqr. pose proof (Z.rem_bound_abs n d ltac:(lia)) as Hrb.
  change (inject_Z (m * 2 ^ Z.max e 0 ÷ 2 ^ Z.max (- e) 0)) with (inject_Z (n ÷ d)).
  setoid_replace (inject_Z (n ÷ d) - inject_Z n / inject_Z d) with (inject_Z (- Z.rem n d) / inject_Z d).
  - unfold Qdiv. rewrite Qabs_Qmult, Qabs_inject, (Qabs_pos (/ inject_Z d)) by (apply Qlt_le_weak, Qinv_lt_0_compat; auto).
    apply Qle_shift_div_r; auto. rewrite Qmult_1_l. rewrite <- Zle_Qle. lia.
  - replace (- Z.rem n d)%Z with ((n ÷ d) * d + - n)%Z by lia.
    rewrite inject_Z_plus, inject_Z_opp, inject_Z_mult. field. lra.
Qed.

Lemma f_leb_Q m1 e1 m2 e2 : f_leb (Fin m1 e1) (Fin m2 e2) = true -> Qv (Fin m1 e1) <= Qv (Fin m2 e2).
Proof.
  unfold f_leb. rewrite f_cmp_Q.
  destruct (Qcompare_spec (Qv (Fin m1 e1)) (Qv (Fin m2 e2))) as [C|C|C]; intros H; try discriminate H; lra.
Qed.

(** float( v ) is the float that enters mixed arithmetic *)
Lemma py_float_num v n fx : as_num v = Some n -> num_float n = Ok fx -> py_float v = Ok (PFloat fx).
Proof.
  destruct v as [z|b|f| | | |]; cbn [as_num]; intros [= <-]; cbn [num_float py_float].
  - intros ->. reflexivity.
  - destruct b; vm_compute; intros [= <-]; reflexivity.
  - intros [= <-]. reflexivity.
Qed.

(** the division the readers perform on the integer they parsed *)
Lemma truediv_lit k d : (Z.abs k < 2 ^ 53)%Z -> (0 < d)%Z ->
  py_truediv (PInt k) (PFloat (Fin d 0)) = Ok (PFloat (fl_div_e k d 0)).
Proof.
  intros Hk Hd. unfold py_truediv, arith. cbn [as_num num_float bind]. rewrite (f_of_Z_small k Hk).
  assert (E : forall m, f_div (Fin m 0) (Fin d 0) = Ok (fl_div_e m d 0)).
  { intros m. unfold f_div. cbn [f_is_zero]. destruct (Z.eqb_spec d 0); [lia|].
    destruct (Z.ltb_spec d 0); [lia|]. rewrite (Z.abs_eq d) by lia. reflexivity. }
  destruct (Z.eqb_spec k 0) as [->|Hk0]; cbn [bind]; rewrite E; reflexivity.
Qed.

Lemma div_lit_Q k d : (Z.abs k < 2 ^ 53)%Z -> (0 < d)%Z ->
  exists m2 e2, fl_div_e k d 0 = Fin m2 e2
    /\ Qabs (Qv (Fin m2 e2) - inject_Z k / inject_Z d) <= p2 (-52) * Qabs (inject_Z k / inject_Z d) + p2 (-1075).
Proof.
  intros Hk Hd. destruct (Z.eq_dec k 0) as [->|Hk0].
  - exists 0%Z, 0%Z. split.
    + unfold fl_div_e. destruct (Z.leb_spec d 0); [lia|reflexivity].
    + assert (Z0 : inject_Z 0 / inject_Z d == 0) by (unfold Qdiv; change (inject_Z 0) with 0; ring).
      rewrite Z0. change (Qabs (Qv (Fin 0 0) - 0)) with 0. change (Qabs 0) with 0.
      pose proof (p2_pos (-1075)). lra.
  - assert (Hs : (0 <= Z.log2 d - Z.log2 (Z.abs k) + 55)%Z).
    { assert (Z.log2 (Z.abs k) < 53)%Z by (apply Z.log2_lt_pow2; lia). pose proof (Z.log2_nonneg d). lia. }
    destruct (fl_div_finite k d Hd Hk0 Hs) as [m2 [e2 Er]]. exists m2, e2. split; [exact Er|].
    pose proof (fl_div_rel k d 0 m2 e2 Hd Hk0 Hs Er) as Hc. change (p2 0) with 1 in Hc.
    setoid_replace (inject_Z k / inject_Z d * 1) with (inject_Z k / inject_Z d) in Hc by ring. exact Hc.
Qed.

(** the quantum statement: float( v ) exists and is finite, the written text is read as a finite float r, and
    r is within q of float( v ) ( modulo M when M is not 0: angles ) *)
Definition rt_quant_f (to_xml from_xml : pyval -> res pyval) (q M : Q) : Prop :=
  forall v s, to_xml v = Ok (PStr s) ->
  exists f r (j : Z), py_float v = Ok (PFloat f) /\ f_is_finite f = true
    /\ from_xml (PStr s) = Ok (PFloat r) /\ f_is_finite r = true
    /\ Qabs (Qv r - (Qv f - M * inject_Z j)) <= q.

(** validate_float_in_range then value * c: float( v ) is a NaN or lies between the bounds *)
Lemma scaled_inv v n lom loe him hie mc ec t :
  as_num v = Some n ->
  round_dy lom loe = Fin lom loe -> round_dy him hie = Fin him hie ->
  py_lt v (PFloat (Fin lom loe)) = Ok false -> py_gt v (PFloat (Fin him hie)) = Ok false ->
  py_mul v (PFloat (Fin mc ec)) = Ok t ->
  exists fx, py_float v = Ok (PFloat fx) /\ t = PFloat (f_mul fx (Fin mc ec)) /\
    (fx = NaN \/ exists m e, fx = Fin m e /\ Qv (Fin lom loe) <= Qv (Fin m e) /\ Qv (Fin m e) <= Qv (Fin him hie)).
Proof.
  intros Hn Rl Rh Hlt Hgt Hm.
  destruct (py_mul_float v n _ t Hn Hm) as (fx & Hf & ->). exists fx.
  split; [eapply py_float_num; eauto|]. split; [reflexivity|].
  destruct (range_check v n (Fin lom loe) (Fin him hie) Hn eq_refl eq_refl Hlt Hgt) as [HN|[Hl Hh]].
  - left. destruct n as [z|f]; cbn [num_exact num_float] in *; [discriminate HN|]. subst f. injection Hf as <-. reflexivity.
  - right. destruct (num_float_bounds n fx _ _ _ _ Rl Rh Hf Hl Hh) as (G1 & G2 & G3).
    destruct fx as [m e| | |]; try discriminate G3. exists m, e. split; [reflexivity|]. split; apply f_leb_Q; assumption.
Qed.

Lemma Qv_int d : Qv (Fin d 0) == inject_Z d.
Proof. cbn [Qv]. rewrite p2_0. ring. Qed.

(** the sandwich: value in [lo, hi], scaled by d with one float rounding, brought to an integer k within h,
    written, read by int( ) and divided by d with one float rounding *)
Lemma rt_core (from : pyval -> res pyval) m e (lo hi : Q) d m1 e1 k (B h q : Q) :
  (0 < d)%Z ->
  (forall k, (Z.abs k < 2 ^ 53)%Z -> from (PStr (str_of_Z k)) = Ok (PFloat (fl_div_e k d 0))) ->
  lo <= Qv (Fin m e) -> Qv (Fin m e) <= hi ->
  Qle_bool (- B) (lo * inject_Z d) = true -> Qle_bool (hi * inject_Z d) B = true ->
  Qle_bool (B + mul_err B + h + 1) (inject_Z (2 ^ 53)) = true ->
  Qle_bool (rt_bound B h (inject_Z d)) q = true ->
  f_mul (Fin m e) (Fin d 0) = Fin m1 e1 -> Qabs (inject_Z k - Qv (Fin m1 e1)) <= h ->
  exists r, from (PStr (str_of_Z k)) = Ok (PFloat r) /\ f_is_finite r = true /\ Qabs (Qv r - Qv (Fin m e)) <= q.
Proof.
  intros Hd Hread Hlo Hhi B1 B2 B3 B4 Em Hk.
  apply Qle_bool_iff in B1, B2, B3, B4.
  set (x := Qv (Fin m e)) in *. set (C := inject_Z d) in *.
  assert (HC : 0 < C) by (unfold C; change 0 with (inject_Z 0); rewrite <- Zlt_Qlt; exact Hd).
  assert (HB : Qabs (x * C) <= B).
  { apply Qabs_le_iff. split.
    - eapply Qle_trans; [exact B1|]. apply Qmult_le_compat_r; lra.
    - eapply Qle_trans; [|exact B2]. apply Qmult_le_compat_r; lra. }
  pose proof (f_mul_rel _ _ _ _ _ _ Em) as Ha. fold x in Ha. rewrite Qv_int in Ha. fold C in Ha.
  set (y := Qv (Fin m1 e1)) in *.
  assert (Hy' : Qabs (y - x * C) <= mul_err B).
  { eapply Qle_trans; [exact Ha|]. unfold mul_err. pose proof (p2_pos (-53)).
    assert (p2 (-53) * Qabs (x * C) <= p2 (-53) * B) by (apply Qmult_le_l; auto). lra. }
  assert (Hkz : (Z.abs k < 2 ^ 53)%Z).
  { apply Qabs_le_iff in HB, Hy', Hk.
    assert (K : - inject_Z (2 ^ 53) < inject_Z k < inject_Z (2 ^ 53)) by (split; lra).
    destruct K as [K1 K2]. rewrite <- inject_Z_opp in K1. rewrite <- Zlt_Qlt in K1, K2. lia. }
  rewrite (Hread k Hkz). destruct (div_lit_Q k d Hkz Hd) as (m2 & e2 & Er & Hr). rewrite Er.
  exists (Fin m2 e2). split; [reflexivity|]. split; [reflexivity|].
  eapply Qle_trans; [|exact B4]. fold C in Hr.
  apply (rt_sandwich x y (inject_Z k) (Qv (Fin m2 e2)) C B h); assumption.
Qed.

(** str( int( round( v * d ) ) ) read back as int( s ) / d *)
Lemma RT_round_scaled (from : pyval -> res pyval) v n lom loe him hie d t t1 t2 s (B q : Q) :
  as_num v = Some n ->
  round_dy lom loe = Fin lom loe -> round_dy him hie = Fin him hie -> (0 <? d)%Z = true ->
  (forall k, (Z.abs k < 2 ^ 53)%Z -> from (PStr (str_of_Z k)) = Ok (PFloat (fl_div_e k d 0))) ->
  Qle_bool (- B) (Qv (Fin lom loe) * inject_Z d) = true -> Qle_bool (Qv (Fin him hie) * inject_Z d) B = true ->
  Qle_bool (B + mul_err B + (1 # 2) + 1) (inject_Z (2 ^ 53)) = true ->
  Qle_bool (rt_bound B (1 # 2) (inject_Z d)) q = true ->
  py_lt v (PFloat (Fin lom loe)) = Ok false -> py_gt v (PFloat (Fin him hie)) = Ok false ->
  py_mul v (PFloat (Fin d 0)) = Ok t -> py_round t = Ok t1 -> py_int t1 = Ok t2 -> py_str t2 = Ok (PStr s) ->
  exists f r (j : Z), py_float v = Ok (PFloat f) /\ f_is_finite f = true
    /\ from (PStr s) = Ok (PFloat r) /\ f_is_finite r = true
    /\ Qabs (Qv r - (Qv f - 0 * inject_Z j)) <= q.
Proof.
  intros Hn Rl Rh Hd Hread B1 B2 B3 B4 Hlt Hgt Hm Hr Hi Hs. apply Z.ltb_lt in Hd.
  destruct (scaled_inv v n _ _ _ _ _ _ t Hn Rl Rh Hlt Hgt Hm) as (fx & Hf & -> & Hfx).
  cbn [py_round] in Hr. destruct (f_round (f_mul fx (Fin d 0))) as [k|] eqn:Ek; cbn [bind] in Hr; [|discriminate Hr].
  injection Hr as <-. cbn [py_int] in Hi. injection Hi as <-. apply py_str_int in Hs. subst s.
  destruct Hfx as [->|(m & e & -> & Hlo & Hhi)]; [discriminate Ek|].
  destruct (f_mul (Fin m e) (Fin d 0)) as [m1 e1| | |] eqn:Em; try discriminate Ek.
  pose proof (f_round_Q _ _ Ek) as Hk.
  destruct (rt_core from m e _ _ d m1 e1 k B (1 # 2) q Hd Hread Hlo Hhi B1 B2 B3 B4 Em Hk) as (r & R1 & R2 & R3).
  exists (Fin m e), r, 0%Z. repeat split; try assumption.
  setoid_replace (Qv (Fin m e) - 0 * inject_Z 0) with (Qv (Fin m e)) by ring. exact R3.
Qed.

(** str( int( v * d ) ) read back as int( s ) / d: int( ) truncates, the integer is within 1 of the product *)
Lemma RT_trunc_scaled (from : pyval -> res pyval) v n lom loe him hie d t t2 s (B q : Q) :
  as_num v = Some n ->
  round_dy lom loe = Fin lom loe -> round_dy him hie = Fin him hie -> (0 <? d)%Z = true ->
  (forall k, (Z.abs k < 2 ^ 53)%Z -> from (PStr (str_of_Z k)) = Ok (PFloat (fl_div_e k d 0))) ->
  Qle_bool (- B) (Qv (Fin lom loe) * inject_Z d) = true -> Qle_bool (Qv (Fin him hie) * inject_Z d) B = true ->
  Qle_bool (B + mul_err B + 1 + 1) (inject_Z (2 ^ 53)) = true ->
  Qle_bool (rt_bound B 1 (inject_Z d)) q = true ->
  py_lt v (PFloat (Fin lom loe)) = Ok false -> py_gt v (PFloat (Fin him hie)) = Ok false ->
  py_mul v (PFloat (Fin d 0)) = Ok t -> py_int t = Ok t2 -> py_str t2 = Ok (PStr s) ->
  exists f r (j : Z), py_float v = Ok (PFloat f) /\ f_is_finite f = true
    /\ from (PStr s) = Ok (PFloat r) /\ f_is_finite r = true
    /\ Qabs (Qv r - (Qv f - 0 * inject_Z j)) <= q.
Proof.
  intros Hn Rl Rh Hd Hread B1 B2 B3 B4 Hlt Hgt Hm Hi Hs. apply Z.ltb_lt in Hd.
  destruct (scaled_inv v n _ _ _ _ _ _ t Hn Rl Rh Hlt Hgt Hm) as (fx & Hf & -> & Hfx).
  cbn [py_int] in Hi. destruct (f_trunc (f_mul fx (Fin d 0))) as [k|] eqn:Ek; cbn [bind] in Hi; [|discriminate Hi].
  injection Hi as <-. apply py_str_int in Hs. subst s.
  destruct Hfx as [->|(m & e & -> & Hlo & Hhi)]; [discriminate Ek|].
  destruct (f_mul (Fin m e) (Fin d 0)) as [m1 e1| | |] eqn:Em; try discriminate Ek.
  pose proof (f_trunc_Q _ _ Ek) as Hk.
  destruct (rt_core from m e _ _ d m1 e1 k B 1 q Hd Hread Hlo Hhi B1 B2 B3 B4 Em Hk) as (r & R1 & R2 & R3).
  exists (Fin m e), r, 0%Z. repeat split; try assumption.
  setoid_replace (Qv (Fin m e) - 0 * inject_Z 0) with (Qv (Fin m e)) by ring. exact R3.
Qed.

(** the reader of an integer literal without percent sign: int( s ) / d *)
Ltac read_div :=
  let k := fresh "k" in let Hk := fresh "Hk" in
  intros k Hk; unfold_gen; pose proof Hk as Hk'; change (2 ^ 53)%Z with 9007199254740992%Z in Hk';
  repeat first
    [ rewrite in_lit by (first [reflexivity | discriminate])
    | rewrite endswith_lit by reflexivity
    | rewrite py_int_lit by (unfold big; lia)
    | progress cbn [bind] ];
  apply truediv_lit; [exact Hk|reflexivity].

Ltac hide_concl G := match goal with |- _ -> ?C => set (G := C) end.

Ltac rt_scaled lem Bv :=
  let v := fresh "v" in let s := fresh "s" in let H := fresh "H" in let G := fresh "G" in
  intros v s; hide_concl G; unfold_gen; intros H; binv3; subst G; num_split v; norm_range;
  (* a validator that calls float( v ) itself has had that call named by binv3: put it back *)
  try match goal with E : py_float ?x = Ok ?a |- context [Ok ?a = Ok (PFloat _)] => rewrite <- E end;
  (eapply lem with (B := Bv); try eassumption; [reflexivity|..];
   lazymatch goal with |- forall _, _ => read_div | |- _ => closed_compute end).

Theorem RT_Percentage : rt_quant_f ST_Percentage__to_xml ST_Percentage__from_xml (1 # 100000) 0.
Proof. unfold rt_quant_f. rt_scaled RT_round_scaled 2147483649. Qed.
Theorem RT_PositiveFixedPercentage :
  rt_quant_f ST_PositiveFixedPercentage__to_xml ST_PositiveFixedPercentage__from_xml (1 # 100000) 0.
Proof. unfold rt_quant_f. rt_scaled RT_round_scaled 100000. Qed.
Theorem RT_TextSpacingPercent :
  rt_quant_f ST_TextSpacingPercentOrPercentString__to_xml ST_TextSpacingPercentOrPercentString__from_xml (1 # 100000) 0.
Proof. unfold rt_quant_f. rt_scaled RT_round_scaled 13200000. Qed.

(** ST_TextFontScalePercentOrPercentString writes int( value * 1000.0 ): truncation, so the distance can be almost a
    whole unit of the written integer ( 1.001 is written 1000 and read back as 1.0 ).
    FULL STATEMENT ( not proved ): the float read back is within 1/1000 of float( v ).
    PROVED ( partial ): within 1/1000 + 1e-13.  What is missing is the last 1e-13: the exact product v * 1000 is below
    k + 1 whenever its rounding is, so the truncation itself stays below 1/1000, but the two float roundings
    ( product, quotient ) each add up to half a unit in the last place, and excluding that they push the total
    above 1/1000 needs the distance from ( k + 1 ) / 1000 to the nearest float below it.  An exhaustive run of the
    real class over the largest accepted float below each ( k + 1 ) / 1000, k = 1000 .. 99999, finds the
    largest distance 1/1000 - 1.1e-16 ( at 1.001 ): the full statement holds in CPython. *)
Definition fontscale_quantum : Q := (1 # 1000) + (1 # 10000000000000).
Theorem RT_TextFontScalePercent_partial :
  rt_quant_f ST_TextFontScalePercentOrPercentString__to_xml ST_TextFontScalePercentOrPercentString__from_xml
    fontscale_quantum 0.
Proof. unfold rt_quant_f. rt_scaled RT_trunc_scaled 100000. Qed.

(** the quantum is all but reached: 1.001 ( the float just below it; its product by 1000.0 is the float just
    below 1001 ) is written 1000 and read back as 1.0 *)
Example TextFontScalePercent_truncates :
  ST_TextFontScalePercentOrPercentString__to_xml (PFloat (Fin 2254051613498933 (-51)))
    = Ok (PStr [49; 48; 48; 48]%N)
  /\ ST_TextFontScalePercentOrPercentString__from_xml (PStr [49; 48; 48; 48]%N) = Ok (PFloat (Fin 4503599627370496 (-52))).   (* 1.0 *)
Proof. vm_compute. split; reflexivity. Qed.

(** non-vacuity: values of every kind are accepted and come back *)
Example Percentage_rt_examples :
  ST_Percentage__to_xml (PFloat (Fin 1 (-2))) = Ok (PStr [50; 53; 48; 48; 48]%N)         (* 0.25 -> 25000 *)
  /\ (exists r, ST_Percentage__from_xml (PStr [50; 53; 48; 48; 48]%N) = Ok (PFloat r) /\ f_eqb r (Fin 1 (-2)) = true)
  /\ ST_Percentage__to_xml (PInt 2) = Ok (PStr [50; 48; 48; 48; 48; 48]%N)
  /\ (exists r, ST_Percentage__from_xml (PStr [50; 48; 48; 48; 48; 48]%N) = Ok (PFloat r) /\ f_eqb r (Fin 2 0) = true)
  /\ ST_PositiveFixedPercentage__to_xml (PBool true) = Ok (PStr [49; 48; 48; 48; 48; 48]%N)
  /\ ST_TextSpacingPercentOrPercentString__to_xml (PFloat (Fin 3 (-1))) = Ok (PStr [49; 53; 48; 48; 48; 48]%N).
Proof. vm_compute. repeat split; eexists; split; reflexivity. Qed.

(** ------------------------------------------------------------------------------------------
    4. angles: ST_Angle ( a:xfrm/@rot ) and ST_PositiveFixedAngle ( a:lin/@ang ), 60000ths of a degree modulo a turn *)
Lemma eps_small : p2 (-1075) <= 1 # 1000000000000000000000000000000.
Proof. vm_compute. discriminate. Qed.
Lemma p2_m53 : p2 (-53) == 1 # 9007199254740992. Proof. reflexivity. Qed.
Lemma p2_m52 : p2 (-52) == 1 # 4503599627370496. Proof. reflexivity. Qed.

(** v % 360.0: a finite float within 2^-53 * 360 ( + 2^-1075 ) of v - 360 j for an integer j with 0 <= v - 360 j <= 360
    ( the same lemma as in proofs/C09_instance.v, repeated so that C11 does not depend on the C09 instance ) *)
Lemma f_mod_360 m e x : f_mod (Fin m e) (Fin 360 0) = Ok x ->
  exists m0 e0 (j : Z), x = Fin m0 e0
    /\ 0 <= Qv (Fin m e) - 360 * inject_Z j <= 360
    /\ Qabs (Qv (Fin m0 e0) - (Qv (Fin m e) - 360 * inject_Z j)) <= p2 (-53) * 360 + p2 (-1075).
Proof.
  unfold f_mod. cbn [f_is_zero]. change (360 =? 0)%Z with false. cbn iota.
  destruct (Z.eqb_spec m 0) as [->|Hm].
  { intros [= <-]. exists 0%Z, 0%Z, 0%Z. split; auto. cbn [Qv]. change (inject_Z 0) with 0.
    split; [split; lra|]. setoid_replace (0 * p2 0 - (0 * p2 e - 360 * 0)) with 0 by ring.
    pose proof (p2_pos (-53)). pose proof (p2_pos (-1075)). change (Qabs 0) with 0. lra. }
  set (E := Z.min e 0). set (A := Z.shiftl m (e - E)). set (B := Z.shiftl 360 (0 - E)).
  assert (HEe : (E <= e)%Z) by (unfold E; lia). assert (HE0 : (E <= 0)%Z) by (unfold E; lia).
  assert (HA : inject_Z A * p2 E == Qv (Fin m e)) by (unfold A; cbn [Qv]; apply shiftl_Q; auto).
  assert (HB : inject_Z B * p2 E == 360).
  { unfold B. rewrite shiftl_Q by auto. reflexivity. }
  assert (HBpos : (0 < B)%Z).
  { unfold B. rewrite Z.shiftl_mul_pow2 by lia. assert (0 < 2 ^ (0 - E))%Z by (apply Z.pow_pos_nonneg; lia). lia. }
  pose proof (Z.quot_rem' A B) as Hqr. pose proof (Z.rem_bound_abs A B ltac:(lia)) as Hrb.
  set (r := Z.rem A B) in *. set (q := Z.quot A B) in *.
  pose proof (p2_pos E) as PE. pose proof (p2_pos (-53)) as P53. pose proof (p2_pos (-1075)) as Peps.
  assert (Hval : inject_Z r * p2 E == Qv (Fin m e) - 360 * inject_Z q).
  { rewrite <- HA, <- HB. replace r with (A - B * q)%Z by lia.
    replace (A - B * q)%Z with (A + - (B * q))%Z by lia. rewrite inject_Z_plus, inject_Z_opp, inject_Z_mult. ring. }
  destruct (Z.eqb_spec r 0) as [Hr0|Hr0].
  { intros [= <-]. exists 0%Z, 0%Z, q. split; auto. rewrite Hr0 in Hval. change (inject_Z 0) with 0 in Hval.
    split; [split; lra|]. cbn [Qv] in *. change (inject_Z 0) with 0.
    setoid_replace (0 * p2 0 - (inject_Z m * p2 e - 360 * inject_Z q)) with (- (0 * p2 E)) by (rewrite Hval; ring).
    apply Qabs_le_iff; split; lra. }
  change (360 <? 0)%Z with false.
  destruct (Z.ltb_spec r 0) as [Hneg|Hpos]; cbn [Bool.eqb].
  - (* negative remainder: 360 is added in floating point *)
    assert (HX : f_add (Fin r E) (Fin 360 0) = round_dy (r + B) E).
    { cbn [f_add]. destruct (Z.eqb_spec r 0); [contradiction|]. change (360 =? 0)%Z with false. cbn iota.
      replace (Z.min E 0) with E by lia. replace (E - E)%Z with 0%Z by lia. rewrite Z.shiftl_0_r. reflexivity. }
    rewrite HX. intros [= <-].
    assert (Hsum : inject_Z (r + B) * p2 E == Qv (Fin m e) - 360 * inject_Z (q - 1)).
    { rewrite inject_Z_plus. replace (q - 1)%Z with (q + (-1))%Z by lia. rewrite inject_Z_plus.
      change (inject_Z (-1)) with (-1). setoid_replace ((inject_Z r + inject_Z B) * p2 E) with (inject_Z r * p2 E + inject_Z B * p2 E) by ring.
      rewrite Hval, HB. ring. }
    assert (Hrange : 0 <= inject_Z (r + B) * p2 E <= 360).
    { assert (0 <= r + B <= B)%Z by lia. split.
      - apply Qmult_le_0_compat; [change 0 with (inject_Z 0); rewrite <- Zle_Qle; lia|lra].
      - rewrite <- HB. apply Qmult_le_compat_r; [rewrite <- Zle_Qle; lia|lra]. }
    destruct (round_dy_finite (r + B) E) as [m0 [e0 Hfin]].
    { assert (Z.log2 (Z.abs (r + B)) <= Z.log2 B)%Z by (apply Z.log2_le_mono; lia).
      assert (Z.log2 B = 8 + (0 - E))%Z.
      { unfold B. rewrite Z.shiftl_mul_pow2 by lia. rewrite Z.log2_mul_pow2 by lia. change (Z.log2 360) with 8%Z. lia. }
      lia. }
    exists m0, e0, (q - 1)%Z. split; auto. split; [rewrite <- Hsum; auto|].
    pose proof (round_dy_rel _ _ _ _ Hfin) as Hrel. rewrite <- Hsum.
    eapply Qle_trans; [apply Hrel|].
    assert (Qabs (inject_Z (r + B) * p2 E) <= 360) by (apply Qabs_le_iff; split; lra).
    assert (p2 (-53) * Qabs (inject_Z (r + B) * p2 E) <= p2 (-53) * 360).
    { rewrite !(Qmult_comm (p2 (-53))). apply Qmult_le_compat_r; lra. }
    lra.
  - (* positive remainder *)
    intros [= <-].
    assert (Hrange : 0 <= inject_Z r * p2 E <= 360).
    { assert (0 <= r <= B)%Z by lia. split.
      - apply Qmult_le_0_compat; [change 0 with (inject_Z 0); rewrite <- Zle_Qle; lia|lra].
      - rewrite <- HB. apply Qmult_le_compat_r; [rewrite <- Zle_Qle; lia|lra]. }
    destruct (round_dy_finite r E) as [m0 [e0 Hfin]].
    { assert (Z.log2 (Z.abs r) <= Z.log2 B)%Z by (apply Z.log2_le_mono; lia).
      assert (Z.log2 B = 8 + (0 - E))%Z.
      { unfold B. rewrite Z.shiftl_mul_pow2 by lia. rewrite Z.log2_mul_pow2 by lia. change (Z.log2 360) with 8%Z. lia. }
      lia. }
    exists m0, e0, q. split; auto. split; [rewrite <- Hval; auto|].
    pose proof (round_dy_rel _ _ _ _ Hfin) as Hrel. rewrite <- Hval.
    eapply Qle_trans; [apply Hrel|].
    assert (Qabs (inject_Z r * p2 E) <= 360) by (apply Qabs_le_iff; split; lra).
    assert (p2 (-53) * Qabs (inject_Z r * p2 E) <= p2 (-53) * 360).
    { rewrite !(Qmult_comm (p2 (-53))). apply Qmult_le_compat_r; lra. }
    lra.
Qed.


(** v % -360 for a negative float v ( ST_PositiveFixedAngle, negative branch ): the C fmod, no correction *)
Lemma f_mod_m360_neg m e x : (m < 0)%Z -> f_mod (Fin m e) (Fin (-360) 0) = Ok x ->
  exists m0 e0 (j : Z), x = Fin m0 e0
    /\ -360 <= Qv (Fin m e) - 360 * inject_Z j <= 0
    /\ Qabs (Qv (Fin m0 e0) - (Qv (Fin m e) - 360 * inject_Z j)) <= p2 (-53) * 360 + p2 (-1075).
Proof.
  intros Hm. unfold f_mod. cbn [f_is_zero]. change (-360 =? 0)%Z with false. cbn iota.
  destruct (Z.eqb_spec m 0) as [->|_]; [lia|].
  set (E := Z.min e 0). set (A := Z.shiftl m (e - E)). set (B := Z.shiftl 360 (0 - E)).
  assert (HEe : (E <= e)%Z) by (unfold E; lia). assert (HE0 : (E <= 0)%Z) by (unfold E; lia).
  assert (HB' : Z.shiftl (-360) (0 - E) = (- B)%Z).
  { unfold B. rewrite !Z.shiftl_mul_pow2 by lia. lia. }
  rewrite HB'.
  assert (HA : inject_Z A * p2 E == Qv (Fin m e)) by (unfold A; cbn [Qv]; apply shiftl_Q; auto).
  assert (HB : inject_Z B * p2 E == 360).
  { unfold B. rewrite shiftl_Q by auto. reflexivity. }
  assert (HBpos : (0 < B)%Z).
  { unfold B. rewrite Z.shiftl_mul_pow2 by lia. assert (0 < 2 ^ (0 - E))%Z by (apply Z.pow_pos_nonneg; lia). lia. }
  assert (HAneg : (A < 0)%Z).
  { unfold A. rewrite Z.shiftl_mul_pow2 by lia. assert (0 < 2 ^ (e - E))%Z by (apply Z.pow_pos_nonneg; lia). nia. }
  rewrite Z.rem_opp_r by lia.
  pose proof (Z.quot_rem' A B) as Hqr. pose proof (Z.rem_bound_abs A B ltac:(lia)) as Hrb.
  pose proof (Z.rem_nonpos A B ltac:(lia) ltac:(lia)) as Hrn.
  set (r := Z.rem A B) in *. set (q := Z.quot A B) in *.
  pose proof (p2_pos E) as PE. pose proof (p2_pos (-53)) as P53. pose proof (p2_pos (-1075)) as Peps.
  assert (Hval : inject_Z r * p2 E == Qv (Fin m e) - 360 * inject_Z q).
  { rewrite <- HA, <- HB. replace r with (A - B * q)%Z by lia.
    replace (A - B * q)%Z with (A + - (B * q))%Z by lia. rewrite inject_Z_plus, inject_Z_opp, inject_Z_mult. ring. }
  assert (Hrange : -360 <= inject_Z r * p2 E <= 0).
  { assert (- B <= r <= 0)%Z by lia.
    assert (G1 : inject_Z (- B) * p2 E <= inject_Z r * p2 E) by (apply Qmult_le_compat_r; [rewrite <- Zle_Qle; lia|lra]).
    assert (G2 : inject_Z r * p2 E <= inject_Z 0 * p2 E) by (apply Qmult_le_compat_r; [rewrite <- Zle_Qle; lia|lra]).
    rewrite inject_Z_opp in G1. change (inject_Z 0) with 0 in G2. split; lra. }
  destruct (Z.eqb_spec r 0) as [Hr0|Hr0].
  { intros [= <-]. exists 0%Z, 0%Z, q. split; auto. rewrite <- Hval. split; [exact Hrange|].
    rewrite Hr0. change (Qv (Fin 0 0)) with 0. change (inject_Z 0) with 0.
    setoid_replace (0 - 0 * p2 E) with 0 by ring. change (Qabs 0) with 0. lra. }
  change (-360 <? 0)%Z with true.
  destruct (Z.ltb_spec r 0) as [Hneg|Hpos]; [|lia]. cbn [Bool.eqb].
  intros [= <-].
  destruct (round_dy_finite r E) as [m0 [e0 Hfin]].
  { assert (Z.log2 (Z.abs r) <= Z.log2 B)%Z by (apply Z.log2_le_mono; lia).
    assert (Z.log2 B = 8 + (0 - E))%Z.
    { unfold B. rewrite Z.shiftl_mul_pow2 by lia. rewrite Z.log2_mul_pow2 by lia. change (Z.log2 360) with 8%Z. lia. }
    lia. }
  exists m0, e0, q. split; auto. rewrite <- Hval. split; [exact Hrange|].
  pose proof (round_dy_rel _ _ _ _ Hfin) as Hrel.
  eapply Qle_trans; [apply Hrel|].
  assert (Qabs (inject_Z r * p2 E) <= 360) by (apply Qabs_le_iff; split; lra).
  assert (p2 (-53) * Qabs (inject_Z r * p2 E) <= p2 (-53) * 360).
  { rewrite !(Qmult_comm (p2 (-53))). apply Qmult_le_compat_r; lra. }
  lra.
Qed.

(** one float addition: a finite result is within 2^-53 ( relative ) of the exact sum *)
Lemma f_add_rel m1 e1 m2 e2 m' e' : f_add (Fin m1 e1) (Fin m2 e2) = Fin m' e' ->
  Qabs (Qv (Fin m' e') - (Qv (Fin m1 e1) + Qv (Fin m2 e2)))
    <= p2 (-53) * Qabs (Qv (Fin m1 e1) + Qv (Fin m2 e2)) + p2 (-1075).
Proof.
  cbn [f_add]. destruct (Z.eqb_spec m1 0) as [->|H1].
  { intros H. pose proof (round_dy_rel _ _ _ _ H) as R. cbn [Qv] in *. change (inject_Z 0) with 0.
    setoid_replace (0 * p2 e1 + inject_Z m2 * p2 e2) with (inject_Z m2 * p2 e2) by ring. exact R. }
  destruct (Z.eqb_spec m2 0) as [->|H2].
  { intros H. pose proof (round_dy_rel _ _ _ _ H) as R. cbn [Qv] in *. change (inject_Z 0) with 0.
    setoid_replace (inject_Z m1 * p2 e1 + 0 * p2 e2) with (inject_Z m1 * p2 e1) by ring. exact R. }
  set (E := Z.min e1 e2). intros H. pose proof (round_dy_rel _ _ _ _ H) as R.
  assert (S : inject_Z (Z.shiftl m1 (e1 - E) + Z.shiftl m2 (e2 - E)) * p2 E == Qv (Fin m1 e1) + Qv (Fin m2 e2)).
  { rewrite inject_Z_plus. cbn [Qv]. rewrite <- (shiftl_Q m1 e1 E), <- (shiftl_Q m2 e2 E) by (unfold E; lia). ring. }
  rewrite S in R. exact R.
Qed.

Lemma f_of_Z_60000 : f_of_Z 60000 = Ok (Fin 60000 0). Proof. vm_compute. reflexivity. Qed.
Lemma f_of_Z_360 : f_of_Z 360 = Ok (Fin 360 0). Proof. vm_compute. reflexivity. Qed.
Lemma f_of_Z_m360 : f_of_Z (-360) = Ok (Fin (-360) 0). Proof. vm_compute. reflexivity. Qed.

Definition turn : Z := 21600000%Z.

(** the common tail of the two writers: a finite float x0 of at most a turn, close to the target angle, is scaled,
    rounded, reduced modulo a turn, written, read by int( ) % turn and divided by 60000 *)
Lemma angle_core (from : pyval -> res pyval) m0 e0 (tgt : Q) t23 t22 t21 rot s :
  (forall rot, (0 <= rot < turn)%Z -> from (PStr (str_of_Z rot)) = Ok (PFloat (fl_div_e rot 60000 0))) ->
  - (1 # 1000) <= tgt <= 361 -> Qabs (Qv (Fin m0 e0) - tgt) <= 1 # 1000000000000 ->
  py_mul (PFloat (Fin m0 e0)) (PInt 60000) = Ok t23 -> py_round t23 = Ok t22 -> py_int t22 = Ok t21 ->
  py_mod t21 (PInt 21600000) = Ok rot -> py_str rot = Ok (PStr s) ->
  exists r (t : Z), from (PStr s) = Ok (PFloat r) /\ f_is_finite r = true
    /\ Qabs (Qv r - (tgt - 360 * inject_Z t)) <= 1 # 60000.
Proof.
  intros Hread [T1 T2] Hx0 Hm Hr Hi Hmod Hs.
  unfold py_mul, arith in Hm. cbn [as_num num_float bind] in Hm. rewrite f_of_Z_60000 in Hm. cbn [bind] in Hm.
  assert (E23 : t23 = PFloat (f_mul (Fin m0 e0) (Fin 60000 0))) by (injection Hm as <-; reflexivity).
  subst t23. clear Hm. cbn [py_round] in Hr.
  destruct (f_round (f_mul (Fin m0 e0) (Fin 60000 0))) as [k|] eqn:Ek; cbn [bind] in Hr; [|discriminate Hr].
  injection Hr as <-. cbn [py_int] in Hi. injection Hi as <-.
  unfold py_mod, arith in Hmod. cbn [as_num] in Hmod. change (21600000 =? 0)%Z with false in Hmod. cbv iota in Hmod.
  injection Hmod as <-. apply py_str_int in Hs. subst s.
  destruct (f_mul (Fin m0 e0) (Fin 60000 0)) as [m1 e1| | |] eqn:Em; try discriminate Ek.
  set (x0 := Qv (Fin m0 e0)) in *. set (x1 := Qv (Fin m1 e1)).
  pose proof (f_mul_rel _ _ _ _ _ _ Em) as Ha. fold x0 x1 in Ha. rewrite Qv_int in Ha. change (inject_Z 60000) with 60000 in Ha.
  pose proof (f_round_Q _ _ Ek) as Hb. fold x1 in Hb.
  pose proof eps_small as He. pose proof (p2_pos (-1075)) as He0. set (eps := p2 (-1075)) in *.
  rewrite p2_m53 in Ha. apply Qabs_le_iff in Hx0. destruct Hx0 as [X1 X2].
  assert (HA : Qabs (x0 * 60000) <= 21720000) by (apply Qabs_le_iff; split; lra).
  assert (Ha' : Qabs (x1 - x0 * 60000) <= 1 # 100000000).
  { eapply Qle_trans; [apply Ha|]. lra. }
  apply Qabs_le_iff in Ha'. destruct Ha' as [A1 A2]. apply Qabs_le_iff in Hb. destruct Hb as [B1 B2].
  fold turn. set (rot := (k mod turn)%Z). set (t := (k / turn)%Z).
  assert (Hrot : (0 <= rot < turn)%Z) by (apply Z.mod_pos_bound; unfold turn; lia).
  assert (Hk : k = (turn * t + rot)%Z) by (apply Z.div_mod; unfold turn; lia).
  rewrite (Hread rot Hrot).
  assert (Hkq : inject_Z k == 21600000 * inject_Z t + inject_Z rot).
  { rewrite Hk, inject_Z_plus, inject_Z_mult. reflexivity. }
  assert (Hrq : 0 <= inject_Z rot <= 21600000).
  { split; [change 0 with (inject_Z 0)|change 21600000 with (inject_Z 21600000)]; rewrite <- Zle_Qle; unfold turn in Hrot; lia. }
  destruct Hrq as [Q1 Q2].
  destruct (div_lit_Q rot 60000) as (m2 & e2 & Er & Hc).
  { unfold turn in Hrot. change (2 ^ 53)%Z with 9007199254740992%Z. lia. }
  { lia. }
  exists (Fin m2 e2), t. rewrite Er. split; [reflexivity|]. split; [reflexivity|].
  change (inject_Z 60000) with 60000 in Hc. fold eps in Hc. rewrite p2_m52 in Hc.
  setoid_replace (inject_Z rot / 60000) with (inject_Z rot * (1 # 60000)) in Hc by field.
  assert (HK : Qabs (inject_Z rot * (1 # 60000)) <= 360) by (apply Qabs_le_iff; split; lra).
  assert (Hc' : Qabs (Qv (Fin m2 e2) - inject_Z rot * (1 # 60000)) <= 1 # 1000000000000).
  { eapply Qle_trans; [apply Hc|]. lra. }
  apply Qabs_le_iff in Hc'. destruct Hc' as [C1 C2].
  apply Qabs_le_iff. split; lra.
Qed.

(** python arithmetic of an accepted number with a float constant goes through float( v ) *)
Lemma py_float_of_num v n f : as_num v = Some n -> py_float v = Ok (PFloat f) -> num_float n = Ok f.
Proof.
  destruct v as [z|b|g| | | |]; cbn [as_num]; intros [= <-]; cbn [num_float py_float].
  - destruct (f_of_Z z); cbn [bind]; intros [= <-]; reflexivity.
  - destruct b; vm_compute; intros [= <-]; reflexivity.
  - intros [= <-]. reflexivity.
Qed.
Lemma fclass_num v f : fclass v = Ok f -> exists n, as_num v = Some n.
Proof. destruct v; cbn [fclass as_num]; try discriminate; eauto. Qed.

Lemma py_mod_float_c v f c t : fclass v = Ok f -> py_float v = Ok (PFloat f) -> py_mod v (PFloat c) = Ok t ->
  exists x0, f_mod f c = Ok x0 /\ t = PFloat x0.
Proof.
  intros FC Hf Hm. destruct (fclass_num v f FC) as [n Hn]. pose proof (py_float_of_num v n f Hn Hf) as Hnf.
  unfold py_mod, arith in Hm. rewrite Hn in Hm. cbn [as_num] in Hm.
  destruct n as [z|g]; cbn [num_float] in *; rewrite ?Hnf in Hm; cbn [bind] in Hm.
  - destruct (f_mod f c) as [x0|]; cbn [bind] in Hm; [|discriminate Hm]. injection Hm as <-. eauto.
  - injection Hnf as ->. destruct (f_mod f c) as [x0|]; cbn [bind] in Hm; [|discriminate Hm]. injection Hm as <-. eauto.
Qed.

(** the reader of the angle classes on the literal of a reduced angle: int( s ) % turn, float( ) / 60000 *)
Ltac read_angle :=
  let rot := fresh "rot" in let Hrot := fresh "Hrot" in let H0 := fresh "H0" in
  intros rot Hrot; unfold_gen; unfold turn in Hrot; rewrite py_int_lit by (unfold big; lia); cbn [bind];
  unfold py_mod, arith; cbn [as_num]; change (21600000 =? 0)%Z with false; cbv iota;
  rewrite Z.mod_small by lia; cbn [bind py_float];
  rewrite f_of_Z_small by (change (2 ^ 53)%Z with 9007199254740992%Z; lia);
  cbn [bind]; unfold py_truediv, arith; cbn [as_num num_float bind]; rewrite f_of_Z_60000;
  destruct (Z.eqb_spec rot 0) as [->|H0]; cbn [bind f_div f_is_zero]; reflexivity.

Lemma angle_err_small : p2 (-53) * 360 + p2 (-1075) <= 1 # 2000000000000.
Proof. vm_compute. discriminate. Qed.

(** ST_Angle: validate ( finite float, value * 60000 finite ), then ( value % 360.0 ) * 60000 rounded, modulo a turn *)
Theorem RT_Angle : rt_quant_f ST_Angle__to_xml ST_Angle__from_xml (1 # 60000) 360.
Proof.
  unfold rt_quant_f. intros v s. hide_concl G. pose proof (fv1 v) as F. revert F. unfold_gen. intros F H.
  rewrite F in H. pose proof (fvalidate_spec v) as S.
  destruct (fclass v) as [f|e] eqn:FC; [|destruct S as (S1 & _); rewrite S1 in H; discriminate H].
  destruct S as (S1 & S2 & S3). rewrite S1 in H. cbn [bind] in H. binv3. subst G.
  destruct f as [m e| | |]; try discriminate S3.
  match goal with Hm : py_mod v (PFloat (Fin 360 0)) = Ok ?t |- _ =>
    destruct (py_mod_float_c v _ _ t FC S2 Hm) as (x0 & Emod & ->) end.
  destruct (f_mod_360 _ _ _ Emod) as (m0 & e0 & j0 & -> & [R1 R2] & Hx0).
  pose proof angle_err_small as AE.
  edestruct (angle_core ST_Angle__from_xml m0 e0 (Qv (Fin m e) - 360 * inject_Z j0)) as (r & t & R & Fr & Q);
    try eassumption; [read_angle|split; lra|eapply Qle_trans; [exact Hx0|lra]|].
  exists (Fin m e), r, (j0 + t)%Z. repeat split; try assumption.
  rewrite inject_Z_plus.
  setoid_replace (Qv (Fin m e) - 360 * (inject_Z j0 + inject_Z t))
    with (Qv (Fin m e) - 360 * inject_Z j0 - 360 * inject_Z t) by ring. exact Q.
Qed.

(** exact value of a python number *)
Definition num_Q (v : pyval) : option Q :=
  match v with
  | PInt z => Some (inject_Z z)
  | PBool b => Some (if b then 1 else 0)
  | PFloat (Fin m e) => Some (Qv (Fin m e))
  | _ => None
  end.

(** the quantum statement relative to the EXACT value of v ( an int is not rounded to a float first ) *)
Definition rt_quant_x (to_xml from_xml : pyval -> res pyval) (q M : Q) : Prop :=
  forall v s, to_xml v = Ok (PStr s) ->
  exists x r (j : Z), num_Q v = Some x
    /\ from_xml (PStr s) = Ok (PFloat r) /\ f_is_finite r = true
    /\ Qabs (Qv r - (x - M * inject_Z j)) <= q.

(** sign tests against 0.0 *)
Lemma f_cmp_zero m e : f_cmp (Fin m e) (Fin 0 0) = Some (m ?= 0)%Z.
Proof.
  rewrite (f_cmp_scale m e 0 0 (Z.min e 0)) by lia. f_equal.
  assert (P : (0 < 2 ^ (e - Z.min e 0))%Z) by (apply Z.pow_pos_nonneg; lia).
  rewrite Z.mul_0_l. destruct (Z.compare_spec m 0) as [->|H|H].
  - reflexivity.
  - apply Z.compare_lt_iff. nia.
  - apply Z.compare_gt_iff. nia.
Qed.
Lemma py_lt_f0 m e : py_lt (PFloat (Fin m e)) (PFloat (Fin 0 0)) = Ok (m <? 0)%Z.
Proof. unfold py_lt, py_order. cbn [as_num cmp_num]. rewrite f_cmp_zero. unfold Z.ltb. destruct (m ?= 0)%Z; reflexivity. Qed.
Lemma py_gt_f0 m e : py_gt (PFloat (Fin m e)) (PFloat (Fin 0 0)) = Ok (0 <? m)%Z.
Proof.
  unfold py_gt, py_order. cbn [as_num cmp_num]. rewrite f_cmp_zero. rewrite Z.ltb_antisym, Z.leb_compare.
  destruct (m ?= 0)%Z; reflexivity.
Qed.
Lemma py_lt_z0 v z : as_num v = Some (NZ z) -> py_lt v (PFloat (Fin 0 0)) = Ok (z <? 0)%Z.
Proof.
  intros Hn. unfold py_lt, py_order. rewrite Hn. cbn [as_num cmp_num]. rewrite (f_cmp_zero z 0).
  unfold Z.ltb. destruct (z ?= 0)%Z; reflexivity.
Qed.
Lemma py_gt_z0 v z : as_num v = Some (NZ z) -> py_gt v (PFloat (Fin 0 0)) = Ok (0 <? z)%Z.
Proof.
  intros Hn. unfold py_gt, py_order. rewrite Hn. cbn [as_num cmp_num]. rewrite (f_cmp_zero z 0).
  rewrite Z.ltb_antisym, Z.leb_compare. destruct (z ?= 0)%Z; reflexivity.
Qed.

(** float op int constant *)
Lemma py_mod_f_int f c fc t : f_of_Z c = Ok fc -> py_mod (PFloat f) (PInt c) = Ok t ->
  exists x, f_mod f fc = Ok x /\ t = PFloat x.
Proof.
  intros Hc. unfold py_mod, arith. cbn [as_num num_float bind]. rewrite Hc. cbn [bind].
  destruct (f_mod f fc) as [x|]; cbn [bind]; [|discriminate]. intros [= <-]. eauto.
Qed.
Lemma py_add_f_int f c fc t : f_of_Z c = Ok fc -> py_add (PFloat f) (PInt c) = Ok t -> t = PFloat (f_add f fc).
Proof.
  intros Hc. unfold py_add, arith. cbn [as_num num_float bind]. rewrite Hc. cbn [bind]. intros [= <-]. reflexivity.
Qed.

(** int op int *)
Lemma py_mod_zz v z c : as_num v = Some (NZ z) -> c <> 0%Z -> py_mod v (PInt c) = Ok (PInt (z mod c)).
Proof. intros Hn Hc. unfold py_mod, arith. rewrite Hn. cbn [as_num]. destruct (Z.eqb_spec c 0); [contradiction|reflexivity]. Qed.
Lemma py_add_zz a b : py_add (PInt a) (PInt b) = Ok (PInt (a + b)). Proof. reflexivity. Qed.
Lemma py_mul_zz v z c : as_num v = Some (NZ z) -> py_mul v (PInt c) = Ok (PInt (z * c)).
Proof. intros Hn. unfold py_mul, arith. rewrite Hn. reflexivity. Qed.

(** an int angle: all arithmetic is exact; whatever multiple of 360 was taken off, the text is ( z * 60000 ) mod turn *)
Lemma int_angle_tail (from : pyval -> res pyval) z w jj :
  (forall rot, (0 <= rot < turn)%Z -> from (PStr (str_of_Z rot)) = Ok (PFloat (fl_div_e rot 60000 0))) ->
  (w = z - 360 * jj)%Z ->
  exists r (j : Z), from (PStr (str_of_Z ((w * 60000) mod turn))) = Ok (PFloat r) /\ f_is_finite r = true
    /\ Qabs (Qv r - (inject_Z z - 360 * inject_Z j)) <= 1 # 60000.
Proof.
  intros Hread Hw. set (k := (w * 60000)%Z). set (rot := (k mod turn)%Z). set (t := (k / turn)%Z).
  assert (Hrot : (0 <= rot < turn)%Z) by (apply Z.mod_pos_bound; unfold turn; lia).
  assert (Hk : k = (turn * t + rot)%Z) by (apply Z.div_mod; unfold turn; lia).
  rewrite (Hread rot Hrot).
  destruct (div_lit_Q rot 60000) as (m2 & e2 & Er & Hc).
  { unfold turn in Hrot. change (2 ^ 53)%Z with 9007199254740992%Z. lia. }
  { lia. }
  exists (Fin m2 e2), (jj + t)%Z. rewrite Er. split; [reflexivity|]. split; [reflexivity|].
  assert (Hrq : 0 <= inject_Z rot <= 21600000).
  { split; [change 0 with (inject_Z 0)|change 21600000 with (inject_Z 21600000)]; rewrite <- Zle_Qle; unfold turn in Hrot; lia. }
  destruct Hrq as [Q1 Q2].
  assert (Hz : inject_Z rot == 60000 * (inject_Z z - 360 * (inject_Z jj + inject_Z t))).
  { assert (rot = 60000 * (z - 360 * (jj + t)))%Z by (unfold k, turn in *; lia).
    rewrite H. rewrite inject_Z_mult. unfold Z.sub. rewrite inject_Z_plus, inject_Z_opp, inject_Z_mult, inject_Z_plus. reflexivity. }
  pose proof eps_small as He. pose proof (p2_pos (-1075)) as He0. set (eps := p2 (-1075)) in *.
  change (inject_Z 60000) with 60000 in Hc. rewrite p2_m52 in Hc.
  setoid_replace (inject_Z rot / 60000) with (inject_Z rot * (1 # 60000)) in Hc by field.
  assert (HK : Qabs (inject_Z rot * (1 # 60000)) <= 360) by (apply Qabs_le_iff; split; lra).
  assert (Hc' : Qabs (Qv (Fin m2 e2) - inject_Z rot * (1 # 60000)) <= 1 # 1000000000000).
  { eapply Qle_trans; [apply Hc|]. lra. }
  apply Qabs_le_iff in Hc'. destruct Hc' as [C1 C2].
  rewrite inject_Z_plus. apply Qabs_le_iff. split; lra.
Qed.

Lemma num_Q_int v z : as_num v = Some (NZ z) -> exists x, num_Q v = Some x /\ x == inject_Z z.
Proof.
  destruct v as [z'|b| | | | |]; cbn [as_num]; try discriminate; intros [= <-]; cbn [num_Q].
  - eexists; split; reflexivity.
  - destruct b; eexists; split; reflexivity.
Qed.

Lemma as_num_NF v g : as_num v = Some (NF g) -> v = PFloat g.
Proof. destruct v as [z|b|f| | | |]; cbn [as_num]; try discriminate; intros [= <-]; reflexivity. Qed.

(** exact int steps of the angle writers ( as_num v = Some ( NZ z ): an int or a bool ) *)
Ltac zchain v z Hn :=
  repeat match goal with
  | H : py_mod v (PInt ?c) = Ok _ |- _ => rewrite (py_mod_zz v z c Hn) in H by discriminate; injection H as H; subst
  | H : py_mod (PInt ?a) (PInt ?c) = Ok _ |- _ => rewrite (py_mod_zz (PInt a) a c eq_refl) in H by discriminate; injection H as H; subst
  | H : py_add (PInt ?a) (PInt ?c) = Ok _ |- _ => rewrite py_add_zz in H; injection H as H; subst
  | H : py_mul v (PInt ?c) = Ok _ |- _ => rewrite (py_mul_zz v z c Hn) in H; injection H as H; subst
  | H : py_mul (PInt ?a) (PInt ?c) = Ok _ |- _ => rewrite (py_mul_zz (PInt a) a c eq_refl) in H; injection H as H; subst
  | H : py_round (PInt ?a) = Ok _ |- _ => cbn [py_round] in H; injection H as H; subst
  | H : py_int (PInt ?a) = Ok _ |- _ => cbn [py_int] in H; injection H as H; subst
  | H : py_str (PInt ?a) = Ok (PStr _) |- _ => cbn [py_str] in H; injection H as H; subst
  end.

(** a float sum that is not finite cannot be scaled and rounded *)
Ltac dead_float :=
  match goal with
  | Hm : py_mul (PFloat ?x) (PInt 60000) = Ok ?t, Hr : py_round ?t = Ok _ |- _ =>
      lazymatch x with PInf => idtac | NInf => idtac | NaN => idtac end;
      vm_compute in Hm; injection Hm as <-; vm_compute in Hr; discriminate Hr
  end.

Lemma Qv_zero e : Qv (Fin 0 e) == 0.
Proof. cbn [Qv]. change (inject_Z 0) with 0. ring. Qed.

(** ST_PositiveFixedAngle: a negative angle is reduced with % -360 and + 360, a positive one with % 360 ( an int
    stays an int: exact ), then scaled, rounded and reduced modulo a turn.  Relative to the EXACT value assigned. *)
Theorem RT_PositiveFixedAngle : rt_quant_x ST_PositiveFixedAngle__to_xml ST_PositiveFixedAngle__from_xml (1 # 60000) 360.
Proof.
  unfold rt_quant_x. intros v s. hide_concl G. pose proof (fv1 v) as F. revert F. unfold_gen. intros F H.
  rewrite F in H. clear F. pose proof (fvalidate_spec v) as S.
  destruct (fclass v) as [f|e] eqn:FC; [|destruct S as (S1 & _); rewrite S1 in H; discriminate H].
  destruct S as (S1 & S2 & S3). rewrite S1 in H. cbn [bind] in H.
  assert (Hread : forall rot, (0 <= rot < turn)%Z ->
            ST_PositiveFixedAngle__from_xml (PStr (str_of_Z rot)) = Ok (PFloat (fl_div_e rot 60000 0))) by read_angle.
  pose proof angle_err_small as AE. pose proof eps_small as He. pose proof (p2_pos (-1075)) as He0.
  destruct (fclass_num v f FC) as [n Hn].
  binv3; subst G; (destruct n as [z|g];
    [ (* int or bool: exact *)
      destruct (num_Q_int v z Hn) as (x & Hx & Ex); zchain v z Hn
    | (* float *)
      apply as_num_NF in Hn; subst v; cbn [py_float] in S2; injection S2 as <-;
      destruct g as [m e| | |]; try discriminate S3 ]).
  - (* int, negative *)
    match goal with |- context [str_of_Z ((?w * 60000) mod _)] =>
      destruct (int_angle_tail ST_PositiveFixedAngle__from_xml z w (- (z / -360) - 1) Hread) as (r & j & R1 & R2 & R3) end.
    { pose proof (Z.div_mod z (-360) ltac:(lia)). lia. }
    exists x, r, j. split; [exact Hx|]. split; [exact R1|]. split; [exact R2|]. rewrite Ex. exact R3.
  - (* float, negative *)
    match goal with Hlt : py_lt _ _ = Ok true |- _ => rewrite py_lt_f0 in Hlt; injection Hlt as Hlt end.
    match goal with Hm : py_mod (PFloat (Fin m e)) (PInt (-360)) = Ok ?t |- _ =>
      destruct (py_mod_f_int _ _ _ t f_of_Z_m360 Hm) as (x0 & Emod & ->) end.
    destruct (f_mod_m360_neg m e x0 ltac:(lia) Emod) as (m0 & e0 & j1 & -> & [R1 R2] & Hx0).
    match goal with Ha : py_add (PFloat (Fin m0 e0)) (PInt 360) = Ok ?t |- _ =>
      apply (py_add_f_int _ _ _ t f_of_Z_360) in Ha; subst t end.
    destruct (f_add (Fin m0 e0) (Fin 360 0)) as [m0' e0'| | |] eqn:Ea; [|dead_float|dead_float|dead_float].
    pose proof (f_add_rel _ _ _ _ _ _ Ea) as Hadd. rewrite (Qv_int 360) in Hadd. change (inject_Z 360) with 360 in Hadd.
    set (eps := p2 (-1075)) in *. rewrite p2_m53 in Hadd, Hx0, AE.
    apply Qabs_le_iff in Hx0. destruct Hx0 as [X1 X2].
    assert (HS : Qabs (Qv (Fin m0 e0) + 360) <= 361) by (apply Qabs_le_iff; split; lra).
    assert (Hadd' : Qabs (Qv (Fin m0' e0') - (Qv (Fin m0 e0) + 360)) <= 1 # 2000000000000).
    { eapply Qle_trans; [exact Hadd|]. lra. }
    apply Qabs_le_iff in Hadd'. destruct Hadd' as [A1 A2].
    edestruct (angle_core ST_PositiveFixedAngle__from_xml m0' e0' (Qv (Fin m e) - 360 * inject_Z j1 + 360)) as (r & t & R & Fr & Q);
      try eassumption; [split; lra|apply Qabs_le_iff; split; lra|].
    exists (Qv (Fin m e)), r, (j1 - 1 + t)%Z. split; [reflexivity|]. split; [exact R|]. split; [exact Fr|].
    unfold Z.sub. rewrite !inject_Z_plus. change (inject_Z (- (1))) with (-1).
    setoid_replace (Qv (Fin m e) - 360 * (inject_Z j1 + -1 + inject_Z t))
      with (Qv (Fin m e) - 360 * inject_Z j1 + 360 - 360 * inject_Z t) by ring. exact Q.
  - (* int, positive *)
    match goal with |- context [str_of_Z ((?w * 60000) mod _)] =>
      destruct (int_angle_tail ST_PositiveFixedAngle__from_xml z w (z / 360) Hread) as (r & j & R1 & R2 & R3) end.
    { pose proof (Z.div_mod z 360 ltac:(lia)). lia. }
    exists x, r, j. split; [exact Hx|]. split; [exact R1|]. split; [exact R2|]. rewrite Ex. exact R3.
  - (* float, positive *)
    match goal with Hm : py_mod (PFloat (Fin m e)) (PInt 360) = Ok ?t |- _ =>
      destruct (py_mod_f_int _ _ _ t f_of_Z_360 Hm) as (x0 & Emod & ->) end.
    destruct (f_mod_360 _ _ _ Emod) as (m0 & e0 & j0 & -> & [R1 R2] & Hx0).
    edestruct (angle_core ST_PositiveFixedAngle__from_xml m0 e0 (Qv (Fin m e) - 360 * inject_Z j0)) as (r & t & R & Fr & Q);
      try eassumption; [split; lra|eapply Qle_trans; [exact Hx0|lra]|].
    exists (Qv (Fin m e)), r, (j0 + t)%Z. split; [reflexivity|]. split; [exact R|]. split; [exact Fr|].
    rewrite inject_Z_plus.
    setoid_replace (Qv (Fin m e) - 360 * (inject_Z j0 + inject_Z t))
      with (Qv (Fin m e) - 360 * inject_Z j0 - 360 * inject_Z t) by ring. exact Q.
  - (* int, zero *)
    match goal with |- context [str_of_Z ((?w * 60000) mod _)] =>
      destruct (int_angle_tail ST_PositiveFixedAngle__from_xml z w 0 Hread) as (r & j & R1 & R2 & R3) end.
    { lia. }
    exists x, r, j. split; [exact Hx|]. split; [exact R1|]. split; [exact R2|]. rewrite Ex. exact R3.
  - (* float, zero *)
    repeat match goal with
    | Hlt : py_lt (PFloat (Fin m e)) _ = Ok false |- _ => rewrite py_lt_f0 in Hlt; injection Hlt as Hlt
    | Hgt : py_gt (PFloat (Fin m e)) _ = Ok false |- _ => rewrite py_gt_f0 in Hgt; injection Hgt as Hgt
    end.
    assert (m = 0)%Z by lia. subst m. pose proof (Qv_zero e) as Z0.
    edestruct (angle_core ST_PositiveFixedAngle__from_xml 0 e (Qv (Fin 0 e))) as (r & t & R & Fr & Q);
      try eassumption; [split; lra|..];
      try (setoid_replace (Qv (Fin 0 e) - Qv (Fin 0 e)) with 0 by ring; change (Qabs 0) with 0; lra).
    exists (Qv (Fin 0 e)), r, t. split; [reflexivity|]. split; [exact R|]. split; [exact Fr|]. exact Q.
Qed.

(** an int beyond 2^53: ST_Angle reduces float( v ) ( value % 360.0 ), ST_PositiveFixedAngle reduces the int itself;
    2^53 + 1 is 33 modulo 360, its float 2^53 is 32 modulo 360 *)
Example angle_big_int :
  ST_Angle__to_xml (PInt 9007199254740993) = Ok (PStr [49; 57; 50; 48; 48; 48; 48]%N)                   (* 1920000 *)
  /\ ST_PositiveFixedAngle__to_xml (PInt 9007199254740993) = Ok (PStr [49; 57; 56; 48; 48; 48; 48]%N).  (* 1980000 *)
Proof. vm_compute. split; reflexivity. Qed.

(** non-vacuity of the angle theorems *)
Example angle_rt_examples :
  ST_Angle__to_xml (PFloat (Fin (-45) 0)) = Ok (PStr [49; 56; 57; 48; 48; 48; 48; 48]%N)                (* -45.0 -> 18900000 *)
  /\ ST_PositiveFixedAngle__to_xml (PFloat (Fin (-45) 0)) = Ok (PStr [49; 56; 57; 48; 48; 48; 48; 48]%N)
  /\ ST_PositiveFixedAngle__to_xml (PInt 450) = Ok (PStr [53; 52; 48; 48; 48; 48; 48]%N)               (* 450 -> 5400000 *)
  /\ ST_PositiveFixedAngle__to_xml (PBool true) = Ok (PStr [54; 48; 48; 48; 48]%N).
Proof. vm_compute. repeat split. Qed.

(** ------------------------------------------------------------------------------------------
    5. the uniform quantum statement used for attribute rows: the float read back is within q ( modulo M ) of the
    number assigned, read either exactly or through float( ) ( the two differ only for ints beyond 2^53 ) *)
Definition assigned (v : pyval) (x : Q) : Prop :=
  num_Q v = Some x \/ (exists f, py_float v = Ok (PFloat f) /\ f_is_finite f = true /\ x = Qv f).

Definition rt_quant (to_xml from_xml : pyval -> res pyval) (q M : Q) : Prop :=
  forall v s, to_xml v = Ok (PStr s) ->
  exists x r (j : Z), assigned v x
    /\ from_xml (PStr s) = Ok (PFloat r) /\ f_is_finite r = true
    /\ Qabs (Qv r - (x - M * inject_Z j)) <= q.

Lemma rt_quant_of_f to_xml from_xml q M : rt_quant_f to_xml from_xml q M -> rt_quant to_xml from_xml q M.
Proof.
  intros H v s W. destruct (H v s W) as (f & r & j & A & B & C & D & E).
  exists (Qv f), r, j. split; [right; exists f; auto|]. auto.
Qed.
Lemma rt_quant_of_x to_xml from_xml q M : rt_quant_x to_xml from_xml q M -> rt_quant to_xml from_xml q M.
Proof.
  intros H v s W. destruct (H v s W) as (x & r & j & A & C & D & E).
  exists x, r, j. split; [left; exact A|]. auto.
Qed.

(** up to 2^53 in magnitude the two readings of an int coincide *)
Lemma assigned_small_int z x : (Z.abs z < 2 ^ 53)%Z -> assigned (PInt z) x -> x == inject_Z z.
Proof.
  intros Hz [A|(f & A & _ & ->)].
  - cbn [num_Q] in A. injection A as <-. reflexivity.
  - cbn [py_float] in A. rewrite (f_of_Z_small z Hz) in A. cbn [bind] in A. injection A as <-.
    destruct (Z.eqb_spec z 0) as [->|_]; [apply Qv_zero|apply Qv_int].
Qed.

(** ------------------------------------------------------------------------------------------
    6. ST_HexColorRGB ( a:srgbClr/@val ): six hex digits, written in upper case, read as written.  The value read
    is the upper-cased value assigned: equal as a colour ( xsd:hexBinary is case-insensitive ), not as a python str. *)
Definition rt_upper (to_xml from_xml : pyval -> res pyval) : Prop :=
  forall v s, to_xml v = Ok (PStr s) ->
  exists sv, v = PStr sv /\ s = map ascii_upper sv /\ from_xml (PStr s) = Ok (PStr s).

Theorem RT_HexColorRGB : rt_upper ST_HexColorRGB__to_xml ST_HexColorRGB__from_xml.
Proof.
  unfold rt_upper. intros v s. destruct v as [z|b|f|sv| |l|n]; unfold_gen; isinst; intros H; try discriminate H.
  binv3. cbn [py_upper with_str] in *. binv3. exists sv. auto.
Qed.

(** exact equality of python strings does not hold ( and is not the intent ): ff0000 comes back as FF0000.
    The real class agrees: ST_HexColorRGB.from_xml( ST_HexColorRGB.to_xml( ff0000 ) ) is FF0000. *)
Theorem RT_HexColorRGB_exact_refuted :
  exists v s v', ST_HexColorRGB__to_xml v = Ok (PStr s) /\ ST_HexColorRGB__from_xml (PStr s) = Ok v' /\ py_eqb v' v = false.
Proof.
  exists (PStr [102; 102; 48; 48; 48; 48]%N), [70; 70; 48; 48; 48; 48]%N, (PStr [70; 70; 48; 48; 48; 48]%N).
  vm_compute. repeat split.
Qed.

(** ------------------------------------------------------------------------------------------
    7. XsdDouble / ST_AxisUnit ( c:majorUnit/@val, c:x/@val ... ): str( float( v ) ) out, float( s ) in.
    FULL STATEMENT ( not provable in this model ): the float read back equals float( v ).
    lib/PyVal.v does not model the digits of repr: repr_float is a marker code point followed by the canonical
    mantissa and exponent, and the model of float( str ) ( lib/PyFloat.v f_of_str ) does not read that marker form
    ( double_marker_not_read below: in the MODEL the reader raises on what the writer wrote; this is a gap of the
    model, not a defect of python-pptx: the real XsdDouble.from_xml( XsdDouble.to_xml( 1.5 ) ) is 1.5 ).
    PROVED ( partial ): the text written is repr_float of the finite float( v ), and that text determines the
    float ( no other finite float value has the same text ): nothing is lost on the way out.
    MISSING, in the trusted base: CPython float( repr( f ) ) = f for every finite binary64 f ( repr is the shortest
    decimal string that rounds to f ); the correspondence harness compares such texts through float( text ). *)
Local Open Scope Z_scope.

Definition no_space (s : str) : Prop := forall x, In x s -> x <> c_space.

Lemma app_sep_inj (a a' b b' : str) : no_space a -> no_space a' ->
  a ++ c_space :: b = a' ++ c_space :: b' -> a = a' /\ b = b'.
Proof.
  revert a'. induction a as [|x a IH]; intros a' Ha Ha' E.
  - destruct a' as [|y a']; cbn [app] in E.
    + injection E as ->. auto.
    + injection E as E1 _. exfalso. apply (Ha' y (or_introl eq_refl)). auto.
  - destruct a' as [|y a']; cbn [app] in E.
    + injection E as E1 _. exfalso. apply (Ha x (or_introl eq_refl)). auto.
    + injection E as -> E2. destruct (IH a') as [-> ->]; auto.
      * intros z Hz. apply Ha. right. exact Hz.
      * intros z Hz. apply Ha'. right. exact Hz.
Qed.

Lemma digits_no_space ds : forallb is_digit ds = true -> no_space ds.
Proof.
  intros H x Hx ->. rewrite forallb_forall in H. specialize (H _ Hx). discriminate H.
Qed.
Lemma str_of_Z_no_space z : no_space (str_of_Z z).
Proof.
  destruct (str_of_Z_digits z) as [A B]. destruct (Z.ltb_spec z 0) as [Hn|Hp].
  - destruct (B Hn) as (ds & -> & Hd). intros x [<-|Hx]; [discriminate|].
    exact (digits_no_space ds (all_digits_forallb _ Hd) x Hx).
  - exact (digits_no_space _ (all_digits_forallb _ (A Hp))).
Qed.
Lemma str_of_Z_inj a b : str_of_Z a = str_of_Z b -> a = b.
Proof.
  intros E. pose proof (lex_integer_str_of_Z a) as Ha. rewrite E, lex_integer_str_of_Z in Ha. congruence.
Qed.

Lemma f_canon_finite f : f_is_finite f = true -> exists m e, f_canon f = Fin m e.
Proof.
  destruct f as [m e| | |]; try discriminate. intros _. destruct m as [|p|p]; cbn [f_canon]; eauto;
    destruct (pos_ctz p) as [q k]; eauto.
Qed.

(** the text of a finite float determines its canonical form ( hence its value ) *)
Lemma repr_float_inj f g : f_is_finite f = true -> f_is_finite g = true ->
  repr_float g = repr_float f -> f_canon g = f_canon f.
Proof.
  intros Ff Fg. unfold repr_float.
  destruct (f_canon_finite f Ff) as (m & e & ->). destruct (f_canon_finite g Fg) as (m' & e' & ->).
  intros E. injection E as E. cbn [app] in E.
  destruct (app_sep_inj _ _ _ _ (str_of_Z_no_space m') (str_of_Z_no_space m) E) as [E1 E2].
  apply str_of_Z_inj in E1, E2. subst. reflexivity.
Qed.

Definition rt_repr (to_xml : pyval -> res pyval) : Prop :=
  forall v s, to_xml v = Ok (PStr s) ->
  exists f, py_float v = Ok (PFloat f) /\ f_is_finite f = true /\ s = repr_float f
    /\ (forall g, f_is_finite g = true -> repr_float g = s -> f_canon g = f_canon f).

Theorem RT_XsdDouble_partial : rt_repr XsdDouble__to_xml.
Proof.
  intros v s H. destruct (W_XsdDouble_partial v s H) as (f & A & B & ->).
  exists f. repeat split; auto. intros g Fg E. now apply repr_float_inj.
Qed.
Theorem RT_AxisUnit_partial : rt_repr ST_AxisUnit__to_xml.
Proof.
  intros v s H. destruct (W_AxisUnit_partial v s H) as ((f & A & B & ->) & _).
  exists f. repeat split; auto. intros g Fg E. now apply repr_float_inj.
Qed.

(** the gap of the model, stated so that nobody mistakes it for a verdict: the marker text is not a float literal
    for the model of float( str ) *)
Lemma double_marker_not_read :
  exists v s, XsdDouble__to_xml v = Ok (PStr s) /\ XsdDouble__from_xml (PStr s) = Err ValueErr
    /\ ST_AxisUnit__to_xml v = Ok (PStr s) /\ ST_AxisUnit__from_xml (PStr s) = Err ValueErr.
Proof.
  exists (PFloat (Fin 3 (-1))). eexists. split; [vm_compute; reflexivity|].
  split; [vm_compute; reflexivity|]. split; vm_compute; reflexivity.
Qed.

Print Assumptions RT_Coordinate.
Print Assumptions RT_Coordinate32.
Print Assumptions RT_PositiveCoordinate.
Print Assumptions RT_LineWidth.
Print Assumptions RT_SlideSizeCoordinate.
Print Assumptions RT_BubbleScale.
Print Assumptions RT_GapAmount.
Print Assumptions RT_Overlap.
Print Assumptions RT_LblOffset.
Print Assumptions RT_TextSpacingPoint.
Print Assumptions RT_Percentage.
Print Assumptions RT_PositiveFixedPercentage.
Print Assumptions RT_TextSpacingPercent.
Print Assumptions RT_TextFontScalePercent_partial.
Print Assumptions RT_Angle.
Print Assumptions RT_PositiveFixedAngle.
Print Assumptions RT_HexColorRGB.
Print Assumptions RT_HexColorRGB_exact_refuted.
Print Assumptions RT_XsdDouble_partial.
Print Assumptions RT_AxisUnit_partial.
