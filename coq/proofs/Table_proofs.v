(** Proofs about model/Table.v.  The statements used by props/C14.v are at the end
    of each section; everything is closed under the global context. *)
From V.lib Require Import Prelude.
From V.model Require Import Table.
From V.proofs Require Import Prelude_proofs.

(* ================================================================== generic lists *)
Lemma nth_error_mapi_from {A B} (f : nat -> A -> B) l k i :
  nth_error (mapi_from k f l) i = option_map (f (k + i)) (nth_error l i).
Proof.
  revert k i; induction l as [|x l IH]; intros k [|i]; simpl; auto.
  - rewrite Nat.add_0_r; reflexivity.
  - rewrite IH. replace (S k + i) with (k + S i) by lia. reflexivity.
Qed.

Lemma nth_error_mapi {A B} (f : nat -> A -> B) l i :
  nth_error (mapi f l) i = option_map (f i) (nth_error l i).
Proof. unfold mapi. rewrite nth_error_mapi_from. reflexivity. Qed.

Lemma length_mapi_from {A B} (f : nat -> A -> B) l k : length (mapi_from k f l) = length l.
Proof. revert k; induction l; intros; simpl; auto. Qed.

Lemma length_mapi {A B} (f : nat -> A -> B) l : length (mapi f l) = length l.
Proof. apply length_mapi_from. Qed.

Lemma Forall_mapi_from {A B} (P : A -> Prop) (Q : B -> Prop) (f : nat -> A -> B) l k :
  (forall i x, P x -> Q (f i x)) -> Forall P l -> Forall Q (mapi_from k f l).
Proof.
  intros H; revert k; induction l; intros k HF; simpl; constructor; inversion HF; subst; auto.
Qed.

Lemma get_map_grid f g r c : get (map_grid f g) r c = option_map (f r c) (get g r c).
Proof.
  unfold get, map_grid. rewrite nth_error_mapi.
  destruct (nth_error g r) as [row|]; simpl; auto.
  apply nth_error_mapi.
Qed.

Lemma length_map_grid f g : length (map_grid f g) = length g.
Proof. apply length_mapi. Qed.

Definition rect_grid (n : nat) (g : list (list cell)) : Prop :=
  Forall (fun row => length row = n) g.

Lemma rect_map_grid f n g : rect_grid n g -> rect_grid n (map_grid f g).
Proof.
  unfold rect_grid, map_grid. unfold mapi at 1.
  apply (Forall_mapi_from (fun row => length row = n) (fun row => length row = n)).
  intros i x Hx. rewrite length_mapi. exact Hx.
Qed.

Lemma get_Some_lt n g r c cl : rect_grid n g -> get g r c = Some cl -> r < length g /\ c < n.
Proof.
  unfold get; intros HR H. destruct (nth_error g r) as [row|] eqn:E; try discriminate.
  split.
  - apply nth_error_Some; congruence.
  - apply nth_error_In in E. unfold rect_grid in HR. rewrite Forall_forall in HR.
    rewrite <- (HR _ E). apply nth_error_Some; congruence.
Qed.

Lemma get_lt_Some n g r c : rect_grid n g -> r < length g -> c < n -> exists cl, get g r c = Some cl.
Proof.
  unfold get; intros HR Hr Hc.
  destruct (nth_error g r) as [row|] eqn:E.
  - assert (length row = n).
    { apply nth_error_In in E. unfold rect_grid in HR. rewrite Forall_forall in HR. auto. }
    destruct (nth_error row c) eqn:E2; eauto.
    apply nth_error_None in E2. lia.
  - apply nth_error_None in E. lia.
Qed.

Lemma length_set_nth {A} i (v : A) l : length (set_nth i v l) = length l.
Proof. revert i; induction l; intros [|i]; simpl; auto. Qed.

Lemma find_none_iff {A} (f : A -> bool) l :
  find f l = None <-> (forall x, In x l -> f x = false).
Proof.
  split. apply find_none.
  induction l as [|x l IH]; simpl; auto. intros H.
  rewrite (H x) by auto. apply IH. intros; apply H; auto.
Qed.

Lemma find_skip {A} (f : A -> bool) a x b :
  f x = false -> find f (a ++ x :: b) = find f (a ++ b).
Proof.
  intros Hx. induction a as [|y a IH]; simpl.
  - rewrite Hx; reflexivity.
  - destruct (f y); auto.
Qed.

Lemma sumZ_app a b : sumZ (a ++ b) = (sumZ a + sumZ b)%Z.
Proof. unfold sumZ. induction a; simpl; auto. rewrite IHa. lia. Qed.

(* ================================================================== rectangles *)
Lemma in_rect_spec top lft h w r c :
  in_rect top lft h w r c = true <-> (top <= r < top + h /\ lft <= c < lft + w).
Proof.
  unfold in_rect. rewrite !andb_true_iff, !Nat.leb_le, !Nat.ltb_lt. lia.
Qed.

Lemma in_rect_coords top lft h w r c :
  In (r, c) (rect_coords top lft h w) <-> in_rect top lft h w r c = true.
Proof.
  rewrite in_rect_spec. unfold rect_coords. rewrite in_flat_map. split.
  - intros [r' [Hr Hc]]. apply in_map_iff in Hc as [c' [E Hc]]. inversion E; subst.
    apply in_seq in Hr. apply in_seq in Hc. lia.
  - intros H. exists r. split. apply in_seq; lia.
    apply in_map_iff. exists c; split; auto. apply in_seq; lia.
Qed.

Lemma in_range_cells g top lft h w cl :
  In cl (range_cells g top lft h w) <->
  exists r c, in_rect top lft h w r c = true /\ get g r c = Some cl.
Proof.
  unfold range_cells. rewrite in_flat_map. split.
  - intros [[r c] [Hin H]]. simpl in H. apply in_rect_coords in Hin.
    destruct (get g r c) eqn:E; simpl in H; [|tauto]. destruct H as [->|[]]. eauto.
  - intros [r [c [Hin H]]]. exists (r, c). split. apply in_rect_coords; auto.
    simpl. rewrite H. simpl; auto.
Qed.

(** first coordinate of a non-empty block, and what the others look like *)
Lemma rect_coords_cons top lft h w :
  exists rest, rect_coords top lft (S h) (S w) = (top, lft) :: rest /\
    forall r c, In (r, c) rest ->
      in_rect top lft (S h) (S w) r c = true /\ (r =? top) && (c =? lft) = false.
Proof.
  exists (map (fun c => (top, c)) (seq (S lft) w) ++
          flat_map (fun r => map (fun c => (r, c)) (seq lft (S w))) (seq (S top) h)).
  split; [reflexivity|].
  intros r c Hin. apply in_app_or in Hin as [Hin|Hin].
  - apply in_map_iff in Hin as [c' [E Hc]]. inversion E; subst. apply in_seq in Hc.
    split. apply in_rect_spec; lia.
    apply andb_false_iff; right. apply Nat.eqb_neq; lia.
  - apply in_flat_map in Hin as [r' [Hr Hc]]. apply in_map_iff in Hc as [c' [E Hc]].
    inversion E; subst. apply in_seq in Hr. apply in_seq in Hc.
    split. apply in_rect_spec; lia.
    apply andb_false_iff; left. apply Nat.eqb_neq; lia.
Qed.

Lemma start_and_size_spec i j :
  start_and_size i j = (Nat.min i j, S (Nat.max i j - Nat.min i j)).
Proof. unfold start_and_size. rewrite Nat.add_1_r. reflexivity. Qed.

(* ================================================================== regions / invariant *)
(** A merged region: top row, left column, height, width. *)
Record region := mkReg { rtop : nat; rleft : nat; rh : nat; rw : nat }.

Definition in_reg (rg : region) (r c : nat) : bool :=
  in_rect (rtop rg) (rleft rg) (rh rg) (rw rg) r c.

(** inside an nr x nc grid and covering at least two cells *)
Definition reg_ok (nr nc : nat) (rg : region) : Prop :=
  1 <= rh rg /\ 1 <= rw rg /\ (1 < rh rg \/ 1 < rw rg) /\
  rtop rg + rh rg <= nr /\ rleft rg + rw rg <= nc.

(** (gridSpan, rowSpan, hMerge, vMerge) *)
Definition cell_flags (cl : cell) : nat * nat * bool * bool :=
  (gridSpan cl, rowSpan cl, hMerge cl, vMerge cl).

Definition plain_flags : nat * nat * bool * bool := (1, 1, false, false).

(** what _Cell.merge leaves at (r, c) of a region: the left column carries gridSpan =
    width, the top row rowSpan = height, every other column hMerge, every other row vMerge *)
Definition region_flags (rg : region) (r c : nat) : nat * nat * bool * bool :=
  (if c =? rleft rg then rw rg else 1, if r =? rtop rg then rh rg else 1,
   rleft rg <? c, rtop rg <? r).

Definition expected (regs : list region) (r c : nat) : nat * nat * bool * bool :=
  match find (fun rg => in_reg rg r c) regs with
  | Some rg => region_flags rg r c
  | None => plain_flags
  end.

Definition regions_disjoint (regs : list region) : Prop :=
  forall a b, In a regs -> In b regs -> a <> b ->
  forall r c, in_reg a r c = true -> in_reg b r c = false.

(** The state invariant, relative to the list of merged regions [regs]. *)
Definition Inv_at (t : table) (regs : list region) : Prop :=
  rect_grid (length (widths t)) (grid t) /\
  length (heights t) = length (grid t) /\
  (forall r c cl, get (grid t) r c = Some cl -> paras cl <> []) /\
  Forall (reg_ok (length (grid t)) (length (widths t))) regs /\
  NoDup regs /\
  regions_disjoint regs /\
  (forall r c cl, get (grid t) r c = Some cl -> cell_flags cl = expected regs r c).

Definition Inv (t : table) : Prop := exists regs, Inv_at t regs.

Lemma region_eq_dec (a b : region) : {a = b} + {a <> b}.
Proof. decide equality; apply Nat.eq_dec. Qed.

(** flags inside a region always trip the contains_merged_cell test *)
Lemma region_flags_merged nr nc rg r c cl :
  reg_ok nr nc rg -> in_reg rg r c = true -> cell_flags cl = region_flags rg r c ->
  is_merged cl = true.
Proof.
  intros (H1 & H2 & H3 & _) Hin Hf. unfold in_reg in Hin. apply in_rect_spec in Hin.
  unfold cell_flags, region_flags in Hf. injection Hf as Hg Hr Hh Hv.
  unfold is_merged. rewrite Hg, Hr, Hh, Hv.
  destruct (Nat.eqb_spec c (rleft rg)) as [->|Hc].
  - destruct (Nat.eqb_spec r (rtop rg)) as [->|Hr'].
    + destruct H3 as [H3|H3].
      * replace (1 <? rh rg) with true by (symmetry; apply Nat.ltb_lt; lia).
        rewrite orb_true_r; reflexivity.
      * replace (1 <? rw rg) with true by (symmetry; apply Nat.ltb_lt; lia). reflexivity.
    + replace (rtop rg <? r) with true by (symmetry; apply Nat.ltb_lt; lia).
      rewrite !orb_true_r; reflexivity.
  - replace (rleft rg <? c) with true by (symmetry; apply Nat.ltb_lt; lia).
    rewrite orb_true_r; reflexivity.
Qed.

Lemma Inv_unmerged_plain t regs r c cl :
  Inv_at t regs -> get (grid t) r c = Some cl -> is_merged cl = false ->
  find (fun rg => in_reg rg r c) regs = None /\ cell_flags cl = plain_flags.
Proof.
  intros (_ & _ & _ & Hok & _ & _ & Hfl) Hg Hm.
  specialize (Hfl _ _ _ Hg). unfold expected in Hfl.
  destruct (find (fun rg => in_reg rg r c) regs) as [rg|] eqn:E; auto.
  apply find_some in E as [Hin Hr]. rewrite Forall_forall in Hok.
  rewrite (region_flags_merged _ _ rg r c cl (Hok _ Hin) Hr Hfl) in Hm. discriminate.
Qed.

(** a merge origin is the top-left cell of one of the regions, with its size as spans *)
Lemma Inv_origin t regs r c cl :
  Inv_at t regs -> get (grid t) r c = Some cl -> is_merge_origin cl = true ->
  exists rg, In rg regs /\ rtop rg = r /\ rleft rg = c /\ rowSpan cl = rh rg /\ gridSpan cl = rw rg
             /\ hMerge cl = false /\ vMerge cl = false.
Proof.
  intros (_ & _ & _ & Hok & _ & _ & Hfl) Hg Ho.
  specialize (Hfl _ _ _ Hg). unfold expected in Hfl.
  destruct (find (fun rg => in_reg rg r c) regs) as [rg|] eqn:E.
  - apply find_some in E as [Hin Hr]. exists rg. split; auto.
    unfold in_reg in Hr. apply in_rect_spec in Hr.
    unfold cell_flags, region_flags in Hfl. injection Hfl as Hgs Hrs Hh Hv.
    unfold is_merge_origin in Ho. rewrite Hgs, Hrs, Hh, Hv in Ho.
    destruct (Nat.eqb_spec c (rleft rg)) as [->|Hc].
    + destruct (Nat.eqb_spec r (rtop rg)) as [->|Hr'].
      * rewrite Nat.ltb_irrefl in *. auto 10.
      * replace (rtop rg <? r) with true in Ho by (symmetry; apply Nat.ltb_lt; lia).
        simpl in Ho. rewrite andb_false_r in Ho. discriminate.
    + replace (rleft rg <? c) with true in Ho by (symmetry; apply Nat.ltb_lt; lia).
      simpl in Ho. rewrite andb_false_r in Ho. discriminate.
  - unfold cell_flags, plain_flags in Hfl. injection Hfl as Hgs Hrs Hh Hv.
    unfold is_merge_origin in Ho. rewrite Hgs, Hrs, !Nat.ltb_irrefl in Ho. simpl in Ho. discriminate.
Qed.

(** conversely the top-left cell of a region reports as merge origin, every other cell
    of it as spanned, and a cell outside every region as neither *)
Lemma Inv_observers t regs r c cl :
  Inv_at t regs -> get (grid t) r c = Some cl ->
  match find (fun rg => in_reg rg r c) regs with
  | Some rg =>
      if (r =? rtop rg) && (c =? rleft rg)
      then is_merge_origin cl = true /\ is_spanned cl = false /\ rowSpan cl = rh rg /\ gridSpan cl = rw rg
      else is_merge_origin cl = false /\ is_spanned cl = true
  | None => is_merge_origin cl = false /\ is_spanned cl = false /\ rowSpan cl = 1 /\ gridSpan cl = 1
  end.
Proof.
  intros (_ & _ & _ & Hok & _ & _ & Hfl) Hg.
  specialize (Hfl _ _ _ Hg). unfold expected in Hfl.
  destruct (find (fun rg => in_reg rg r c) regs) as [rg|] eqn:E.
  - apply find_some in E as [Hin Hr]. rewrite Forall_forall in Hok.
    destruct (Hok _ Hin) as (H1 & H2 & H3 & _).
    unfold in_reg in Hr. apply in_rect_spec in Hr.
    unfold cell_flags, region_flags in Hfl. injection Hfl as Hgs Hrs Hh Hv.
    unfold is_merge_origin, is_spanned. rewrite Hgs, Hrs, Hh, Hv.
    destruct (Nat.eqb_spec r (rtop rg)) as [->|Hr']; destruct (Nat.eqb_spec c (rleft rg)) as [->|Hc]; simpl.
    + rewrite !Nat.ltb_irrefl. simpl. rewrite !andb_true_r.
      split; [|auto].
      destruct H3 as [H3|H3].
      * destruct (1 <? rw rg); auto. apply Nat.ltb_lt; lia.
      * replace (1 <? rw rg) with true by (symmetry; apply Nat.ltb_lt; lia). reflexivity.
    + replace (rleft rg <? c) with true by (symmetry; apply Nat.ltb_lt; lia).
      rewrite andb_false_r. auto.
    + replace (rtop rg <? r) with true by (symmetry; apply Nat.ltb_lt; lia).
      simpl. rewrite andb_false_r, orb_true_r. auto.
    + replace (rleft rg <? c) with true by (symmetry; apply Nat.ltb_lt; lia). auto.
  - unfold cell_flags, plain_flags in Hfl. injection Hfl as Hgs Hrs Hh Hv.
    unfold is_merge_origin, is_spanned. rewrite Hgs, Hrs, Hh, Hv. simpl. auto.
Qed.

(* ================================================================== creation *)
Lemma sumZ_const q l : sumZ (map (fun _ : nat => q) l) = (Z.of_nat (length l) * q)%Z.
Proof. unfold sumZ. induction l; simpl fold_right; simpl length; auto. rewrite IHl. lia. Qed.

Lemma distribute_sum n total : 0 < n -> sumZ (distribute n total) = total.
Proof.
  intros Hn. destruct n as [|m]; [lia|]. unfold distribute.
  replace (S m - 1) with m by lia.
  rewrite seq_S, map_app, sumZ_app. simpl seq. simpl map.
  rewrite Nat.eqb_refl.
  rewrite (map_ext_in _ (fun _ => (total / Z.of_nat (S m))%Z)).
  - rewrite sumZ_const, seq_length. unfold sumZ; simpl fold_right. lia.
  - intros k Hk. apply in_seq in Hk. destruct (Nat.eqb_spec k m); auto. lia.
Qed.

Lemma distribute_length n total : length (distribute n total) = n.
Proof. unfold distribute. rewrite map_length, seq_length. reflexivity. Qed.

(** every share of a non-negative total lies between 0 and the total *)
Lemma distribute_bounds n total x :
  0 < n -> (0 <= total)%Z -> In x (distribute n total) -> (0 <= x <= total)%Z.
Proof.
  intros Hn Ht Hin. unfold distribute in Hin. apply in_map_iff in Hin as [k [E Hk]].
  apply in_seq in Hk.
  assert (Hq0 : (0 <= total / Z.of_nat n)%Z) by (apply Z.div_pos; lia).
  assert (Hq1 : (Z.of_nat n * (total / Z.of_nat n) <= total)%Z) by (apply Z.mul_div_le; lia).
  destruct (Nat.eqb_spec k (n - 1)); subst x.
  - replace (Z.of_nat (n - 1)) with (Z.of_nat n - 1)%Z by lia. nia.
  - nia.
Qed.

Lemma get_repeat n m r c cl : get (repeat (repeat new_cell n) m) r c = Some cl -> cl = new_cell.
Proof.
  unfold get. intros H. destruct (nth_error (repeat (repeat new_cell n) m) r) as [row|] eqn:E; try discriminate.
  apply nth_error_In in E. apply repeat_spec in E. subst row.
  apply nth_error_In in H. apply repeat_spec in H. auto.
Qed.

Lemma new_tbl_spec rows cols w h t :
  new_tbl rows cols w h = Ok t ->
  0 < rows /\ 0 < cols /\
  length (grid t) = rows /\ rect_grid cols (grid t) /\
  length (widths t) = cols /\ length (heights t) = rows /\
  sumZ (widths t) = w /\ sumZ (heights t) = h /\ cx t = w /\ cy t = h /\
  (forall r c cl, get (grid t) r c = Some cl -> cl = new_cell) /\
  Inv_at t [].
Proof.
  unfold new_tbl. destruct rows as [|r']; [discriminate|]. destruct cols as [|c']; [discriminate|].
  destruct (forallb in_coord (distribute (S c') w) && forallb in_coord (distribute (S r') h)); [|discriminate].
  set (g0 := repeat (repeat new_cell (S c')) (S r')).
  assert (Hlen : length g0 = S r') by apply repeat_length.
  assert (HR : rect_grid (S c') g0).
  { unfold rect_grid. apply Forall_forall. intros row Hin. apply repeat_spec in Hin. subst.
    apply repeat_length. }
  assert (HG : forall r c cl, get g0 r c = Some cl -> cl = new_cell)
    by (intros; eapply get_repeat; eauto).
  clearbody g0.
  intros E; injection E as <-. cbn [grid widths heights cx cy].
  split; [lia|]. split; [lia|]. split; [exact Hlen|]. split; [exact HR|].
  split; [apply distribute_length|]. split; [apply distribute_length|].
  split; [apply distribute_sum; lia|]. split; [apply distribute_sum; lia|].
  split; [reflexivity|]. split; [reflexivity|]. split; [exact HG|].
  unfold Inv_at; cbn [grid widths heights]. rewrite !distribute_length, Hlen.
  split; [exact HR|]. split; [reflexivity|].
  split. { intros r c cl Hg. apply HG in Hg; subst; discriminate. }
  split; [constructor|]. split; [constructor|].
  split. { intros a b []. }
  intros r c cl Hg. apply HG in Hg. subst. reflexivity.
Qed.

Lemma new_tbl_accepts rows cols w h :
  0 < rows -> 0 < cols -> (0 <= w <= 27273042316900)%Z -> (0 <= h <= 27273042316900)%Z ->
  exists t, new_tbl rows cols w h = Ok t.
Proof.
  intros Hr Hc Hw Hh. unfold new_tbl.
  destruct rows as [|r']; [lia|]. destruct cols as [|c']; [lia|].
  assert (forall n total, 0 < n -> (0 <= total <= 27273042316900)%Z ->
                          forallb in_coord (distribute n total) = true) as HF.
  { intros n total Hn Ht. apply forallb_forall. intros x Hx.
    apply distribute_bounds in Hx; try lia. unfold in_coord.
    apply andb_true_iff; split; apply Z.leb_le; lia. }
  rewrite !HF by lia. simpl. eauto.
Qed.

(* ================================================================== frame size *)
Definition frame_ok (t : table) : Prop := cx t = sumZ (widths t) /\ cy t = sumZ (heights t).

Lemma set_row_h_ok t i h t' :
  step t (SetRowH i h) = (t', Ok tt) ->
  cy t' = sumZ (heights t') /\ heights t' = set_nth i h (heights t) /\
  widths t' = widths t /\ cx t' = cx t /\ grid t' = grid t.
Proof.
  simpl. unfold set_row_h.
  destruct (i <? length (heights t)); [|discriminate].
  destruct (in_coord h); [|discriminate].
  destruct (in_poscoord _); [|discriminate].
  intros E; injection E as <-. simpl. auto.
Qed.

Lemma set_col_w_ok t j w t' :
  step t (SetColW j w) = (t', Ok tt) ->
  cx t' = sumZ (widths t') /\ widths t' = set_nth j w (widths t) /\
  heights t' = heights t /\ cy t' = cy t /\ grid t' = grid t.
Proof.
  simpl. unfold set_col_w.
  destruct (j <? length (widths t)); [|discriminate].
  destruct (in_coord w); [|discriminate].
  destruct (in_poscoord _); [|discriminate].
  intros E; injection E as <-. simpl. auto.
Qed.

(** Whatever an operation raises, the state is unchanged. *)
Lemma lift_grid_err t r e : snd (lift_grid t r) = Err e -> fst (lift_grid t r) = t.
Proof. destruct r; simpl; auto. discriminate. Qed.

Lemma step_err_unchanged t o e : snd (step t o) = Err e -> fst (step t o) = t.
Proof.
  destruct o; simpl; try apply lift_grid_err.
  - unfold set_row_h. destruct (_ <? _); auto. destruct (in_coord _); auto.
    destruct (in_poscoord _); simpl; auto. discriminate.
  - unfold set_col_w. destruct (_ <? _); auto. destruct (in_coord _); auto.
    destruct (in_poscoord _); simpl; auto. discriminate.
Qed.

Lemma lift_grid_sizes t r :
  widths (fst (lift_grid t r)) = widths t /\ heights (fst (lift_grid t r)) = heights t /\
  cx (fst (lift_grid t r)) = cx t /\ cy (fst (lift_grid t r)) = cy t.
Proof. destruct r; simpl; auto. Qed.

(** frame = sums is kept by every operation, accepted or rejected *)
Lemma step_frame_ok t o : frame_ok t -> frame_ok (fst (step t o)).
Proof.
  unfold frame_ok. intros [Hx Hy].
  destruct o; simpl;
    try (match goal with |- context [lift_grid t ?r] =>
           destruct (lift_grid_sizes t r) as (-> & -> & -> & ->); auto end).
  - unfold set_row_h. destruct (_ <? _); auto. destruct (in_coord _); auto.
    destruct (in_poscoord _); simpl; auto.
  - unfold set_col_w. destruct (_ <? _); auto. destruct (in_coord _); auto.
    destruct (in_poscoord _); simpl; auto.
Qed.

Lemma run_ops_frame_ok ops : forall t, frame_ok t -> frame_ok (run_ops t ops).
Proof.
  unfold run_ops. induction ops as [|o ops IH]; simpl; auto.
  intros t H. apply IH. apply step_frame_ok; auto.
Qed.

Lemma new_run_ops_frame_ok rows cols w h t ops :
  new_tbl rows cols w h = Ok t ->
  cx (run_ops t ops) = sumZ (widths (run_ops t ops)) /\
  cy (run_ops t ops) = sumZ (heights (run_ops t ops)).
Proof.
  intros Hn. apply run_ops_frame_ok.
  unfold new_tbl in Hn. destruct rows; [discriminate|]. destruct cols; [discriminate|].
  destruct (_ && _); [|discriminate]. injection Hn as <-. unfold frame_ok; cbn [cx cy widths heights].
  rewrite !distribute_sum by lia. auto.
Qed.

(** regression: the input that used to leave the row height written and the frame stale *)
Lemma resize_rejected_regression :
  exists t, new_tbl 1 1 100 100 = Ok t /\ step t (SetRowH 0 (-5)) = (t, Err ValueErr).
Proof. eexists. split; [vm_compute; reflexivity|]. vm_compute. reflexivity. Qed.

(* ================================================================== invariant: easy operations *)
Lemma Inv_at_sizes t t' regs :
  Inv_at t regs -> grid t' = grid t -> length (widths t') = length (widths t) ->
  length (heights t') = length (heights t) -> Inv_at t' regs.
Proof. unfold Inv_at. intros H -> -> ->. exact H. Qed.

(** a grid update that keeps the four attributes of every cell and its paragraphs non-empty *)
Lemma Inv_at_map_flags t regs f :
  Inv_at t regs ->
  (forall r c cl, get (grid t) r c = Some cl ->
                  cell_flags (f r c cl) = cell_flags cl /\ paras (f r c cl) <> []) ->
  Inv_at (with_grid t (map_grid f (grid t))) regs.
Proof.
  intros (HR & HL & HP & Hok & Hnd & Hdj & Hfl) Hf. unfold Inv_at, with_grid; cbn [grid widths heights].
  rewrite length_map_grid.
  split; [apply rect_map_grid; exact HR|]. split; [exact HL|].
  split.
  { intros r c cl Hg. rewrite get_map_grid in Hg.
    destruct (get (grid t) r c) as [cl0|] eqn:E; simpl in Hg; [|discriminate].
    injection Hg as <-. apply (Hf _ _ _ E). }
  split; [exact Hok|]. split; [exact Hnd|]. split; [exact Hdj|].
  intros r c cl Hg. rewrite get_map_grid in Hg.
  destruct (get (grid t) r c) as [cl0|] eqn:E; simpl in Hg; [|discriminate].
  injection Hg as <-. destruct (Hf _ _ _ E) as [-> _]. apply (Hfl _ _ _ E).
Qed.

Lemma step_SetText_Inv t regs r c s : Inv_at t regs -> Inv_at (fst (step t (SetText r c s))) regs.
Proof.
  intros HI. simpl. unfold set_text. destruct (get (grid t) r c); simpl; auto.
  apply Inv_at_map_flags; auto.
  intros r' c' cl Hg. destruct ((r' =? r) && (c' =? c)); simpl.
  - split; auto. apply split_on_nonnil.
  - split; auto. destruct HI as (_ & _ & HP & _). eapply HP; eauto.
Qed.

Lemma step_SetRowH_Inv t regs i h : Inv_at t regs -> Inv_at (fst (step t (SetRowH i h))) regs.
Proof.
  intros HI. simpl. unfold set_row_h.
  destruct (i <? length (heights t)); simpl; auto.
  destruct (in_coord h); simpl; auto.
  destruct (in_poscoord _); simpl; (eapply Inv_at_sizes; [exact HI| | |]); simpl; auto using length_set_nth.
Qed.

Lemma step_SetColW_Inv t regs j w : Inv_at t regs -> Inv_at (fst (step t (SetColW j w))) regs.
Proof.
  intros HI. simpl. unfold set_col_w.
  destruct (j <? length (widths t)); simpl; auto.
  destruct (in_coord w); simpl; auto.
  destruct (in_poscoord _); simpl; (eapply Inv_at_sizes; [exact HI| | |]); simpl; auto using length_set_nth.
Qed.

Lemma step_MergeForeign t r c :
  fst (step t (MergeForeign r c)) = t /\
  (forall cl, get (grid t) r c = Some cl -> snd (step t (MergeForeign r c)) = Err ValueErr) /\
  (get (grid t) r c = None -> snd (step t (MergeForeign r c)) = Err IndexErr).
Proof.
  simpl. unfold merge_foreign. destruct (get (grid t) r c); simpl; repeat split; auto; discriminate.
Qed.

(* ================================================================== split *)
Definition remove_reg (rg : region) (regs : list region) : list region :=
  filter (fun x => if region_eq_dec x rg then false else true) regs.

Lemma In_remove_reg rg regs x : In x (remove_reg rg regs) <-> In x regs /\ x <> rg.
Proof.
  unfold remove_reg. rewrite filter_In. destruct (region_eq_dec x rg); intuition congruence.
Qed.

Lemma find_remove_reg rg regs r c :
  in_reg rg r c = false ->
  find (fun x => in_reg x r c) (remove_reg rg regs) = find (fun x => in_reg x r c) regs.
Proof.
  intros Hf. unfold remove_reg. induction regs as [|x l IH]; simpl; auto.
  destruct (region_eq_dec x rg) as [->|Hn]; simpl.
  - rewrite Hf. exact IH.
  - destruct (in_reg x r c); auto.
Qed.

(** What split does, given the region [rg] whose origin is the cell addressed. *)
Lemma split_origin t regs r c cl rg :
  Inv_at t regs -> get (grid t) r c = Some cl -> In rg regs -> rtop rg = r -> rleft rg = c ->
  rowSpan cl = rh rg -> gridSpan cl = rw rg -> is_merge_origin cl = true ->
  split (grid t) r c =
    Ok (map_grid (fun r' c' cl' => if in_reg rg r' c' then plain_cell cl' else cl') (grid t)).
Proof.
  intros HI Hg Hin Ht Hl Hrs Hgs Ho. unfold split. rewrite Hg, Ho. simpl negb. cbv iota.
  destruct HI as (HR & _ & _ & Hok & _).
  rewrite Forall_forall in Hok. destruct (Hok _ Hin) as (H1 & H2 & _ & H4 & H5).
  rewrite Hrs, Hgs.
  replace (rh rg =? 0) with false by (symmetry; apply Nat.eqb_neq; lia).
  replace (rw rg =? 0) with false by (symmetry; apply Nat.eqb_neq; lia). simpl orb. cbv iota.
  destruct (get_lt_Some _ (grid t) (r + rh rg - 1) (c + rw rg - 1) HR) as [cl2 ->]; try lia.
  unfold in_reg. rewrite Ht, Hl. reflexivity.
Qed.

Lemma split_Inv_at t regs rg :
  Inv_at t regs -> In rg regs ->
  Inv_at (with_grid t (map_grid (fun r' c' cl' => if in_reg rg r' c' then plain_cell cl' else cl') (grid t)))
         (remove_reg rg regs).
Proof.
  intros (HR & HL & HP & Hok & Hnd & Hdj & Hfl) Hin.
  unfold Inv_at, with_grid; cbn [grid widths heights]. rewrite length_map_grid.
  split; [apply rect_map_grid; exact HR|]. split; [exact HL|].
  split.
  { intros r' c' cl' Hg'. rewrite get_map_grid in Hg'.
    destruct (get (grid t) r' c') as [cl0|] eqn:E; simpl in Hg'; [|discriminate].
    injection Hg' as <-. destruct (in_reg rg r' c'); simpl; eapply HP; eauto. }
  split.
  { rewrite Forall_forall in *. intros x Hx. apply In_remove_reg in Hx as [Hx _]. auto. }
  split.
  { unfold remove_reg. apply NoDup_filter. exact Hnd. }
  split.
  { intros a b Ha Hb. apply In_remove_reg in Ha as [Ha _]. apply In_remove_reg in Hb as [Hb _].
    exact (Hdj a b Ha Hb). }
  intros r' c' cl' Hg'. rewrite get_map_grid in Hg'.
  destruct (get (grid t) r' c') as [cl0|] eqn:E; simpl in Hg'; [|discriminate].
  injection Hg' as <-. unfold expected.
  destruct (in_reg rg r' c') eqn:Hr.
  - (* inside the split region: plain, and no remaining region contains the cell *)
    replace (find (fun x => in_reg x r' c') (remove_reg rg regs)) with (@None region).
    + reflexivity.
    + symmetry. apply find_none_iff. intros x Hx. apply In_remove_reg in Hx as [Hx Hne].
      apply (Hdj rg x Hin Hx (not_eq_sym Hne) _ _ Hr).
  - rewrite find_remove_reg by exact Hr. apply (Hfl _ _ _ E).
Qed.

Lemma step_Split_Inv t regs r c :
  Inv_at t regs -> exists regs', Inv_at (fst (step t (Split r c))) regs'.
Proof.
  intros HI. simpl.
  destruct (get (grid t) r c) as [cl|] eqn:Hg;
    [|unfold split; rewrite Hg; simpl; eauto].
  destruct (is_merge_origin cl) eqn:Ho;
    [|unfold split; rewrite Hg, Ho; simpl; eauto].
  destruct (Inv_origin _ _ _ _ _ HI Hg Ho) as (rg & Hin & Ht & Hl & Hrs & Hgs & _).
  rewrite (split_origin _ _ _ _ _ _ HI Hg Hin Ht Hl Hrs Hgs Ho). cbn [lift_grid fst].
  exists (remove_reg rg regs). apply split_Inv_at; auto.
Qed.

(* ================================================================== merge *)
(** the block spanned by two corner cells, whatever their orientation *)
Definition merge_rect (r1 c1 r2 c2 : nat) : region :=
  mkReg (Nat.min r1 r2) (Nat.min c1 c2)
        (S (Nat.max r1 r2 - Nat.min r1 r2)) (S (Nat.max c1 c2 - Nat.min c1 c2)).

Definition origin_paras_of (g : list (list cell)) (rg : region) : list str :=
  match range_cells g (rtop rg) (rleft rg) (rh rg) (rw rg) with
  | o :: rest => merged_paras (paras o) (map paras rest)
  | [] => [[]]
  end.

Lemma merge_eq g r1 c1 r2 c2 a b :
  get g r1 c1 = Some a -> get g r2 c2 = Some b ->
  merge g r1 c1 r2 c2 =
    let rg := merge_rect r1 c1 r2 c2 in
    if contains_merged_cell g (rtop rg) (rleft rg) (rh rg) (rw rg) then Err ValueErr
    else if existsb has_no_paras (range_cells g (rtop rg) (rleft rg) (rh rg) (rw rg)) then Err OtherErr
    else Ok (map_grid (merge_cell (rtop rg) (rleft rg) (rh rg) (rw rg) (origin_paras_of g rg)) g).
Proof.
  intros Ha Hb. unfold merge. rewrite Ha, Hb. rewrite !start_and_size_spec. reflexivity.
Qed.

Lemma merge_rect_dims n g r1 c1 r2 c2 a b :
  rect_grid n g -> get g r1 c1 = Some a -> get g r2 c2 = Some b ->
  let rg := merge_rect r1 c1 r2 c2 in
  1 <= rh rg /\ 1 <= rw rg /\ rtop rg + rh rg <= length g /\ rleft rg + rw rg <= n /\
  in_reg rg r1 c1 = true /\ in_reg rg r2 c2 = true.
Proof.
  intros HR Ha Hb. destruct (get_Some_lt _ _ _ _ _ HR Ha). destruct (get_Some_lt _ _ _ _ _ HR Hb).
  unfold merge_rect, in_reg; simpl. rewrite !in_rect_spec. lia.
Qed.

Lemma contains_false g top lft h w :
  contains_merged_cell g top lft h w = false ->
  forall r c cl, in_rect top lft h w r c = true -> get g r c = Some cl -> is_merged cl = false.
Proof.
  unfold contains_merged_cell. intros H r c cl Hin Hg.
  destruct (is_merged cl) eqn:E; auto.
  assert (existsb is_merged (range_cells g top lft h w) = true); [|congruence].
  apply existsb_exists. exists cl. split; auto. apply in_range_cells. eauto.
Qed.

Lemma contains_true g top lft h w :
  contains_merged_cell g top lft h w = true ->
  exists r c cl, in_rect top lft h w r c = true /\ get g r c = Some cl /\ is_merged cl = true.
Proof.
  unfold contains_merged_cell. intros H. apply existsb_exists in H as [cl [Hin Hm]].
  apply in_range_cells in Hin as (r & c & H1 & H2). eauto 6.
Qed.

Lemma existsb_false_forall {A} (f : A -> bool) l :
  existsb f l = false <-> (forall x, In x l -> f x = false).
Proof.
  split.
  - intros H x Hx. destruct (f x) eqn:E; auto.
    assert (existsb f l = true) by (apply existsb_exists; eauto). congruence.
  - intros H. destruct (existsb f l) eqn:E; auto.
    apply existsb_exists in E as [x [Hx Hf]]. rewrite (H x Hx) in Hf. discriminate.
Qed.

Lemma append_ps_nonnil o s : o <> [] -> fst (append_ps o s) <> [].
Proof.
  intros Ho. unfold append_ps. destruct (tb_is_empty s); simpl; auto.
  destruct (if tb_is_empty o then [] else o) eqn:E1; simpl.
  - destruct s; simpl; discriminate.
  - discriminate.
Qed.

Lemma merged_paras_nonnil o ss : o <> [] -> merged_paras o ss <> [].
Proof.
  unfold merged_paras. revert o. induction ss as [|s ss IH]; simpl; auto.
  intros o Ho. apply IH. apply append_ps_nonnil; auto.
Qed.

Lemma tb_is_empty_spec s : tb_is_empty s = true -> s = [[]].
Proof. destruct s as [|[|x p] [|q s]]; simpl; intros; try discriminate; reflexivity. Qed.

Lemma src_after_spec s : src_after s = [[]].
Proof.
  unfold src_after, append_ps. destruct (tb_is_empty s) eqn:E; simpl; auto.
  apply tb_is_empty_spec; auto.
Qed.

Lemma merge_cell_out top lft h w op r c cl :
  in_rect top lft h w r c = false -> merge_cell top lft h w op r c cl = cl.
Proof. unfold merge_cell. intros ->. reflexivity. Qed.

Lemma merge_cell_flags_in top lft h w op r c cl :
  in_rect top lft h w r c = true -> cell_flags cl = plain_flags ->
  cell_flags (merge_cell top lft h w op r c cl) = region_flags (mkReg top lft h w) r c.
Proof.
  unfold merge_cell. intros -> Hp. unfold cell_flags, plain_flags in Hp.
  injection Hp as Hg Hr Hh Hv.
  unfold cell_flags, region_flags; simpl. rewrite Hg, Hr, Hh, Hv.
  destruct (c =? lft), (r =? top), (lft <? c), (top <? r); reflexivity.
Qed.

Lemma origin_paras_nonnil g rg :
  existsb has_no_paras (range_cells g (rtop rg) (rleft rg) (rh rg) (rw rg)) = false ->
  origin_paras_of g rg <> [].
Proof.
  intros H. unfold origin_paras_of.
  destruct (range_cells g (rtop rg) (rleft rg) (rh rg) (rw rg)) as [|o rest]; [discriminate|].
  apply merged_paras_nonnil. simpl in H. apply orb_false_iff in H as [H _].
  unfold has_no_paras in H. destruct (paras o); [discriminate|discriminate].
Qed.

Lemma Inv_no_empty_paras t regs top lft h w :
  Inv_at t regs -> existsb has_no_paras (range_cells (grid t) top lft h w) = false.
Proof.
  intros (_ & _ & HP & _). apply existsb_false_forall. intros cl Hin.
  apply in_range_cells in Hin as (r & c & _ & Hg). specialize (HP _ _ _ Hg).
  unfold has_no_paras. destruct (paras cl); congruence.
Qed.

(** the regions after an accepted merge of the block [rg] *)
Definition add_reg (rg : region) (regs : list region) : list region :=
  if (rh rg =? 1) && (rw rg =? 1) then regs else rg :: regs.

Lemma merge_accepted_Inv t regs rg op :
  Inv_at t regs ->
  1 <= rh rg -> 1 <= rw rg -> rtop rg + rh rg <= length (grid t) -> rleft rg + rw rg <= length (widths t) ->
  contains_merged_cell (grid t) (rtop rg) (rleft rg) (rh rg) (rw rg) = false ->
  op <> [] ->
  Inv_at (with_grid t (map_grid (merge_cell (rtop rg) (rleft rg) (rh rg) (rw rg) op) (grid t)))
         (add_reg rg regs).
Proof.
  intros HI H1 H2 H3 H4 Hc Hop.
  assert (Hplain : forall r c cl, in_reg rg r c = true -> get (grid t) r c = Some cl ->
             find (fun x => in_reg x r c) regs = None /\ cell_flags cl = plain_flags).
  { intros r c cl Hin Hg. apply (Inv_unmerged_plain t regs r c cl HI Hg).
    eapply contains_false; eauto. }
  assert (Hfree : forall r c x, in_reg rg r c = true -> In x regs -> in_reg x r c = false).
  { intros r c x Hin Hx.
    destruct HI as (HR & _).
    unfold in_reg in Hin. pose proof Hin as Hin'. apply in_rect_spec in Hin'.
    destruct (get_lt_Some _ (grid t) r c HR) as [cl Hg]; try lia.
    destruct (Hplain r c cl Hin Hg) as [Hn _].
    apply (proj1 (find_none_iff _ _) Hn x Hx). }
  destruct HI as (HR & HL & HP & Hok & Hnd & Hdj & Hfl).
  unfold Inv_at, with_grid; cbn [grid widths heights]. rewrite length_map_grid.
  split; [apply rect_map_grid; exact HR|]. split; [exact HL|].
  split.
  { intros r c cl Hg. rewrite get_map_grid in Hg.
    destruct (get (grid t) r c) as [cl0|] eqn:E; simpl in Hg; [|discriminate].
    injection Hg as <-. unfold merge_cell.
    destruct (in_rect (rtop rg) (rleft rg) (rh rg) (rw rg) r c); [|eapply HP; eauto].
    simpl. destruct ((r =? rtop rg) && (c =? rleft rg)); auto.
    rewrite src_after_spec. discriminate. }
  unfold add_reg.
  destruct ((rh rg =? 1) && (rw rg =? 1)) eqn:Htriv.
  - (* a one-cell block: nothing changes in the attributes *)
    apply andb_true_iff in Htriv as [Eh Ew]. apply Nat.eqb_eq in Eh, Ew.
    split; [exact Hok|]. split; [exact Hnd|]. split; [exact Hdj|].
    intros r c cl Hg. rewrite get_map_grid in Hg.
    destruct (get (grid t) r c) as [cl0|] eqn:E; simpl in Hg; [|discriminate].
    injection Hg as <-.
    destruct (in_rect (rtop rg) (rleft rg) (rh rg) (rw rg) r c) eqn:Hin.
    + destruct (Hplain r c cl0 Hin E) as [Hn Hp].
      destruct rg as [tp lf hh ww]; simpl in *.
      rewrite (merge_cell_flags_in _ _ _ _ _ _ _ _ Hin Hp).
      unfold expected. rewrite Hn. apply in_rect_spec in Hin. subst hh ww.
      unfold region_flags, plain_flags; simpl.
      replace (c =? lf) with true by (symmetry; apply Nat.eqb_eq; lia).
      replace (r =? tp) with true by (symmetry; apply Nat.eqb_eq; lia).
      replace (lf <? c) with false by (symmetry; apply Nat.ltb_ge; lia).
      replace (tp <? r) with false by (symmetry; apply Nat.ltb_ge; lia). reflexivity.
    + rewrite merge_cell_out by exact Hin. apply (Hfl _ _ _ E).
  - (* a real block becomes a new region *)
    assert (Hnt : 1 < rh rg \/ 1 < rw rg).
    { apply andb_false_iff in Htriv as [E|E]; apply Nat.eqb_neq in E; lia. }
    assert (Horg : in_reg rg (rtop rg) (rleft rg) = true).
    { unfold in_reg. apply in_rect_spec. lia. }
    split.
    { constructor; auto. unfold reg_ok. auto 6. }
    split.
    { constructor; auto. intros Hin. rewrite (Hfree _ _ rg Horg Hin) in Horg. discriminate. }
    split.
    { intros a b [<-|Ha] [<-|Hb] Hne r c Hin.
      - congruence.
      - apply (Hfree r c b Hin Hb).
      - destruct (in_reg rg r c) eqn:E; auto. rewrite (Hfree r c a E Ha) in Hin. discriminate.
      - apply (Hdj a b Ha Hb Hne r c Hin). }
    intros r c cl Hg. rewrite get_map_grid in Hg.
    destruct (get (grid t) r c) as [cl0|] eqn:E; simpl in Hg; [|discriminate].
    injection Hg as <-. unfold expected. simpl find.
    destruct (in_reg rg r c) eqn:Hin.
    + destruct (Hplain r c cl0 Hin E) as [_ Hp].
      destruct rg as [tp lf hh ww]. unfold in_reg in Hin. simpl in *.
      apply (merge_cell_flags_in _ _ _ _ _ _ _ _ Hin Hp).
    + unfold in_reg in Hin. rewrite merge_cell_out by exact Hin. apply (Hfl _ _ _ E).
Qed.

Lemma step_Merge_Inv t regs r1 c1 r2 c2 :
  Inv_at t regs -> exists regs', Inv_at (fst (step t (Merge r1 c1 r2 c2))) regs'.
Proof.
  intros HI. simpl.
  destruct (get (grid t) r1 c1) as [a|] eqn:Ha; [|unfold merge; rewrite Ha; simpl; eauto].
  destruct (get (grid t) r2 c2) as [b|] eqn:Hb; [|unfold merge; rewrite Ha, Hb; simpl; eauto].
  rewrite (merge_eq _ _ _ _ _ _ _ Ha Hb). cbv zeta.
  set (rg := merge_rect r1 c1 r2 c2).
  destruct (contains_merged_cell _ _ _ _ _) eqn:Hc; [simpl; eauto|].
  rewrite (Inv_no_empty_paras _ _ _ _ _ _ HI). cbn [lift_grid fst].
  pose proof HI as (HR & _).
  destruct (merge_rect_dims _ _ _ _ _ _ _ _ HR Ha Hb) as (H1 & H2 & H3 & H4 & _).
  exists (add_reg rg regs). apply merge_accepted_Inv; auto.
  apply origin_paras_nonnil. apply (Inv_no_empty_paras _ _ _ _ _ _ HI).
Qed.

(* ================================================================== C14_inv *)
Lemma step_Inv t o : Inv t -> Inv (fst (step t o)).
Proof.
  intros [regs HI]. destruct o.
  - apply (step_Merge_Inv _ _ _ _ _ _ HI).
  - exists regs. rewrite (proj1 (step_MergeForeign t r c)). exact HI.
  - apply (step_Split_Inv _ _ _ _ HI).
  - exists regs. apply step_SetRowH_Inv; auto.
  - exists regs. apply step_SetColW_Inv; auto.
  - exists regs. apply step_SetText_Inv; auto.
Qed.

Lemma run_ops_Inv ops : forall t, Inv t -> Inv (run_ops t ops).
Proof.
  unfold run_ops. induction ops as [|o ops IH]; simpl; auto.
  intros t HI. apply IH. apply step_Inv; auto.
Qed.

Lemma merge_length g r1 c1 r2 c2 g' : merge g r1 c1 r2 c2 = Ok g' -> length g' = length g.
Proof.
  unfold merge. destruct (get g r1 c1); [|discriminate]. destruct (get g r2 c2); [|discriminate].
  destruct (start_and_size c1 c2) as [lft w]. destruct (start_and_size r1 r2) as [top h].
  destruct (contains_merged_cell _ _ _ _ _); [discriminate|].
  destruct (existsb _ _); [discriminate|].
  intros E; injection E as <-. apply length_map_grid.
Qed.

Lemma split_length g r c g' : split g r c = Ok g' -> length g' = length g.
Proof.
  unfold split. destruct (get g r c) as [cl|]; [|discriminate].
  destruct (negb _); [discriminate|]. destruct (_ || _); [discriminate|].
  destruct (get g _ _); [|discriminate].
  intros E; injection E as <-. apply length_map_grid.
Qed.

Lemma set_text_length g r c s g' : set_text g r c s = Ok g' -> length g' = length g.
Proof.
  unfold set_text. destruct (get g r c); [|discriminate].
  intros E; injection E as <-. apply length_map_grid.
Qed.

Lemma step_dims t o :
  length (grid (fst (step t o))) = length (grid t) /\
  length (widths (fst (step t o))) = length (widths t) /\
  length (heights (fst (step t o))) = length (heights t).
Proof.
  destruct o; simpl.
  - destruct (merge _ _ _ _ _) eqn:E; simpl; auto. apply merge_length in E. auto.
  - destruct (merge_foreign _ _ _) eqn:E; simpl; auto.
    unfold merge_foreign in E. destruct (get _ _ _); discriminate.
  - destruct (split _ _ _) eqn:E; simpl; auto. apply split_length in E. auto.
  - unfold set_row_h. destruct (_ <? _); auto. destruct (in_coord _); auto.
    destruct (in_poscoord _); simpl; rewrite ?length_set_nth; auto.
  - unfold set_col_w. destruct (_ <? _); auto. destruct (in_coord _); auto.
    destruct (in_poscoord _); simpl; rewrite ?length_set_nth; auto.
  - destruct (set_text _ _ _ _) eqn:E; simpl; auto. apply set_text_length in E. auto.
Qed.

Lemma run_ops_dims ops : forall t,
  length (grid (run_ops t ops)) = length (grid t) /\
  length (widths (run_ops t ops)) = length (widths t) /\
  length (heights (run_ops t ops)) = length (heights t).
Proof.
  unfold run_ops. induction ops as [|o ops IH]; simpl; auto.
  intros t. destruct (IH (fst (step t o))) as (-> & -> & ->). apply step_dims.
Qed.

(** every row keeps exactly as many cells as there are grid columns, and the row and
    column counts never change, along any history from a freshly created table *)
Lemma run_ops_rectangular rows cols w h t ops :
  new_tbl rows cols w h = Ok t ->
  let t' := run_ops t ops in
  Inv t' /\ length (grid t') = rows /\ Forall (fun row => length row = cols) (grid t') /\
  length (widths t') = cols /\ length (heights t') = rows.
Proof.
  intros Hn. apply new_tbl_spec in Hn as (_ & _ & Hg & _ & Hw & Hh & _ & _ & _ & _ & _ & HI).
  assert (HI0 : Inv t) by (exists []; exact HI). clear HI.
  cbv zeta. destruct (run_ops_dims ops t) as (Eg & Ew & Eh).
  pose proof (run_ops_Inv ops t HI0) as HI.
  split; [exact HI|]. destruct HI as [regs (HR & _)].
  rewrite Ew, Hw in HR. unfold rect_grid in HR.
  split; [congruence|]. split; [exact HR|]. split; congruence.
Qed.

(* ================================================================== C14_refuse / C14_split *)
(** the block [rg] shares a cell with one of the merged regions *)
Definition overlaps (regs : list region) (rg : region) : Prop :=
  exists x r c, In x regs /\ in_reg x r c = true /\ in_reg rg r c = true.

Lemma plain_not_merged cl : cell_flags cl = plain_flags -> is_merged cl = false.
Proof.
  unfold cell_flags, plain_flags. intros H. injection H as Hg Hr Hh Hv.
  unfold is_merged. rewrite Hg, Hr, Hh, Hv. reflexivity.
Qed.

(** A merge is refused exactly when its block touches an existing merged region; a
    refused merge raises ValueError and leaves the table as it was; an accepted one
    makes the block a region (unless it is a single cell). *)
Lemma merge_behaviour t regs r1 c1 r2 c2 a b :
  Inv_at t regs -> get (grid t) r1 c1 = Some a -> get (grid t) r2 c2 = Some b ->
  let rg := merge_rect r1 c1 r2 c2 in
  (overlaps regs rg /\ step t (Merge r1 c1 r2 c2) = (t, Err ValueErr)) \/
  (~ overlaps regs rg /\
   exists g', merge (grid t) r1 c1 r2 c2 = Ok g' /\
              step t (Merge r1 c1 r2 c2) = (with_grid t g', Ok tt) /\
              Inv_at (with_grid t g') (add_reg rg regs)).
Proof.
  intros HI Ha Hb rg. simpl step.
  rewrite (merge_eq _ _ _ _ _ _ _ Ha Hb). cbv zeta. fold rg.
  pose proof HI as (HR & _).
  destruct (merge_rect_dims _ _ _ _ _ _ _ _ HR Ha Hb) as (H1 & H2 & H3 & H4 & _). fold rg in H1, H2, H3, H4.
  destruct (contains_merged_cell _ _ _ _ _) eqn:Hc.
  - left. split; [|reflexivity].
    apply contains_true in Hc as (r & c & cl & Hin & Hg & Hm).
    pose proof HI as (_ & _ & _ & _ & _ & _ & Hfl). specialize (Hfl _ _ _ Hg). unfold expected in Hfl.
    destruct (find (fun x => in_reg x r c) regs) as [x|] eqn:E.
    + apply find_some in E as [Hx Hxr]. exists x, r, c. auto.
    + rewrite (plain_not_merged _ Hfl) in Hm. discriminate.
  - right. split.
    + intros (x & r & c & Hx & Hxr & Hrg).
      unfold in_reg in Hrg. pose proof Hrg as Hrg'. apply in_rect_spec in Hrg'.
      destruct (get_lt_Some _ (grid t) r c HR) as [cl Hg]; try lia.
      pose proof (contains_false _ _ _ _ _ Hc r c cl Hrg Hg) as Hm.
      destruct (Inv_unmerged_plain t regs r c cl HI Hg Hm) as [Hn _].
      rewrite (proj1 (find_none_iff _ _) Hn x Hx) in Hxr. discriminate.
    + rewrite (Inv_no_empty_paras _ _ _ _ _ _ HI).
      eexists. split; [reflexivity|]. split; [reflexivity|].
      apply merge_accepted_Inv; auto.
      apply origin_paras_nonnil. apply (Inv_no_empty_paras _ _ _ _ _ _ HI).
Qed.

Lemma merge_index_error t r1 c1 r2 c2 :
  get (grid t) r1 c1 = None \/ get (grid t) r2 c2 = None ->
  step t (Merge r1 c1 r2 c2) = (t, Err IndexErr).
Proof.
  simpl. unfold merge. intros [H|H].
  - rewrite H. reflexivity.
  - rewrite H. destruct (get (grid t) r1 c1); reflexivity.
Qed.

Lemma merge_foreign_refused t r c cl :
  get (grid t) r c = Some cl -> step t (MergeForeign r c) = (t, Err ValueErr).
Proof. simpl. unfold merge_foreign. intros ->. reflexivity. Qed.

(** the region whose origin is (r, c) is the one [find] returns there *)
Lemma origin_find t regs rg :
  Inv_at t regs -> In rg regs ->
  find (fun x => in_reg x (rtop rg) (rleft rg)) regs = Some rg.
Proof.
  intros (_ & _ & _ & Hok & _ & Hdj & _) Hin.
  rewrite Forall_forall in Hok. destruct (Hok _ Hin) as (H1 & H2 & _).
  assert (Horg : in_reg rg (rtop rg) (rleft rg) = true) by (apply in_rect_spec; lia).
  destruct (find (fun x => in_reg x (rtop rg) (rleft rg)) regs) as [x|] eqn:E.
  - apply find_some in E as [Hx Hxr].
    destruct (region_eq_dec x rg) as [->|Hne]; auto.
    rewrite (Hdj x rg Hx Hin Hne _ _ Hxr) in Horg. discriminate.
  - rewrite (proj1 (find_none_iff _ _) E rg Hin) in Horg. discriminate.
Qed.

(** Split succeeds exactly on the origin of a merged region: every cell of that region
    gets its four attributes reset (paragraphs kept), nothing else changes, and the
    region disappears from the list.  Anywhere else it raises ValueError and changes
    nothing. *)
Lemma split_behaviour t regs r c cl :
  Inv_at t regs -> get (grid t) r c = Some cl ->
  (exists rg, In rg regs /\ rtop rg = r /\ rleft rg = c /\
     let g' := map_grid (fun r' c' cl' => if in_reg rg r' c' then plain_cell cl' else cl') (grid t) in
     step t (Split r c) = (with_grid t g', Ok tt) /\
     Inv_at (with_grid t g') (remove_reg rg regs) /\
     (forall r' c', get g' r' c' =
        if in_reg rg r' c' then option_map plain_cell (get (grid t) r' c') else get (grid t) r' c'))
  \/
  ((forall rg, In rg regs -> ~ (rtop rg = r /\ rleft rg = c)) /\
   step t (Split r c) = (t, Err ValueErr)).
Proof.
  intros HI Hg. destruct (is_merge_origin cl) eqn:Ho.
  - left. destruct (Inv_origin _ _ _ _ _ HI Hg Ho) as (rg & Hin & Ht & Hl & Hrs & Hgs & _).
    exists rg. split; auto. split; auto. split; auto. cbv zeta.
    split.
    { simpl step. rewrite (split_origin _ _ _ _ _ _ HI Hg Hin Ht Hl Hrs Hgs Ho). reflexivity. }
    split; [apply split_Inv_at; auto|].
    intros r' c'. rewrite get_map_grid.
    destruct (get (grid t) r' c'); simpl; destruct (in_reg rg r' c'); reflexivity.
  - right. split.
    + intros rg Hin [Ht Hl]. pose proof (Inv_observers _ _ _ _ _ HI Hg) as Hobs.
      subst r c. rewrite (origin_find _ _ _ HI Hin) in Hobs.
      rewrite !Nat.eqb_refl in Hobs. simpl in Hobs. destruct Hobs as [Hobs _]. congruence.
    + simpl. unfold split. rewrite Hg, Ho. reflexivity.
Qed.

Lemma split_index_error t r c :
  get (grid t) r c = None -> step t (Split r c) = (t, Err IndexErr).
Proof. simpl. unfold split. intros ->. reflexivity. Qed.

(* ================================================================== C14_text *)
Definition nonempty_str (s : str) : bool := match s with [] => false | _ => true end.

(** the non-empty paragraphs of a list of cells, in order *)
Definition texts (cs : list cell) : list str := filter nonempty_str (concat (map paras cs)).

Lemma texts_app a b : texts (a ++ b) = texts a ++ texts b.
Proof. unfold texts. rewrite map_app, concat_app, filter_app. reflexivity. Qed.

Lemma texts_cons c l : texts (c :: l) = filter nonempty_str (paras c) ++ texts l.
Proof. unfold texts. simpl. rewrite filter_app. reflexivity. Qed.

Lemma filter_unclear l : filter nonempty_str (unclear l) = filter nonempty_str l.
Proof. destruct l; reflexivity. Qed.

Lemma append_ps_texts o s :
  filter nonempty_str (fst (append_ps o s)) = filter nonempty_str o ++ filter nonempty_str s.
Proof.
  unfold append_ps. destruct (tb_is_empty s) eqn:Es.
  - apply tb_is_empty_spec in Es. subst s. simpl. rewrite app_nil_r. reflexivity.
  - cbn [fst]. rewrite filter_unclear, filter_app. f_equal.
    destruct (tb_is_empty o) eqn:Eo; auto. apply tb_is_empty_spec in Eo. subst o. reflexivity.
Qed.

Lemma merged_paras_texts ss : forall o,
  filter nonempty_str (merged_paras o ss) = filter nonempty_str (o ++ concat ss).
Proof.
  unfold merged_paras. induction ss as [|s ss IH]; intros o; simpl.
  - rewrite app_nil_r. reflexivity.
  - rewrite IH. rewrite !filter_app, append_ps_texts. rewrite app_assoc. reflexivity.
Qed.

Definition cells_at (g : list (list cell)) (coords : list (nat * nat)) : list cell :=
  flat_map (fun rc => match get g (fst rc) (snd rc) with Some cl => [cl] | None => [] end) coords.

Lemma texts_cells_at_nil g coords :
  (forall r c cl, In (r, c) coords -> get g r c = Some cl -> paras cl = [[]]) ->
  texts (cells_at g coords) = [].
Proof.
  intros H. induction coords as [|[r c] l IH]; simpl; auto.
  unfold cells_at in *. simpl. rewrite texts_app, IH.
  - rewrite app_nil_r. destruct (get g r c) as [cl|] eqn:E; auto.
    unfold texts. simpl. rewrite (H r c cl); simpl; auto.
  - intros r' c' cl Hin. apply H. simpl; auto.
Qed.

(** After an accepted merge: the origin cell holds every non-empty paragraph of the
    block in reading order (nothing lost, nothing twice), every other cell of the
    block holds a single empty paragraph, and cells outside the block are untouched. *)
Lemma merge_text n g r1 c1 r2 c2 a b g' :
  rect_grid n g -> get g r1 c1 = Some a -> get g r2 c2 = Some b ->
  merge g r1 c1 r2 c2 = Ok g' ->
  let rg := merge_rect r1 c1 r2 c2 in
  let block g := range_cells g (rtop rg) (rleft rg) (rh rg) (rw rg) in
  (exists o', get g' (rtop rg) (rleft rg) = Some o' /\
              filter nonempty_str (paras o') = texts (block g)) /\
  (forall r c cl', in_reg rg r c = true -> (r, c) <> (rtop rg, rleft rg) ->
                   get g' r c = Some cl' -> paras cl' = [[]]) /\
  (forall r c, in_reg rg r c = false -> get g' r c = get g r c) /\
  texts (block g') = texts (block g).
Proof.
  intros HR Ha Hb Hm rg block.
  rewrite (merge_eq _ _ _ _ _ _ _ Ha Hb) in Hm. cbv zeta in Hm. fold rg in Hm.
  destruct (merge_rect_dims _ _ _ _ _ _ _ _ HR Ha Hb) as (H1 & H2 & H3 & H4 & _). fold rg in H1, H2, H3, H4.
  (* shape of the block: origin first *)
  assert (Hshape : exists rest,
             rect_coords (rtop rg) (rleft rg) (rh rg) (rw rg) = (rtop rg, rleft rg) :: rest /\
             forall r c, In (r, c) rest ->
               in_rect (rtop rg) (rleft rg) (rh rg) (rw rg) r c = true /\ (r =? rtop rg) && (c =? rleft rg) = false).
  { unfold rg, merge_rect; simpl. apply rect_coords_cons. }
  clearbody rg.
  destruct (contains_merged_cell _ _ _ _ _); [discriminate|].
  destruct (existsb has_no_paras _); [discriminate|].
  injection Hm as <-.
  assert (Hget : forall r c, get (map_grid (merge_cell (rtop rg) (rleft rg) (rh rg) (rw rg) (origin_paras_of g rg)) g) r c
                 = option_map (merge_cell (rtop rg) (rleft rg) (rh rg) (rw rg) (origin_paras_of g rg) r c) (get g r c))
    by (intros; apply get_map_grid).
  destruct (get_lt_Some _ g (rtop rg) (rleft rg) HR) as [o Ho]; try lia.
  destruct Hshape as (rest & Hcoords & Hrest).
  assert (Horg_in : in_rect (rtop rg) (rleft rg) (rh rg) (rw rg) (rtop rg) (rleft rg) = true)
    by (apply in_rect_spec; lia).
  assert (Hblock : block g = o :: cells_at g rest).
  { unfold block, range_cells. rewrite Hcoords. simpl. rewrite Ho. reflexivity. }
  assert (Hop : filter nonempty_str (origin_paras_of g rg) = texts (block g)).
  { unfold origin_paras_of. fold (block g). rewrite Hblock.
    rewrite merged_paras_texts. unfold texts. simpl. reflexivity. }
  assert (Hothers : forall r c cl', in_rect (rtop rg) (rleft rg) (rh rg) (rw rg) r c = true ->
             (r =? rtop rg) && (c =? rleft rg) = false ->
             get (map_grid (merge_cell (rtop rg) (rleft rg) (rh rg) (rw rg) (origin_paras_of g rg)) g) r c = Some cl' ->
             paras cl' = [[]]).
  { intros r c cl' Hin Hne Hg. rewrite Hget in Hg.
    destruct (get g r c) as [cl0|]; simpl in Hg; [|discriminate]. injection Hg as <-.
    unfold merge_cell. rewrite Hin, Hne. simpl. apply src_after_spec. }
  split.
  { eexists. split.
    - rewrite Hget, Ho. simpl. reflexivity.
    - unfold merge_cell. rewrite Horg_in, !Nat.eqb_refl. simpl. exact Hop. }
  split.
  { intros r c cl' Hin Hne Hg. apply (Hothers r c cl' Hin); auto.
    destruct (Nat.eqb_spec r (rtop rg)), (Nat.eqb_spec c (rleft rg)); simpl; auto. congruence. }
  split.
  { intros r c Hout. rewrite Hget. unfold in_reg in Hout.
    destruct (get g r c); simpl; auto. rewrite merge_cell_out; auto. }
  unfold block at 1. unfold range_cells. rewrite Hcoords. simpl.
  rewrite Hget, Ho. simpl. rewrite texts_cons.
  fold (cells_at (map_grid (merge_cell (rtop rg) (rleft rg) (rh rg) (rw rg) (origin_paras_of g rg)) g) rest).
  rewrite texts_cells_at_nil.
  - rewrite app_nil_r.
    unfold merge_cell. rewrite Horg_in, !Nat.eqb_refl. simpl. exact Hop.
  - intros r c cl' Hin Hg. destruct (Hrest r c Hin) as [Hi Hne]. apply (Hothers r c cl' Hi Hne Hg).
Qed.
