(** Runner entry point for the C01 / C16 correspondence.

    Wire form of a package (all fields are strings; numbers in decimal):
      n  then n members:  name tok flag kind ...
        kind b                                  plain payload
        kind r  m  then m times  id type target mode(0 internal,1 external,2 other)
        kind c  d  then d times  ext type,  o  then o times  partname type
    A payload is named by a token [tok] (the python side keeps the bytes) and a flag:
      0 not well-formed XML, 1 well-formed XML, 2 re-serialised by the model,
      3 rels item written by the model, 4 content types item written by the model.
    Operations (first field):
      rt   package                      open, save, open, save; also prints wfb and no_default_clashb
      pres srckind package k rid*k      Presentation(): srckind m members, f not found, z not a zip
      reg  package                      regularise
      encrels m  then m times id type target mode      the text model/OpcCodec.v writes for a rels item
      decrels text                      none, or m then m times id type target mode read by OpcCodec
      encct  d (ext type)*d o (partname type)*o        the text written for the content types item
      decct  text                       none, or d (ext type)*d o (partname type)*o
*)
From V.lib Require Import Prelude Wire.
From V.model Require Import PackUri Opc OpcCodec.
From V.gen Require Import GenC01.

Record wblob := mkW { w_tok : N; w_flag : N; w_rels : option (list rel); w_ct : option cts }.

Definition w_reser (b : wblob) : option wblob :=
  if N.eqb (w_flag b) 0 then None else Some (mkW (w_tok b) 2 (w_rels b) (w_ct b)).

Definition wenv : env wblob :=
  mkEnv wblob w_rels (fun l => mkW 0 3 (Some l) None) w_ct (fun c => mkW 0 4 None (Some c)) w_reser
        gen_default_table gen_xml_cts gen_init_defaults gen_pres_cts gen_rt_office_document.

(** ---- parsing ---- *)

Definition k_b : str := [98]%N.
Definition k_r : str := [114]%N.
Definition k_c : str := [99]%N.

Definition mode_of (s : str) : option mode :=
  match s with
  | [48%N] => Some MInt
  | [49%N] => Some MExt
  | [50%N] => Some MOther
  | _ => None
  end.

Fixpoint take_rels (n : nat) (fs : list str) : option (list rel * list str) :=
  match n with
  | O => Some ([], fs)
  | S n' =>
      match fs with
      | i :: t :: g :: m :: fs' =>
          match mode_of m, take_rels n' fs' with
          | Some md, Some (l, rest) => Some (mkRel i t g md :: l, rest)
          | _, _ => None
          end
      | _ => None
      end
  end.

Fixpoint take_pairs (n : nat) (fs : list str) : option (list (str * str) * list str) :=
  match n with
  | O => Some ([], fs)
  | S n' =>
      match fs with
      | a :: b :: fs' =>
          match take_pairs n' fs' with
          | Some (l, rest) => Some ((a, b) :: l, rest)
          | None => None
          end
      | _ => None
      end
  end.

Definition take_member (fs : list str) : option ((str * wblob) * list str) :=
  match fs with
  | name :: tok :: flag :: kind :: fs' =>
      match parse_N tok, parse_N flag with
      | Some t, Some f =>
          if str_eqb kind k_b then Some ((name, mkW t f None None), fs')
          else if str_eqb kind k_r then
            match fs' with
            | m :: fs2 =>
                match parse_nat m with
                | Some mn => match take_rels mn fs2 with
                             | Some (l, rest) => Some ((name, mkW t f (Some l) None), rest)
                             | None => None
                             end
                | None => None
                end
            | [] => None
            end
          else if str_eqb kind k_c then
            match fs' with
            | d :: fs2 =>
                match parse_nat d with
                | Some dn =>
                    match take_pairs dn fs2 with
                    | Some (ds, o :: fs3) =>
                        match parse_nat o with
                        | Some on_ => match take_pairs on_ fs3 with
                                      | Some (os, rest) => Some ((name, mkW t f None (Some (ds, os))), rest)
                                      | None => None
                                      end
                        | None => None
                        end
                    | _ => None
                    end
                | None => None
                end
            | [] => None
            end
          else None
      | _, _ => None
      end
  | _ => None
  end.

Fixpoint take_members (n : nat) (fs : list str) : option (phys wblob * list str) :=
  match n with
  | O => Some ([], fs)
  | S n' =>
      match take_member fs with
      | Some (m, rest) =>
          match take_members n' rest with
          | Some (l, rest') => Some (m :: l, rest')
          | None => None
          end
      | None => None
      end
  end.

Definition take_package (fs : list str) : option (phys wblob * list str) :=
  match fs with
  | n :: fs' => match parse_nat n with Some k => take_members k fs' | None => None end
  | [] => None
  end.

(** ---- printing ---- *)

Definition show_mode (m : mode) : str :=
  match m with MInt => [48%N] | MExt => [49%N] | MOther => [50%N] end.

Definition rel_fields (r : rel) : list str :=
  [show_str (r_id r); show_str (r_type r); show_str (r_target r); show_mode (r_mode r)].
Definition pair_fields (kv : str * str) : list str := [show_str (fst kv); show_str (snd kv)].

Definition member_fields (m : str * wblob) : list str :=
  let b := snd m in
  show_str (fst m) :: show_N (w_tok b) :: show_N (w_flag b) ::
  match w_rels b, w_ct b with
  | Some l, _ => k_r :: show_nat (length l) :: flat_map rel_fields l
  | None, Some (ds, os) =>
      k_c :: show_nat (length ds) :: flat_map pair_fields ds ++ show_nat (length os) :: flat_map pair_fields os
  | None, None => [k_b]
  end.

Definition package_fields (p : phys wblob) : list str :=
  show_nat (length p) :: flat_map member_fields p.

Definition lrel_fields (r : lrel) : list str :=
  [show_str (l_id r); show_str (l_type r); show_bool (l_ext r); show_str (l_target r)].

Definition part_fields (pt : part wblob) : list str :=
  [show_str (p_name pt); show_str (p_ct pt); show_N (w_tok (p_blob pt)); show_N (w_flag (p_blob pt));
   show_nat (length (p_rels pt))] ++ flat_map lrel_fields (p_rels pt).

(** the loaded graph: package relationships, then every part iter_parts yields *)
Definition graph_fields (k : pkg wblob) : list str :=
  (show_nat (length (k_rels k)) :: flat_map lrel_fields (k_rels k))
  ++ (show_nat (length (iter_parts k)) :: flat_map part_fields (iter_parts k)).

(** ---- comparison of two saved packages member by member ---- *)

Definition mode_eqb (a b : mode) : bool :=
  match a, b with MInt, MInt | MExt, MExt | MOther, MOther => true | _, _ => false end.
Definition rel_eqb (a b : rel) : bool :=
  str_eqb (r_id a) (r_id b) && str_eqb (r_type a) (r_type b) && str_eqb (r_target a) (r_target b)
  && mode_eqb (r_mode a) (r_mode b).
Fixpoint list_eqb {A} (f : A -> A -> bool) (a b : list A) : bool :=
  match a, b with
  | [], [] => true
  | x :: a', y :: b' => f x y && list_eqb f a' b'
  | _, _ => false
  end.
Definition pair_eqb (a b : str * str) : bool := str_eqb (fst a) (fst b) && str_eqb (snd a) (snd b).
Definition opt_eqb {A} (f : A -> A -> bool) (a b : option A) : bool :=
  match a, b with Some x, Some y => f x y | None, None => true | _, _ => false end.
Definition wblob_eqb (a b : wblob) : bool :=
  N.eqb (w_tok a) (w_tok b) && N.eqb (w_flag a) (w_flag b)
  && opt_eqb (list_eqb rel_eqb) (w_rels a) (w_rels b)
  && opt_eqb (fun x y => list_eqb pair_eqb (fst x) (fst y) && list_eqb pair_eqb (snd x) (snd y))
             (w_ct a) (w_ct b).
(** same member names (as sets, each once) with equal payloads *)
Definition same_members (a b : phys wblob) : bool :=
  Nat.eqb (length a) (length b)
  && forallb (fun m => match lookup (fst m) b with Some v => wblob_eqb (snd m) v | None => false end) a
  && forallb (fun m => has (fst m) a) b.

Definition w_same : str := [115; 97; 109; 101]%N.
Definition w_diff : str := [100; 105; 102; 102]%N.
Definition w_ok_ : str := [111; 107]%N.
Definition w_notfound : str := [110; 111; 116; 102; 111; 117; 110; 100]%N.
Definition w_badzip : str := [98; 97; 100; 122; 105; 112]%N.

Definition op_rt : str := [114; 116]%N.
Definition op_pres : str := [112; 114; 101; 115]%N.
Definition op_reg : str := [114; 101; 103]%N.
Definition src_m : str := [109]%N.
Definition src_f : str := [102]%N.
Definition src_z : str := [122]%N.

Definition err_str (e : pyerr) : str := w_err ++ show_err e.

Definition run_rt (p : phys wblob) : str :=
  match load wenv p with
  | Err e => err_str e
  | Ok k =>
      let s1 := save wenv k in
      let second :=
        match roundtrip wenv s1 with
        | Err e => err_str e
        | Ok s2 => if same_members s1 s2 then w_same else w_diff
        end in
      fields (w_ok_ :: show_bool (wfb wenv p) :: show_bool (no_default_clashb wenv p)
              :: graph_fields k ++ package_fields s1 ++ [second])
  end.

Fixpoint take_strs (n : nat) (fs : list str) : option (list str) :=
  match n with
  | O => Some []
  | S n' => match fs with f :: fs' => match take_strs n' fs' with Some l => Some (f :: l) | None => None end
            | [] => None end
  end.

Definition run_pres (kind : str) (fs : list str) : str :=
  if str_eqb kind src_f then w_notfound
  else if str_eqb kind src_z then w_badzip
  else
    match take_package fs with
    | None => w_badcase
    | Some (p, rest) =>
        match open_presentation wenv (SrcMembers p) with
        | ONotFound => w_notfound
        | OBadZip => w_badzip
        | OErr e => err_str e
        | OOk (k, main) =>
            let rids := match rest with
                        | n :: r => match parse_nat n with Some c => take_strs c r | None => None end
                        | [] => Some []
                        end in
            let renamed :=
              match rids with
              | None => [w_badcase]
              | Some l =>
                  match rename_map (p_rels main) l 1 with
                  | Err e => [err_str e]
                  | Ok m => w_ok_ :: show_nat (length (iter_parts k))
                            :: map (fun pt => show_str (renamed m (p_name pt))) (iter_parts k)
                  end
              end in
            fields (w_ok_ :: show_str (p_name main) :: graph_fields k ++ renamed)
        end
    end.

(** ---- the concrete codec of model/OpcCodec.v ---- *)
Definition op_encrels : str := [101; 110; 99; 114; 101; 108; 115]%N.
Definition op_decrels : str := [100; 101; 99; 114; 101; 108; 115]%N.
Definition op_encct : str := [101; 110; 99; 99; 116]%N.
Definition op_decct : str := [100; 101; 99; 99; 116]%N.
Definition w_none_ : str := [110; 111; 110; 101]%N.

Definition cts_fields (c : cts) : list str :=
  show_nat (length (fst c)) :: flat_map pair_fields (fst c)
  ++ show_nat (length (snd c)) :: flat_map pair_fields (snd c).

Definition run_codec (op : str) (rest : list str) : option str :=
  if str_eqb op op_encrels then
    Some match rest with
         | m :: fs => match parse_nat m with
                      | Some mn => match take_rels mn fs with
                                   | Some (l, []) => show_str (enc_rels_c l)
                                   | _ => w_badcase
                                   end
                      | None => w_badcase
                      end
         | [] => w_badcase
         end
  else if str_eqb op op_decrels then
    Some match rest with
         | [t] => match dec_rels_c t with
                  | Some l => fields (show_nat (length l) :: flat_map rel_fields l)
                  | None => w_none_
                  end
         | _ => w_badcase
         end
  else if str_eqb op op_encct then
    Some match rest with
         | d :: fs =>
             match parse_nat d with
             | Some dn =>
                 match take_pairs dn fs with
                 | Some (ds, o :: fs2) =>
                     match parse_nat o with
                     | Some on_ => match take_pairs on_ fs2 with
                                   | Some (os, []) => show_str (enc_ct_c (ds, os))
                                   | _ => w_badcase
                                   end
                     | None => w_badcase
                     end
                 | _ => w_badcase
                 end
             | None => w_badcase
             end
         | [] => w_badcase
         end
  else if str_eqb op op_decct then
    Some match rest with
         | [t] => match dec_ct_c t with
                  | Some c => fields (cts_fields c)
                  | None => w_none_
                  end
         | _ => w_badcase
         end
  else None.

Definition run_opc (args : list str) : str :=
  match args with
  | op :: rest =>
      match run_codec op rest with Some out => out | None =>
      if str_eqb op op_rt then
        match take_package rest with
        | Some (p, []) => run_rt p
        | _ => w_badcase
        end
      else if str_eqb op op_pres then
        match rest with
        | kind :: fs => run_pres kind fs
        | [] => w_badcase
        end
      else if str_eqb op op_reg then
        match take_package rest with
        | Some (p, []) => fields (package_fields (regularise wenv p))
        | _ => w_badcase
        end
      else w_badcase
      end
  | [] => w_badcase
  end.

Definition run_c01 := run_opc.
Definition run_c16 := run_opc.
