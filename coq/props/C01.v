(** C01: opening and saving a package preserves every reachable part and relationship.
    Statements only; every proof is [exact] of a lemma of proofs/Opc_proofs.v.

    Vocabulary (model/Opc.v): [phys blob] a physical package (member name -> bytes);
    [env blob] lxml's decode/encode of the two OPC meta documents, parse+serialise of XML
    payloads ([reser]) and the tables re-extracted from the source tree (gen/GenC01.v);
    [load] = OpcPackage.open, [save] = OpcPackage.save, [iter_parts] = OpcPackage.iter_parts;
    [reachable E p x]: the relationship graph of [p] reaches the name [x] from the package
    root; [wf E p]: well-formed package whose internal relationships all resolve;
    [codec_ok E]: dec (enc x) = Some x and reser idempotent; [rel_sem]: id, type, mode and
    resolved target (or external text) of a relationship. *)
From V.lib Require Import Prelude.
From V.model Require Import PackUri Opc OpcRun.
From V.gen Require Import GenC01.
From V.proofs Require Import Opc_proofs.
From Coq Require Import Permutation.

(** the translator understood every source construct it read *)
Theorem C01_no_unmodelled : unmodelled = [].
Proof. reflexivity. Qed.
Print Assumptions C01_no_unmodelled.

(** the loaded package holds exactly the parts the relationship graph reaches, each once *)
Theorem C01_reach : forall blob (E : env blob) (p : phys blob), wf E p ->
  exists k, load E p = Ok k /\ NoDup (map p_name (iter_parts k)) /\
    forall x, In x (map p_name (iter_parts k)) <-> (reachable E p x /\ x <> root).
Proof. exact @c01_reach. Qed.
Print Assumptions C01_reach.

(** the saved package has exactly these members, each once: the content types item, the
    package rels item, every reachable part, and the rels item of every reachable part
    that has relationships *)
Theorem C01_members : forall blob (E : env blob) (p : phys blob), wf E p ->
  exists k, load E p = Ok k /\ NoDup (map fst (save E k)) /\
    forall n, In n (map fst (save E k)) <->
      (n = ct_uri \/ n = rels_item_name root \/
       exists x, reachable E p x /\ x <> root /\
                 (n = x \/ (n = rels_item_name x /\ rels_or_nil E p x <> []))).
Proof. exact @c01_members. Qed.
Print Assumptions C01_members.

(** every reachable part keeps its content type and its payload (re-serialised when its
    type maps to an XML part class, the same bytes otherwise).  No side condition on
    extensions is needed: the writer uses a Default only for an extension the default table
    maps to a single content type ([in_table]) *)
Theorem C01_payload_type : forall blob (E : env blob) (p : phys blob),
  wf E p -> codec_ok E -> env_ok E ->
  exists k, load E p = Ok k /\
    forall q ct b, reachable E p q -> q <> root -> ct_in E p q = Ok ct -> lookup q p = Some b ->
      ct_in E (save E k) q = Ok ct /\
      lookup q (save E k) = (if is_xml_ct E ct then reser E b else Some b).
Proof. exact @c01_payload_type. Qed.
Print Assumptions C01_payload_type.

(** two parts can never compete for the Default of an extension *)
Theorem C01_no_default_clash : forall blob (E : env blob) (p : phys blob), no_default_clash E p.
Proof. exact @no_default_clash_always. Qed.
Print Assumptions C01_no_default_clash.

(** the package and every reachable part keep exactly their relationships: same id, type
    and mode, resolving to the same part or carrying the same external text *)
Theorem C01_rels : forall blob (E : env blob) (p : phys blob), wf E p -> codec_ok E ->
  exists k, load E p = Ok k /\
    forall src, reachable E p src ->
      exists rs rs', rels_for E p src = Some rs /\ rels_for E (save E k) src = Some rs' /\
                     Permutation (map (rel_sem src) rs) (map (rel_sem src) rs').
Proof. exact @c01_rels. Qed.
Print Assumptions C01_rels.

(** opening and saving the output again reproduces the same members with the same bytes *)
Theorem C01_idem : forall blob (E : env blob) (p : phys blob),
  wf E p -> codec_ok E -> env_ok E ->
  exists k k2, load E p = Ok k /\ load E (save E k) = Ok k2 /\
               same_package (save E k2) (save E k).
Proof. exact @c01_idem. Qed.
Print Assumptions C01_idem.

(** ---- non-vacuity: a concrete package meeting every hypothesis ---- *)

Example C01_ex_wf : wf wenv ex_deck.
Proof. exact ex_deck_wf. Qed.

Example C01_ex_codec_ok : codec_ok wenv.
Proof. exact wenv_codec_ok. Qed.

Example C01_ex_env_ok : env_ok wenv.
Proof. exact wenv_env_ok. Qed.

(* its loaded parts in iter_parts order, and the members it is saved with *)
Example C01_ex_parts :
  match load wenv ex_deck with
  | Ok k => map p_name (iter_parts k) = [n_ppt_presentation_xml; n_ppt_slides_slide1_xml; n_ppt_media_image1_png]
  | Err _ => False
  end.
Proof. vm_compute. reflexivity. Qed.

Example C01_ex_saved_members :
  match load wenv ex_deck with
  | Ok k => length (save wenv k) = 7%nat /\ has n_docProps_thumbnail_jpeg (save wenv k) = false
            /\ has n_ppt_slides__rels_slide1_xml_rels (save wenv k) = true
  | Err _ => False
  end.
Proof. vm_compute. repeat split. Qed.

(* regression on the former counter-example (two .bin parts typed as PresentationML and
   SpreadsheetML printer settings, which an earlier writer merged under one Default): the
   package is well-formed, both parts keep their type, each through an Override, and no
   Default is written for bin *)
Example C01_ex_clash_wf : wfb wenv ex_clash = true.
Proof. vm_compute. reflexivity. Qed.

Example C01_ex_clash_regression :
  match load wenv ex_clash with
  | Ok k =>
      content_types_item wenv (iter_parts k)
      = (gen_init_defaults, [(n_a_bin, ct_pml_ps); (n_b_bin, ct_sml_ps)])
      /\ ct_in wenv (save wenv k) n_a_bin = Ok ct_pml_ps
      /\ ct_in wenv (save wenv k) n_b_bin = Ok ct_sml_ps
  | Err _ => False
  end.
Proof. exact ex_clash_regression. Qed.
