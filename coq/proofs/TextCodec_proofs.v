(** Proofs about model/TextCodec.v: the concrete reader gives back exactly the text body the
    concrete writer was given, for every body whose run and field texts are strings of XML
    characters (no bound on the number of paragraphs, children or characters); every body
    the setters of model/Text.v produce from strings of XML characters and C0 controls is
    such a body; hence the save / re-open corollaries of property C04 at the frame,
    paragraph and run level, and over whole histories. *)
From V.lib Require Import Prelude.
From V.model Require Import Escape Text TextCodec.
From V.proofs Require Import Prelude_proofs Escape_proofs Text_proofs.
Require Import Lia ZifyBool.

(** ---- decimal numbers (the marker attribute of a property element) ---- *)

Definition dstep (acc c : N) : N := (acc * 10 + (c - 48))%N.

Lemma digit_char_is_digit n : is_digit (48 + n mod 10)%N = true.
Proof.
  unfold is_digit. assert (H : (n mod 10 < 10)%N) by (apply N.mod_lt; lia).
  revert H. generalize (n mod 10)%N. intros m H.
  apply andb_true_iff; split; apply N.leb_le; lia.
Qed.

Lemma ddf_digits fuel : forall n acc,
  forallb is_digit acc = true -> forallb is_digit (dec_digits_fuel fuel n acc) = true.
Proof.
  induction fuel as [|f IH]; intros n acc Hacc; cbn [dec_digits_fuel]; [assumption|].
  destruct (n <? 10)%N.
  - cbn [forallb]. now rewrite digit_char_is_digit.
  - apply IH. cbn [forallb]. now rewrite digit_char_is_digit.
Qed.

Lemma ddf_length fuel : forall n acc,
  (length acc <= length (dec_digits_fuel fuel n acc))%nat.
Proof.
  induction fuel as [|f IH]; intros n acc; cbn [dec_digits_fuel]; [lia|].
  destruct (n <? 10)%N; cbn [length]; [lia|].
  specialize (IH (n / 10)%N ((48 + n mod 10)%N :: acc)). cbn [length] in IH. lia.
Qed.

Lemma ddf_value fuel : forall n acc,
  (n < 2 ^ N.of_nat fuel)%N ->
  fold_left dstep (dec_digits_fuel fuel n acc) 0%N = fold_left dstep acc n.
Proof.
  induction fuel as [|f IH]; intros n acc Hn.
  - cbn [dec_digits_fuel]. change (2 ^ N.of_nat 0)%N with 1%N in Hn.
    replace n with 0%N by lia. reflexivity.
  - cbn [dec_digits_fuel].
    assert (Hdm := N.div_mod n 10 ltac:(lia)).
    assert (Hmb : (n mod 10 < 10)%N) by (apply N.mod_lt; lia).
    destruct (N.ltb_spec n 10) as [Hlt|Hge].
    + cbn [fold_left]. f_equal. unfold dstep.
      rewrite N.mod_small by assumption. lia.
    + rewrite IH.
      * cbn [fold_left]. f_equal. unfold dstep.
        revert Hdm Hmb. generalize (n / 10)%N (n mod 10)%N. intros; lia.
      * rewrite Nnat.Nat2N.inj_succ, N.pow_succ_r' in Hn.
        apply N.div_lt_upper_bound; [lia|]. lia.
Qed.

Lemma dec_value_of_N n : dec_value (dec_of_N n) = n.
Proof.
  unfold dec_value. change (fun acc c : N => (acc * 10 + (c - 48))%N) with dstep.
  unfold dec_of_N. rewrite ddf_value; [reflexivity|].
  rewrite Nnat.Nat2N.inj_succ, Nnat.N2Nat.id, N.pow_succ_r'.
  assert (H := N.size_gt n). lia.
Qed.

Lemma dec_of_N_is_digits n : forallb is_digit (dec_of_N n) = true.
Proof. apply ddf_digits. reflexivity. Qed.

Lemma dec_of_N_not_nil n : dec_of_N n <> [].
Proof.
  unfold dec_of_N. cbn [dec_digits_fuel]. destruct (n <? 10)%N; [discriminate|].
  intros E. assert (L := ddf_length (N.to_nat (N.size n)) (n / 10)%N [(48 + n mod 10)%N]).
  rewrite E in L. cbn [length] in L. lia.
Qed.

(** ---- prefixes ---- *)

(** the two strings differ at a position both have *)
Fixpoint diverge (p q : str) : bool :=
  match p, q with
  | x :: p', y :: q' => if (x =? y)%N then diverge p' q' else true
  | _, _ => false
  end.

Lemma strip_app p r : strip p (p ++ r) = Some r.
Proof. induction p as [|x p IH]; cbn [strip app]; [reflexivity|]. rewrite N.eqb_refl. exact IH. Qed.

Lemma strip_diverge p : forall q r, diverge p q = true -> strip p (q ++ r) = None.
Proof.
  induction p as [|x p IH]; intros q r H; [discriminate|].
  destruct q as [|y q]; [discriminate|]. cbn [diverge] in H. cbn [app strip].
  destruct (x =? y)%N; [apply IH; exact H|reflexivity].
Qed.

Lemma diverge_neq p : forall q a b, diverge p q = true -> p ++ a <> q ++ b.
Proof.
  induction p as [|x p IH]; intros q a b H; [discriminate|].
  destruct q as [|y q]; [discriminate|]. cbn [diverge] in H. cbn [app].
  destruct (N.eqb_spec x y) as [->|Hne].
  - intros E. injection E as E. exact (IH _ _ _ H E).
  - intros E. injection E as E _. contradiction.
Qed.

Lemma str_eqb_diverge p q a b : diverge p q = true -> str_eqb (p ++ a) (q ++ b) = false.
Proof.
  intros H. destruct (str_eqb (p ++ a) (q ++ b)) eqn:E; [|reflexivity].
  apply str_eqb_eq in E. exfalso. exact (diverge_neq _ _ _ _ H E).
Qed.

(** ---- one property element ---- *)

Lemma dec_num_render x : dec_num (dec_of_N x ++ c_quot :: s_end) = Some x.
Proof.
  unfold dec_num.
  rewrite (take_while_app_stop is_digit (dec_of_N x) c_quot s_end (dec_of_N_is_digits x) eq_refl).
  rewrite (drop_while_app_stop is_digit (dec_of_N x) c_quot s_end (dec_of_N_is_digits x) eq_refl).
  rewrite str_eqb_refl. pose proof (dec_value_of_N x) as V.
  destruct (dec_of_N x) eqn:E; [exfalso; exact (dec_of_N_not_nil x E)|]. rewrite V. reflexivity.
Qed.

Lemma dec_prop_render name attr x : diverge attr s_end = true ->
  dec_prop name attr (render_prop name attr x) = Some x.
Proof.
  intros Hd. unfold dec_prop, render_prop. rewrite strip_app.
  destruct (N.eqb_spec x 0) as [->|Hx].
  - cbn [app]. rewrite str_eqb_refl. reflexivity.
  - rewrite <- app_assoc.
    rewrite <- (app_nil_r s_end) at 2. rewrite (str_eqb_diverge attr s_end _ [] Hd).
    rewrite strip_app. rewrite <- app_assoc. cbn [app]. apply dec_num_render.
Qed.

Lemma dec_prop_other name attr other oattr x : diverge name other = true ->
  dec_prop name attr (render_prop other oattr x) = None.
Proof. intros H. unfold dec_prop, render_prop. rewrite (strip_diverge _ _ _ H). reflexivity. Qed.

(** ---- one tag ---- *)

Lemma tag_of_prop_none name attr piece : strip name piece = None -> dec_prop name attr piece = None.
Proof. intros H. unfold dec_prop. rewrite H. reflexivity. Qed.

Theorem tag_of_render g : tag_of (render g) = Some g.
Proof.
  destruct g.
  1, 2, 4, 5, 6, 9, 10, 11, 13, 15, 16, 17, 18: vm_compute; reflexivity.
  - (* a:bodyPr *)
    unfold tag_of, render. unfold render_prop at 1. rewrite (strip_diverge t_t_open n_bodypr _ eq_refl).
    rewrite (dec_prop_render n_bodypr a_lins x eq_refl). reflexivity.
  - (* a:pPr *)
    unfold tag_of, render. unfold render_prop at 1. rewrite (strip_diverge t_t_open n_ppr _ eq_refl).
    rewrite (dec_prop_other n_bodypr a_lins n_ppr a_marl x eq_refl).
    rewrite (dec_prop_render n_ppr a_marl x eq_refl). reflexivity.
  - (* a:endParaRPr *)
    unfold tag_of, render. unfold render_prop at 1. rewrite (strip_diverge t_t_open n_endrpr _ eq_refl).
    rewrite (dec_prop_other n_bodypr a_lins n_endrpr a_sz x eq_refl).
    rewrite (dec_prop_other n_ppr a_marl n_endrpr a_sz x eq_refl).
    rewrite (dec_prop_render n_endrpr a_sz x eq_refl). reflexivity.
  - (* a:rPr *)
    unfold tag_of, render. unfold render_prop at 1. rewrite (strip_diverge t_t_open n_rpr _ eq_refl).
    rewrite (dec_prop_other n_bodypr a_lins n_rpr a_sz x eq_refl).
    rewrite (dec_prop_other n_ppr a_marl n_rpr a_sz x eq_refl).
    rewrite (dec_prop_other n_endrpr a_sz n_rpr a_sz x eq_refl).
    rewrite (dec_prop_render n_rpr a_sz x eq_refl). reflexivity.
  - (* a:t start tag with its raw text *)
    unfold tag_of, render. rewrite strip_app. reflexivity.
Qed.

Lemma map_opt_render ts : map_opt tag_of (map render ts) = Some ts.
Proof.
  induction ts as [|g ts IH]; [reflexivity|].
  cbn [map map_opt]. rewrite tag_of_render, IH. reflexivity.
Qed.

(** ---- cutting the text at the less-than signs ---- *)

Definition ltfree (s : str) : bool := nfree c_lt s.

Lemma ltfree_app a b : ltfree (a ++ b) = ltfree a && ltfree b.
Proof. apply forallb_app. Qed.

Lemma forallb_impl {A} (f g : A -> bool) l :
  (forall x, f x = true -> g x = true) -> forallb f l = true -> forallb g l = true.
Proof.
  intros H. induction l as [|x l IH]; [reflexivity|]. cbn [forallb]. intros E.
  apply andb_true_iff in E as [E1 E2]. rewrite (H _ E1), (IH E2). reflexivity.
Qed.

Lemma ltfree_digits ds : forallb is_digit ds = true -> ltfree ds = true.
Proof.
  apply forallb_impl. intros c H. unfold is_digit in H. unfold c_lt.
  apply negb_true_iff. apply N.eqb_neq. lia.
Qed.

Lemma ltfree_esc_text t : ltfree (esc_text t) = true.
Proof.
  unfold esc_text. generalize (escaped_cr_no_raw false false false t). unfold no_cr_lt.
  apply forallb_impl. intros c H. apply andb_true_iff in H as [_ H]. exact H.
Qed.

Lemma ltfree_prop name attr x : ltfree name = true -> ltfree attr = true ->
  ltfree (render_prop name attr x) = true.
Proof.
  intros Hn Ha. unfold render_prop. rewrite !ltfree_app, Hn.
  destruct (x =? 0)%N; [reflexivity|].
  rewrite !ltfree_app, Ha, (ltfree_digits _ (dec_of_N_is_digits x)). reflexivity.
Qed.

(** a tag whose variable part holds no less-than sign *)
Definition tag_ok (g : tag) : bool := match g with GTOpen raw => ltfree raw | _ => true end.

Lemma ltfree_render g : tag_ok g = true -> ltfree (render g) = true.
Proof.
  destruct g; intros H; try reflexivity; cbn [render];
    try (apply ltfree_prop; reflexivity).
  rewrite ltfree_app. cbn [tag_ok] in H. rewrite H. reflexivity.
Qed.

Lemma split_pieces ps : Forall (fun p => ltfree p = true) ps -> forall a, ltfree a = true ->
  split_on c_lt (a ++ flat_map (fun p => c_lt :: p) ps) = a :: ps.
Proof.
  induction 1 as [|p ps Hp _ IH]; intros a Ha.
  - cbn [flat_map]. rewrite app_nil_r. apply split_on_free. exact Ha.
  - cbn [flat_map]. cbn [app]. rewrite (split_on_app c_lt a _ Ha). f_equal. apply IH. exact Hp.
Qed.

Lemma flat_map_write ts : flat_map write_tag ts = flat_map (fun p => c_lt :: p) (map render ts).
Proof. induction ts as [|g ts IH]; [reflexivity|]. cbn [flat_map map]. rewrite IH. reflexivity. Qed.

Lemma split_tags ts : forallb tag_ok ts = true ->
  split_on c_lt (flat_map write_tag ts) = [] :: map render ts.
Proof.
  intros H. rewrite flat_map_write.
  change (flat_map (fun p => c_lt :: p) (map render ts)) with ([] ++ flat_map (fun p => c_lt :: p) (map render ts)).
  apply split_pieces; [|reflexivity].
  apply Forall_forall. intros p Hin. apply in_map_iff in Hin as [g [<- Hg]].
  apply ltfree_render. rewrite forallb_forall in H. apply H. exact Hg.
Qed.

Lemma dec_body_tags ts : forallb tag_ok ts = true ->
  dec_body (flat_map write_tag ts) = dec_tags ts.
Proof. intros H. unfold dec_body. rewrite (split_tags ts H), map_opt_render. reflexivity. Qed.

(** ---- the tags of a body hold no less-than sign ---- *)

Lemma ok_text_tags long t : forallb tag_ok (text_tags long t) = true.
Proof.
  destruct t as [|c t], long; cbn [text_tags forallb tag_ok]; try reflexivity;
    rewrite ltfree_esc_text; reflexivity.
Qed.

Lemma ok_item_tags long i : forallb tag_ok (item_tags long i) = true.
Proof.
  destruct i as [x t| |t]; cbn [item_tags].
  - cbn [forallb tag_ok]. rewrite !forallb_app, ok_text_tags. destruct x; reflexivity.
  - reflexivity.
  - destruct t as [|c t]; [reflexivity|]. cbn [forallb tag_ok]. rewrite forallb_app, ok_text_tags. reflexivity.
Qed.

Lemma forallb_flat_map {A B} (f : B -> bool) (g : A -> list B) l :
  (forall x, forallb f (g x) = true) -> forallb f (flat_map g l) = true.
Proof.
  intros H. induction l as [|x l IH]; [reflexivity|]. cbn [flat_map]. rewrite forallb_app, H, IH. reflexivity.
Qed.

Lemma ok_pchild_tags long c : forallb tag_ok (pchild_tags long c) = true.
Proof. destruct c; cbn [pchild_tags]; try reflexivity. apply ok_item_tags. Qed.

Lemma ok_para_tags long p : forallb tag_ok (para_tags long p) = true.
Proof.
  destruct p as [|c p]; [reflexivity|]. unfold para_tags. cbn [forallb tag_ok].
  rewrite forallb_app, (forallb_flat_map tag_ok (pchild_tags long) (c :: p) (ok_pchild_tags long)). reflexivity.
Qed.

Lemma ok_body_tags long b : forallb tag_ok (body_tags long b) = true.
Proof.
  unfold body_tags. cbn [forallb tag_ok].
  rewrite forallb_app, (forallb_flat_map tag_ok (para_tags long) (paras b) (ok_para_tags long)). reflexivity.
Qed.

(** ---- folding the tags back into the tree ---- *)

Lemma read_text_esc t : xml_str t = true -> read_text (esc_text t) = Some t.
Proof. intros H. unfold read_text, esc_text. rewrite (text_safe_r t false false false H). reflexivity. Qed.

Lemma dec_item long i rest : xml_item i = true ->
  dec_go true (item_tags long i ++ rest) = push (It i) (dec_go true rest).
Proof.
  intros H. destruct i as [x t| |t]; cbn [xml_item] in H.
  - destruct x as [v|]; destruct t as [|c t]; destruct long;
      cbn [item_tags text_tags app dec_go]; unfold push_text; rewrite ?(read_text_esc _ H); reflexivity.
  - reflexivity.
  - destruct t as [|c t]; [reflexivity|].
    destruct long; cbn [item_tags text_tags app dec_go]; unfold push_text; rewrite (read_text_esc _ H); reflexivity.
Qed.

Lemma dec_pchild long c rest : xml_pchild c = true ->
  dec_go true (pchild_tags long c ++ rest) = push c (dec_go true rest).
Proof.
  destruct c as [x|i|x]; intros H; cbn [pchild_tags].
  - reflexivity.
  - apply dec_item. exact H.
  - reflexivity.
Qed.

Lemma dec_children long cs : forall rest, xml_para cs = true ->
  dec_go true (flat_map (pchild_tags long) cs ++ GPClose :: rest) =
  match dec_go false rest with Some ps => Some (cs :: ps) | None => None end.
Proof.
  induction cs as [|c cs IH]; intros rest H.
  - reflexivity.
  - cbn [xml_para forallb] in H. apply andb_true_iff in H as [Hc Hcs].
    cbn [flat_map]. rewrite <- app_assoc. rewrite (dec_pchild long c _ Hc).
    rewrite (IH rest Hcs). destruct (dec_go false rest); reflexivity.
Qed.

Lemma dec_paras long ps : forallb xml_para ps = true ->
  dec_go false (flat_map (para_tags long) ps ++ [GBodyClose]) = Some ps.
Proof.
  induction ps as [|p ps IH]; intros H.
  - reflexivity.
  - cbn [forallb] in H. apply andb_true_iff in H as [Hp Hps]. specialize (IH Hps).
    cbn [flat_map]. rewrite <- app_assoc. destruct p as [|c p].
    + cbn [para_tags app dec_go]. rewrite IH. reflexivity.
    + cbn [para_tags app dec_go]. rewrite <- app_assoc. cbn [app].
      rewrite (dec_children long (c :: p) _ Hp). rewrite IH. reflexivity.
Qed.

Lemma dec_tags_body long b : xml_body b = true -> dec_tags (body_tags long b) = Some b.
Proof.
  intros H. destruct b as [x ps]. unfold body_tags, dec_tags. cbn [bodypr paras].
  rewrite (dec_paras long ps H). reflexivity.
Qed.

(** ---- the codec gives back every body of XML characters ---- *)

Theorem dec_enc_body_g long b : xml_body b = true -> dec_body (enc_body_g long b) = Some b.
Proof.
  intros H. unfold enc_body_g. rewrite (dec_body_tags _ (ok_body_tags long b)).
  apply dec_tags_body. exact H.
Qed.

Theorem dec_enc_body b : xml_body b = true -> dec_body (enc_body b) = Some b.
Proof. apply dec_enc_body_g. Qed.

(** the two ways of writing an empty a:t are read as the same body *)
Theorem dec_enc_body_either b : xml_body b = true ->
  dec_body (enc_body_g true b) = dec_body (enc_body_g false b).
Proof. intros H. rewrite !dec_enc_body_g by exact H. reflexivity. Qed.

(** ---- what the setters store is made of XML characters ---- *)

Lemma xml_char_range c : (32 <= c <= 55295)%N -> is_xml_char c = true.
Proof. unfold is_xml_char. lia. Qed.

Lemma xml_hex n : (n < 16)%N -> is_xml_char (hex_digit n) = true.
Proof. intros H. apply xml_char_range. destruct (hex_digit_range n H); lia. Qed.

Lemma xml_esc_seq c : xml_str (esc_seq c) = true.
Proof.
  unfold esc_seq, xml_str. cbn [forallb].
  rewrite !xml_hex by (apply N.mod_lt; lia). reflexivity.
Qed.

(** the escape of one character is made of XML characters exactly when the character is an
    XML character or a C0 control *)
Lemma xml_esc_char c : xml_str (Text.esc_char c) = api_char c.
Proof.
  unfold Text.esc_char, api_char. destruct (is_ctrl c) eqn:E; rewrite is_ctrl_spec in E.
  - rewrite xml_esc_seq. symmetry. apply orb_true_iff. right. lia.
  - cbn [xml_str forallb]. rewrite andb_true_r.
    destruct (is_xml_char c) eqn:X; [reflexivity|]. cbn [orb]. unfold is_xml_char in X. lia.
Qed.

Lemma xml_app a b : xml_str (a ++ b) = xml_str a && xml_str b.
Proof. apply forallb_app. Qed.

(** the text a run setter stores (tr_run s, which is escape_ctrl s) is a string of XML
    characters exactly when the assigned string is made of XML characters and C0 controls *)
Theorem xml_escape_ctrl s : xml_str (escape_ctrl s) = api_str s.
Proof.
  induction s as [|c s IH]; [reflexivity|].
  unfold escape_ctrl. cbn [flat_map]. rewrite xml_app, xml_esc_char.
  fold (escape_ctrl s). rewrite IH. reflexivity.
Qed.

Theorem xml_tr_run s : xml_str (tr_run s) = api_str s.
Proof. exact (xml_escape_ctrl s). Qed.

Lemma split_by_forallb (f P : N -> bool) s : forallb P s = true ->
  Forall (fun p => forallb P p = true) (split_by f s).
Proof.
  induction s as [|x s IH]; intros H.
  - constructor; [reflexivity|constructor].
  - cbn [forallb] in H. apply andb_true_iff in H as [Hx Hs]. specialize (IH Hs).
    cbn [split_by]. destruct (f x).
    + constructor; [reflexivity|exact IH].
    + destruct (split_by f s) as [|p ps].
      * constructor; [cbn [forallb]; rewrite Hx; reflexivity|constructor].
      * inversion IH; subst. constructor; [cbn [forallb]; rewrite Hx; assumption|assumption].
Qed.

Lemma xml_pieces pieces : Forall (fun p => api_str p = true) pieces -> forall first,
  forallb xml_item (pieces_items first pieces) = true.
Proof.
  induction 1 as [|r rest Hr _ IH]; intros first; [reflexivity|].
  cbn [pieces_items]. rewrite !forallb_app, IH, andb_true_r.
  assert (E : forallb xml_item (match r with [] => [] | _ :: _ => [R None (escape_ctrl r)] end) = true).
  { destruct r as [|c r]; [reflexivity|]. cbn [forallb xml_item]. rewrite xml_escape_ctrl, Hr. reflexivity. }
  rewrite E. destruct first; reflexivity.
Qed.

Lemma xml_text_items s : api_str s = true -> forallb xml_item (text_items s) = true.
Proof. intros H. unfold text_items. apply xml_pieces. apply split_by_forallb. exact H. Qed.

Lemma xml_map_It l : xml_para (map It l) = forallb xml_item l.
Proof. induction l as [|i l IH]; [reflexivity|]. cbn [map xml_para forallb xml_pchild]. f_equal. exact IH. Qed.

Lemma xml_para_app a b : xml_para (a ++ b) = xml_para a && xml_para b.
Proof. apply forallb_app. Qed.

Lemma xml_fresh_para seg : api_str seg = true -> xml_para (append_text seg []) = true.
Proof. intros H. rewrite new_para_exact, xml_map_It. apply xml_text_items. exact H. Qed.

(** frame level: every paragraph is new, whatever the prior body held *)
Theorem xml_set_frame s b : api_str s = true -> xml_body (set_frame s b) = true.
Proof.
  intros H. unfold xml_body, set_frame. cbn [paras]. apply forallb_forall. intros p Hin.
  apply in_map_iff in Hin as [seg [<- Hseg]]. apply xml_fresh_para.
  pose proof (split_by_forallb is_lf api_char s H) as HF. rewrite Forall_forall in HF. apply HF. exact Hseg.
Qed.

Lemma xml_clear p : xml_para (clear_para p) = true.
Proof. induction p as [|c p IH]; [reflexivity|]. destruct c; cbn [clear_para xml_para forallb xml_pchild]; exact IH. Qed.

Lemma xml_before_from p : xml_para p = true -> xml_para (before_end p) = true /\ xml_para (from_end p) = true.
Proof. intros H. rewrite <- (before_from p), xml_para_app in H. apply andb_true_iff in H. exact H. Qed.

(** paragraph level: the content is new, the property children carry no text *)
Theorem xml_set_para s p : api_str s = true -> xml_para (set_para s p) = true.
Proof.
  intros H. rewrite set_para_exact, !xml_para_app, xml_map_It, (xml_text_items s H).
  destruct (xml_before_from _ (xml_clear p)) as [-> ->]. reflexivity.
Qed.

Lemma xml_insert i p : xml_item i = true -> xml_para p = true -> xml_para (insert_item i p) = true.
Proof.
  intros Hi Hp. rewrite insert_item_split, xml_para_app. destruct (xml_before_from p Hp) as [-> H2].
  cbn [xml_para forallb xml_pchild]. rewrite Hi. exact H2.
Qed.

(** run level *)
Theorem xml_set_run s i : api_str s = true -> xml_item i = true -> xml_item (set_run s i) = true.
Proof. intros H Hi. destruct i; cbn [set_run xml_item]; [rewrite xml_escape_ctrl; exact H|exact Hi..]. Qed.

Lemma xml_update_run s j p p' : api_str s = true -> xml_para p = true ->
  update_run j (set_run s) p = Some p' -> xml_para p' = true.
Proof.
  intros H Hp Hu. destruct (update_run_exact _ _ _ _ Hu) as [pre [x [t [post [-> [-> _]]]]]].
  rewrite xml_para_app in *. apply andb_true_iff in Hp as [H1 H2]. rewrite H1.
  cbn [xml_para forallb xml_pchild xml_item] in *. apply andb_true_iff in H2 as [_ H2].
  rewrite xml_tr_run, H, H2. reflexivity.
Qed.

(** ---- histories ---- *)

Lemma forallb_replace_nth {A} (P : A -> bool) n x l :
  forallb P l = true -> P x = true -> forallb P (replace_nth n x l) = true.
Proof.
  intros Hl Hx. apply forallb_true_iff. apply Forall_replace_nth; [|exact Hx].
  apply forallb_true_iff. exact Hl.
Qed.

Lemma forallb_nth_error {A} (P : A -> bool) l n x :
  forallb P l = true -> nth_error l n = Some x -> P x = true.
Proof. intros Hl Hn. rewrite forallb_forall in Hl. apply Hl. eapply nth_error_In; eauto. Qed.

Lemma xml_cell_body c : xml_cell c = true -> xml_body (cell_body c) = true.
Proof. destruct c; [auto|reflexivity]. Qed.

Lemma xml_on_para c i f out : xml_cell c = true ->
  (forall p, xml_para p = true -> xml_para (f p) = true) ->
  xml_cell (fst (on_para c i f out)) = true.
Proof.
  intros H Hf. unfold on_para. pose proof (xml_cell_body c H) as Hb.
  destruct (nth_error (paras (cell_body c)) i) as [p|] eqn:E; cbn [fst xml_cell]; [|exact Hb].
  unfold xml_body. cbn [paras]. apply forallb_replace_nth; [exact Hb|].
  apply Hf. exact (forallb_nth_error _ _ _ _ Hb E).
Qed.

Theorem xml_apply_op o c : api_op o = true -> xml_cell c = true -> xml_cell (fst (apply_op o c)) = true.
Proof.
  intros Ho H. destruct o; cbn [apply_op api_op] in *.
  - cbn [fst set_cell xml_cell]. apply xml_set_frame. exact Ho.
  - cbn [fst set_cell xml_cell]. apply xml_set_frame. exact Ho.
  - apply xml_on_para; [exact H|]. intros p _. apply xml_set_para. exact Ho.
  - pose proof (xml_cell_body c H) as Hb.
    destruct (nth_error (paras (cell_body c)) i) as [p|] eqn:E; cbn [fst xml_cell]; [|exact Hb].
    destruct (update_run j (set_run s) p) as [p'|] eqn:Eu; cbn [fst xml_cell]; [|exact Hb].
    unfold xml_body. cbn [paras]. apply forallb_replace_nth; [exact Hb|].
    exact (xml_update_run s j p p' Ho (forallb_nth_error _ _ _ _ Hb E) Eu).
  - apply xml_on_para; [exact H|]. intros p Hp. apply xml_insert; [reflexivity|exact Hp].
  - apply xml_on_para; [exact H|]. intros p Hp. apply xml_insert; [reflexivity|exact Hp].
  - apply xml_on_para; [exact H|]. intros p _. apply xml_clear.
  - cbn [fst xml_cell]. apply xml_cell_body. exact H.
  - apply xml_on_para; [exact H|]. auto.
Qed.

Theorem xml_run_ops ops : forall c, forallb api_op ops = true -> xml_cell c = true ->
  xml_cell (run_ops ops c) = true.
Proof.
  unfold run_ops. induction ops as [|o ops IH]; intros c Ho H; [exact H|].
  cbn [forallb] in Ho. apply andb_true_iff in Ho as [Ho Hops]. cbn [fold_left].
  apply IH; [exact Hops|]. apply xml_apply_op; assumption.
Qed.

(** ---- save / re-open of what the setters produce ---- *)

(** frame level, any prior body: the re-opened body is the saved one, its text the documented one *)
Theorem reopen_frame s b : api_str s = true ->
  dec_body (enc_body (set_frame s b)) = Some (set_frame s b) /\
  option_map get_frame (dec_body (enc_body (set_frame s b))) = Some (tr_frame s).
Proof.
  intros H. rewrite (dec_enc_body _ (xml_set_frame s b H)). split; [reflexivity|].
  cbn [option_map]. rewrite frame_readback. reflexivity.
Qed.

Lemma nth_error_replace_nth {A} (l : list A) : forall n x y, nth_error l n = Some y ->
  nth_error (replace_nth n x l) n = Some x.
Proof.
  induction l as [|z l IH]; intros n x y H; destruct n; cbn [nth_error replace_nth] in *; try discriminate.
  - reflexivity.
  - eapply IH; eauto.
Qed.

(** paragraph level, inside any body of XML characters *)
Theorem reopen_para s b i p : api_str s = true -> xml_body b = true -> nth_error (paras b) i = Some p ->
  let b' := mkBody (bodypr b) (replace_nth i (set_para s p) (paras b)) in
  fst (apply_op (OPara i s) (Some b)) = Some b' /\
  dec_body (enc_body b') = Some b' /\
  option_map (fun bb => option_map get_para (nth_error (paras bb) i)) (dec_body (enc_body b')) =
    Some (Some (tr_para s)).
Proof.
  intros H Hb Hp b'.
  assert (Hx : xml_body b' = true).
  { unfold b', xml_body. cbn [paras]. apply forallb_replace_nth; [exact Hb|]. apply xml_set_para. exact H. }
  split; [|split].
  - cbn [apply_op]. unfold on_para. cbn [cell_body]. rewrite Hp. reflexivity.
  - apply dec_enc_body. exact Hx.
  - rewrite (dec_enc_body _ Hx). cbn [option_map]. unfold b'. cbn [paras].
    rewrite (nth_error_replace_nth _ _ _ _ Hp). cbn [option_map]. rewrite para_readback. reflexivity.
Qed.

(** run level, inside any body of XML characters *)
Theorem reopen_run s b i j p p' : api_str s = true -> xml_body b = true ->
  nth_error (paras b) i = Some p -> update_run j (set_run s) p = Some p' ->
  let b' := mkBody (bodypr b) (replace_nth i p' (paras b)) in
  fst (apply_op (ORun i j s) (Some b)) = Some b' /\
  dec_body (enc_body b') = Some b' /\
  option_map (fun bb => match nth_error (paras bb) i with
                        | Some q => option_map get_run (nth_error (runs_of q) j)
                        | None => None end) (dec_body (enc_body b')) = Some (Some (tr_run s)).
Proof.
  intros H Hb Hp Hu b'.
  assert (Hx : xml_body b' = true).
  { unfold b', xml_body. cbn [paras]. apply forallb_replace_nth; [exact Hb|].
    exact (xml_update_run s j p p' H (forallb_nth_error _ _ _ _ Hb Hp) Hu). }
  split; [|split].
  - cbn [apply_op cell_body]. rewrite Hp, Hu. reflexivity.
  - apply dec_enc_body. exact Hx.
  - rewrite (dec_enc_body _ Hx). cbn [option_map]. unfold b'. cbn [paras].
    rewrite (nth_error_replace_nth _ _ _ _ Hp).
    destruct (run_in_para_readback _ _ _ _ Hu) as [Hr _]. rewrite nth_error_map in Hr.
    rewrite Hr. reflexivity.
Qed.

(** the run setter alone: the stored text survives as the text of an a:t (leaf level) *)
Theorem reopen_run_leaf s x t : api_str s = true ->
  read_text (esc_text (get_run (set_run s (R x t)))) = Some (tr_run s).
Proof. intros H. cbn [set_run get_run item_text]. apply read_text_esc. rewrite xml_escape_ctrl. exact H. Qed.

(** any history of operations whose strings the interface accepts, from any state read from XML *)
Theorem reopen_history ops c : forallb api_op ops = true -> xml_cell c = true ->
  dec_body (enc_body (cell_body (run_ops ops c))) = Some (cell_body (run_ops ops c)).
Proof. intros Ho H. apply dec_enc_body. apply xml_cell_body. apply xml_run_ops; assumption. Qed.

(** any number of save / re-open cycles *)
Theorem reopen_cycles_id n : forall b, xml_body b = true -> reopen_cycles n b = Some b.
Proof.
  induction n as [|n IH]; intros b H; [reflexivity|].
  cbn [reopen_cycles]. rewrite (dec_enc_body b H). apply IH. exact H.
Qed.

Theorem reopen_cycles_frame n s b : api_str s = true ->
  option_map get_frame (reopen_cycles n (set_frame s b)) = Some (tr_frame s).
Proof.
  intros H. rewrite (reopen_cycles_id n _ (xml_set_frame s b H)). cbn [option_map].
  rewrite frame_readback. reflexivity.
Qed.

Theorem reopen_cycles_history n ops c : forallb api_op ops = true -> xml_cell c = true ->
  reopen_cycles n (cell_body (run_ops ops c)) = Some (cell_body (run_ops ops c)).
Proof. intros Ho H. apply reopen_cycles_id. apply xml_cell_body. apply xml_run_ops; assumption. Qed.

(** ---- the predicate cannot be dropped, and the statements are not vacuous ---- *)

(** a run text holding U+0000 (lxml would refuse it) is not read back *)
Example codec_needs_xml_chars :
  let b := mkBody 0 [[It (R None [0%N])]] in xml_body b = false /\ dec_body (enc_body b) = None.
Proof. vm_compute. split; reflexivity. Qed.

(** a body with every kind of child, markup characters, CR, CR LF, blanks only, edge blanks,
    non-ASCII and astral code points, empty run, empty field, empty paragraph *)
Definition sample_body : body :=
  mkBody 7 [[PPr 3; It (R (Some 1800) [32; 60; 38; 62; 13; 10; 9; 32]); It Br; It (Fld [49; 50]);
             It (R None []); It (Fld []); It (R (Some 0) [32; 32]); It (R None [233; 128512; 93; 93; 62]); EndRPr 4];
            []; [It (R None [13])]; [EndRPr 0; PPr 0]]%N.

Example sample_body_ok :
  xml_body sample_body = true /\
  dec_body (enc_body sample_body) = Some sample_body /\
  dec_body (enc_body_g true sample_body) = Some sample_body /\
  reopen_cycles 3 sample_body = Some sample_body.
Proof. vm_compute. repeat split; reflexivity. Qed.

(** an assigned string with C0 controls (BEL, CR, VT), markup and LF meets api_str, and is not
    a string of XML characters itself *)
Example sample_api_str :
  api_str [97; 7; 13; 11; 60; 10; 38; 128512]%N = true /\ xml_str [97; 7; 13; 11; 60; 10; 38; 128512]%N = false.
Proof. vm_compute. split; reflexivity. Qed.
