(** Executable matcher for content models (Brzozowski derivatives with occurrence
    counters): [cm_match c w] decides whether the child-tag sequence [w] is in the
    language of [c].  Definitions only; correctness ([cm_match c w = true <-> lang c w]
    for well-formed c) is proved in proofs/SchemaMatch_proofs.v. *)
From V.lib Require Import Prelude.
From V.model Require Import Schema.

Definition cm_eps : cm := Seq [].
Definition cm_empty : cm := Alt [].

Fixpoint nullable (c : cm) : bool :=
  match c with
  | Elt _ => false
  | Seq l => (fix all (l : list cm) := match l with [] => true | c :: l' => nullable c && all l' end) l
  | Alt l => (fix any (l : list cm) := match l with [] => false | c :: l' => nullable c || any l' end) l
  | Rep mn _ c => Nat.eqb mn 0 || nullable c
  end.

(** occurrence bounds make sense: min <= max everywhere, and max is not 0 *)
Fixpoint wf_cm (c : cm) : bool :=
  match c with
  | Elt _ => true
  | Seq l => (fix all (l : list cm) := match l with [] => true | c :: l' => wf_cm c && all l' end) l
  | Alt l => (fix all (l : list cm) := match l with [] => true | c :: l' => wf_cm c && all l' end) l
  | Rep mn mx c => wf_cm c && match mx with Some m => Nat.leb mn m && Nat.ltb 0 m | None => true end
  end.

Definition dec_max (mx : option nat) : option nat :=
  match mx with Some m => Some (pred m) | None => None end.

(** what is left of a repetition after one more iteration has started *)
Definition rep_rest (mn : nat) (mx : option nat) (c : cm) : cm :=
  match dec_max mx with
  | Some 0 => cm_eps
  | mx' => Rep (pred mn) mx' c
  end.

Fixpoint deriv (a : tag) (c : cm) : cm :=
  match c with
  | Elt t => if N.eqb a t then cm_eps else cm_empty
  | Seq l =>
      (fix dseq (l : list cm) : cm :=
         match l with
         | [] => cm_empty
         | c :: l' => Alt [Seq (deriv a c :: l'); if nullable c then dseq l' else cm_empty]
         end) l
  | Alt l => Alt ((fix dalt (l : list cm) : list cm :=
                     match l with [] => [] | c :: l' => deriv a c :: dalt l' end) l)
  | Rep mn mx c => Seq [deriv a c; rep_rest mn mx c]
  end.

Definition cm_match (c : cm) (w : list tag) : bool :=
  nullable (fold_left (fun c a => deriv a c) w c).
