"""Sweeps for C09 that the per-kind histories do not reach: table-driven families (every auto-shape type's adjustments)
and members of indexed collections fetched again by index after every assignment (oracle only: the property's own
statement on the implementation)."""
import io


def adjustment_sweep(ck):
    """every adjustment of every auto-shape type: assigned, read through a fresh proxy, read after save + re-open"""
    from pptx import Presentation
    from pptx.enum.shapes import MSO_SHAPE
    from pptx.util import Emu
    prs = Presentation()
    slide = prs.slides.add_slide(prs.slide_layouts[6])
    plan = []
    for m in MSO_SHAPE:
        try:
            sp = slide.shapes.add_shape(m, Emu(0), Emu(0), Emu(914400), Emu(914400))
        except Exception:  # noqa  (whether a type can be added at all is C20's)
            continue
        vals = [(i + 1) * 0.03125 + 0.0078125 for i in range(len(sp.adjustments))]
        for i, v in enumerate(vals):
            sp.adjustments[i] = v
        plan.append((m.name, vals))
    nadj = sum(len(v) for _n, v in plan)

    def judge(shapes, stage):
        for (name, vals), sh in zip(plan, shapes):
            ck.count(("adjustment-sweep", name, stage), bool(vals), "adjustment-sweep")
            try:
                got = [sh.adjustments[i] for i in range(len(sh.adjustments))]
            except Exception as e:  # noqa
                got = repr(e)
            if not isinstance(got, list) or len(got) != len(vals) or any(abs(g - v) > 1e-5 + 1e-12 for g, v in zip(got, vals)):
                ck.violation("adjustment-readback:%s" % name,
                             "MSO_SHAPE.%s: adjustments assigned %r read %r (%s)" % (name, vals, got, stage),
                             {"entry_point": "AdjustmentCollection.__setitem__ / __getitem__", "input": {"shape": name, "assigned": vals, "stage": stage},
                              "impl_outcome": got})
    judge(list(slide.shapes), "fresh proxy")
    buf = io.BytesIO()
    prs.save(buf)
    judge(list(Presentation(io.BytesIO(buf.getvalue())).slides[0].shapes), "after save + re-open")
    return {"shape_types": len(plan), "adjustments": nadj}


def _collections():
    """(label, build -> prs, prs -> collection, attribute, values, quantum) for indexed collections whose members carry a
    settable property; the collection is navigated afresh from the presentation for every single access"""
    from pptx import Presentation
    from pptx.chart.data import CategoryChartData
    from pptx.enum.chart import XL_CHART_TYPE
    from pptx.util import Emu

    def deck():
        prs = Presentation()
        s = prs.slides.add_slide(prs.slide_layouts[6])
        for i in range(3):
            sp = s.shapes.add_shape(1, Emu(1000 * i), Emu(2000 * i), Emu(500000 + i), Emu(400000 + i))
            sp.fill.gradient()
        tf = s.shapes[0].text_frame
        tf.text = "a\nb\nc"
        for p in tf.paragraphs:
            p.add_run().text = "x"
            p.add_run().text = "y"
        s.shapes.add_table(3, 3, Emu(0), Emu(0), Emu(3000000), Emu(1500000))
        cd = CategoryChartData()
        cd.categories = ["a", "b", "c"]
        for n in ("s1", "s2", "s3"):
            cd.add_series(n, (1, 2, 3))
        s.shapes.add_chart(XL_CHART_TYPE.LINE, Emu(0), Emu(0), Emu(3000000), Emu(2000000), cd)
        return prs
    sh = lambda prs: prs.slides[0].shapes  # noqa: E731
    return [
        ("FillFormat.gradient_stops", deck, lambda prs: sh(prs)[0].fill.gradient_stops, "position", [0.8, 0.2, 0.5, 0.0, 1.0, 0.35], 1e-5),
        ("SlideShapes", deck, lambda prs: [x for x in sh(prs)][:3], "left", [Emu(700000), Emu(10), Emu(350000), Emu(0)], 0),
        ("SlideShapes", deck, lambda prs: [x for x in sh(prs)][:3], "name", ["zeta", "alpha", "Mid 2"], 0),
        ("TextFrame.paragraphs", deck, lambda prs: sh(prs)[0].text_frame.paragraphs, "level", [3, 0, 8, 1], 0),
        ("_Paragraph.runs", deck, lambda prs: sh(prs)[0].text_frame.paragraphs[1].runs, "text", ["zz", "", "aa", "m"], 0),
        ("Table.columns", deck, lambda prs: sh(prs)[3].table.columns, "width", [Emu(900000), Emu(100), Emu(500000)], 0),
        ("Table.rows", deck, lambda prs: sh(prs)[3].table.rows, "height", [Emu(900000), Emu(100), Emu(500000)], 0),
        ("_Row.cells", deck, lambda prs: sh(prs)[3].table.rows[1].cells, "text", ["zz", "", "aa"], 0),
        ("LinePlot.series", deck, lambda prs: sh(prs)[4].chart.plots[0].series, "smooth", [True, False, True], 0),
    ]


def collection_sweep(ck, rng, rounds):
    """assignment to member i of a collection, then EVERY member fetched again by index: member i reads the value assigned,
    every other member reads what it read before (values are chosen so that an order derived from them differs from the
    document order)"""
    stats = {"collections": 0, "assignments": 0}
    for label, build, coll, attr, values, q in _collections():
        try:
            prs = build()
            n = len(coll(prs))
            expect = [getattr(coll(prs)[j], attr) for j in range(n)]
        except Exception:  # noqa  (a collection this tree does not offer is not judged here)
            continue
        if n < 2:
            continue
        stats["collections"] += 1
        hist = []
        for _ in range(rounds):
            i, v = rng.randrange(n), rng.choice(values)
            hist.append([i, repr(v)])
            try:
                setattr(coll(prs)[i], attr, v)
            except Exception as e:  # noqa
                ck.violation("collection-member-raises:%s.%s" % (label, attr), "%s[%d].%s = %r raised %s" % (label, i, attr, v, type(e).__name__),
                             {"entry_point": "%s[i].%s" % (label, attr), "input": {"history": hist}, "impl_outcome": repr(e)[:200]})
                break
            expect[i] = v
            stats["assignments"] += 1
            ck.count(("collection-sweep", label, attr, len(hist)), True, "collection-sweep")
            got = [getattr(coll(prs)[j], attr) for j in range(n)]
            bad = [j for j in range(n) if (abs(got[j] - expect[j]) > q + 1e-12 if q else got[j] != expect[j])]
            if bad:
                ck.violation("collection-member:%s.%s" % (label, attr),
                             "after the assignments %r (index, value) the members of %s fetched again by index read %s = %r, expected %r"
                             % (hist, label, attr, got, expect),
                             {"entry_point": "%s[i].%s" % (label, attr), "input": {"history": hist}, "impl_outcome": repr(got)})
                break
    return stats
