"""C02 -- every saved file is a closed, self-consistent package, after any history.

prove      props/C02.v over model/PkgOps.v (state machine over the package graph with the
           lazyproperty caches the code has), reusing model/Ids.v (allocators), model/PackUri.v
           (part-name arithmetic) and model/Opc.v (walk, content-types item, rels order).
correspond random public-API histories over the default template, over decks whose slide
           part names are out of presentation order / non-contiguous and over decks with related
           but unlisted slide parts (add_slide meets a taken part name; outside Inv) (built with
           independent zip rewriters), executed on python-pptx and on the extracted model; after EVERY step
           the abstract states are compared (iteration order, part names, content types,
           relationship tables incl. target mode and the cached target_ref, r:* references,
           id lists, lazy caches); every saved package is compared member for member.
oracle     the property's statement evaluated on the real zip (zipfile + lxml + posixpath, no
           python-pptx, no model) at every prefix of a history, plus re-opening with python-pptx
           and comparing slides / shapes / text / picture hashes / chart types.
Failing histories are shrunk by delta debugging to a minimal operation list.
"""
import hashlib
import io
import json
import multiprocessing
import os
import posixpath
import random
import re
import zipfile

from lxml import etree

from corr.harness import VERIF, _run, coq_build, run_model, exc_name

NS_R = "http://schemas.openxmlformats.org/officeDocument/2006/relationships"
NS_PR = "http://schemas.openxmlformats.org/package/2006/relationships"
NS_CT = "http://schemas.openxmlformats.org/package/2006/content-types"
NS_P = "http://schemas.openxmlformats.org/presentationml/2006/main"
NS_C = "http://schemas.openxmlformats.org/drawingml/2006/chart"
RT_BASE = "http://schemas.openxmlformats.org/officeDocument/2006/relationships/"
RT_OD = RT_BASE + "officeDocument"

TB = [
    "model/Ids.v allocators (next_rId, next_partname, next_image_partname, next_media_partname, rename_slide_parts, _next_slide_partname), model/PackUri.v part-name arithmetic, model/Opc.v (depth-first walk, _ContentTypesItem, numeric rId order): reused, each tied by its own property's correspondence (C06, C19, C01) and again by this one",
    "tables default_content_types and the initial defaults of _ContentTypesItem are read from the live pptx.opc.spec at run time and handed to the model with every case; the relationship-type / content-type / template constants of model/PkgOps.v are compared with pptx.opc.constants on every run (case consts)",
    "lxml / zipfile / Pillow / XlsxWriter payloads are outside the model: a part's XML is represented by the r:* references it holds",
    "the check's independent OPC reader (zipfile + lxml + posixpath) used by the oracle and to build the abstract input deck; the zip rewriters that rename slide members and remove p:sldId entries",
]
ASSUME = [
    "_ImageParts / _MediaParts look for an existing part in iter_rels order (sources interleaved depth-first); the model scans package rels then parts in iter_parts order, which agrees unless two reachable image parts carry identical bytes (not generated)",
    "Python object identity of parts is the position in st_parts; parts are never deleted, only unreached",
    "shape kinds without parts (auto shapes, text boxes, connectors, tables, group shapes, freeforms) collapse to one operation that adds a text box with one run; its shape-level and run-level a:hlinkClick are the link slots of the model",
    "operations address slides by presentation order, layouts by position in the first master, charts by graphic-frame order; a use-after-remove of a layout object held by the caller is outside the operation alphabet",
    "str.isdigit in the rId sort key and str.lower in the content-types item are modelled on ASCII (as in model/Opc.v)",
    "add_sldId running out of slide ids (2^31 slides) is outside the model",
]

URLS = ["http://a.example/x?y=1&z=2", "https://b.example/", "mailto:u@h.org", "file:///c:/t%20x.pptx"]
S1, S2, S3, S4, S5, S6, S7 = (chr(c) for c in (30, 31, 29, 28, 27, 26, 25))


# ----------------------------------------------------------------------------- test files
class Files:
    """Files handed to the API, with the identity class / extension / content type the check
    declares for them (own table, not python-pptx's)."""

    _inst = None

    def __init__(self):
        from PIL import Image
        import pptx
        from pptx.media import SPEAKER_IMAGE_BYTES

        self.classes = {}  # sha1 hex -> class number
        tdir = os.path.join(os.path.dirname(pptx.__file__), "templates")
        self._reserve(SPEAKER_IMAGE_BYTES, 1)
        self.icons = {}
        for k, fn, n in (("d", "docx-icon.emf", 2), ("p", "pptx-icon.emf", 3), ("x", "xlsx-icon.emf", 4), ("g", "generic-icon.emf", 5)):
            self._reserve(open(os.path.join(tdir, fn), "rb").read(), n)
        self.images = []  # (bytes, class, ext, ct)
        n = 6

        def img(fmt, ext, ct, colour, **kw):
            nonlocal n
            b = io.BytesIO()
            Image.new("RGB", (6, 4), colour).save(b, fmt, **kw)
            self.images.append((b.getvalue(), n, ext, ct))
            self._reserve(b.getvalue(), n)
            n += 1

        img("PNG", "png", "image/png", (10, 20, 30))
        img("PNG", "png", "image/png", (200, 20, 30))
        img("JPEG", "jpg", "image/jpeg", (10, 200, 30))
        img("GIF", "gif", "image/gif", (10, 20, 200))
        img("BMP", "bmp", "image/bmp", (90, 90, 90))
        img("TIFF", "tiff", "image/tiff", (1, 2, 3))
        b = io.BytesIO()
        Image.new("RGB", (6, 4), (5, 5, 5)).save(b, "PCX")
        self.bad_image = b.getvalue()
        self.videos = []  # (bytes, class, ext, ct, mime arg)
        for i, (mime, ext) in enumerate([(None, "vid"), (None, "vid"), ("video/mp4", "mp4")]):
            data = b"c02-video-%d" % i
            self.videos.append((data, 20 + i, ext, mime or "video/unknown", mime))
            self._reserve(data, 20 + i)
        self.next_class = 100

    def _reserve(self, data, n):
        self.classes[hashlib.sha1(data).hexdigest()] = n

    def klass(self, data):
        h = hashlib.sha1(data).hexdigest()
        if h not in self.classes:
            self.classes[h] = self.next_class
            self.next_class += 1
        return self.classes[h]

    @classmethod
    def get(cls):
        if cls._inst is None:
            cls._inst = cls()
        return cls._inst


# ----------------------------------------------------------------------------- independent OPC reading
def read_zip(data):
    z = zipfile.ZipFile(io.BytesIO(data))
    names = [i.filename for i in z.infolist()]
    return names, {n: z.read(n) for n in names}


def read_rels(xml):
    root = etree.fromstring(xml)
    out = []
    for e in root:
        if etree.QName(e).localname != "Relationship":
            continue
        out.append((e.get("Id"), e.get("Type"), "1" if e.get("TargetMode") == "External" else "0", e.get("Target")))
    return out


def read_cts(xml):
    root = etree.fromstring(xml)
    d, o = [], []
    for e in root:
        ln = etree.QName(e).localname
        if ln == "Default":
            d.append((e.get("Extension"), e.get("ContentType")))
        elif ln == "Override":
            o.append((e.get("PartName"), e.get("ContentType")))
    return d, o


def rels_name(partname):
    if partname == "/":
        return "_rels/.rels"
    d, f = posixpath.split(partname)
    return (d.rstrip("/") + "/_rels/" + f + ".rels").lstrip("/")


def resolve(src, target):
    base = "/" if src == "/" else posixpath.dirname(src)
    return posixpath.normpath(posixpath.join(base, target))


def cts_for(cts, name):
    """All content types [Content_Types].xml offers for a part name (OPC: Override by part
    name, else Default by extension; names compare case-insensitively)."""
    d, o = cts
    hits = [ct for pn, ct in o if pn.lower() == name.lower()]
    if hits:
        return hits
    ext = name.rsplit(".", 1)[-1].lower() if "." in posixpath.basename(name) else ""
    return [ct for e, ct in d if e.lower() == ext]


def r_refs(xml):
    """(attribute local name, value) of every r: attribute with a non-empty value."""
    try:
        root = etree.fromstring(xml)
    except etree.XMLSyntaxError:
        return None
    out = []
    pre = "{%s}" % NS_R
    for e in root.iter():
        if not isinstance(e.tag, str):
            continue
        for k, v in e.attrib.items():
            if k.startswith(pre) and v:
                out.append((e, k[len(pre):], v))
    return out


def is_xml_name(name, ct):
    return ct.endswith("+xml") or ct.endswith("/xml") or name.endswith(".xml") or name.endswith(".rels")


# ----------------------------------------------------------------------------- decks
def rename_slides(data, mapping):
    """Independent zip rewriter: slide part slideK.xml becomes slide<mapping[K]>.xml; the
    member, its rels item, every relationship Target that resolves to it and its Override
    are rewritten."""
    names, z = read_zip(data)
    ren = {"/ppt/slides/slide%d.xml" % a: "/ppt/slides/slide%d.xml" % b for a, b in mapping.items()}
    out = io.BytesIO()
    zo = zipfile.ZipFile(out, "w", zipfile.ZIP_DEFLATED)
    for n in names:
        b = z[n]
        nn = n
        if "/" + n in ren:
            nn = ren["/" + n][1:]
        m = re.match(r"^(.*)/_rels/([^/]+)\.rels$", n)
        src = None
        if n == "_rels/.rels":
            src = "/"
        elif m:
            src = "/" + m.group(1) + "/" + m.group(2)
            if src in ren:
                nn = rels_name(ren[src])
        if src is not None:
            root = etree.fromstring(b)
            for e in root:
                if e.get("TargetMode") == "External":
                    continue
                t = resolve(src, e.get("Target"))
                newsrc = ren.get(src, src)
                if t in ren or src in ren:
                    t2 = ren.get(t, t)
                    base = "/" if newsrc == "/" else posixpath.dirname(newsrc)
                    e.set("Target", posixpath.relpath(t2, base) if base != "/" else t2[1:])
            b = etree.tostring(root, xml_declaration=True, encoding="UTF-8", standalone=True)
        if n == "[Content_Types].xml":
            root = etree.fromstring(b)
            for e in root:
                if e.get("PartName") in ren:
                    e.set("PartName", ren[e.get("PartName")])
            b = etree.tostring(root, xml_declaration=True, encoding="UTF-8", standalone=True)
        zo.writestr(nn, b)
    zo.close()
    return out.getvalue()


def respell_targets(data):
    """Independent zip rewriter: the same package with internal relationship Targets spelled the other ways OPC allows
    and other producers use: root-absolute (/ppt/slides/slide1.xml) in the rels item of the presentation part,
    a leading ./ in the rels items of slides, an up-and-down detour (../slides/../slideLayouts/x.xml) in those of notes slides."""
    names, z = read_zip(data)
    out = io.BytesIO()
    zo = zipfile.ZipFile(out, "w", zipfile.ZIP_DEFLATED)
    for n in names:
        b = z[n]
        m = re.match(r"^(.*)/_rels/([^/]+)\.rels$", n)
        if m:
            src = "/" + m.group(1) + "/" + m.group(2)
            root = etree.fromstring(b)
            for e in root:
                if e.get("TargetMode") == "External":
                    continue
                t = resolve(src, e.get("Target"))
                if src == "/ppt/presentation.xml":
                    e.set("Target", t)
                elif src.startswith("/ppt/slides/"):
                    e.set("Target", "./" + e.get("Target"))
                elif src.startswith("/ppt/notesSlides/"):
                    d = posixpath.dirname(t)
                    e.set("Target", posixpath.relpath(d, posixpath.dirname(src)) + "/../" + posixpath.basename(d) + "/" + posixpath.basename(t))
            b = etree.tostring(root, xml_declaration=True, encoding="UTF-8", standalone=True)
        zo.writestr(n, b)
    zo.close()
    return out.getvalue()


def with_foreign_parts(data, png):
    """The deck plus what PowerPoint-authored files have and python-pptx never writes: parts of a class the library
    does not know (loaded as the generic Part) that have relationships of their own -- the theme with a picture fill
    (theme1.xml -> ../media/image77.png) and a custom XML item with its properties part (presentation ->
    ../customXml/item1.xml -> itemProps1.xml).  Both targets are reachable through those parts only."""
    zi = zipfile.ZipFile(io.BytesIO(data))
    out = io.BytesIO()
    zo = zipfile.ZipFile(out, "w", zipfile.ZIP_DEFLATED)
    RELS = "http://schemas.openxmlformats.org/package/2006/relationships"
    RT = "http://schemas.openxmlformats.org/officeDocument/2006/relationships/"
    for n in zi.namelist():
        b = zi.read(n)
        if n == "[Content_Types].xml":
            root = etree.fromstring(b)
            ns = root.nsmap[None]
            if not any(e.get("Extension", "").lower() == "png" for e in root):
                etree.SubElement(root, "{%s}Default" % ns, Extension="png", ContentType="image/png")
            etree.SubElement(root, "{%s}Override" % ns, PartName="/customXml/itemProps1.xml",
                             ContentType="application/vnd.openxmlformats-officedocument.customXmlProperties+xml")
            b = etree.tostring(root, xml_declaration=True, encoding="UTF-8", standalone=True)
        if n == "ppt/_rels/presentation.xml.rels":
            root = etree.fromstring(b)
            etree.SubElement(root, "{%s}Relationship" % RELS, Id="rId907", Type=RT + "customXml", Target="../customXml/item1.xml")
            b = etree.tostring(root, xml_declaration=True, encoding="UTF-8", standalone=True)
        zo.writestr(n, b)
    rels = lambda body: ('<?xml version="1.0" encoding="UTF-8" standalone="yes"?>\n<Relationships xmlns="%s">%s</Relationships>' % (RELS, body)).encode()  # noqa: E731
    zo.writestr("ppt/theme/_rels/theme1.xml.rels", rels('<Relationship Id="rId1" Type="%simage" Target="../media/image77.png"/>' % RT))
    zo.writestr("ppt/media/image77.png", png)
    zo.writestr("customXml/item1.xml", b'<?xml version="1.0" encoding="UTF-8" standalone="yes"?>\n<root xmlns="urn:x-verif"><v>1</v></root>')
    zo.writestr("customXml/itemProps1.xml", b'<?xml version="1.0" encoding="UTF-8" standalone="yes"?>\n<ds:datastoreItem xmlns:ds="http://schemas.openxmlformats.org/officeDocument/2006/customXml" ds:itemID="{00000000-0000-0000-0000-000000000001}"/>')
    zo.writestr("customXml/_rels/item1.xml.rels", rels('<Relationship Id="rId1" Type="%scustomXmlProps" Target="itemProps1.xml"/>' % RT))
    zo.close()
    return out.getvalue()


def unlist_slides(data, positions):
    """Independent zip rewriter: the p:sldId entries at the given positions (presentation order, from 0) are removed from
    ppt/presentation.xml; the relationships and the slide parts stay (related, unlisted slide parts)."""
    zi = zipfile.ZipFile(io.BytesIO(data))
    out = io.BytesIO()
    zo = zipfile.ZipFile(out, "w", zipfile.ZIP_DEFLATED)
    for n in zi.namelist():
        b = zi.read(n)
        if n == "ppt/presentation.xml":
            root = etree.fromstring(b)
            lst = root.find("{%s}sldIdLst" % NS_P)
            kids = list(lst)
            for k in positions:
                lst.remove(kids[k])
            b = etree.tostring(root, xml_declaration=True, encoding="UTF-8", standalone=True)
        zo.writestr(n, b)
    zo.close()
    return out.getvalue()


_DECKS = None


def decks():
    """name -> bytes.  default: the built-in template; rich: default plus four slides with
    text, a picture, a chart, notes and a hyperlink, saved by python-pptx; the others are rich
    with its slide members renamed."""
    global _DECKS
    if _DECKS is not None:
        return _DECKS
    from pptx import Presentation
    from pptx.chart.data import CategoryChartData
    from pptx.enum.chart import XL_CHART_TYPE

    F = Files.get()
    out = {}
    prs = Presentation()
    b = io.BytesIO()
    prs.save(b)
    out["default"] = b.getvalue()
    prs = Presentation()
    for i in range(4):
        s = prs.slides.add_slide(prs.slide_layouts[[6, 1, 8, 5][i]])
        tb = s.shapes.add_textbox(100, 100, 9000, 9000)
        tb.text_frame.text = "Slide-%d" % (i + 1)
        if i == 0:
            s.shapes.add_picture(io.BytesIO(F.images[0][0]), 0, 0)
            tb.text_frame.paragraphs[0].runs[0].hyperlink.address = URLS[0]
        if i == 1:
            s.notes_slide.notes_text_frame.text = "note"
        if i == 3:
            cd = CategoryChartData()
            cd.categories = ["a", "b"]
            cd.add_series("s", (1, 2))
            s.shapes.add_chart(XL_CHART_TYPE.BAR_CLUSTERED, 0, 0, 9000, 9000, cd)
    b = io.BytesIO()
    prs.save(b)
    rich = b.getvalue()
    out["rich"] = rich
    out["perm"] = rename_slides(rich, {1: 3, 2: 1, 3: 4, 4: 2})
    out["swap"] = rename_slides(rich, {1: 2, 2: 1, 3: 3, 4: 4})
    out["gaps"] = rename_slides(rich, {1: 2, 2: 5, 3: 9, 4: 12})
    out["gaps_perm"] = rename_slides(rich, {1: 7, 2: 3, 3: 11, 4: 1})
    out["shift"] = rename_slides(rich, {1: 2, 2: 3, 3: 4, 4: 5})
    out["foreign"] = with_foreign_parts(rich, F.images[-1][0])
    out["respelled"] = respell_targets(rich)
    # related but unlisted slide parts whose names lie above the listed count (below it the first access of prs.slides
    # renames a listed slide onto them: C06 / C13 unlisted-slide-partname-collision).  add_slide meets a taken
    # conventional name: slide4.xml on the first, slide4.xml then slide5.xml (search going down past slide6.xml) on the second
    out["unlisted_last"] = unlist_slides(rich, [3])
    out["unlisted_gap"] = unlist_slides(rename_slides(rich, {1: 1, 2: 2, 3: 4, 4: 6}), [2, 3])
    _DECKS = out
    return out


IRREGULAR = ("perm", "swap", "gaps", "gaps_perm", "shift")
# decks that do not meet Inv (clause slides_ok: every reached part under /ppt/slides is listed): the theorems with the
# hypothesis Inv say nothing there; C02_add_slide_name_fresh / C02_add_slide_new_part_fresh (no hypothesis on the state)
# do, the correspondence and the oracle on every saved package are evaluated as everywhere else
OUTSIDE_INV = ("unlisted_last", "unlisted_gap")


def sha_capable_cts():
    """content types whose registered part class carries a sha1 attribute (ImagePart, MediaPart)"""
    import pptx  # noqa  (registers the part classes)
    from pptx.opc.package import PartFactory

    return {ct for ct, cls in PartFactory.part_type_for.items() if hasattr(cls, "sha1")}


def graph_of_zip(data):
    """Abstract input deck for the model, read from the zip without python-pptx."""
    F = Files.get()
    shacts = sha_capable_cts()
    names, z = read_zip(data)
    cts = read_cts(z["[Content_Types].xml"])

    def rels_of(pn):
        rn = rels_name(pn)
        return read_rels(z[rn]) if rn in z else []

    order, index = [], {}

    def visit(src, rels):
        for rid, t, mode, tgt in rels:
            if mode == "1":
                continue
            name = resolve(src, tgt)
            if name not in index and name[1:] in z:
                index[name] = len(order)
                order.append(name)
                visit(name, rels_of(name))

    prels = rels_of("/")
    visit("/", prels)

    def enc_rels(src, rels):
        out = []
        for rid, t, mode, tgt in rels:
            if mode == "1":
                out.append((rid, t, "1", tgt))
            else:
                name = resolve(src, tgt)
                if name in index:
                    out.append((rid, t, "0", index[name]))
        return out

    parts = []
    pres = None
    mrid = None
    for name in order:
        ct = (cts_for(cts, name) or [""])[0]
        blob = z[name[1:]]
        sha = F.klass(blob) if ct in shacts else 0
        idl, refs, phs, nslots = [], [], 0, 0
        if ct.endswith("+xml"):
            rr = r_refs(blob) or []
            for e, k, v in rr:
                ln = etree.QName(e).localname
                if k == "id" and ln in ("sldId", "sldLayoutId", "externalData"):
                    idl.append(v)
                else:
                    refs.append((k, v))
            root = etree.fromstring(blob)
            rootln = etree.QName(root).localname
            if rootln in ("sld", "sldLayout"):
                for sp in root.iter("{%s}sp" % NS_P):
                    ph = sp.find("{%s}nvSpPr/{%s}nvPr/{%s}ph" % (NS_P, NS_P, NS_P))
                    if ph is not None and ph.get("type") == "pic":
                        phs += 1
            if rootln == "notes":
                for sp in root.iter("{%s}sp" % NS_P):
                    ph = sp.find("{%s}nvSpPr/{%s}nvPr/{%s}ph" % (NS_P, NS_P, NS_P))
                    if ph is not None and ph.get("type") == "body":
                        nslots = 1
        parts.append({"name": name, "ct": ct, "sha": sha, "phs": phs, "nslots": nslots, "idl": idl, "refs": refs,
                      "rels": enc_rels(name, rels_of(name))})
    for rid, t, mode, tgt in prels:
        if t == RT_OD and mode == "0":
            pres = index.get(resolve("/", tgt))
    # the sldMasterId of the presentation part, not of another part
    if pres is not None:
        root = etree.fromstring(z[order[pres][1:]])
        m = root.find("{%s}sldMasterIdLst/{%s}sldMasterId" % (NS_P, NS_P))
        mrid = m.get("{%s}id" % NS_R) if m is not None else None
    return {"parts": parts, "prels": enc_rels("/", prels), "pres": pres, "mrid": mrid}


_TABLES = None


def tables():
    global _TABLES
    if _TABLES is None:
        from pptx.opc.spec import default_content_types
        from pptx.opc.constants import CONTENT_TYPE as CT

        _TABLES = ([(e, c) for e, c in default_content_types], [("rels", CT.OPC_RELATIONSHIPS), ("xml", CT.XML)])
    return _TABLES


def intern_table(graph):
    tab = []
    for p in graph["parts"]:
        if p["ct"] not in tab:
            tab.append(p["ct"])
        for r in p["rels"]:
            if r[1] not in tab:
                tab.append(r[1])
    for r in graph["prels"]:
        if r[1] not in tab:
            tab.append(r[1])
    for c in model_consts_expected()[:29]:
        if c not in tab:
            tab.append(c)
    for c in ("image/jpeg", "image/gif", "image/bmp", "image/tiff", "video/unknown", "video/mp4"):
        if c not in tab:
            tab.append(c)
    return tab


# ----------------------------------------------------------------------------- wire
def enc_rel(r):
    return [r[0], r[1], r[2], str(r[3])]


def op_tokens(op):
    k = op[0]
    out = [k]
    for a in op[1:]:
        if isinstance(a, (list, tuple)):
            out += [str(x) for x in a]
        else:
            out.append(str(a))
    return out


def case_fields(mode, graph, tab, ops):
    d, i = tables()
    f = ["hist", mode, str(len(tab))] + tab
    f.append(str(len(d)))
    for e, c in d:
        f += [e, c]
    f.append(str(len(i)))
    for e, c in i:
        f += [e, c]
    f.append(str(graph["pres"]))
    if graph["mrid"] is None:
        f.append("0")
    else:
        f += ["1", graph["mrid"]]
    f.append(str(len(graph["prels"])))
    for r in graph["prels"]:
        f += enc_rel(r)
    f.append(str(len(graph["parts"])))
    for p in graph["parts"]:
        f += [p["name"], p["ct"], str(p["sha"]), str(p["phs"]), str(p["nslots"]), str(len(p["idl"]))] + p["idl"]
        f.append(str(len(p["refs"])))
        for k, v in p["refs"]:
            f += [k, v]
        f.append(str(len(p["rels"])))
        for r in p["rels"]:
            f += enc_rel(r)
    f.append(str(len(ops)))
    for op in ops:
        f += op_tokens(op)
    return f


def _split(s, sep):
    return s.split(sep) if s else []


def _opt(s):
    return s[1:] if s.startswith("+") else None


def parse_relr(tab, s):
    i, t, g, c = s.split(S6)
    t = tab[int(t[1:])] if t.startswith("#") else t[1:]
    ext = g[0] == "1"
    tgt = g[2:] if ext else int(g[2:])
    return (i, t, ext, tgt, _opt(c))


def parse_part(tab, s):
    f = s.split(S4)
    ct = tab[int(f[2][1:])] if f[2].startswith("#") else f[2][1:]
    return int(f[0]), {
        "name": f[1], "ct": ct, "sha": int(f[3]), "phs": int(f[4]), "notes": f[5] == "True",
        "idl": _split(f[6], S5),
        "refs": [tuple(x.split(S6)) for x in _split(f[7], S5)],
        "slots": [tuple(_opt(y) for y in x.split(S6)) for x in _split(f[8], S5)],
        "rels": [parse_relr(tab, x) for x in _split(f[9], S5)],
        "base": f[10],
    }


def parse_orel(tab, s, sep):
    i, t, g, m = s.split(sep)
    t = tab[int(t[1:])] if t.startswith("#") else t[1:]
    return (i, t, g, m)


def parse_phys(tab, s):
    f = s.split(S3)

    def pairs(x):
        out = []
        for kv in _split(x, S4):
            k, v = kv.split(S5)
            out.append((k, tab[int(v[1:])] if v.startswith("#") else v[1:]))
        return out

    members = []
    for m in _split(f[4], S4):
        pid, name, rels = m.split(S5)
        members.append((int(pid), name, [parse_orel(tab, r, S7) for r in _split(rels, S6)]))
    return {"closed": f[0], "defaults": pairs(f[1]), "overrides": pairs(f[2]),
            "prels": [parse_orel(tab, r, S5) for r in _split(f[3], S4)], "members": members}


def parse_model(tab, line):
    """-> list of step views: outcome, order (names), parts (list of dicts in iter order),
    prels, flags, phys"""
    if line == "badcase":
        raise RuntimeError("model refused the case (badcase)")
    parts, prels = {}, []
    views = []
    for rec in line.split(S1):
        f = rec.split(S2)
        for ps in _split(f[2], S3):
            pid, p = parse_part(tab, ps)
            parts[pid] = p
        if f[3] != "=":
            prels = [parse_relr(tab, x) for x in _split(f[3][1:], S5)]
        order = [int(x) for x in _split(f[1], ",")]
        fl = f[4].split(S6)
        o3 = f[0].rsplit(":", 2)
        views.append({"outcome": o3[0], "inv": o3[1] == "True", "tables_ok": o3[2] == "True", "order": order, "parts": {k: dict(v) for k, v in parts.items()},
                      "prels": list(prels), "flags": (fl[0] == "True", fl[1] != "-", fl[2] != "-"),
                      "phys": parse_phys(tab, f[5]) if f[5] else None})
    return views


def model_consts_expected():
    from pptx.opc.constants import RELATIONSHIP_TYPE as RT, CONTENT_TYPE as CT
    from pptx.parts.chart import ChartPart
    from pptx.parts.embeddedpackage import EmbeddedDocxPart, EmbeddedPptxPart, EmbeddedXlsxPart

    def sp(t):
        a, b = t.split("%d")
        return [a, b]

    return ([RT.SLIDE, RT.IMAGE, RT.MEDIA, RT.VIDEO, RT.CHART, RT.PACKAGE, RT.OLE_OBJECT, RT.HYPERLINK, RT.NOTES_SLIDE,
             RT.NOTES_MASTER, RT.THEME, RT.SLIDE_LAYOUT, RT.SLIDE_MASTER, RT.CORE_PROPERTIES, RT.OFFICE_DOCUMENT,
             CT.PML_SLIDE, CT.PML_NOTES_SLIDE, CT.PML_NOTES_MASTER, CT.OFC_THEME, CT.DML_CHART, CT.SML_SHEET,
             CT.WML_DOCUMENT, CT.PML_PRESENTATION, CT.OFC_OLE_OBJECT, CT.OPC_CORE_PROPERTIES, "image/png", "image/x-emf",
             CT.PML_SLIDE_MASTER, CT.PML_SLIDE_LAYOUT,
             "/ppt/notesMasters/notesMaster1.xml", "/docProps/core.xml"]
            + sp("/ppt/theme/theme%d.xml") + sp("/ppt/notesSlides/notesSlide%d.xml") + sp(ChartPart.partname_template)
            + sp(EmbeddedXlsxPart.partname_template) + sp(EmbeddedDocxPart.partname_template)
            + sp(EmbeddedPptxPart.partname_template) + sp("/ppt/embeddings/oleObject%d.bin")
            + ["id", "embed", "link", "png", "emf", "/ppt/slides/slide", ".xml"])


# ----------------------------------------------------------------------------- implementation side
def rels_view(rels):
    out = []
    for rid, r in rels.items():
        ext = r.is_external
        # the cached target_ref of an external relationship is its own constant text: not compared
        out.append((rid, r.reltype, ext, r._target if ext else str(r._target.partname), None if ext else r.__dict__.get("target_ref")))
    return out


def impl_view(prs):
    """Abstract state of the implementation, read without evaluating any lazyproperty that
    the property talks about."""
    pkg = prs.part.package
    parts = []
    for p in pkg.iter_parts():
        refs, idl = None, None
        el = getattr(p, "_element", None)
        if el is not None:
            refs, idl = [], []
            pre = "{%s}" % NS_R
            for e in el.iter():
                if not isinstance(e.tag, str):
                    continue
                for k, v in e.attrib.items():
                    if k.startswith(pre) and v:
                        refs.append((k[len(pre):], v))
                        if k == pre + "id" and etree.QName(e).localname in ("sldId", "sldLayoutId", "externalData"):
                            idl.append(v)
        parts.append({"name": str(p.partname), "ct": p._content_type, "rels": rels_view(p._rels), "refs": refs, "idl": idl,
                      "notes": type(p).__name__ == "SlidePart" and "notes_slide" in p.__dict__, "obj": p})
    return {"parts": parts, "prels": rels_view(pkg._rels),
            "flags": ("slides" in prs.__dict__, "notes_master_part" in prs.part.__dict__, "core_properties" in pkg.__dict__)}


def model_refs(p):
    out = [("id", r) for r in p["idl"]] + list(p["refs"])
    for c, r in p["slots"]:
        if c is not None:
            out.append(("id", c))
        if r is not None:
            out.append(("id", r))
    return sorted(out)


def diff_views(mv, iv):
    """First difference between a model step view and an implementation view, or None."""
    mo = [mv["parts"][pid] for pid in mv["order"] if pid in mv["parts"]]
    mnames = [p["name"] for p in mo]
    inames = [p["name"] for p in iv["parts"]]
    if mnames != inames:
        return "iter_parts order: model %r impl %r" % (mnames, inames)
    name_of = {pid: p["name"] for pid, p in mv["parts"].items()}

    def mrels(rs):
        return [(i, t, e, g if e else name_of.get(g, "?%d" % g), c) for i, t, e, g, c in rs]

    if mrels(mv["prels"]) != iv["prels"]:
        return "package rels: model %r impl %r" % (mrels(mv["prels"]), iv["prels"])
    for mp, ip in zip(mo, iv["parts"]):
        if mp["ct"] != ip["ct"]:
            return "content type of %s: model %r impl %r" % (mp["name"], mp["ct"], ip["ct"])
        if mrels(mp["rels"]) != ip["rels"]:
            return "rels of %s: model %r impl %r" % (mp["name"], mrels(mp["rels"]), ip["rels"])
        if ip["refs"] is not None:
            if model_refs(mp) != sorted(ip["refs"]):
                return "r:* references of %s: model %r impl %r" % (mp["name"], model_refs(mp), sorted(ip["refs"]))
            if mp["idl"] != ip["idl"]:
                return "id list of %s: model %r impl %r" % (mp["name"], mp["idl"], ip["idl"])
        if mp["notes"] != ip["notes"]:
            return "notes_slide cache of %s: model %r impl %r" % (mp["name"], mp["notes"], ip["notes"])
    if mv["flags"] != iv["flags"]:
        return "lazy caches (slides, notes master, core props): model %r impl %r" % (mv["flags"], iv["flags"])
    return None


def diff_saved(ph, data):
    """Model's physical package against the real zip (structure only)."""
    names, z = read_zip(data)
    mnames = ["[Content_Types].xml", "_rels/.rels"]
    for pid, name, rels in ph["members"]:
        mnames.append(name[1:])
        if rels:
            mnames.append(rels_name(name))
    if mnames != names:
        return "zip member names: model %r impl %r" % (mnames, names)
    d, o = read_cts(z["[Content_Types].xml"])
    if (ph["defaults"], ph["overrides"]) != (d, o):
        return "content types item: model %r impl %r" % ((ph["defaults"], ph["overrides"]), (d, o))
    if ph["prels"] != [(i, t, g, m) for i, t, m, g in read_rels(z["_rels/.rels"])]:
        return "package rels item: model %r impl %r" % (ph["prels"], read_rels(z["_rels/.rels"]))
    for pid, name, rels in ph["members"]:
        if rels:
            got = [(i, t, g, m) for i, t, m, g in read_rels(z[rels_name(name)])]
            if rels != got:
                return "rels item of %s: model %r impl %r" % (name, rels, got)
    return None


class Runner:
    """Executes operations on a live presentation."""

    def __init__(self, deck_bytes):
        from pptx import Presentation

        self.prs = Presentation(io.BytesIO(deck_bytes))
        self.tbs = {}  # slide index -> text boxes created by this history
        self.expect = {}  # (slide, text box, which) -> address last assigned (None: cleared); jumps are not tracked
        self.F = Files.get()
        self.saved = None

    def _tb(self, i, j):
        l = self.tbs.get(i, [])
        return l[j] if j < len(l) else None

    def _run(self, op):
        from pptx.chart.data import CategoryChartData
        from pptx.enum.chart import XL_CHART_TYPE
        from pptx.enum.shapes import PROG_ID
        from pptx.shapes.placeholder import PicturePlaceholder

        prs, F = self.prs, self.F
        k = op[0]
        if k == "AS":
            len(prs.slides)
            return "D"
        if k == "SL":
            prs.slides.add_slide(prs.slide_layouts[op[1]])
            return "D"
        if k == "PS":
            s = prs.slides[op[1]]
            tb = s.shapes.add_textbox(100, 100, 5000, 5000)
            tb.text_frame.text = "x"
            self.tbs.setdefault(op[1], []).append(tb)
            return "D"
        if k == "PI":
            s = prs.slides[op[1]]
            s.shapes.add_picture(io.BytesIO(self._image(op[2][0])), 0, 0)
            return "D"
        if k == "PB":
            s = prs.slides[op[1]]
            s.shapes.add_picture(io.BytesIO(F.bad_image), 0, 0)
            return "D"
        if k == "IP":
            s = prs.slides[op[1]]
            for ph in s.placeholders:
                if isinstance(ph, PicturePlaceholder):
                    ph.insert_picture(io.BytesIO(self._image(op[2][0])))
                    return "D"
            return "N"
        if k == "MV":
            s = prs.slides[op[1]]
            v = [x for x in F.videos if x[1] == op[2][0]][0]
            kw = {}
            if v[4]:
                kw["mime_type"] = v[4]
            if op[3] == "i":
                kw["poster_frame_image"] = io.BytesIO(self._image(op[4][0]))
            elif op[3] == "b":
                kw["poster_frame_image"] = io.BytesIO(F.bad_image)
            s.shapes.add_movie(io.BytesIO(v[0]), 0, 0, 100, 100, **kw)
            return "D"
        if k == "CH":
            s = prs.slides[op[1]]
            cd = CategoryChartData()
            cd.categories = ["a", "b", "c"]
            cd.add_series("s1", (1, 2, 3))
            s.shapes.add_chart(XL_CHART_TYPE.COLUMN_CLUSTERED, 0, 0, 9000, 9000, cd)
            return "D"
        if k == "RD":
            s = prs.slides[op[1]]
            gfs = [sh for sh in s.shapes if sh.has_chart]
            if op[2] >= len(gfs):
                return "N"
            cd = CategoryChartData()
            cd.categories = ["p", "q"]
            cd.add_series("t", (7, 8))
            gfs[op[2]].chart.replace_data(cd)
            return "D"
        if k == "OL":
            s = prs.slides[op[1]]
            prog = {"x": PROG_ID.XLSX, "d": PROG_ID.DOCX, "p": PROG_ID.PPTX, "g": "Foo.Bar.1"}[op[2]]
            s.shapes.add_ole_object(io.BytesIO(b"c02-ole-" + op[2].encode()), prog, 0, 0)
            return "D"
        if k == "NT":
            prs.slides[op[1]].notes_slide
            return "D"
        if k in ("LK", "CL", "RL"):
            s = prs.slides[op[2]]
            tb = self._tb(op[2], op[3])
            if tb is None:
                return "N"
            h = tb.click_action.hyperlink if op[1] == "c" else tb.text_frame.paragraphs[0].runs[0].hyperlink
            if k == "LK":
                h.address = op[4]
                self.expect[(op[2], op[3], op[1])] = op[4] or None
                return "D"
            if k == "CL":
                h.address = None
                self.expect[(op[2], op[3], op[1])] = None
                return "D"
            a = h.address
            return "V:-" if a is None else "V:+" + a
        if k in ("JP", "CJ"):
            s = prs.slides[op[1]]
            tb = self._tb(op[1], op[2])
            if tb is None:
                return "N"
            if k == "JP":
                tgt = prs.slides[op[3]]
                self.expect.pop((op[1], op[2], "c"), None)
                tb.click_action.target_slide = tgt
            else:
                tb.click_action.target_slide = None
                self.expect[(op[1], op[2], "c")] = None
            return "D"
        if k in ("NJ", "CN"):
            s = prs.slides[op[1]]
            ph = s.notes_slide.notes_placeholder
            if ph is None:
                return "N"
            if k == "NJ":
                ph.click_action.target_slide = prs.slides[op[2]]
            else:
                ph.click_action.target_slide = None
            return "D"
        if k == "RM":
            prs.slide_layouts.remove(prs.slide_layouts[op[1]])
            return "D"
        if k == "CP":
            prs.core_properties
            return "D"
        if k == "SV":
            b = io.BytesIO()
            prs.save(b)
            self.saved = b.getvalue()
            return "S"
        raise RuntimeError("unknown op %r" % (op,))

    def _image(self, klass):
        return [x for x in self.F.images if x[1] == klass][0][0]

    def step(self, op):
        self.saved = None
        try:
            return self._run(op)
        except Exception as e:  # noqa
            return "R:" + exc_name(e)


# ----------------------------------------------------------------------------- oracle
def memory_facts(prs):
    """What the oracle needs from memory at the moment of a save: for every part written its
    name, the content type it was created / loaded with, the part each relationship points
    to, whether a cached target_ref differs from the current one; the slides' content."""
    pkg = prs.part.package
    facts = {"parts": [], "pres": str(prs.part.partname), "stale": []}

    def rels(rs, src):
        out = {}
        for rid, r in rs.items():
            if r.is_external:
                out[rid] = None
            else:
                out[rid] = id(r._target)
                cached = r.__dict__.get("target_ref")
                if cached is not None and cached != r._target.partname.relative_ref(r._base_uri):
                    facts["stale"].append((src, rid, cached, str(r._target.partname)))
        return out

    facts["prels"] = rels(pkg._rels, "/")
    for p in pkg.iter_parts():
        facts["parts"].append((str(p.partname), id(p), p._content_type, rels(p._rels, str(p.partname))))
    return facts


def content_view(prs, reopened):
    """slides in presentation order: per shape kind, name, text, picture sha1, chart type"""
    out = []
    if reopened:
        slides = list(prs.slides)
    else:
        lst = prs.part._element.sldIdLst
        slides = []
        for e in (lst if lst is not None else []):
            try:
                slides.append(prs.part.related_part(e.get("{%s}id" % NS_R)).slide)
            except KeyError:
                # a listed slide whose relationship is not there (dropped at load?): shown as such, the closedness oracle
                # reports the unresolved r:id on the saved package
                out.append(["<p:sldId %s has no relationship>" % e.get("{%s}id" % NS_R)])
    for s in slides:
        shapes = []
        for sh in s.shapes:
            d = [type(sh).__name__, sh.name]
            if sh.has_text_frame:
                d.append(sh.text_frame.text)
            if hasattr(sh, "image"):
                try:
                    d.append(sh.image.sha1)
                except Exception as e:  # noqa
                    d.append("image-error:" + type(e).__name__)
            if getattr(sh, "has_chart", False):
                d.append(str(sh.chart.chart_type))
            shapes.append(tuple(d))
        out.append(shapes)
    return out


def oracle_closed(data, facts):
    """The property's statement on the saved zip.  Returns a list of (clause, text)."""
    bad = []
    names, z = read_zip(data)
    if len(set(names)) != len(names):
        dup = sorted({n for n in names if names.count(n) > 1})
        bad.append(("dup-member", "zip member names repeat: %r" % dup))
    if "[Content_Types].xml" not in z:
        return bad + [("content-type", "no [Content_Types].xml")]
    cts = read_cts(z["[Content_Types].xml"])
    byname = {}
    for name, pid, ct, rels in facts["parts"]:
        byname.setdefault(name, []).append((pid, ct, rels))
    for name, pid, ct, rels in facts["parts"]:
        if name[1:] not in z:
            bad.append(("missing-part", "part %s is not in the zip" % name))
            continue
        offered = cts_for(cts, name)
        if len(offered) != 1 or offered[0] != ct:
            bad.append(("content-type", "part %s was created/loaded as %r, the package offers %r" % (name, ct, offered)))

    def check_rels(src, mem_rels):
        rn = rels_name(src)
        if rn not in z:
            if any(True for _ in mem_rels):
                bad.append(("missing-rels", "no rels item for %s" % src))
            return []
        rl = read_rels(z[rn])
        for rid, t, mode, tgt in rl:
            if mode == "1":
                continue
            name = resolve(src, tgt)
            if name[1:] not in z:
                bad.append(("dangling-target", "%s %s Target %r names no member" % (src, rid, tgt)))
                continue
            want = mem_rels.get(rid)
            holders = [pid for pid, _ct, _r in byname.get(name, [])]
            if want is None or holders != [want]:
                bad.append(("wrong-target", "%s %s Target %r resolves to %s which is not the part the in-memory relationship points to" % (src, rid, tgt, name)))
        return [r[0] for r in rl]

    check_rels("/", facts["prels"])
    for name, pid, ct, rels in facts["parts"]:
        if len(byname[name]) > 1:
            continue
        ids = check_rels(name, rels)
        if name[1:] in z and is_xml_name(name, ct) and not name.endswith(".bin"):
            rr = r_refs(z[name[1:]]) if (ct.endswith("xml")) else []
            for e, k, v in rr or []:
                if v not in ids:
                    bad.append(("missing-rid", "%s uses r:%s=%r which its rels item does not define" % (name, k, v)))
    od = [(rid, tgt) for rid, t, mode, tgt in read_rels(z["_rels/.rels"]) if t == RT_OD and mode == "0"] if "_rels/.rels" in z else []
    if len(od) != 1 or resolve("/", od[0][1]) != facts["pres"]:
        bad.append(("main-part", "officeDocument relationship %r does not lead to %s" % (od, facts["pres"])))
    return bad


def oracle_save(runner, hist_so_far):
    """Closed on the zip + re-open.  -> list of (sig, text)"""
    from pptx import Presentation

    facts = memory_facts(runner.prs)
    bad = oracle_closed(runner.saved, facts)
    mem = content_view(runner.prs, False)

    def address(tb, w):
        h = tb.click_action.hyperlink if w == "c" else tb.text_frame.paragraphs[0].runs[0].hyperlink
        try:
            return h.address
        except KeyError as e:
            return "KeyError %s" % e

    # every hyperlink still has the address last assigned to it (an operation on one link must not retarget another)
    for (i, j, w), want in sorted(runner.expect.items()):
        got = address(runner.tbs[i][j], w)
        if got != want:
            bad.append(("link-retargeted", "in memory the %s link of text box %d on slide %d reads %r, the address last assigned to it is %r"
                        % ("shape" if w == "c" else "run", j, i, got, want)))
    try:
        prs2 = Presentation(io.BytesIO(runner.saved))
        back = content_view(prs2, True)
        if back != mem:
            bad.append(("reopen-differs", "re-opened presentation shows %r, memory had %r" % (back, mem)))
        slides2 = list(prs2.slides)
        for (i, j, w), want in sorted(runner.expect.items()):
            name = runner.tbs[i][j].name
            twins = [sh for sh in slides2[i].shapes if sh.name == name and sh.has_text_frame] if i < len(slides2) else []
            if len(twins) == 1:
                got = address(twins[0], w)
                if got != want:
                    bad.append(("link-retargeted", "after re-opening the %s link of %r on slide %d reads %r, the address last assigned to it is %r"
                                % ("shape" if w == "c" else "run", name, i, got, want)))
    except Exception as e:  # noqa
        bad.append(("reopen-fails", "re-opening the saved file raised %s: %s" % (type(e).__name__, e)))
    if bad and facts["stale"]:
        src, rid, cached, now = facts["stale"][0]
        return [("stale-target-after-rename",
                 "relationship %s of %s was written with its cached Target %r although its part is now %s (%d stale); consequences: %s"
                 % (rid, src, cached, now, len(facts["stale"]), "; ".join("%s: %s" % b for b in bad[:3])))]
    return [(b[0], b[1]) for b in bad]


# ----------------------------------------------------------------------------- histories
def gen_history(rng, deck_name, n):
    """A mostly valid operation list; the generator tracks just enough (slide count, text boxes
    per slide, layouts) to aim operations at things that exist, and misses on purpose sometimes."""
    F = Files.get()
    g = graph_of_zip(decks()[deck_name])
    pres = g["parts"][g["pres"]]
    nslides = len(pres["idl"])
    nlay = 11
    tbs = {}
    links = {}   # (slide, text box, which) -> url or ("jump", k): what the generator believes is set
    ops = []

    def slide():
        if nslides == 0 or rng.random() < 0.04:
            return nslides + rng.randrange(2)
        return rng.randrange(nslides)

    def blob(x):
        return (x[1], x[2], x[3])

    kinds = ["SL"] * 5 + ["PS"] * 5 + ["PI"] * 4 + ["IP"] * 2 + ["MV"] * 3 + ["CH"] * 3 + ["RD"] * 2 + ["OL"] * 3 + ["NT"] * 3 \
        + ["LK"] * 6 + ["CL"] * 3 + ["RL"] * 2 + ["JP"] * 4 + ["CJ"] * 2 + ["NJ"] * 2 + ["CN"] * 2 + ["RM"] * 2 + ["CP"] + ["SV"] * 4 \
        + ["AS"] * 2 + ["PB"]
    # a quarter of the histories open with two references to one relationship on slide 0
    if rng.random() < 0.25 and n >= 4:
        if nslides == 0:
            ops.append(("SL", 6))
            nslides = 1
        ops += [("PS", 0), ("PS", 0)]
        tbs[0] = tbs.get(0, 0) + 2
        a, b = tbs[0] - 2, tbs[0] - 1
        if rng.random() < 0.6:
            u = rng.choice(URLS)
            w2 = rng.choice("cr")
            ops += [("LK", "c", 0, a, u), ("LK", w2, 0, rng.choice([a, b]) if w2 == "r" else b, u)]
            links[(0, a, "c")] = u
            links[ops[-1][2], ops[-1][3], ops[-1][1]] = u
        else:
            kk = rng.randrange(nslides)
            ops += [("JP", 0, a, kk), ("JP", 0, b, kk)]
            links[(0, a, "c")] = ("jump", kk)
            links[(0, b, "c")] = ("jump", kk)
        n = max(1, n - len(ops))
    for step in range(n):
        k = rng.choice(kinds)
        # early in a history make sure there is something to aim at
        if step < 3 and rng.random() < 0.6:
            k = "SL" if (nslides == 0 or rng.random() < 0.4) else "PS"
        if k == "SL":
            l = rng.choice([6, 8, 8, 1, 5, rng.randrange(12)])
            ops.append(("SL", l))
            if l < nlay:
                nslides += 1
        elif k == "PS":
            i = slide()
            ops.append(("PS", i))
            if i < nslides:
                tbs[i] = tbs.get(i, 0) + 1
        elif k == "PI":
            ops.append(("PI", slide(), blob(rng.choice(F.images))))
        elif k == "PB":
            ops.append(("PB", slide()))
        elif k == "IP":
            ops.append(("IP", slide(), blob(rng.choice(F.images))))
        elif k == "MV":
            v = rng.choice(F.videos)
            r = rng.random()
            if r < 0.55:
                ops.append(("MV", slide(), blob(v), "d"))
            elif r < 0.9:
                ops.append(("MV", slide(), blob(v), "i", blob(rng.choice(F.images))))
            else:
                ops.append(("MV", slide(), blob(v), "b"))
        elif k == "CH":
            ops.append(("CH", slide()))
        elif k == "RD":
            ops.append(("RD", slide(), rng.randrange(2)))
        elif k == "OL":
            ops.append(("OL", slide(), rng.choice("xdpg")))
        elif k == "NT":
            ops.append(("NT", slide()))
        elif k in ("LK", "CL", "RL", "JP", "CJ"):
            cands = [i for i in tbs if tbs[i]]
            if cands and rng.random() < 0.93:
                i = rng.choice(cands)
                j = rng.randrange(tbs[i])
            else:
                i, j = slide(), rng.randrange(2)
            w = rng.choice("cr")
            # share relationships on purpose: the same URL / target slide on several slots of one slide,
            # and clear slots that are set
            same = [(key, v) for key, v in links.items() if key[0] == i]
            if k in ("CL", "CJ", "RL") and same and rng.random() < 0.7:
                (i, j, w), _v = rng.choice(same)
                if k == "CJ":
                    w = "c"
            if k == "LK":
                urls = [v for _key, v in same if isinstance(v, str)]
                u = rng.choice(urls) if (urls and rng.random() < 0.5) else rng.choice(URLS + [""])
                ops.append(("LK", w, i, j, u))
                if u:
                    links[(i, j, w)] = u
                else:
                    links.pop((i, j, w), None)
            elif k == "CL":
                ops.append(("CL", w, i, j))
                links.pop((i, j, w), None)
            elif k == "RL":
                ops.append(("RL", w, i, j))
            elif k == "JP":
                tgts = [v[1] for _key, v in same if isinstance(v, tuple)]
                kk = rng.choice(tgts) if (tgts and rng.random() < 0.5) else slide()
                ops.append(("JP", i, j, kk))
                if kk < nslides:
                    links[(i, j, "c")] = ("jump", kk)
            else:
                ops.append(("CJ", i, j))
                links.pop((i, j, "c"), None)
        elif k == "NJ":
            i = slide()
            ops.append(("NJ", i, i if rng.random() < 0.5 else slide()))
        elif k == "CN":
            ops.append(("CN", slide()))
        elif k == "RM":
            l = rng.randrange(nlay + 1)
            ops.append(("RM", l))
        else:
            ops.append((k,))
    return ops


def variants(rng, deck_name, ops):
    """The history as generated (plus a final save) and the history with a save at every
    prefix; for decks with irregular slide names also the latter after a first access of
    prs.slides, so that the known stale-target defect does not hide everything else."""
    v = [("as-generated", list(ops) + [("SV",)])]
    every = [("SV",)]
    for o in ops:
        every.append(o)
        if o != ("SV",):
            every.append(("SV",))
    if deck_name in IRREGULAR and rng.random() < 0.5:
        v.append(("renamed-first+save-every-prefix", [("AS",)] + every))
    else:
        v.append(("save-every-prefix", every))
    return v


def run_one(deck_name, ops, with_model=True, model_lines=None):
    """Execute one history on the implementation (and compare with the model's views when
    given).  -> dict(diffs=[...], oracle=[(sig, text, step)], outcomes=[...], classes=set())"""
    data = decks()[deck_name]
    r = Runner(data)
    res = {"diffs": [], "oracle": [], "outcomes": [], "nsaves": 0, "inv_false": [], "inv_states": 0}
    views = model_lines
    if views is not None:
        d = diff_views(views[0], impl_view(r.prs))
        if d:
            res["diffs"].append((0, None, "initial state: " + d))
        for n, v in enumerate(views):
            res["inv_states"] += 1
            if not (v["inv"] and v["tables_ok"]):
                res["inv_false"].append((n, ops[n - 1] if n else None, "invb=%s tables_okb=%s" % (v["inv"], v["tables_ok"])))
                break
    for n, op in enumerate(ops, 1):
        out = r.step(op)
        res["outcomes"].append(out)
        if views is not None and not res["diffs"]:
            mv = views[n]
            if mv["outcome"] != out:
                res["diffs"].append((n, op, "outcome: model %r impl %r" % (mv["outcome"], out)))
            else:
                d = diff_views(mv, impl_view(r.prs))
                if d:
                    res["diffs"].append((n, op, d))
                elif out == "S":
                    d = diff_saved(mv["phys"], r.saved)
                    if d:
                        res["diffs"].append((n, op, "saved package: " + d))
        if out == "S":
            res["nsaves"] += 1
            if not res["oracle"]:
                bad = oracle_save(r, ops[:n])
                if views is not None and not res["diffs"]:
                    mclosed = views[n]["phys"]["closed"] == "11111"
                    oclosed = not [b for b in bad if b[0] not in ("reopen-differs", "reopen-fails", "link-retargeted")]
                    if mclosed != oclosed:
                        res["diffs"].append((n, op, "Closed verdict: model %s (%s) oracle %r" % (mclosed, views[n]["phys"]["closed"], bad[:2])))
                for sig, text in bad:
                    res["oracle"].append((sig, text, n))
    return res


def fails_with(deck_name, ops, sig):
    res = run_one(deck_name, ops, model_lines=None)
    return any(s == sig for s, _t, _n in res["oracle"])


def shrink(deck_name, ops, pred):
    """delta debugging (ddmin) on the operation list"""
    ops = list(ops)
    n = 2
    while len(ops) >= 2:
        chunk = max(1, len(ops) // n)
        reduced = False
        for i in range(0, len(ops), chunk):
            cand = ops[:i] + ops[i + chunk:]
            if cand and pred(cand):
                ops = cand
                n = max(n - 1, 2)
                reduced = True
                break
        if not reduced:
            if chunk == 1:
                break
            n = min(len(ops), n * 2)
    return ops


def model_views(deck_name, ops_list, mode="n"):
    g = graph_of_zip(decks()[deck_name])
    tab = intern_table(g)
    lines = run_model("C02", [case_fields(mode, g, tab, ops) for ops in ops_list])
    return [parse_model(tab, l) for l in lines]


def every_prefix(ops):
    out = [("SV",)]
    for o in ops:
        out.append(o)
        if o != ("SV",):
            out.append(("SV",))
    return out


def directed_histories():
    """Deterministic histories aimed at relationships with several users: two and three links of
    one kind on one slide sharing a relationship (run links, shape links, both on one text box,
    slide jumps), then one of them cleared, changed to another address, set back, the others read
    and cleared in turn, a save after each stage; the same URL on two slides (two parts, two
    relationships); two pictures of one image; the notes-slide jump to its own and to another slide."""
    F = Files.get()
    u, v = URLS[0], URLS[2]
    img = (F.images[0][1], F.images[0][2], F.images[0][3])
    img2 = (F.images[2][1], F.images[2][2], F.images[2][3])
    hs = []

    def link(name, slots):
        """slots: list of (which, text box); the first is the one that is cleared / changed"""
        n = max(j for _w, j in slots) + 1
        ops = [("PS", 0)] * n
        ops += [("LK", w, 0, j, u) for w, j in slots] + [("SV",)]
        w0, j0 = slots[0]
        others = slots[1:]
        ops += [("CL", w0, 0, j0), ("SV",)] + [("RL", w, 0, j) for w, j in others]
        ops += [("LK", w0, 0, j0, u), ("SV",), ("LK", w0, 0, j0, v), ("SV",)] + [("RL", w, 0, j) for w, j in others]
        ops += [("LK", w0, 0, j0, u), ("SV",)]
        for w, j in others:
            ops += [("CL", w, 0, j), ("SV",), ("RL", w0, 0, j0)]
        ops += [("CL", w0, 0, j0), ("SV",)]
        hs.append((name, ops))

    for w, wn in (("r", "run"), ("c", "shape")):
        link("two-%s-links" % wn, [(w, 0), (w, 1)])
        link("two-%s-links-other-cleared" % wn, [(w, 1), (w, 0)])
        link("three-%s-links" % wn, [(w, 0), (w, 1), (w, 2)])
    link("run-and-shape-link-one-box", [("r", 0), ("c", 0)])
    link("shape-and-run-link-two-boxes", [("c", 0), ("r", 1)])
    link("one-link", [("r", 0)])
    for n in (2, 3):
        ops = [("PS", 0)] * n + [("JP", 0, j, 1) for j in range(n)] + [("SV",)]
        ops += [("CJ", 0, 0), ("SV",), ("JP", 0, 0, 1), ("SV",), ("JP", 0, 0, 0), ("SV",), ("JP", 0, 0, 1), ("SV",)]
        ops += [("RL", "c", 0, 1)]
        for j in range(1, n):
            ops += [("CJ", 0, j), ("SV",)]
        ops += [("CJ", 0, 0), ("SV",)]
        hs.append(("%d-jumps-one-target" % n, ops))
    hs.append(("jump-and-link-same-box", [("PS", 0), ("PS", 0), ("JP", 0, 0, 1), ("LK", "c", 0, 1, u), ("LK", "r", 0, 0, u), ("SV",),
                                          ("LK", "c", 0, 0, u), ("SV",), ("CL", "c", 0, 1), ("SV",), ("RL", "c", 0, 0), ("RL", "r", 0, 0)]))
    for w in "rc":
        hs.append(("same-url-two-slides-%s" % w, [("PS", 0), ("PS", 1), ("LK", w, 0, 0, u), ("LK", w, 1, 0, u), ("SV",), ("CL", w, 0, 0), ("SV",),
                                                   ("RL", w, 1, 0), ("LK", w, 0, 0, v), ("SV",), ("LK", w, 1, 0, v), ("SV",), ("CL", w, 1, 0), ("SV",)]))
    hs.append(("two-pictures-one-image", [("PI", 0, img), ("PI", 0, img), ("SV",), ("PI", 0, img2), ("PI", 1, img), ("SV",)]))
    hs.append(("notes-jump-own-slide", [("NT", 0), ("NJ", 0, 0), ("SV",), ("CN", 0), ("SV",), ("NJ", 0, 1), ("SV",), ("NJ", 0, 0), ("SV",), ("CN", 0), ("SV",)]))
    return hs


def directed_add_slide():
    """add_slide where the conventional next part name may be taken (decks OUTSIDE_INV: by a related, unlisted slide
    part), several times in a row, before and after a first access of prs.slides, then work on the new slides."""
    F = Files.get()
    img = (F.images[0][1], F.images[0][2], F.images[0][3])
    hs = []
    hs.append(("add-slides", [("SL", 6), ("SV",), ("SL", 1), ("SV",), ("SL", 8), ("SV",), ("SL", 6), ("SV",)]))
    hs.append(("access-then-add-slides", [("AS",), ("SV",), ("SL", 6), ("SL", 6), ("SV",), ("SL", 6), ("SV",)]))
    hs.append(("add-slides-then-work", [("SL", 6), ("SL", 6), ("PS", 2), ("PI", 3, img), ("NT", 2), ("JP", 2, 0, 3), ("SV",), ("CH", 3), ("SL", 5), ("SV",)]))
    return hs


def directed_worker(job):
    deck_name, name, ops = job
    if deck_name == "default":
        ops = [("SL", 6), ("SL", 6)] + list(ops)
    vs = [("directed:" + name, list(ops) + [("SV",)]), ("directed:" + name + "+save-every-prefix", every_prefix(ops))]
    return run_variants(deck_name, vs, "directed:" + name)


def worker(job):
    """One history: all its variants, on implementation and model."""
    hseed, tier_len = job
    rng = random.Random(hseed)
    names = list(decks().keys())
    deck_name = rng.choice(["default", "default", "rich"] + names)
    n = rng.randint(1, tier_len)
    ops = gen_history(rng, deck_name, n)
    return run_variants(deck_name, variants(rng, deck_name, ops), hseed)


def run_variants(deck_name, vs, hseed):
    out = {"hseed": hseed, "deck": deck_name, "results": [], "klass": {}}
    try:
        mviews = model_views(deck_name, [v[1] for v in vs])
    except Exception as e:  # noqa
        out["model_error"] = "%s: %s" % (type(e).__name__, e)
        mviews = [None] * len(vs)
    for (vname, vops), mv in zip(vs, mviews):
        res = run_one(deck_name, vops, model_lines=mv)
        shr = {}
        for sig, text, step in res["oracle"]:
            if sig not in shr:
                try:
                    shr[sig] = shrink(deck_name, vops[:step], lambda c, s=sig: fails_with(deck_name, c, s))
                except Exception as e:  # noqa
                    shr[sig] = vops[:step]
        out["results"].append({"variant": vname, "ops": vops, "diffs": res["diffs"], "oracle": res["oracle"],
                               "min": shr, "outcomes": res["outcomes"], "nsaves": res["nsaves"],
                               "inv_false": res["inv_false"], "inv_states": res["inv_states"]})
    return out


def check_consts(ck):
    got = run_model("C02", [["consts"]])[0].split(S2)
    want = model_consts_expected()
    if got != want:
        bad = [(g, w) for g, w in zip(got, want) if g != w][:3]
        ck.violation("correspondence", "constants of model/PkgOps.v differ from pptx.opc.constants / part classes: %r" % (bad or (len(got), len(want)),),
                     {"theorem_or_correspondence": "constants of model/PkgOps.v ~ pptx.opc.constants", "model_outcome": got, "impl_outcome": want},
                     concrete=False)
        return False
    return True


def nontrivial(ops, outcomes):
    """a history counts when at least two operations changed the package graph and a save followed"""
    changing = sum(1 for o, r in zip(ops, outcomes) if r == "D" and o[0] in ("SL", "PI", "IP", "MV", "CH", "OL", "NT", "LK", "CL", "JP", "CJ", "NJ", "CN", "RM", "CP", "AS"))
    return changing >= 2 and "S" in outcomes


def run(ck, tier, rng):
    # tables of the live tree for the instance example of props/C02.v (shared with C01)
    rc, out = _run(["/venv/bin/python", os.path.join(VERIF, "tx", "tx_c01.py")], cwd=VERIF)
    if rc != 0:
        ck.violation("translator", "tx_c01 failed on the current tree: " + out[-600:],
                     {"theorem_or_correspondence": "translator tx_c01 (default_content_types for C02_ex_tables_live)"}, concrete=False)
    ck.build = coq_build("C02", extra_targets=["gen/GenC01.vo"])
    nh = 400 if tier == "quick" else 3000
    maxlen = 12 if tier == "quick" else 40
    jobs = [(rng.getrandbits(48), maxlen) for _ in range(nh)]
    decks()
    consts_ok = ck.build.ok and check_consts(ck)
    diffs = []
    procs = min(16, os.cpu_count() or 2)
    if not ck.build.ok:
        # without the model the oracle still runs
        global model_views
        model_views = lambda deck_name, ops_list, mode="n": [None] * len(ops_list)  # noqa
    djobs = [(d, name, ops) for d in ("default", "rich", "swap", "gaps", "foreign", "respelled") for name, ops in directed_histories()]
    djobs += [(d, name, ops) for d in OUTSIDE_INV + ("rich", "gaps") for name, ops in directed_add_slide()]
    with multiprocessing.Pool(procs) as pool:
        results = pool.map(directed_worker, djobs, chunksize=2)
        results += pool.map(worker, jobs, chunksize=max(1, nh // (procs * 8)))
    nsaves = 0
    inv_states = 0
    inv_false = []
    outside_inv = 0
    inv_wrongly_true = []
    for out in results:
        if out.get("model_error"):
            diffs.append("model runner: " + out["model_error"])
        for r in out["results"]:
            nsaves += r["nsaves"]
            inv_states += r["inv_states"]
            if out["deck"] in OUTSIDE_INV and r["inv_states"] and not r["inv_false"]:
                inv_wrongly_true.append("deck %s variant %s" % (out["deck"], r["variant"]))
            for step, op, text in r["inv_false"]:
                if out["deck"] in OUTSIDE_INV:
                    outside_inv += 1
                    continue
                inv_false.append("deck %s variant %s step %d op %r: %s; history %r" % (out["deck"], r["variant"], step, op, text, r["ops"][:step]))
            key = (out["deck"], tuple(map(tuple, map(flat, r["ops"]))))
            ck.count(key, nontrivial(r["ops"], r["outcomes"]), "%s/%s" % (out["deck"] if out["deck"] in ("default", "rich") else
                                                                         "unlisted" if out["deck"] in OUTSIDE_INV else "irregular", r["variant"]))
            for o, res in zip(r["ops"], r["outcomes"]):
                kk = "op:%s:%s" % (o[0], res[:1] if not res.startswith("R:") else res)
                ck.dist[kk] = ck.dist.get(kk, 0) + 1
            ck.sample({"deck": out["deck"], "variant": r["variant"], "ops": r["ops"][:8]}, limit=6)
            for step, op, text in r["diffs"]:
                diffs.append("deck %s variant %s step %d op %r: %s" % (out["deck"], r["variant"], step, op, text))
                if len(diffs) <= 3:
                    ck.notes.append(diffs[-1][:600])
            for sig, text, step in r["oracle"]:
                mn = r["min"].get(sig, r["ops"][:step])
                ck.violation(sig, "history on deck %r: %s  -- minimal operation list %r" % (out["deck"], text[:700], mn),
                             {"entry_point": "public API history (see ops), then Presentation.save", "input": {"deck": out["deck"], "ops": mn},
                              "deck": out["deck"], "ops": mn, "full_history": r["ops"][:step], "hseed": out["hseed"],
                              "impl_outcome": text, "oracle_clause": sig})
    concrete = len(ck.violations)
    if diffs and not concrete:
        ck.violation("correspondence", "model/PkgOps.v and python-pptx disagree on %d histories, first: %s; the oracle found no history on which the property itself fails"
                     % (len(diffs), diffs[0][:900]),
                     {"theorem_or_correspondence": "correspondence PkgOps.v ~ package operations of python-pptx (theorems C02_* are about the model only)",
                      "diffs": diffs[:5]}, concrete=False)
    if inv_false and not concrete:
        ck.violation("invariant", "the invariant Inv of props/C02.v (decidable form invb, evaluated by the extracted model) is false at %d states the histories reach, first: %s"
                     % (len(inv_false), inv_false[0][:900]),
                     {"theorem_or_correspondence": "C02_reachable / hypothesis Inv (init deck) of the C02 theorems", "states": inv_false[:5]}, concrete=False)
    if inv_wrongly_true and not concrete:
        ck.violation("invariant-outside", "invb is true on a deck built to break the clause slides_ok of Inv (a related, unlisted slide part): %s"
                     % inv_wrongly_true[0], {"theorem_or_correspondence": "decidable form invb of Inv / decks OUTSIDE_INV", "states": inv_wrongly_true[:5]},
                     concrete=False)
    ck.broken_build(oracle_found_concrete=len(ck.violations) > 0)
    return ck.finish(
        rule="%d directed histories (relationships with two and three users: run links, shape links, jumps, same URL on two slides, two pictures of one image, notes-slide jumps; each set / one cleared / changed / set back / cleared in turn with a save after every stage, on 4 decks, as given and with a save at every prefix) + %d random histories of 1..%d public-API operations (21 operation kinds incl. refused calls and read accesses) over the default template, a deck with pictures/chart/notes/hyperlink, five copies of it with slide members renamed out of order / with gaps, one with parts of unknown classes, one with relationship targets spelled root-absolute / with ./ and ../ detours, and two with related but unlisted slide parts whose names add_slide meets (outside Inv: correspondence, oracle and the theorems without hypothesis on the state; %d directed add_slide histories on them); each history runs as generated + final save and with a save at every prefix (for irregular decks half of those after a first prs.slides access); non-trivial = at least two graph-changing operations succeeded and a save followed" % (len(djobs) * 2, nh, maxlen, 2 * len(directed_add_slide()) * len(OUTSIDE_INV)),
        trusted_base=TB, assumptions=ASSUME,
        extra={"correspondence_diffs": len(diffs), "saves_checked_by_oracle": nsaves, "constants_ok": consts_ok,
               "directed_histories": len(djobs) * 2,
               "states_on_which_invb_was_evaluated": inv_states, "states_with_invb_false": len(inv_false),
               "histories_on_decks_outside_inv": outside_inv,
               "exhaustive": False},
    )


def flat(op):
    out = []
    for a in op:
        if isinstance(a, (list, tuple)):
            out += list(a)
        else:
            out.append(a)
    return out


def replay(rec):
    inp = rec.get("input") or {}
    deck_name = inp.get("deck") or rec.get("deck")
    ops = [tuple(tuple(a) if isinstance(a, list) else a for a in op) for op in (inp.get("ops") or rec.get("ops"))]
    print("deck", deck_name)
    print("ops ", ops)
    mv = model_views(deck_name, [ops])[0]
    res = run_one(deck_name, ops, model_lines=mv)
    print("impl outcomes ", res["outcomes"])
    print("model outcomes", [v["outcome"] for v in mv[1:]])
    for n, v in enumerate(mv):
        if v["phys"]:
            print("model Closed flags at step %d (names,types,targets,refs,main): %s" % (n, v["phys"]["closed"]))
    for d in res["diffs"]:
        print("DIFF", d)
    for o in res["oracle"]:
        print("ORACLE", o)
    mvn = model_views(deck_name, [ops], mode="c")[0]
    for n, v in enumerate(mvn):
        if v["phys"]:
            print("model of the former code (lazyproperty target_ref), Closed flags at step %d: %s" % (n, v["phys"]["closed"]))
    return 1 if (res["diffs"] or res["oracle"]) else 0


CLAIM = {
    "tech": "Coq proof over a Gallina state machine of the package graph (parts, relationships, r:* references, lazyproperty caches) + extracted-model correspondence on random public-API histories + independent zip oracle at every prefix + re-open comparison",
    "text": "23 theorems (C02_*) closed under the global context over a faithful model of the part/relationship operations (21 operation kinds incl. refused calls and read accesses): every operation preserves a state invariant Inv (C02_step, C02_reachable, no size bound), Inv gives Closed for every package any save of any history writes (C02_save_closed, C02_every_save_closed: unique members, one content type per part equal to the created/loaded one, every internal Target names the member of the part the relationship points to, every r:* id defined, officeDocument reaches the presentation part) and re-opening by name resolution gives back the graph (C02_reopen); the part name add_slide gives the new slide (_next_slide_partname as repaired by 086e8ef1) is a slide part name no reached part carries in EVERY state, invariant or not (C02_add_slide_name_fresh, C02_add_slide_new_part_fresh, witness deck with a related but unlisted slide part: C02_add_slide_unlisted_witness), and the conventional slide<n+1>.xml under Inv (C02_add_slide_name_conventional); drop_rel reference counting (C02_drop_rel_*), the implicit-relationship edge (C02_implicit_rel_*) and the regression witness of the repaired stale-Target defect (C02_stale_target_regression). The model is tied to python-pptx by executing random public-API histories on both and comparing the whole abstract state after every step and every saved zip; an independent oracle (zipfile + lxml) evaluates the statement on every saved file and re-opens it.",
    "note": "The XML of a part is represented by the r:* references it holds (shape XML itself is C03); shape kinds without parts collapse to one text-box operation; lxml, zipfile, Pillow, XlsxWriter payloads are outside the model; C02_reopen states the loader's name resolution structurally (that _PackageLoader performs it is C01); Override part names are compared exactly in the model (names differing only in case are outside; the oracle compares them the OPC way); hypotheses Inv(init deck) and tables_ok are evaluated in their decidable, proved-sound forms on every deck, every reached state and the live default_content_types (two decks with a related but unlisted slide part are outside Inv on purpose: there the correspondence, the oracle and the theorems without hypothesis on the state apply; Inv still asks that every reached part under /ppt/slides be listed, which is what excludes the rename collision of the first access of prs.slides, C06 / C13 unlisted-slide-partname-collision); use-after-remove of a layout object and 2^31 slides are outside the operation alphabet.",
    "ref": "6/C02",
}
