(** Runner entry point for the bit-exact validation of lib/PyFloat.v against CPython
    (corr/validate_pyfloat.py).  [run_pyfloat args]: first argument is the operation.
    Floats travel as two decimal integers m e (meaning m * 2^e), or with m one of the
    tokens inf, -inf, nan (then e is ignored); they are printed in canonical form. *)
From V.lib Require Import Prelude Wire PyFloat.
Local Open Scope Z_scope.

Definition t_inf : str := [105; 110; 102]%N.            (* inf *)
Definition t_ninf : str := [45; 105; 110; 102]%N.       (* -inf *)
Definition t_nan : str := [110; 97; 110]%N.             (* nan *)

Definition op_fldiv : str := [102; 108; 100; 105; 118]%N.     (* fldiv *)
Definition op_ofz : str := [111; 102; 122]%N.                 (* ofz *)
Definition op_add : str := [97; 100; 100]%N.                  (* add *)
Definition op_sub : str := [115; 117; 98]%N.                  (* sub *)
Definition op_mul : str := [109; 117; 108]%N.                 (* mul *)
Definition op_div : str := [100; 105; 118]%N.                 (* div *)
Definition op_mod : str := [109; 111; 100]%N.                 (* mod *)
Definition op_round : str := [114; 111; 117; 110; 100]%N.     (* round *)
Definition op_trunc : str := [116; 114; 117; 110; 99]%N.      (* trunc *)
Definition op_ofstr : str := [111; 102; 115; 116; 114]%N.     (* ofstr *)
Definition op_intstr : str := [105; 110; 116; 115; 116; 114]%N. (* intstr *)
Definition op_hexstr : str := [104; 101; 120; 115; 116; 114]%N. (* hexstr *)
Definition op_cmp : str := [99; 109; 112]%N.                  (* cmp *)
Definition op_neg : str := [110; 101; 103]%N.                 (* neg *)
Definition op_abs : str := [97; 98; 115]%N.                   (* abs *)
Definition op_strz : str := [115; 116; 114; 122]%N.           (* strz *)

Definition parse_fl (m e : str) : option pyfloat :=
  if str_eqb m t_inf then Some PInf
  else if str_eqb m t_ninf then Some NInf
  else if str_eqb m t_nan then Some NaN
  else match parse_Z m, parse_Z e with
       | Some a, Some b => Some (Fin a b)
       | _, _ => None
       end.

Definition show_fl (x : pyfloat) : str :=
  match f_canon x with
  | Fin m e => show_Z m ++ [32%N] ++ show_Z e
  | PInf => t_inf
  | NInf => t_ninf
  | NaN => t_nan
  end.

Definition show_cmp (c : comparison) : str :=
  match c with
  | Lt => [76; 116]%N
  | Eq => [69; 113]%N
  | Gt => [71; 116]%N
  end.

Definition run_pyfloat (args : list str) : str :=
  match args with
  | [op; a] =>
      if str_eqb op op_ofz then
        match parse_Z a with
        | Some z => show_res show_fl (f_of_Z z)
        | None => w_badcase
        end
      else if str_eqb op op_strz then
        match parse_Z a with
        | Some z => str_of_Z z
        | None => w_badcase
        end
      else if str_eqb op op_ofstr then show_res show_fl (f_of_str a)
      else if str_eqb op op_intstr then show_res show_Z (int_of_str false a)
      else if str_eqb op op_hexstr then show_res show_Z (int_of_str true a)
      else w_badcase
  | [op; a; b] =>
      if str_eqb op op_fldiv then
        match parse_Z a, parse_Z b with
        | Some n, Some d => show_fl (fl_div n d)
        | _, _ => w_badcase
        end
      else
        match parse_fl a b with
        | None => w_badcase
        | Some x =>
            if str_eqb op op_round then show_res show_Z (f_round x)
            else if str_eqb op op_trunc then show_res show_Z (f_trunc x)
            else if str_eqb op op_neg then show_fl (f_neg x)
            else if str_eqb op op_abs then show_fl (f_abs x)
            else w_badcase
        end
  | [op; m1; e1; m2; e2] =>
      match parse_fl m1 e1, parse_fl m2 e2 with
      | Some x, Some y =>
          if str_eqb op op_add then show_fl (f_add x y)
          else if str_eqb op op_sub then show_fl (f_sub x y)
          else if str_eqb op op_mul then show_fl (f_mul x y)
          else if str_eqb op op_div then show_res show_fl (f_div x y)
          else if str_eqb op op_mod then show_res show_fl (f_mod x y)
          else if str_eqb op op_cmp then
            fields [show_opt show_cmp (f_cmp x y); show_bool (f_ltb x y);
                    show_bool (f_leb x y); show_bool (f_eqb x y)]
          else w_badcase
      | _, _ => w_badcase
      end
  | _ => w_badcase
  end.
