(** Proofs about model/XmlTree.v: the generic reader gives back every well-formed tree the
    generic writer wrote (save / re-open of any part, property C09). *)
From V.lib Require Import Prelude.
From V.model Require Import Escape XmlTree.
From V.proofs Require Import Escape_proofs.
Open Scope N_scope.

(** ---- lists ---- *)
Lemma take_while_app (f : N -> bool) (a r : str) :
  forallb f a = true -> match r with [] => True | c :: _ => f c = false end ->
  take_while f (a ++ r) = a.
Proof.
  intros Ha Hr. induction a as [|x a IH]; cbn [app].
  - destruct r as [|c r]; [reflexivity|]. cbn [take_while]. rewrite Hr. reflexivity.
  - cbn [forallb] in Ha. apply andb_true_iff in Ha as [Hx Ha]. cbn [take_while]. rewrite Hx, (IH Ha). reflexivity.
Qed.

Lemma drop_while_app (f : N -> bool) (a r : str) :
  forallb f a = true -> match r with [] => True | c :: _ => f c = false end ->
  drop_while f (a ++ r) = r.
Proof.
  intros Ha Hr. induction a as [|x a IH]; cbn [app].
  - destruct r as [|c r]; [reflexivity|]. cbn [drop_while]. rewrite Hr. reflexivity.
  - cbn [forallb] in Ha. apply andb_true_iff in Ha as [Hx Ha]. cbn [drop_while]. rewrite Hx. exact (IH Ha).
Qed.

Lemma drop_while_head {A} (f : A -> bool) l x b : drop_while f l = x :: b -> f x = false.
Proof.
  induction l as [|y l IH]; cbn [drop_while]; [discriminate|].
  destruct (f y) eqn:E; [exact IH|]. intros H. inversion H; subst. exact E.
Qed.

Lemma forallb_flat_map (f : N -> bool) (g : N -> str) s :
  (forall c, forallb f (g c) = true) -> forallb f (flat_map g s) = true.
Proof.
  intros Hg. induction s as [|c s IH]; [reflexivity|]. cbn [flat_map]. rewrite forallb_app, Hg, IH. reflexivity.
Qed.

(** ---- names ---- *)
Lemma name_start_nc c : is_name_start c = true -> is_nc_char c = true.
Proof. intros H. unfold is_nc_char. rewrite H. reflexivity. Qed.

Lemma nc_name_char c : is_nc_char c = true -> is_name_char c = true.
Proof. intros H. unfold is_name_char. rewrite H. reflexivity. Qed.

Lemma ncname_chars s : ncname s = true ->
  forallb is_name_char s = true /\ exists c r, s = c :: r /\ is_name_start c = true.
Proof.
  destruct s as [|c r]; [discriminate|]. cbn [ncname]. intros H. apply andb_true_iff in H as [Hc Hr]. split.
  - cbn [forallb]. rewrite (nc_name_char c (name_start_nc c Hc)). cbn [andb].
    apply forallb_forall. intros x Hx. apply nc_name_char. exact (proj1 (forallb_forall _ _) Hr x Hx).
  - exists c, r. auto.
Qed.

Lemma colon_name_char : is_name_char c_colon = true.
Proof. reflexivity. Qed.

Lemma qname_chars n : valid_qname n = true ->
  forallb is_name_char n = true /\ exists c r, n = c :: r /\ is_name_start c = true.
Proof.
  unfold valid_qname. intros H.
  destruct (drop_while (not_c c_colon) n) as [|x b] eqn:E.
  - apply ncname_chars. exact H.
  - apply andb_true_iff in H as [Ha Hb].
    pose proof (drop_while_head _ _ _ _ E) as Hx. unfold not_c in Hx. apply negb_false_iff in Hx. apply N.eqb_eq in Hx. subst x.
    pose proof (take_drop_while (not_c c_colon) n) as Hn. rewrite E in Hn.
    destruct (ncname_chars _ Ha) as [Ca [c [r [Ea Hc]]]]. destruct (ncname_chars _ Hb) as [Cb _].
    split.
    + rewrite <- Hn. rewrite forallb_app, Ca. cbn [forallb andb]. rewrite colon_name_char, Cb. reflexivity.
    + exists c, (r ++ c_colon :: b). split; [|exact Hc]. rewrite <- Hn, Ea. reflexivity.
Qed.

Lemma name_start_not c k : is_name_start k = false -> is_name_start c = true -> (c =? k) = false.
Proof. intros Hk Hc. destruct (c =? k) eqn:E; [|reflexivity]. apply N.eqb_eq in E. subst. congruence. Qed.

Lemma name_start_not_blank c : is_name_start c = true -> is_blank c = false.
Proof.
  intros Hc. destruct (is_blank c) eqn:E; [|reflexivity].
  destruct (is_blank_cases c E) as [H|[H|[H|H]]]; subst c; discriminate.
Qed.

(** ---- escaped values hold neither their delimiter ---- *)
Lemma esc_attr_no_quote v : forallb (not_c c_quot) (xesc_attr v) = true.
Proof.
  unfold xesc_attr, sax_escape_qw. rewrite sax_escape_g_flat. apply forallb_flat_map. intros c.
  unfold esc_char_g. rewrite !andb_true_r.
  destruct (c =? c_quot) eqn:Eq; [reflexivity|].
  destruct (c =? c_tab); [reflexivity|]. destruct (c =? c_lf); [reflexivity|]. destruct (c =? c_cr); [reflexivity|].
  unfold esc_char. destruct (c =? c_amp); [reflexivity|]. destruct (c =? c_lt); [reflexivity|]. destruct (c =? c_gt); [reflexivity|].
  cbn [forallb]. unfold not_c. rewrite Eq. reflexivity.
Qed.

Lemma esc_text_no_lt v : forallb (not_c c_lt) (xesc_text v) = true.
Proof.
  unfold xesc_text. pose proof (escaped_cr_no_raw false false false v) as H. unfold no_cr_lt in H.
  apply forallb_forall. intros x Hx. pose proof (proj1 (forallb_forall _ _) H x Hx) as Hc.
  apply andb_true_iff in Hc as [_ Hc]. exact Hc.
Qed.

Lemma attr_value_enc v : xml_str v = true -> attr_value c_quot (xesc_attr v) = Some v.
Proof.
  intros Hx. unfold attr_value. change (c_quot =? c_quot) with true. cbv iota.
  unfold xesc_attr. rewrite (attr_safe_w v Hx). reflexivity.
Qed.

(** ---- attributes ---- *)
Lemma enc_attr_shape k v more :
  enc_attr (k, v) ++ more = c_sp :: k ++ c_eq :: c_quot :: xesc_attr v ++ c_quot :: more.
Proof.
  unfold enc_attr. cbn [fst snd app]. rewrite <- app_assoc. cbn [app]. rewrite <- app_assoc. reflexivity.
Qed.

Lemma parse_attr1_enc k v more : valid_qname k = true -> xml_str v = true ->
  parse_attr1 (k ++ c_eq :: c_quot :: xesc_attr v ++ c_quot :: more) = Some (k, v, more).
Proof.
  intros Hk Hv. destruct (qname_chars k Hk) as [Ck _]. unfold parse_attr1.
  rewrite (take_while_app is_name_char k (c_eq :: c_quot :: xesc_attr v ++ c_quot :: more) Ck) by reflexivity. rewrite Hk.
  rewrite (drop_while_app is_name_char k (c_eq :: c_quot :: xesc_attr v ++ c_quot :: more) Ck) by reflexivity.
  change (drop_while is_blank (c_eq :: c_quot :: xesc_attr v ++ c_quot :: more)) with (c_eq :: c_quot :: xesc_attr v ++ c_quot :: more).
  change (c_eq =? c_eq) with true. cbv iota.
  change (drop_while is_blank (c_quot :: xesc_attr v ++ c_quot :: more)) with (c_quot :: xesc_attr v ++ c_quot :: more).
  change ((c_quot =? c_quot) || (c_quot =? c_apos)) with true. cbv iota.
  rewrite (drop_while_app (not_c c_quot) _ (c_quot :: more) (esc_attr_no_quote v)) by reflexivity.
  rewrite (take_while_app (not_c c_quot) _ (c_quot :: more) (esc_attr_no_quote v)) by reflexivity.
  rewrite (attr_value_enc v Hv). reflexivity.
Qed.

Lemma parse_attrs_step x f k v more : valid_qname k = true -> xml_str v = true ->
  parse_attrs (x :: f) (enc_attr (k, v) ++ more) =
  match parse_attrs f more with Some (l, sc, rest) => Some ((k, v) :: l, sc, rest) | None => None end.
Proof.
  intros Hk Hv. rewrite enc_attr_shape. destruct (qname_chars k Hk) as [_ [c [r [Ek Hc]]]].
  pose proof (parse_attr1_enc k v more Hk Hv) as P1. rewrite Ek in *. cbn [app] in *.
  cbn [parse_attrs]. change (is_blank c_sp) with true. cbv iota. cbn [drop_while].
  change (is_blank c_sp) with true. cbv iota.
  rewrite (name_start_not_blank c Hc).
  rewrite (name_start_not c c_gt eq_refl Hc), (name_start_not c c_slash eq_refl Hc).
  rewrite P1. reflexivity.
Qed.

Lemma parse_attrs_enc a : forallb wf_attr a = true -> forall fuel (sc : bool) rest,
  (length a < length fuel)%nat ->
  parse_attrs fuel (enc_attrs a ++ (if sc then c_slash :: c_gt :: rest else c_gt :: rest)) = Some (a, sc, rest).
Proof.
  induction a as [|[k v] a IH]; intros Hw fuel sc rest Hf.
  - destruct fuel as [|x f]; [cbn in Hf; lia|]. cbn [enc_attrs flat_map app]. destruct sc; reflexivity.
  - destruct fuel as [|x f]; [cbn in Hf; lia|].
    cbn [forallb] in Hw. apply andb_true_iff in Hw as [Hkv Hw]. unfold wf_attr in Hkv. cbn [fst snd] in Hkv.
    apply andb_true_iff in Hkv as [Hk Hv].
    unfold enc_attrs. cbn [flat_map]. fold (enc_attrs a). rewrite <- app_assoc.
    rewrite (parse_attrs_step x f k v _ Hk Hv). rewrite (IH Hw f sc rest) by (cbn [length] in Hf; lia). reflexivity.
Qed.

Lemma enc_attrs_length a : (length a <= length (enc_attrs a))%nat.
Proof.
  induction a as [|kv a IH]; [cbn; lia|]. unfold enc_attrs. cbn [flat_map]. fold (enc_attrs a).
  rewrite app_length. unfold enc_attr. cbn [length]. lia.
Qed.

Lemma parse_head_enc n a (sc : bool) rest : valid_qname n = true -> forallb wf_attr a = true -> distinct (map fst a) = true ->
  parse_head (n ++ enc_attrs a ++ (if sc then c_slash :: c_gt :: rest else c_gt :: rest)) = Some (n, a, sc, rest).
Proof.
  intros Hn Ha Hd. destruct (qname_chars n Hn) as [Cn _]. unfold parse_head.
  assert (Hstop : match enc_attrs a ++ (if sc then c_slash :: c_gt :: rest else c_gt :: rest) with [] => True | c :: _ => is_name_char c = false end).
  { destruct a as [|[k v] a]; [destruct sc; reflexivity|]. reflexivity. }
  rewrite (take_while_app is_name_char n _ Cn Hstop), Hn, (drop_while_app is_name_char n _ Cn Hstop).
  rewrite (parse_attrs_enc a Ha).
  - rewrite Hd. reflexivity.
  - rewrite !app_length. pose proof (enc_attrs_length a). destruct sc; cbn [length]; lia.
Qed.

(** ---- end tags and leaf text ---- *)
Lemma parse_end_enc n rest : valid_qname n = true -> parse_end n (n ++ c_gt :: rest) = Some rest.
Proof.
  intros Hn. destruct (qname_chars n Hn) as [Cn _]. unfold parse_end.
  rewrite (take_while_app is_name_char n (c_gt :: rest) Cn) by reflexivity. rewrite str_eqb_refl.
  rewrite (drop_while_app is_name_char n (c_gt :: rest) Cn) by reflexivity. reflexivity.
Qed.

Lemma leaf_of_enc n a tx : xml_str tx = true -> leaf_of n a (xesc_text tx) = Some (canon (XLeaf n a tx)).
Proof.
  intros Hx. pose proof (text_safe_r tx false false false Hx) as H. fold (xesc_text tx) in H.
  unfold leaf_of. destruct (xesc_text tx) as [|c raw].
  - change (lex_text []) with (OneText []) in H. inversion H. reflexivity.
  - rewrite H. destruct tx; reflexivity.
Qed.

(** ---- shape of what the writer writes ---- *)
Definition name_of (t : xtree) : str := match t with XNode n _ _ => n | XLeaf n _ _ => n end.

Lemma enc_tree_shape t : exists body, enc_tree t = c_lt :: name_of t ++ body.
Proof.
  destruct t as [n a ks|n a tx]; cbn [enc_tree name_of].
  - destruct ks; eexists; reflexivity.
  - eexists; reflexivity.
Qed.

Lemma wf_name t : wf_tree t = true -> valid_qname (name_of t) = true.
Proof.
  destruct t; cbn [wf_tree name_of]; intros H; repeat (apply andb_true_iff in H as [H ?]); exact H.
Qed.

(** what follows the less-than sign of an element: a character that starts a name *)
Lemma enc_tree_head t : wf_tree t = true ->
  exists c r, enc_tree t = c_lt :: c :: r /\ is_name_start c = true.
Proof.
  intros Hw. destruct (enc_tree_shape t) as [body E]. destruct (qname_chars _ (wf_name t Hw)) as [_ [c [r [En Hc]]]].
  exists c, (r ++ body). rewrite E, En. split; [reflexivity|exact Hc].
Qed.

Lemma enc_tree_length t : (1 <= length (enc_tree t))%nat.
Proof. destruct (enc_tree_shape t) as [body E]. rewrite E. cbn [length]. lia. Qed.

(** ---- induction over trees (the children are a list of trees) ---- *)
Fixpoint xtree_ind2 (P : xtree -> Prop)
  (HN : forall n a ks, Forall P ks -> P (XNode n a ks))
  (HL : forall n a tx, P (XLeaf n a tx)) (t : xtree) : P t :=
  match t with
  | XNode n a ks =>
      HN n a ks ((fix go (l : list xtree) : Forall P l :=
                    match l with
                    | [] => Forall_nil P
                    | k :: r => Forall_cons k (xtree_ind2 P HN HL k) (go r)
                    end) ks)
  | XLeaf n a tx => HL n a tx
  end.

(** the element lemma: the parser, standing after the less-than sign of what the writer wrote
    for [t], with enough fuel, gives the tree and stops right after it *)
Definition elem_ok (t : xtree) : Prop :=
  forall fuel rest, (length (enc_tree t) <= length fuel)%nat ->
  parse_elem fuel (tl (enc_tree t) ++ rest) = Some (canon t, rest).

Definition kids_ok (ks : list xtree) : Prop :=
  forall fuel nm rest, (length (flat_map enc_tree ks) < length fuel)%nat -> valid_qname nm = true ->
  parse_kids fuel nm (flat_map enc_tree ks ++ end_tag nm ++ rest) = Some (map canon ks, rest).

Lemma end_tag_app n rest : end_tag n ++ rest = c_lt :: c_slash :: n ++ c_gt :: rest.
Proof. unfold end_tag. cbn [app]. rewrite <- app_assoc. reflexivity. Qed.

Lemma tw_lt r : take_while (not_c c_lt) (c_lt :: r) = [].
Proof. reflexivity. Qed.
Lemma dw_lt r : drop_while (not_c c_lt) (c_lt :: r) = c_lt :: r.
Proof. reflexivity. Qed.

Lemma kids_ok_of ks : Forall (fun k => wf_tree k = true -> elem_ok k) ks -> forallb wf_tree ks = true -> kids_ok ks.
Proof.
  induction ks as [|k ks IH]; intros HF Hw fuel nm rest Hf Hn.
  - destruct fuel as [|x f]; [cbn in Hf; lia|]. cbn [flat_map app map]. rewrite end_tag_app.
    cbn [parse_kids]. rewrite tw_lt, dw_lt.
    change (all_blank []) with true. cbv iota. change (c_slash =? c_slash) with true. cbv iota.
    rewrite (parse_end_enc nm rest Hn). reflexivity.
  - destruct fuel as [|x f]; [cbn in Hf; lia|].
    cbn [forallb] in Hw. apply andb_true_iff in Hw as [Hk Hw].
    inversion HF as [|k' ks' Pk Pks]; subst.
    destruct (enc_tree_head k Hk) as [c [r [Ek Hc]]].
    cbn [flat_map map] in *. rewrite app_length in Hf. cbn [length] in Hf.
    pose proof (Pk Hk f (flat_map enc_tree ks ++ end_tag nm ++ rest)) as Ek2.
    rewrite <- app_assoc. rewrite Ek in *. cbn [tl app length] in *.
    cbn [parse_kids]. rewrite tw_lt, dw_lt.
    change (all_blank []) with true. cbv iota.
    rewrite (name_start_not c c_slash eq_refl Hc).
    rewrite Ek2 by lia.
    rewrite (IH Pks Hw f nm rest) by (try exact Hn; lia). reflexivity.
Qed.

Lemma elem_ok_all t : wf_tree t = true -> elem_ok t.
Proof.
  induction t as [n a ks IHks|n a tx] using xtree_ind2; intros Hw fuel rest Hf.
  - cbn [wf_tree] in Hw. apply andb_true_iff in Hw as [Hw Hks]. apply andb_true_iff in Hw as [Hw Hd].
    apply andb_true_iff in Hw as [Hn Ha].
    destruct fuel as [|x f]; [pose proof (enc_tree_length (XNode n a ks)) as L0; cbn [length] in Hf; lia|].
    destruct ks as [|k ks].
    + cbn [enc_tree tl canon map]. rewrite <- !app_assoc. cbn [app].
      cbn [parse_elem]. rewrite (parse_head_enc n a true rest Hn Ha Hd). reflexivity.
    + pose proof (kids_ok_of (k :: ks) IHks Hks) as K.
      assert (Hk : wf_tree k = true). { cbn [forallb] in Hks. apply andb_true_iff in Hks as [Hk _]. exact Hk. }
      destruct (enc_tree_head k Hk) as [c [r [Ek Hc]]].
      cbn [enc_tree tl canon]. cbn [enc_tree length] in Hf.
      rewrite <- !app_assoc. cbn [app]. rewrite <- !app_assoc.
      cbn [parse_elem]. rewrite (parse_head_enc n a false _ Hn Ha Hd). cbv iota.
      specialize (K f n rest).
      rewrite !app_length in Hf. cbn [length] in Hf. rewrite !app_length in Hf.
      rewrite K by (try exact Hn; lia).
      cbn [flat_map]. rewrite Ek. cbn [app].
      rewrite tw_lt, dw_lt.
      rewrite (name_start_not c c_slash eq_refl Hc). change (all_blank []) with true. cbv iota. reflexivity.
  - cbn [wf_tree] in Hw. apply andb_true_iff in Hw as [Hw Hx]. apply andb_true_iff in Hw as [Hw Hd].
    apply andb_true_iff in Hw as [Hn Ha].
    destruct fuel as [|x f]; [pose proof (enc_tree_length (XLeaf n a tx)) as L0; cbn [length] in Hf; lia|].
    cbn [enc_tree tl]. rewrite <- !app_assoc. cbn [app]. rewrite <- !app_assoc. rewrite end_tag_app.
    cbn [parse_elem]. rewrite (parse_head_enc n a false _ Hn Ha Hd). cbv iota.
    rewrite (drop_while_app (not_c c_lt) (xesc_text tx) (c_lt :: c_slash :: n ++ c_gt :: rest) (esc_text_no_lt tx)) by reflexivity.
    rewrite (take_while_app (not_c c_lt) (xesc_text tx) (c_lt :: c_slash :: n ++ c_gt :: rest) (esc_text_no_lt tx)) by reflexivity.
    change (c_slash =? c_slash) with true. cbv iota.
    rewrite (parse_end_enc n rest Hn), (leaf_of_enc n a tx Hx). reflexivity.
Qed.

(** ---- the round trip ---- *)
Theorem dec_enc_tree_canon t : wf_tree t = true -> dec_tree (enc_tree t) = Some (canon t).
Proof.
  intros Hw. pose proof (elem_ok_all t Hw (enc_tree t) [] (le_n _)) as H. rewrite app_nil_r in H.
  destruct (enc_tree_shape t) as [body E]. unfold dec_tree. rewrite E in *. cbn [tl] in H.
  change (c_lt =? c_lt) with true. cbv iota. rewrite H. reflexivity.
Qed.

Lemma skip_decl_enc e : skip_decl (xml_decl ++ e) = Some (c_lf :: e).
Proof. reflexivity. Qed.

Theorem dec_enc_doc_canon t : wf_tree t = true -> dec_doc (enc_doc t) = Some (canon t).
Proof.
  intros Hw. unfold dec_doc, enc_doc. rewrite skip_decl_enc.
  assert (Hf : (length (enc_tree t) <= length (xml_decl ++ enc_tree t))%nat) by (rewrite app_length; lia).
  pose proof (elem_ok_all t Hw (xml_decl ++ enc_tree t) [] Hf) as H. rewrite app_nil_r in H.
  destruct (enc_tree_shape t) as [body E]. rewrite E in *. cbn [tl] in H.
  change (drop_while is_blank (c_lf :: c_lt :: name_of t ++ body)) with (c_lt :: name_of t ++ body).
  change (c_lt =? c_lt) with true. cbv iota. rewrite H. reflexivity.
Qed.

(** ---- the two spellings of an element without content ---- *)
Lemma map_id_Forall {A} (f : A -> A) (P : A -> bool) l :
  Forall (fun x => P x = true -> f x = x) l -> forallb P l = true -> map f l = l.
Proof.
  induction l as [|x l IH]; intros HF Hp; [reflexivity|].
  inversion HF; subst. cbn [forallb] in Hp. apply andb_true_iff in Hp as [Hx Hl].
  cbn [map]. rewrite H1 by exact Hx. rewrite IH; auto.
Qed.

Lemma canon_strict t : strict t = true -> canon t = t.
Proof.
  induction t as [n a ks IH|n a tx] using xtree_ind2; cbn [strict canon]; intros H.
  - rewrite (map_id_Forall canon strict ks IH H). reflexivity.
  - destruct tx; [discriminate|reflexivity].
Qed.

Lemma strict_canon t : strict (canon t) = true.
Proof.
  induction t as [n a ks IH|n a tx] using xtree_ind2; cbn [canon].
  - cbn [strict]. induction IH as [|k ks Hk _ IHks]; [reflexivity|]. cbn [map forallb]. rewrite Hk, IHks. reflexivity.
  - destruct tx; reflexivity.
Qed.

Lemma wf_canon t : wf_tree t = true -> wf_tree (canon t) = true.
Proof.
  induction t as [n a ks IH|n a tx] using xtree_ind2; cbn [canon wf_tree]; intros H.
  - apply andb_true_iff in H as [H Hks]. rewrite H. cbn [andb].
    induction IH as [|k ks Hk _ IHks]; [reflexivity|]. cbn [forallb] in Hks. apply andb_true_iff in Hks as [H1 H2].
    cbn [map forallb]. rewrite (Hk H1), (IHks H2). reflexivity.
  - destruct tx as [|c tx]; [|exact H]. cbn [wf_tree]. apply andb_true_iff in H as [H _]. rewrite H. reflexivity.
Qed.

Lemma canon_idem t : canon (canon t) = canon t.
Proof. apply canon_strict, strict_canon. Qed.

(** the statement for trees without an empty text node: exactly the tree *)
Theorem dec_enc_tree t : wf_tree t = true -> strict t = true -> dec_tree (enc_tree t) = Some t.
Proof. intros Hw Hs. rewrite (dec_enc_tree_canon t Hw), (canon_strict t Hs). reflexivity. Qed.

Theorem dec_enc_doc t : wf_tree t = true -> strict t = true -> dec_doc (enc_doc t) = Some t.
Proof. intros Hw Hs. rewrite (dec_enc_doc_canon t Hw), (canon_strict t Hs). reflexivity. Qed.

(** ---- corollaries ---- *)
Theorem enc_tree_injective_canon t1 t2 : wf_tree t1 = true -> wf_tree t2 = true ->
  enc_tree t1 = enc_tree t2 -> canon t1 = canon t2.
Proof.
  intros H1 H2 E. pose proof (dec_enc_tree_canon t1 H1) as D1. rewrite E, (dec_enc_tree_canon t2 H2) in D1.
  inversion D1. reflexivity.
Qed.

Theorem enc_tree_injective t1 t2 : wf_tree t1 = true -> wf_tree t2 = true -> strict t1 = true -> strict t2 = true ->
  enc_tree t1 = enc_tree t2 -> t1 = t2.
Proof.
  intros H1 H2 S1 S2 E. rewrite <- (canon_strict t1 S1), <- (canon_strict t2 S2).
  apply enc_tree_injective_canon; assumption.
Qed.

Theorem enc_doc_injective t1 t2 : wf_tree t1 = true -> wf_tree t2 = true -> strict t1 = true -> strict t2 = true ->
  enc_doc t1 = enc_doc t2 -> t1 = t2.
Proof.
  intros H1 H2 S1 S2 E. pose proof (dec_enc_doc t1 H1 S1) as D1. rewrite E, (dec_enc_doc t2 H2 S2) in D1.
  inversion D1. reflexivity.
Qed.

Theorem reopen_cycles_strict n t : wf_tree t = true -> strict t = true -> xreopen_cycles n t = Some t.
Proof.
  intros Hw Hs. induction n as [|n IH]; [reflexivity|]. cbn [xreopen_cycles]. rewrite (dec_enc_doc t Hw Hs). exact IH.
Qed.

(** any number of cycles (at least one) gives the tree with every empty text node removed *)
Theorem reopen_cycles_canon n t : wf_tree t = true -> xreopen_cycles (S n) t = Some (canon t).
Proof.
  intros Hw. cbn [xreopen_cycles]. rewrite (dec_enc_doc_canon t Hw).
  apply reopen_cycles_strict; [apply wf_canon; exact Hw|apply strict_canon].
Qed.

(** every getter is a function of the tree: it reads after save / re-open what it read before *)
Theorem reopen_any_getter {A} (g : xtree -> A) t : wf_tree t = true -> strict t = true ->
  option_map g (dec_doc (enc_doc t)) = Some (g t).
Proof. intros Hw Hs. rewrite (dec_enc_doc t Hw Hs). reflexivity. Qed.

Theorem reopen_any_getter_canon {A} (g : xtree -> A) t : wf_tree t = true ->
  option_map g (dec_doc (enc_doc t)) = Some (g (canon t)).
Proof. intros Hw. rewrite (dec_enc_doc_canon t Hw). reflexivity. Qed.

(** a getter that does not tell an absent text node from an empty one (every text getter of
    python-pptx: None is read as the empty string) reads the same on every well-formed tree *)
Theorem reopen_any_getter_blind {A} (g : xtree -> A) : (forall t, g (canon t) = g t) ->
  forall t, wf_tree t = true -> option_map g (dec_doc (enc_doc t)) = Some (g t).
Proof. intros Hg t Hw. rewrite (reopen_any_getter_canon g t Hw), Hg. reflexivity. Qed.

(** ---- the statements property C09 cites, bundled ---- *)
Theorem C09_reopen_tree_all : forall t, wf_tree t = true ->
  dec_doc (enc_doc t) = Some (canon t)
  /\ dec_tree (enc_tree t) = Some (canon t)
  /\ (strict t = true -> dec_doc (enc_doc t) = Some t /\ dec_tree (enc_tree t) = Some t).
Proof.
  intros t Hw. split; [apply dec_enc_doc_canon; exact Hw|]. split; [apply dec_enc_tree_canon; exact Hw|].
  intros Hs. split; [apply dec_enc_doc|apply dec_enc_tree]; assumption.
Qed.

Theorem C09_reopen_cycles_all : forall n t, wf_tree t = true ->
  xreopen_cycles (S n) t = Some (canon t) /\ (strict t = true -> xreopen_cycles n t = Some t).
Proof. intros n t Hw. split; [apply reopen_cycles_canon; exact Hw|intros Hs; apply reopen_cycles_strict; assumption]. Qed.

Theorem C09_any_getter_all : forall (A : Type) (g : xtree -> A) t, wf_tree t = true ->
  option_map g (dec_doc (enc_doc t)) = Some (g (canon t))
  /\ (strict t = true -> option_map g (dec_doc (enc_doc t)) = Some (g t))
  /\ ((forall u, g (canon u) = g u) -> option_map g (dec_doc (enc_doc t)) = Some (g t)).
Proof.
  intros A g t Hw. split; [apply reopen_any_getter_canon; exact Hw|]. split.
  - intros Hs. apply reopen_any_getter; assumption.
  - intros Hg. apply reopen_any_getter_blind; assumption.
Qed.

Theorem C09_injective_all : forall t1 t2, wf_tree t1 = true -> wf_tree t2 = true ->
  (enc_tree t1 = enc_tree t2 -> canon t1 = canon t2)
  /\ (strict t1 = true -> strict t2 = true ->
      (enc_tree t1 = enc_tree t2 -> t1 = t2) /\ (enc_doc t1 = enc_doc t2 -> t1 = t2)).
Proof.
  intros t1 t2 H1 H2. split; [apply enc_tree_injective_canon; assumption|].
  intros S1 S2. split; [apply enc_tree_injective|apply enc_doc_injective]; assumption.
Qed.
