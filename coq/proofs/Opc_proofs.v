(** Proofs about model/Opc.v. *)
From V.lib Require Import Prelude.
From V.model Require Import PackUri Opc.
From V.proofs Require Import Prelude_proofs PackUri_proofs.
