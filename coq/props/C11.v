(** C11 -- accepted attribute values are exactly those the schema can represent.
    Generic theorems + instance over the simple-type classes (shallow Gallina regenerated
    from src/pptx/oxml/simpletypes.py), the attribute declarations of the live element
    classes and the XSD facets, all re-extracted from /repo on this run. *)
From V.lib Require Import Prelude PyFloat PyVal.
From V.model Require Import SimpleTypeLib.
From V.proofs Require Import PyFloat_proofs SimpleTypeLib_proofs C11_instance C11_float_instance C11_write_instance C11_rows_custom
  C11_regex C11_patterns C11_read_instance C11_rows_custom_read Props_proofs C11_roundtrip_instance C11_rows_custom_rt.
From Coq Require Import QArith Qabs.
Local Close Scope Q_scope.
From V.gen Require Import GenC11.

Theorem C11_write_ok_sound : forall d t, write_ok d t = true ->
  forall v s, desc_to_xml d v = Ok (PStr s) -> lex_ok t s = true.
Proof. exact write_ok_sound. Qed.
Print Assumptions C11_write_ok_sound.

Theorem C11_read_ok_sound : forall r t, read_ok r t = true ->
  forall s, lex_ok t s = true -> (N.of_nat (length s) <= int_max_str_digits)%N ->
  exists v, rdesc_from_xml r (PStr s) = Ok v.
Proof. exact read_ok_sound. Qed.
Print Assumptions C11_read_ok_sound.

Theorem C11_no_unmodelled : n_unmodelled = 0.
Proof. exact no_unmodelled. Qed.
Print Assumptions C11_no_unmodelled.

(** INSTANCE, write side: no attribute of any registered element class has a setter that
    can write outside the lexical space of its schema type (verdict 1), except recorded findings *)
Theorem C11_no_write_failures : forall r, In r rows -> memN (ar_id r) known_write = false -> w_verdict r <> 1%N.
Proof. exact no_write_failures. Qed.
Print Assumptions C11_no_write_failures.

(** W: for every judged attribute and EVERY python value, what the real (translated)
    to_xml writes is in the lexical space of the attribute's schema type *)
Theorem C11_W : forall r, In r rows -> w_verdict r = 0%N ->
  forall v s, ar_to_xml r v = Ok (PStr s) -> lex_ok (ar_lex r) s = true.
Proof. exact W_rows. Qed.
Print Assumptions C11_W.

(** Rej: every other value is refused with TypeError or ValueError (to_xml is validate
    then convert, so nothing is written) *)
Theorem C11_Rej : forall r, In r rows -> is_custom_w (ar_desc r) = false ->
  forall v e, ar_to_xml r v = Err e -> e = TypeErr \/ e = ValueErr.
Proof. exact Rej_rows. Qed.
Print Assumptions C11_Rej.

Theorem C11_no_read_failures : forall r, In r rows -> memN (ar_id r) known_read = false -> r_verdict r <> 1%N.
Proof. exact no_read_failures. Qed.
Print Assumptions C11_no_read_failures.

(** R: every string of the lexical space (up to CPython's 4300-digit int limit) can be read *)
Theorem C11_R : forall r, In r rows -> r_verdict r = 0%N ->
  forall s, lex_ok (ar_lex r) s = true -> (N.of_nat (length s) <= int_max_str_digits)%N ->
  exists v, ar_from_xml r (PStr s) = Ok v.
Proof. exact R_rows. Qed.
Print Assumptions C11_R.

(** RT: the written form reads back as an equal value (quantum 0 for these classes) *)
Theorem C11_RT : forall r, In r rows -> rt_ok (ar_desc r) (ar_rdesc r) = true ->
  forall v s, ar_to_xml r v = Ok (PStr s) ->
  exists v', ar_from_xml r (PStr s) = Ok v' /\ py_eqb v' v = true.
Proof. exact RT_rows. Qed.
Print Assumptions C11_RT.

(** recorded findings are real *)
Theorem C11_known_are_failing : forallb known_real rows = true.
Proof. exact known_are_failing. Qed.
Print Assumptions C11_known_are_failing.

(** CPython quirk the read-side statement must exclude: a schema-valid integer with more
    than 4300 digits (leading zeros) is refused by int() *)
Theorem C11_R_digit_limit : forall s z, lex_integer s = Some z ->
  (int_max_str_digits < int_digits s)%N -> int_of_str false s = Err ValueErr.
Proof. exact int_of_str_lex_over. Qed.
Print Assumptions C11_R_digit_limit.

(** float-valued classes without a canonical descriptor: write-side theorems proved directly
    on the regenerated Gallina, for ALL python values *)
Theorem C11_W_PositiveFixedAngle : forall v s,
  ST_PositiveFixedAngle__to_xml v = Ok (PStr s) -> lex_ok (LInt 0 21599999) s = true.
Proof. exact W_PositiveFixedAngle. Qed.
Print Assumptions C11_W_PositiveFixedAngle.

Theorem C11_W_Angle : forall v s,
  ST_Angle__to_xml v = Ok (PStr s) -> lex_ok (LInt 0 21599999) s = true.
Proof. exact W_Angle. Qed.
Print Assumptions C11_W_Angle.

Theorem C11_W_Percentage : forall v s,
  ST_Percentage__to_xml v = Ok (PStr s) -> lex_ok (LInt (-2147483648) 2147483647) s = true.
Proof. exact W_Percentage. Qed.
Print Assumptions C11_W_Percentage.

Theorem C11_W_PositiveFixedPercentage : forall v s,
  ST_PositiveFixedPercentage__to_xml v = Ok (PStr s) -> lex_ok (LInt 0 100000) s = true.
Proof. exact W_PositiveFixedPercentage. Qed.
Print Assumptions C11_W_PositiveFixedPercentage.

Theorem C11_W_TextSpacingPercent : forall v s,
  ST_TextSpacingPercentOrPercentString__to_xml v = Ok (PStr s) -> lex_ok (LInt 0 13200000) s = true.
Proof. exact W_TextSpacingPercent. Qed.
Print Assumptions C11_W_TextSpacingPercent.

Theorem C11_W_TextFontScalePercent : forall v s,
  ST_TextFontScalePercentOrPercentString__to_xml v = Ok (PStr s) -> lex_ok (LInt 1000 100000) s = true.
Proof. exact W_TextFontScalePercent. Qed.
Print Assumptions C11_W_TextFontScalePercent.

(** a:spcPts/@val: EMU in (0..20116800), centipoints out, always inside the facet 0..158400 *)
Theorem C11_W_TextSpacingPoint : forall v s,
  ST_TextSpacingPoint__to_xml v = Ok (PStr s) -> lex_ok (LInt 0 158400) s = true.
Proof. exact W_TextSpacingPoint. Qed.
Print Assumptions C11_W_TextSpacingPoint.

(** xsd:double classes.  PARTIAL: str(float) is not modelled digit by digit, so the statement
    is: what is written is the repr of float(value) and that float is finite (python would
    print inf / nan otherwise, spellings xsd:double does not have).  Missing:
    python repr of a finite binary64 is a valid xsd:double literal (trusted base; compared
    through float(text) by the correspondence). *)
Theorem C11_W_XsdDouble_partial : forall v s,
  XsdDouble__to_xml v = Ok (PStr s) -> float_written v s.
Proof. exact W_XsdDouble_partial. Qed.
Print Assumptions C11_W_XsdDouble_partial.

Theorem C11_W_AxisUnit_partial : forall v s,
  ST_AxisUnit__to_xml v = Ok (PStr s) ->
  float_written v s /\ py_le v (PFloat (Fin 0 0)) = Ok false.
Proof. exact W_AxisUnit_partial. Qed.
Print Assumptions C11_W_AxisUnit_partial.

(** Rej for the xsd:double classes, for EVERY python value (an int beyond the range of a
    double included: it used to leave through OverflowError, repaired in /repo) *)
Theorem C11_Rej_XsdDouble : forall v e, XsdDouble__to_xml v = Err e -> e = TypeErr \/ e = ValueErr.
Proof. exact Rej_XsdDouble. Qed.
Print Assumptions C11_Rej_XsdDouble.

Theorem C11_Rej_AxisUnit : forall v e, ST_AxisUnit__to_xml v = Err e -> e = TypeErr \/ e = ValueErr.
Proof. exact Rej_AxisUnit. Qed.
Print Assumptions C11_Rej_AxisUnit.

(** the float validator shared by every float-typed class classifies every python value *)
Theorem C11_float_validate_total : forall v,
  match fclass v with
  | Ok f => BaseFloatType__validate v = Ok PNone /\ py_float v = Ok (PFloat f) /\ f_is_finite f = true
  | Err e => BaseFloatType__validate v = Err e /\ (e = TypeErr \/ e = ValueErr)
  end.
Proof. exact BaseFloatType_validate_spec. Qed.
Print Assumptions C11_float_validate_total.

(** W for the float- and unit-valued classes, per ATTRIBUTE ROW: the class-level range theorems
    above are lifted to every row whose writer is that class (gen: rows_classes_ok), against the
    facet of the row's own schema type *)
Theorem C11_W_custom_rows : forall r c, In (r, c) (combine rows row_classes) -> w_custom_verdict r c = 0%N ->
  forall v s, ar_to_xml r v = Ok (PStr s) -> lex_ok (ar_lex r) s = true.
Proof. exact W_rows_custom. Qed.
Print Assumptions C11_W_custom_rows.

(** INSTANCE: no row of such a class has a facet narrower than what the class can write *)
Theorem C11_no_custom_write_failures : forallb (fun p => negb (N.eqb (snd p) 1)) custom_verdicts = true.
Proof. exact no_custom_write_failures. Qed.
Print Assumptions C11_no_custom_write_failures.

Example C11_ex_custom_rows : (0 < length (filter (fun p => N.eqb (snd p) 0) custom_verdicts))%nat.
Proof. exact custom_rows_judged. Qed.

(** R for the classes without a canonical reader descriptor, per ATTRIBUTE ROW: class-level read
    theorems on the regenerated code (proofs/C11_read_instance.v: integer, percent-literal,
    universal-measure, xsd:double readers; CPython limits as explicit length hypotheses) lifted to
    every row whose reader is that class, against the row's own lexical space (pattern facets by
    their transcribed regular expressions) *)
Theorem C11_R_custom_rows : forall r c, In (r, c) (combine rows row_classes) -> r_custom_verdict r c = 0%N ->
  forall s, row_space r s = true -> (N.of_nat (length s) <= r_custom_limit c)%N ->
  exists v, ar_from_xml r (PStr s) = Ok v.
Proof. exact R_rows_custom. Qed.
Print Assumptions C11_R_custom_rows.

Theorem C11_R_custom_rows_lex : forall r c, In (r, c) (combine rows row_classes) -> r_custom_verdict r c = 0%N ->
  is_double (ar_lex r) = false ->
  forall s, lex_ok (ar_lex r) s = true -> (N.of_nat (length s) <= r_custom_limit c)%N ->
  exists v, ar_from_xml r (PStr s) = Ok v.
Proof. exact R_rows_custom_lex. Qed.
Print Assumptions C11_R_custom_rows_lex.

(** INSTANCE: the only rows of such classes that cannot read their whole lexical space are the
    recorded ones (guide-name alternative of ST_AdjCoordinate read through ST_Coordinate) *)
Theorem C11_custom_read_failures_known :
  forallb (fun p => negb (snd p =? 1)%N || memN (fst p) known_read || memN (fst p) guide_name_rows) custom_read_verdicts = true.
Proof. exact custom_read_failures_known. Qed.
Print Assumptions C11_custom_read_failures_known.

(** and those rows really fail (the recorded finding is real in the model too) *)
Theorem C11_guide_name_rows_refuted : forall r c, In (r, c) (combine rows row_classes) -> guide_name_row (r, c) = true ->
  exists s, lex_ok (ar_lex r) s = true /\ ar_from_xml r (PStr s) = Err ValueErr.
Proof. exact guide_name_rows_refuted. Qed.
Print Assumptions C11_guide_name_rows_refuted.

(** the CPython limits in the hypotheses above are necessary *)
Theorem C11_R_int_digit_limit_refuted : exists s, lex_ok (LInt 0 158400) s = true
  /\ ST_TextSpacingPoint__from_xml (PStr s) = Err ValueErr /\ ST_Angle__from_xml (PStr s) = Err ValueErr.
Proof. exact R_int_digit_limit_refuted. Qed.
Theorem C11_R_Coordinate_long_measure_refuted : exists s, lex_ok (LUnivMeasure true) s = true
  /\ (N.of_nat (length s) <= int_max_str_digits)%N
  /\ ST_Coordinate__from_xml (PStr s) = Err OverflowErr /\ ST_Coordinate32__from_xml (PStr s) = Err OverflowErr.
Proof. exact R_Coordinate_long_measure_refuted. Qed.

Example C11_ex_custom_read_rows : (0 < length (filter (fun p => N.eqb (snd p) 0) custom_read_verdicts))%nat.
Proof. exact custom_read_rows_judged. Qed.

Local Open Scope Q_scope.
(** RT, classes without a canonical descriptor, per ATTRIBUTE ROW: whatever the kind of the class *)
Theorem C11_RT_custom : forall r c k, In (r, c) (combine rows row_classes) -> kind_of c class_rts = Some k ->
  kind_prop (ar_to_xml r) (ar_from_xml r) k.
Proof. exact RT_rows_custom. Qed.
Print Assumptions C11_RT_custom.

(** exact classes: the statement of C11_RT *)
Theorem C11_RT_custom_exact : forall r c, In (r, c) (combine rows row_classes) ->
  rt_custom_verdict r c = 0%N -> exact_kind c = true ->
  forall v s, ar_to_xml r v = Ok (PStr s) -> exists v', ar_from_xml r (PStr s) = Ok v' /\ py_eqb v' v = true.
Proof. exact RT_rows_custom_exact. Qed.
Print Assumptions C11_RT_custom_exact.

(** quantum classes *)
Theorem C11_RT_custom_quant : forall r c (q M : Q), In (r, c) (combine rows row_classes) ->
  kind_of c class_rts = Some (KQuant q M) ->
  forall v s, ar_to_xml r v = Ok (PStr s) ->
  exists x f (j : Z), assigned v x /\ ar_from_xml r (PStr s) = Ok (PFloat f) /\ f_is_finite f = true
    /\ (Qabs (Qv f - (x - M * inject_Z j)) <= q)%Q.
Proof. exact RT_rows_custom_quant. Qed.
Print Assumptions C11_RT_custom_quant.

(** centipoints *)
Theorem C11_RT_custom_floor : forall r c, In (r, c) (combine rows row_classes) ->
  kind_of c class_rts = Some KFloor127 ->
  forall v s, ar_to_xml r v = Ok (PStr s) ->
  exists z, as_int v = Some z /\ (0 <= z <= 20116800)%Z
    /\ ar_from_xml r (PStr s) = Ok (PInt (z / 127 * 127)) /\ (0 <= z - z / 127 * 127 < 127)%Z.
Proof. exact RT_rows_custom_floor. Qed.
Print Assumptions C11_RT_custom_floor.

(** INSTANCE: every attribute row is judged by C11_RT, by C11_RT_custom ( verdict 0 ) or is an xsd:double row ( 3 ) *)
Theorem C11_RT_all_rows_judged : rt_rows_unjudged = [].
Proof. exact all_rows_rt_judged. Qed.
Print Assumptions C11_RT_all_rows_judged.

Theorem C11_RT_custom_rows_judged : (0 < length (filter (fun p => N.eqb (snd p) 0) custom_rt_verdicts))%nat.
Proof. exact custom_rt_rows_judged. Qed.
Print Assumptions C11_RT_custom_rows_judged.

(** class level *)
Theorem C11_RT_Coordinate : rt_exact ST_Coordinate__to_xml ST_Coordinate__from_xml.
Proof. exact RT_Coordinate. Qed.
Theorem C11_RT_Coordinate32 : rt_exact ST_Coordinate32__to_xml ST_Coordinate32__from_xml.
Proof. exact RT_Coordinate32. Qed.
Theorem C11_RT_BubbleScale : rt_exact ST_BubbleScale__to_xml ST_BubbleScale__from_xml.
Proof. exact RT_BubbleScale. Qed.
Theorem C11_RT_GapAmount : rt_exact ST_GapAmount__to_xml ST_GapAmount__from_xml.
Proof. exact RT_GapAmount. Qed.
Theorem C11_RT_Overlap : rt_exact ST_Overlap__to_xml ST_Overlap__from_xml.
Proof. exact RT_Overlap. Qed.
Theorem C11_RT_LblOffset : rt_exact ST_LblOffset__to_xml ST_LblOffset__from_xml.
Proof. exact RT_LblOffset. Qed.
Theorem C11_RT_TextSpacingPoint : forall v s, ST_TextSpacingPoint__to_xml v = Ok (PStr s) ->
  exists z, as_int v = Some z /\ (0 <= z <= 20116800)%Z
    /\ ST_TextSpacingPoint__from_xml (PStr s) = Ok (PInt (z / 127 * 127))
    /\ (0 <= z - z / 127 * 127 < 127)%Z.
Proof. exact RT_TextSpacingPoint. Qed.
Theorem C11_RT_Percentage : rt_quant_f ST_Percentage__to_xml ST_Percentage__from_xml (1 # 100000) 0.
Proof. exact RT_Percentage. Qed.
Theorem C11_RT_PositiveFixedPercentage :
  rt_quant_f ST_PositiveFixedPercentage__to_xml ST_PositiveFixedPercentage__from_xml (1 # 100000) 0.
Proof. exact RT_PositiveFixedPercentage. Qed.
Theorem C11_RT_TextSpacingPercent :
  rt_quant_f ST_TextSpacingPercentOrPercentString__to_xml ST_TextSpacingPercentOrPercentString__from_xml (1 # 100000) 0.
Proof. exact RT_TextSpacingPercent. Qed.
Theorem C11_RT_TextFontScalePercent_partial :
  rt_quant_f ST_TextFontScalePercentOrPercentString__to_xml ST_TextFontScalePercentOrPercentString__from_xml
    fontscale_quantum 0.
Proof. exact RT_TextFontScalePercent_partial. Qed.
Theorem C11_RT_Angle : rt_quant_f ST_Angle__to_xml ST_Angle__from_xml (1 # 60000) 360.
Proof. exact RT_Angle. Qed.
Theorem C11_RT_PositiveFixedAngle :
  rt_quant_x ST_PositiveFixedAngle__to_xml ST_PositiveFixedAngle__from_xml (1 # 60000) 360.
Proof. exact RT_PositiveFixedAngle. Qed.
Theorem C11_RT_HexColorRGB : rt_upper ST_HexColorRGB__to_xml ST_HexColorRGB__from_xml.
Proof. exact RT_HexColorRGB. Qed.
Theorem C11_RT_HexColorRGB_exact_refuted :
  exists v s v', ST_HexColorRGB__to_xml v = Ok (PStr s) /\ ST_HexColorRGB__from_xml (PStr s) = Ok v' /\ py_eqb v' v = false.
Proof. exact RT_HexColorRGB_exact_refuted. Qed.
Theorem C11_RT_XsdDouble_partial : rt_repr XsdDouble__to_xml.
Proof. exact RT_XsdDouble_partial. Qed.
Theorem C11_RT_AxisUnit_partial : rt_repr ST_AxisUnit__to_xml.
Proof. exact RT_AxisUnit_partial. Qed.
Print Assumptions C11_RT_PositiveFixedAngle.
Print Assumptions C11_RT_Angle.
Print Assumptions C11_RT_TextFontScalePercent_partial.
Print Assumptions C11_RT_AxisUnit_partial.

Local Close Scope Q_scope.

(** non-vacuity *)
Example C11_ex_rows : (0 < length (filter (fun r => N.eqb (w_verdict r) 0) rows))%nat
                   /\ (0 < length (filter (fun r => N.eqb (r_verdict r) 0) rows))%nat.
Proof. vm_compute. split; lia. Qed.
Example C11_ex_int : XsdUnsignedInt__to_xml (PInt 4294967295) = Ok (PStr [52; 50; 57; 52; 57; 54; 55; 50; 57; 53]%N)
                  /\ XsdUnsignedInt__to_xml (PInt 4294967296) = Err ValueErr
                  /\ XsdUnsignedInt__to_xml (PStr [49%N]) = Err TypeErr.
Proof. vm_compute. auto. Qed.
