(** Runner entry point for the C07 correspondence: [run_c07 args].  The first field is
    the operation name, the remaining fields are a token stream, one token per field
    (numbers in decimal, strings as raw code points, an empty field for None).  In the
    grammar below {x} means zero or more x, and an upper-case name is a number.

      hist   succs init NOPS {data}
      succs  ::= six times: N {TAG}         successors of tx cat val xVal yVal bubbleSize
      init   ::= 0 CHARTTYPE data | 1 chart
      data   ::= 0 HASFMT [fmt] NCATS {tree} NSER {cser} | 1 NSER {xser} | 2 NSER {bser}
      tree   ::= label NSUBS {tree}       label ::= 0 str | 1 numtext | 2 Y M D
      cser   ::= name fmt NVALS {oval}    oval  ::= numtext | empty
      xser   ::= name fmt NPTS {oval oval}       bser ::= name fmt NPTS {oval oval oval}
      chart  ::= DATE1904 REST NPLOTS {plot}     plot ::= TAG PAYLOAD NSERS {ser}
      ser    ::= IDX ORDER NKIDS {kid}
      kid    ::= 0 NNAMES {str} | 1 catx | 2 cache | 3 cache | 4 cache | 5 cache | 6 TAG PAYLOAD
      cache  ::= HASFMT [fmt] NCOUNTS {Z} NPTS {IDX v}
      catx   ::= KIND cache NLVLS {NPTS {IDX v}}
      flat   NLVLS {NPTS {IDX v}}         flattened_labels of the given levels

    The answer to hist is a JSON array with one entry per state (after init, after every
    replace): [0, chart, reads] or [1, error name]; it stops at the first error.  Strings
    are arrays of code points. *)
From V.lib Require Import Prelude Wire.
From V.model Require Import ChartData.
Local Open Scope Z_scope.

(* ------------------------------------------------------------------ parsing *)
Definition P (A : Type) := list str -> option (A * list str).

Definition p_ret {A} (a : A) : P A := fun t => Some (a, t).
Definition p_bind {A B} (p : P A) (f : A -> P B) : P B :=
  fun t => match p t with Some (a, r) => f a r | None => None end.
Notation "x <- p ;; q" := (p_bind p (fun x => q)) (at level 61, p at next level, right associativity).

Definition p_tok : P str := fun t => match t with x :: r => Some (x, r) | [] => None end.
Definition p_Z : P Z := fun t =>
  match t with x :: r => match parse_Z x with Some z => Some (z, r) | None => None end | [] => None end.
Definition p_N : P N := fun t =>
  match t with x :: r => match parse_N x with Some z => Some (z, r) | None => None end | [] => None end.
Definition p_nat : P nat := fun t =>
  match t with x :: r => match parse_nat x with Some z => Some (z, r) | None => None end | [] => None end.
Definition p_bool : P bool := z <- p_Z ;; p_ret (negb (z =? 0)).

Fixpoint p_rep {A} (p : P A) (n : nat) : P (list A) :=
  match n with
  | O => p_ret []
  | S k => x <- p ;; r <- p_rep p k ;; p_ret (x :: r)
  end.
Definition p_list {A} (p : P A) : P (list A) := n <- p_nat ;; p_rep p n.

Definition p_optstr : P (option str) := b <- p_bool ;; if b then (s <- p_tok ;; p_ret (Some s)) else p_ret None.
Definition p_oval : P (option num) := s <- p_tok ;; p_ret (match s with [] => None | _ => Some s end).

Definition p_label : P label :=
  k <- p_Z ;;
  if k =? 0 then (s <- p_tok ;; p_ret (LStr s))
  else if k =? 1 then (s <- p_tok ;; p_ret (LNum s))
  else if k =? 2 then (y <- p_Z ;; m <- p_Z ;; d <- p_Z ;; p_ret (LDate y m d))
  else fun _ => None.

Fixpoint p_tree (fuel : nat) : P cat_tree :=
  match fuel with
  | O => fun _ => None
  | S f => l <- p_label ;; subs <- p_list (p_tree f) ;; p_ret (CatNode l subs)
  end.

Definition p_cser : P cat_series :=
  n <- p_tok ;; f <- p_tok ;; v <- p_list p_oval ;; p_ret (mkCS n f v).
Definition p_xser : P xy_series :=
  n <- p_tok ;; f <- p_tok ;; v <- p_list (x <- p_oval ;; y <- p_oval ;; p_ret (x, y)) ;; p_ret (mkXS n f v).
Definition p_bser : P bub_series :=
  n <- p_tok ;; f <- p_tok ;;
  v <- p_list (x <- p_oval ;; y <- p_oval ;; z <- p_oval ;; p_ret (x, y, z)) ;; p_ret (mkBS n f v).

Definition p_data (fuel : nat) : P chart_data :=
  k <- p_Z ;;
  if k =? 0 then (fmt <- p_optstr ;; cats <- p_list (p_tree fuel) ;; sers <- p_list p_cser ;;
                  p_ret (DCat cats fmt sers))
  else if k =? 1 then (sers <- p_list p_xser ;; p_ret (DXy sers))
  else if k =? 2 then (sers <- p_list p_bser ;; p_ret (DBub sers))
  else fun _ => None.

Definition p_pt : P pt := i <- p_Z ;; v <- p_tok ;; p_ret (mkPt i v).
Definition p_cache : P cache :=
  f <- p_optstr ;; c <- p_list p_Z ;; pts <- p_list p_pt ;; p_ret (mkCache f c pts).
Definition p_catx : P catx :=
  k <- p_N ;; c <- p_cache ;; lv <- p_list (p_list p_pt) ;;
  p_ret (mkCatx k (ca_fmt c) (ca_counts c) (ca_pts c) lv).
Definition p_kid : P child :=
  k <- p_Z ;;
  if k =? 0 then (n <- p_list p_tok ;; p_ret (KTx n))
  else if k =? 1 then (c <- p_catx ;; p_ret (KCat c))
  else if k =? 2 then (c <- p_cache ;; p_ret (KVal c))
  else if k =? 3 then (c <- p_cache ;; p_ret (KXVal c))
  else if k =? 4 then (c <- p_cache ;; p_ret (KYVal c))
  else if k =? 5 then (c <- p_cache ;; p_ret (KBub c))
  else if k =? 6 then (t <- p_N ;; p <- p_N ;; p_ret (KOther t p))
  else fun _ => None.
Definition p_ser : P ser := i <- p_Z ;; o <- p_Z ;; k <- p_list p_kid ;; p_ret (mkSer i o k).
Definition p_plot : P plot := t <- p_N ;; pl <- p_N ;; s <- p_list p_ser ;; p_ret (mkPlot t pl s).
Definition p_chart : P chart := d <- p_bool ;; r <- p_N ;; ps <- p_list p_plot ;; p_ret (mkChart d r ps).

Definition p_succs : P succs :=
  a <- p_list p_N ;; b <- p_list p_N ;; c <- p_list p_N ;;
  d <- p_list p_N ;; e <- p_list p_N ;; f <- p_list p_N ;; p_ret (mkSuccs a b c d e f).

(* ------------------------------------------------------------------ printing *)
(** Builders: a piece of output is a function that puts itself in front of a
    continuation, so that no long left operand of an append is ever traversed twice. *)
Definition B := str -> str.
Definition b_str (s : str) : B := fun k => s ++ k.
Definition b_seq (l : list B) : B := fun k => fold_right (fun b acc => b acc) k l.
Fixpoint b_sep (l : list B) : B :=
  match l with
  | [] => fun k => k
  | [b] => b
  | b :: r => fun k => b (44%N :: b_sep r k)
  end.
Definition j_arr (l : list B) : B := fun k => 91%N :: b_sep l (93%N :: k).
Definition j_Z (z : Z) : B := b_str (show_Z z).
Definition j_N (n : N) : B := b_str (show_N n).
Definition j_bool (b : bool) : B := b_str (if b then [49%N] else [48%N]).
Definition j_str (s : str) : B := j_arr (map j_N s).
Definition j_null : B := b_str [110; 117; 108; 108]%N.
Definition j_opt {A} (f : A -> B) (o : option A) : B := match o with Some a => f a | None => j_null end.
Definition j_list {A} (f : A -> B) (l : list A) : B := j_arr (map f l).
Definition j_res {A} (f : A -> B) (r : res A) : B :=
  match r with
  | Ok a => j_arr [j_Z 0; f a]
  | Err e => j_arr [j_Z 1; j_str (show_err e)]
  end.

Definition j_pt (p : pt) : B := j_arr [j_Z (pt_idx p); j_str (pt_v p)].
Definition j_cache (c : cache) : B :=
  j_arr [j_opt j_str (ca_fmt c); j_list j_Z (ca_counts c); j_list j_pt (ca_pts c)].
Definition j_catx (c : catx) : B :=
  j_arr [j_N (cx_kind c); j_opt j_str (cx_fmt c); j_list j_Z (cx_counts c); j_list j_pt (cx_flat c);
         j_list (j_list j_pt) (cx_lvls c)].
Definition j_kid (k : child) : B :=
  match k with
  | KTx n => j_arr [j_Z 0; j_list j_str n]
  | KCat c => j_arr [j_Z 1; j_catx c]
  | KVal c => j_arr [j_Z 2; j_cache c]
  | KXVal c => j_arr [j_Z 3; j_cache c]
  | KYVal c => j_arr [j_Z 4; j_cache c]
  | KBub c => j_arr [j_Z 5; j_cache c]
  | KOther t p => j_arr [j_Z 6; j_N t; j_N p]
  end.
Definition j_ser (s : ser) : B := j_arr [j_Z (s_idx s); j_Z (s_order s); j_list j_kid (s_kids s)].
Definition j_plot (p : plot) : B := j_arr [j_N (p_tag p); j_N (p_payload p); j_list j_ser (p_sers p)].
Definition j_chart (c : chart) : B := j_arr [j_bool (ch_1904 c); j_N (ch_rest c); j_list j_plot (ch_plots c)].

(** What the read API reports for one plot: len(categories), list(categories), depth,
    levels as (idx, label), flattened_labels, and per series (series order) idx, name,
    values; the series part is an error when _SeriesFactory does not know the plot. *)
Definition j_plot_reads (p : plot) : B :=
  j_arr [ j_Z (plot_cat_count p);
          j_list j_str (plot_cat_labels p);
          j_Z (plot_cat_depth p);
          j_list (j_list (fun il : Z * str => j_arr [j_Z (fst il); j_str (snd il)])) (plot_cat_levels p);
          j_list (j_list j_str) (plot_flattened p);
          (if series_cls_ok (p_tag p) || match p_sers p with [] => true | _ => false end
           then j_arr [j_Z 0; j_list (fun s => j_arr [j_Z (s_idx s); j_str (ser_name s);
                                                      j_res (j_list (j_opt j_str)) (ser_values (p_tag p) s)])
                                    (plot_sers p)]
           else j_arr [j_Z 1; j_str (show_err OtherErr)]) ].
Definition j_state (c : chart) : B :=
  j_arr [j_Z 0; j_chart c; j_list j_plot_reads (ch_plots c)].
Definition j_err (e : pyerr) : B := j_arr [j_Z 1; j_str (show_err e)].

(* ------------------------------------------------------------------ histories *)
Fixpoint run_ops (sc : succs) (c : chart) (ops : list chart_data) : list B :=
  match ops with
  | [] => []
  | d :: r => match replace sc d c with
              | Ok c' => j_state c' :: run_ops sc c' r
              | Err e => [j_err e]
              end
  end.

Definition op_hist : str := [104; 105; 115; 116]%N.
Definition op_flat : str := [102; 108; 97; 116]%N.

Definition p_init (fuel : nat) : P (res chart) :=
  k <- p_Z ;;
  if k =? 0 then (ct <- p_Z ;; d <- p_data fuel ;; p_ret (write ct d))
  else if k =? 1 then (c <- p_chart ;; p_ret (Ok c))
  else fun _ => None.

Definition run_c07 (args : list str) : str :=
  match args with
  | op :: toks =>
      let fuel := length toks in
      if str_eqb op op_hist then
        match (sc <- p_succs ;; i <- p_init fuel ;; ops <- p_list (p_data fuel) ;; p_ret (sc, i, ops)) toks with
        | Some ((sc, i, ops), []) =>
            match i with
            | Ok c => j_arr (j_state c :: run_ops sc c ops) []
            | Err e => j_arr [j_err e] []
            end
        | _ => w_badcase
        end
      else if str_eqb op op_flat then
        match p_list (p_list p_pt) toks with
        | Some (lv, []) =>
            j_list (j_list j_str)
              (flattened_of_levels (map (map (fun q => (pt_idx q, pt_label q))) lv)) []
        | _ => w_badcase
        end
      else w_badcase
  | [] => w_badcase
  end.
