(** Proofs about model/OpcCodec.v: the concrete reader gives back exactly what the concrete
    writer was given, for every list of relationships / content types whose strings are
    made of XML characters; the env built from the concrete codec meets the codec
    hypothesis of the C01 theorems on such inputs; and the C01 theorems hold under that
    restricted hypothesis. *)
From V.lib Require Import Prelude.
From V.model Require Import Escape PackUri Opc OpcCodec.
From V.proofs Require Import Prelude_proofs PackUri_proofs Escape_proofs Opc_proofs.
From Coq Require Import Permutation.
Require Import Lia ZifyBool.

(** ---- cutting a text at the double quotes ---- *)

Definition qfree (s : str) : bool := forallb (fun c => negb (c =? c_quot)%N) s.

Lemma qfree_app a b : qfree (a ++ b) = qfree a && qfree b.
Proof. apply forallb_app. Qed.

Lemma split_on_free s : qfree s = true -> split_on c_quot s = [s].
Proof.
  induction s as [|x s IH]; intros H; [reflexivity|].
  cbn [qfree forallb] in H. apply andb_true_iff in H as [Hx Hs].
  cbn [split_on]. apply negb_true_iff in Hx. rewrite Hx. rewrite (IH Hs). reflexivity.
Qed.

Lemma split_on_q a b : qfree a = true ->
  split_on c_quot (a ++ c_quot :: b) = a :: split_on c_quot b.
Proof.
  induction a as [|x a IH]; intros H.
  - cbn [app split_on]. rewrite N.eqb_refl. reflexivity.
  - cbn [qfree forallb] in H. apply andb_true_iff in H as [Hx Ha].
    cbn [app split_on]. apply negb_true_iff in Hx. rewrite Hx. rewrite (IH Ha). reflexivity.
Qed.

Lemma qfree_flat_map (g : N -> str) s : (forall c, qfree (g c) = true) -> qfree (flat_map g s) = true.
Proof.
  intros Hg. induction s as [|c s IH]; [reflexivity|].
  cbn [flat_map]. rewrite qfree_app, Hg, IH. reflexivity.
Qed.

Lemma qfree_esc_char c : qfree (esc_char_g true true true true c) = true.
Proof.
  unfold esc_char_g, esc_char. rewrite !andb_true_r.
  destruct (c =? c_quot)%N eqn:Eq; [reflexivity|].
  destruct (c =? c_tab)%N; [reflexivity|]. destruct (c =? c_lf)%N; [reflexivity|].
  destruct (c =? c_cr)%N; [reflexivity|]. destruct (c =? c_amp)%N; [reflexivity|].
  destruct (c =? c_lt)%N; [reflexivity|]. destruct (c =? c_gt)%N; [reflexivity|].
  cbn [qfree forallb]. rewrite Eq. reflexivity.
Qed.

(** an escaped attribute value holds no double quote *)
Lemma qfree_esc s : qfree (sax_escape_qw s) = true.
Proof.
  unfold sax_escape_qw. rewrite sax_escape_g_flat. apply qfree_flat_map, qfree_esc_char.
Qed.

(** ... and is read back as the value itself (C05_attr_safe_ws) *)
Lemma attr_val_esc s : xml_str s = true -> attr_val (sax_escape_qw s) = Some s.
Proof. intros H. unfold attr_val. rewrite (attr_safe_w s H). reflexivity. Qed.

Lemma split_qattr pre v k : qfree pre = true ->
  split_on c_quot (pre ++ qattr v k) = pre :: sax_escape_qw v :: split_on c_quot k.
Proof.
  intros Hp. unfold qattr. rewrite (split_on_q pre _ Hp).
  rewrite (split_on_q _ k (qfree_esc v)). reflexivity.
Qed.

(** ---- relationships ---- *)

Lemma split_enc_rel pre r k : qfree pre = true ->
  split_on c_quot (pre ++ enc_rel r k)
  = (pre ++ x_rel_open) :: sax_escape_qw (r_id r) :: x_type :: sax_escape_qw (r_type r)
    :: x_target :: sax_escape_qw (r_target r)
    :: (if is_ext r then x_mode :: x_external :: split_on c_quot (x_end ++ k)
        else split_on c_quot (x_end ++ k)).
Proof.
  intros Hp. unfold enc_rel. rewrite app_assoc.
  rewrite split_qattr by (rewrite qfree_app, Hp; reflexivity).
  rewrite split_qattr by reflexivity. rewrite split_qattr by reflexivity.
  destruct (is_ext r); [|reflexivity].
  rewrite split_qattr by reflexivity. reflexivity.
Qed.

Lemma xml_rel_fields r : xml_rel r = true ->
  xml_str (r_id r) = true /\ xml_str (r_type r) = true /\ xml_str (r_target r) = true
  /\ r_mode r = (if is_ext r then MExt else MInt).
Proof.
  unfold xml_rel, is_ext. intros H. apply andb_true_iff in H as [H Hm].
  apply andb_true_iff in H as [H H3]. apply andb_true_iff in H as [H1 H2].
  repeat split; auto. destruct (r_mode r); auto; discriminate.
Qed.

Lemma attr_val_external : attr_val x_external = Some x_external.
Proof. reflexivity. Qed.

Lemma rel_eta r : mkRel (r_id r) (r_type r) (r_target r) (r_mode r) = r.
Proof. destruct r; reflexivity. Qed.

(** the pieces of one child, followed by the markup [m] and the pieces [more] *)
Definition rel_pieces (r : rel) (m : str) (more : list str) : list str :=
  sax_escape_qw (r_id r) :: x_type :: sax_escape_qw (r_type r) :: x_target :: sax_escape_qw (r_target r)
  :: (if is_ext r then x_mode :: x_external :: m :: more else m :: more).

Lemma dec_one_next r more : xml_rel r = true ->
  dec_rel_pieces (rel_pieces r x_next_rel more) = cons_opt r (dec_rel_pieces more).
Proof.
  intros H. destruct (xml_rel_fields r H) as (H1 & H2 & H3 & Hm).
  unfold rel_pieces. destruct (is_ext r) eqn:Ee.
  - cbn [dec_rel_pieces]. rewrite !str_eqb_refl. cbn [andb].
    rewrite !attr_val_esc by auto.
    change (str_eqb x_mode x_next_rel) with false. change (str_eqb x_mode x_last_rel) with false.
    cbv iota. rewrite attr_val_external.
    change (mode_of_text x_external) with MExt. rewrite <- Hm, rel_eta. reflexivity.
  - cbn [dec_rel_pieces]. rewrite !str_eqb_refl. cbn [andb].
    rewrite !attr_val_esc by auto. rewrite <- Hm, rel_eta. reflexivity.
Qed.

Lemma dec_one_last r : xml_rel r = true ->
  dec_rel_pieces (rel_pieces r x_last_rel []) = Some [r].
Proof.
  intros H. destruct (xml_rel_fields r H) as (H1 & H2 & H3 & Hm).
  unfold rel_pieces. destruct (is_ext r) eqn:Ee.
  - cbn [dec_rel_pieces]. rewrite !str_eqb_refl. cbn [andb].
    rewrite !attr_val_esc by auto.
    change (str_eqb x_mode x_next_rel) with false. change (str_eqb x_mode x_last_rel) with false.
    cbv iota. rewrite attr_val_external.
    change (str_eqb x_last_rel x_next_rel) with false. cbv iota.
    change (mode_of_text x_external) with MExt. rewrite <- Hm, rel_eta. reflexivity.
  - cbn [dec_rel_pieces]. rewrite !str_eqb_refl. cbn [andb].
    rewrite !attr_val_esc by auto.
    change (str_eqb x_last_rel x_next_rel) with false. cbv iota.
    rewrite <- Hm, rel_eta. reflexivity.
Qed.

Lemma dec_children l : forall r pre, qfree pre = true -> xml_rels (r :: l) = true ->
  exists ps, split_on c_quot (pre ++ fold_right enc_rel x_rels_close (r :: l)) = (pre ++ x_rel_open) :: ps
             /\ dec_rel_pieces ps = Some (r :: l).
Proof.
  induction l as [|r' l IH]; intros r pre Hp Hw.
  - cbn [xml_rels forallb] in Hw. rewrite andb_true_r in Hw.
    cbn [fold_right]. rewrite split_enc_rel by auto.
    change (split_on c_quot (x_end ++ x_rels_close)) with [x_last_rel].
    eexists. split; [reflexivity|]. apply (dec_one_last r Hw).
  - change (xml_rels (r :: r' :: l)) with (xml_rel r && xml_rels (r' :: l)) in Hw.
    apply andb_true_iff in Hw as [Hr Hw].
    destruct (IH r' x_end eq_refl Hw) as (ps & Hs & Hd).
    change (fold_right enc_rel x_rels_close (r :: r' :: l))
      with (enc_rel r (fold_right enc_rel x_rels_close (r' :: l))).
    rewrite split_enc_rel by auto. rewrite Hs.
    eexists. split; [reflexivity|].
    change (x_end ++ x_rel_open) with x_next_rel.
    change (dec_rel_pieces (rel_pieces r x_next_rel ps) = Some (r :: r' :: l)).
    rewrite dec_one_next by auto. rewrite Hd. reflexivity.
Qed.

Lemma esc_rels_ns : sax_escape_qw x_rels_ns = x_rels_ns.
Proof. reflexivity. Qed.
Lemma esc_types_ns : sax_escape_qw x_types_ns = x_types_ns.
Proof. reflexivity. Qed.

(** the reader gives back every writable list of relationships *)
Theorem dec_enc_rels l : xml_rels l = true -> dec_rels_c (enc_rels_c l) = Some l.
Proof.
  intros Hw. unfold dec_rels_c, enc_rels_c. rewrite app_assoc.
  rewrite split_qattr by reflexivity. rewrite esc_rels_ns.
  destruct l as [|r l].
  - change (split_on c_quot x_end) with [x_end]. rewrite !str_eqb_refl. reflexivity.
  - destruct (dec_children l r x_gt eq_refl Hw) as (ps & Hs & Hd).
    rewrite Hs. rewrite !str_eqb_refl. cbn [andb].
    change (str_eqb (x_gt ++ x_rel_open) x_end) with false. cbv iota. exact Hd.
Qed.

(** ---- content types ---- *)

Lemma split_enc_default pre kv k : qfree pre = true ->
  split_on c_quot (pre ++ enc_default kv k)
  = (pre ++ x_default_open) :: sax_escape_qw (fst kv) :: x_ctattr :: sax_escape_qw (snd kv)
    :: split_on c_quot (x_end ++ k).
Proof.
  intros Hp. unfold enc_default. rewrite app_assoc.
  rewrite split_qattr by (rewrite qfree_app, Hp; reflexivity).
  rewrite split_qattr by reflexivity. reflexivity.
Qed.

Lemma split_enc_override pre kv k : qfree pre = true ->
  split_on c_quot (pre ++ enc_override kv k)
  = (pre ++ x_override_open) :: sax_escape_qw (fst kv) :: x_ctattr :: sax_escape_qw (snd kv)
    :: split_on c_quot (x_end ++ k).
Proof.
  intros Hp. unfold enc_override. rewrite app_assoc.
  rewrite split_qattr by (rewrite qfree_app, Hp; reflexivity).
  rewrite split_qattr by reflexivity. reflexivity.
Qed.

Definition ct_pieces (kv : str * str) (m : str) (more : list str) : list str :=
  sax_escape_qw (fst kv) :: x_ctattr :: sax_escape_qw (snd kv) :: m :: more.

Lemma xml_pair_fields kv : xml_pair kv = true -> xml_str (fst kv) = true /\ xml_str (snd kv) = true.
Proof. unfold xml_pair. intros H. apply andb_true_iff in H. exact H. Qed.

Lemma dec_ct_next_default b kv more : xml_pair kv = true ->
  dec_ct_pieces b (ct_pieces kv x_next_default more) = ct_add b kv (dec_ct_pieces true more).
Proof.
  intros H. destruct (xml_pair_fields kv H) as [H1 H2]. unfold ct_pieces.
  cbn [dec_ct_pieces]. rewrite !str_eqb_refl. rewrite !attr_val_esc by auto.
  destruct kv; reflexivity.
Qed.

Lemma dec_ct_next_override b kv more : xml_pair kv = true ->
  dec_ct_pieces b (ct_pieces kv x_next_override more) = ct_add b kv (dec_ct_pieces false more).
Proof.
  intros H. destruct (xml_pair_fields kv H) as [H1 H2]. unfold ct_pieces.
  cbn [dec_ct_pieces]. rewrite !str_eqb_refl. rewrite !attr_val_esc by auto.
  change (str_eqb x_next_override x_next_default) with false. cbv iota.
  destruct kv; reflexivity.
Qed.

Lemma dec_ct_last b kv : xml_pair kv = true ->
  dec_ct_pieces b (ct_pieces kv x_last_ct []) = ct_add b kv (Some ([], [])).
Proof.
  intros H. destruct (xml_pair_fields kv H) as [H1 H2]. unfold ct_pieces.
  cbn [dec_ct_pieces]. rewrite !str_eqb_refl. rewrite !attr_val_esc by auto.
  change (str_eqb x_last_ct x_next_default) with false.
  change (str_eqb x_last_ct x_next_override) with false. cbv iota.
  destruct kv; reflexivity.
Qed.

Lemma dec_overrides os : forall kv pre, qfree pre = true -> forallb xml_pair (kv :: os) = true ->
  exists ps, split_on c_quot (pre ++ fold_right enc_override x_types_close (kv :: os))
             = (pre ++ x_override_open) :: ps
             /\ dec_ct_pieces false ps = Some ([], kv :: os).
Proof.
  induction os as [|kv' os IH]; intros kv pre Hp Hw.
  - cbn [forallb] in Hw. rewrite andb_true_r in Hw.
    cbn [fold_right]. rewrite split_enc_override by auto.
    change (split_on c_quot (x_end ++ x_types_close)) with [x_last_ct].
    eexists. split; [reflexivity|]. apply (dec_ct_last false kv Hw).
  - change (forallb xml_pair (kv :: kv' :: os)) with (xml_pair kv && forallb xml_pair (kv' :: os)) in Hw.
    apply andb_true_iff in Hw as [Hk Hw].
    destruct (IH kv' x_end eq_refl Hw) as (ps & Hs & Hd).
    change (fold_right enc_override x_types_close (kv :: kv' :: os))
      with (enc_override kv (fold_right enc_override x_types_close (kv' :: os))).
    rewrite split_enc_override by auto. rewrite Hs.
    eexists. split; [reflexivity|].
    change (x_end ++ x_override_open) with x_next_override.
    change (dec_ct_pieces false (ct_pieces kv x_next_override ps) = Some ([], kv :: kv' :: os)).
    rewrite dec_ct_next_override by auto. rewrite Hd. reflexivity.
Qed.

Lemma dec_defaults os ds : forall kv pre, qfree pre = true ->
  forallb xml_pair (kv :: ds) = true -> forallb xml_pair os = true ->
  exists ps, split_on c_quot (pre ++ fold_right enc_default (fold_right enc_override x_types_close os) (kv :: ds))
             = (pre ++ x_default_open) :: ps
             /\ dec_ct_pieces true ps = Some (kv :: ds, os).
Proof.
  induction ds as [|kv' ds IH]; intros kv pre Hp Hw Ho.
  - cbn [forallb] in Hw. rewrite andb_true_r in Hw.
    cbn [fold_right]. rewrite split_enc_default by auto.
    destruct os as [|o os].
    + change (split_on c_quot (x_end ++ fold_right enc_override x_types_close [])) with [x_last_ct].
      eexists. split; [reflexivity|]. apply (dec_ct_last true kv Hw).
    + destruct (dec_overrides os o x_end eq_refl Ho) as (ps & Hs & Hd).
      rewrite Hs. eexists. split; [reflexivity|].
      change (x_end ++ x_override_open) with x_next_override.
      change (dec_ct_pieces true (ct_pieces kv x_next_override ps) = Some ([kv], o :: os)).
      rewrite dec_ct_next_override by auto. rewrite Hd. reflexivity.
  - change (forallb xml_pair (kv :: kv' :: ds)) with (xml_pair kv && forallb xml_pair (kv' :: ds)) in Hw.
    apply andb_true_iff in Hw as [Hk Hw].
    destruct (IH kv' x_end eq_refl Hw Ho) as (ps & Hs & Hd).
    change (fold_right enc_default (fold_right enc_override x_types_close os) (kv :: kv' :: ds))
      with (enc_default kv (fold_right enc_default (fold_right enc_override x_types_close os) (kv' :: ds))).
    rewrite split_enc_default by auto. rewrite Hs.
    eexists. split; [reflexivity|].
    change (x_end ++ x_default_open) with x_next_default.
    change (dec_ct_pieces true (ct_pieces kv x_next_default ps) = Some (kv :: kv' :: ds, os)).
    rewrite dec_ct_next_default by auto. rewrite Hd. reflexivity.
Qed.

(** the reader gives back every writable content types table *)
Theorem dec_enc_ct c : xml_cts c = true -> dec_ct_c (enc_ct_c c) = Some c.
Proof.
  destruct c as [ds os]. unfold xml_cts. cbn [fst snd]. intros Hw.
  apply andb_true_iff in Hw as [Hd Ho].
  unfold dec_ct_c, enc_ct_c. cbn [fst snd]. rewrite app_assoc.
  rewrite split_qattr by reflexivity. rewrite esc_types_ns.
  destruct ds as [|d ds].
  - destruct os as [|o os].
    + change (split_on c_quot x_end) with [x_end]. rewrite !str_eqb_refl. reflexivity.
    + destruct (dec_overrides os o x_gt eq_refl Ho) as (ps & Hs & Hdd).
      cbn [fold_right] in Hs |- *. rewrite Hs. rewrite !str_eqb_refl. cbn [andb].
      change (str_eqb (x_gt ++ x_override_open) x_end) with false.
      change (str_eqb (x_gt ++ x_override_open) (x_gt ++ x_default_open)) with false.
      cbv iota. exact Hdd.
  - destruct (dec_defaults os ds d x_gt eq_refl Hd Ho) as (ps & Hs & Hdd).
    rewrite Hs. rewrite !str_eqb_refl. cbn [andb].
    change (str_eqb (x_gt ++ x_default_open) x_end) with false. cbv iota. exact Hdd.
Qed.

(** ---- the env built from the concrete codec ---- *)

Theorem cenv_codec_rt_on rs dt xc idf pc od : codec_rt_on xml_rels xml_cts (cenv rs dt xc idf pc od).
Proof.
  split.
  - intros l Hl. apply (dec_enc_rels l Hl).
  - intros c Hc. apply (dec_enc_ct c Hc).
Qed.

Theorem cenv_codec_ok_on rs dt xc idf pc od :
  (forall b b', rs b = Some b' -> rs b' = Some b') ->
  codec_ok_on xml_rels xml_cts (cenv rs dt xc idf pc od).
Proof. intros Hid. split; [apply cenv_codec_rt_on|exact Hid]. Qed.

(** [codec_ok] quantifies over every list: no reader of XML can meet it, because what it
    returns is made of XML characters ... *)
Theorem codec_ok_too_strong (E : env str) :
  (forall b l, dec_rels E b = Some l -> forallb (fun r => xml_str (r_id r)) l = true) ->
  ~ codec_ok E.
Proof.
  intros Hx [Hdr _]. specialize (Hdr [mkRel [0%N] [] [] MInt]).
  apply Hx in Hdr. discriminate.
Qed.

(** ... and the writer of python-pptx takes a boolean, so a mode other than Internal /
    External is not written at all *)
Theorem cenv_not_codec_ok rs dt xc idf pc od : ~ codec_ok (cenv rs dt xc idf pc od).
Proof.
  intros [Hdr _]. specialize (Hdr [mkRel [] [] [] MOther]). discriminate.
Qed.

(** ---- the C01 theorems under the restricted hypothesis ----
    Method: from an env [E] that is exact on [P] / [Q] build an env over a larger blob
    type that is exact everywhere (a list outside [P] is kept as itself); it meets
    [codec_ok], so the theorems of proofs/Opc_proofs.v apply to it; on a package whose
    save only encodes lists inside [P] / [Q] the two envs do the same thing. *)

Definition mapv {A B} (f : A -> B) (p : phys A) : phys B := map (fun nb => (fst nb, f (snd nb))) p.
Definition rmap {A B} (f : A -> B) (r : res A) : res B :=
  match r with Ok a => Ok (f a) | Err e => Err e end.

Lemma lookup_mapv {A B} (f : A -> B) n p : lookup n (mapv f p) = option_map f (lookup n p).
Proof.
  induction p as [|[k v] p IH]; [reflexivity|]. cbn [mapv map fst snd lookup].
  destruct (str_eqb k n); [reflexivity|]. exact IH.
Qed.

Lemma map_fst_mapv {A B} (f : A -> B) p : map fst (mapv f p) = map fst p.
Proof. unfold mapv. rewrite map_map. reflexivity. Qed.

Lemma has_mapv {A B} (f : A -> B) n p : has n (mapv f p) = has n p.
Proof. unfold has. rewrite lookup_mapv. destruct (lookup n p); reflexivity. Qed.

Lemma mapv_mapv {A B C} (f : A -> B) (g : B -> C) p : mapv g (mapv f p) = mapv (fun x => g (f x)) p.
Proof. unfold mapv. rewrite map_map. reflexivity. Qed.

Lemma mapv_id {A} (p : phys A) : mapv (fun x => x) p = p.
Proof. unfold mapv. induction p as [|[k v] p IH]; [reflexivity|]. cbn [map fst snd]. rewrite IH. reflexivity. Qed.

Lemma same_package_mapv {A B} (f : A -> B) a b : same_package a b -> same_package (mapv f a) (mapv f b).
Proof.
  intros [H1 H2]. split.
  - intros n. rewrite !map_fst_mapv. apply H1.
  - intros n. rewrite !lookup_mapv, H2. reflexivity.
Qed.

Lemma forallb_ext' {A} (f g : A -> bool) l : (forall x, f x = g x) -> forallb f l = forallb g l.
Proof. intros H. induction l as [|x l IH]; [reflexivity|]. cbn [forallb]. rewrite H, IH. reflexivity. Qed.

Lemma fold_step_ext (r r' : list str -> str -> list str) : (forall v y, r v y = r' v y) ->
  forall l acc, fold_left (Opc.step r) l acc = fold_left (Opc.step r') l acc.
Proof.
  intros H. induction l as [|y l IH]; intros acc; [reflexivity|].
  cbn [fold_left]. rewrite IH. f_equal. unfold Opc.step. destruct (mem_str y acc); auto.
Qed.

Lemma dfs_ext g g' : (forall x, g x = g' x) ->
  forall fuel vis src, dfs g fuel vis src = dfs g' fuel vis src.
Proof.
  intros H. induction fuel as [|f IH]; intros vis src; [reflexivity|].
  cbn [dfs]. rewrite <- H. apply fold_step_ext. exact IH.
Qed.

Lemma walk_ext g g' : (forall x, g x = g' x) ->
  forall fuel vis ys, walk g fuel vis ys = walk g' fuel vis ys.
Proof. intros H fuel vis ys. unfold walk. apply fold_step_ext. apply dfs_ext. exact H. Qed.

Lemma mapM_rmap {A B B'} (f : A -> res B) (f' : A -> res B') (h : B -> B') l :
  (forall x, f' x = rmap h (f x)) -> mapM f' l = rmap (map h) (mapM f l).
Proof.
  intros H. induction l as [|x l IH]; [reflexivity|].
  cbn [mapM]. rewrite H. destruct (f x) as [y|e]; [|reflexivity]. cbn [rmap bind].
  rewrite IH. destruct (mapM f l); reflexivity.
Qed.

Lemma mapM_map {A A' B} (g : A' -> res B) (h : A -> A') l :
  mapM g (map h l) = mapM (fun x => g (h x)) l.
Proof. induction l as [|x l IH]; [reflexivity|]. cbn [map mapM]. rewrite IH. reflexivity. Qed.

Section Transfer.
Context {blob : Type}.
Variable E : env blob.
Variable P : list rel -> bool.
Variable Q : cts -> bool.
(** [tagged]: a payload the larger env has re-serialised is marked, and re-serialising a
    marked payload gives it back; this makes the larger env idempotent whatever [E] does *)
Variable tagged : bool.

Inductive xblob := XB (b : blob) | XI (b : blob) | XR (l : list rel) | XC (c : cts).

Definition xtag (b : blob) : xblob := if tagged then XI b else XB b.

Definition xenv : env xblob :=
  mkEnv xblob
    (fun x => match x with XB b | XI b => dec_rels E b | XR l => Some l | XC _ => None end)
    (fun l => if P l then XB (enc_rels E l) else XR l)
    (fun x => match x with XB b | XI b => dec_ct E b | XC c => Some c | XR _ => None end)
    (fun c => if Q c then XB (enc_ct E c) else XC c)
    (fun x => match x with XB b => option_map xtag (reser E b) | XI b => Some (XI b) | _ => None end)
    (deftbl E) (xmlcts E) (initdefs E) (prescts E) (rt_od E).

Definition unx (x : xblob) : blob :=
  match x with XB b | XI b => b | XR l => enc_rels E l | XC c => enc_ct E c end.
Definition clean (x : xblob) : bool := match x with XB _ | XI _ => true | _ => false end.
Definition clean_phys (q : phys xblob) : bool := forallb (fun nb => clean (snd nb)) q.

Definition emb_blob (ct : str) (b : blob) : xblob := if is_xml_ct E ct then xtag b else XB b.
Definition emb_part (pt : part blob) : part xblob :=
  mkPart (p_name pt) (p_ct pt) (emb_blob (p_ct pt) (p_blob pt)) (p_rels pt).
Definition emb_pkg (k : pkg blob) : pkg xblob := mkPkg (k_rels k) (map emb_part (k_parts k)).

Lemma unx_xtag b : unx (xtag b) = b.
Proof. unfold xtag. destruct tagged; reflexivity. Qed.
Lemma unx_emb_blob ct b : unx (emb_blob ct b) = b.
Proof. unfold emb_blob. destruct (is_xml_ct E ct); [apply unx_xtag|reflexivity]. Qed.
Lemma clean_xtag b : clean (xtag b) = true.
Proof. unfold xtag. destruct tagged; reflexivity. Qed.
Lemma clean_emb_blob ct b : clean (emb_blob ct b) = true.
Proof. unfold emb_blob. destruct (is_xml_ct E ct); [apply clean_xtag|reflexivity]. Qed.

Lemma codec_x : codec_rt_on P Q E ->
  (tagged = true \/ forall b b', reser E b = Some b' -> reser E b' = Some b') -> codec_ok xenv.
Proof.
  intros (Hr & Hc) Hid. split; [|split].
  - intros l. cbn [dec_rels enc_rels xenv]. destruct (P l) eqn:El; [apply Hr; auto|reflexivity].
  - intros c. cbn [dec_ct enc_ct xenv]. destruct (Q c) eqn:Ec; [apply Hc; auto|reflexivity].
  - intros x x'. cbn [reser xenv]. destruct x as [b|b| |]; try discriminate.
    + destruct (reser E b) as [b'|] eqn:Eb; [|discriminate]. cbn [option_map]. intros H. inversion H; subst x'.
      unfold xtag. destruct tagged eqn:Et; [reflexivity|].
      destruct Hid as [Hid|Hid]; [discriminate|]. rewrite (Hid b b' Eb). reflexivity.
    + intros H. inversion H; subst x'. reflexivity.
Qed.

Lemma env_ok_x : env_ok E -> env_ok xenv.
Proof. intros H. exact H. Qed.

(* ---- loading ---- *)

Lemma rels_for_x p n : rels_for xenv (mapv XB p) n = rels_for E p n.
Proof.
  unfold rels_for. destruct (rels_uri n) as [u|e]; [|reflexivity].
  rewrite lookup_mapv. destruct (lookup u p); reflexivity.
Qed.

Lemma succs_x p n : succs xenv (mapv XB p) n = succs E p n.
Proof. unfold succs. rewrite rels_for_x. reflexivity. Qed.

Lemma names_x p : xml_rels_names xenv (mapv XB p) = xml_rels_names E p.
Proof.
  unfold xml_rels_names, fuel_of. unfold mapv at 2. rewrite map_length. f_equal.
  apply dfs_ext. intros x. apply succs_x.
Qed.

Lemma part_names_x p : part_names xenv (mapv XB p) = part_names E p.
Proof.
  unfold part_names. rewrite names_x. apply filter_ext. intros n. rewrite has_mapv. reflexivity.
Qed.

Lemma rels_or_nil_x p n : rels_or_nil xenv (mapv XB p) n = rels_or_nil E p n.
Proof. unfold rels_or_nil. rewrite rels_for_x. reflexivity. Qed.

Lemma load_rels_x p present n : load_rels xenv (mapv XB p) present n = load_rels E p present n.
Proof. unfold load_rels. rewrite rels_or_nil_x. reflexivity. Qed.

Definition emb_proto (pr : str * str * blob) : str * str * xblob :=
  let '(n, ct, b) := pr in (n, ct, emb_blob ct b).

Lemma load_part_x p c n : load_part xenv (mapv XB p) c n = rmap emb_proto (load_part E p c n).
Proof.
  unfold load_part. destruct (ct_lookup c n) as [ct|e]; [|reflexivity]. cbn [bind].
  rewrite lookup_mapv. destruct (lookup n p) as [b|]; [|reflexivity]. cbn [option_map].
  change (is_xml_ct xenv ct) with (is_xml_ct E ct). destruct (is_xml_ct E ct) eqn:Ex.
  - cbn [reser xenv]. destruct (reser E b); [|reflexivity].
    cbn [option_map rmap emb_proto]. unfold emb_blob. rewrite Ex. reflexivity.
  - cbn [rmap emb_proto]. unfold emb_blob. rewrite Ex. reflexivity.
Qed.

Lemma load_x p : load xenv (mapv XB p) = rmap emb_pkg (load E p).
Proof.
  unfold load. rewrite lookup_mapv. destruct (lookup ct_uri p) as [cb|]; [|reflexivity].
  cbn [option_map]. change (dec_ct xenv (XB cb)) with (dec_ct E cb).
  destruct (dec_ct E cb) as [c|]; [|reflexivity].
  rewrite names_x, part_names_x.
  rewrite (forallb_ext' _ (fun n => match rels_for E p n with Some _ => true | None => false end))
    by (intros n; rewrite rels_for_x; reflexivity).
  destruct (negb _); [reflexivity|].
  rewrite (mapM_rmap (load_part E p c) _ emb_proto) by (intros n; apply load_part_x).
  destruct (mapM (load_part E p c) (part_names E p)) as [protos|e]; [|reflexivity].
  cbn [rmap bind]. rewrite mapM_map.
  rewrite (mapM_rmap (fun pr : str * str * blob =>
                        let '(n, ct, b) := pr in
                        bind (load_rels E p (fun n0 => mem_str n0 (part_names E p)) n)
                             (fun rs => Ok (mkPart n ct b rs))) _ emb_part).
  - destruct (mapM _ protos) as [parts|e]; [|reflexivity]. cbn [rmap bind].
    rewrite load_rels_x. destruct (load_rels E p _ root); reflexivity.
  - intros [[n ct] b]. cbn [emb_proto]. rewrite load_rels_x.
    destruct (load_rels E p _ n); reflexivity.
Qed.

Lemma load_x_inv p k' : load xenv (mapv XB p) = Ok k' -> exists k, load E p = Ok k /\ k' = emb_pkg k.
Proof.
  rewrite load_x. destruct (load E p) as [k|e]; cbn [rmap]; intros H; inversion H. eauto.
Qed.

Lemma reach_x p x : reachable xenv (mapv XB p) x <-> reachable E p x.
Proof.
  unfold reachable. split; intros H; induction H; try apply r0.
  - eapply r1; [exact IHreach|]. rewrite <- succs_x. exact H0.
  - eapply r1; [exact IHreach|]. rewrite succs_x. exact H0.
Qed.

Lemma wf_x p : wf E p -> wf xenv (mapv XB p).
Proof.
  intros (H1 & H2 & H3 & H4). split; [|split; [|split]].
  - destruct H1 as (cb & c & Hcb & Hc & Hx). exists (XB cb), c.
    rewrite lookup_mapv, Hcb. split; [reflexivity|]. split; [exact Hc|].
    intros x Hr Hn. apply reach_x in Hr. destruct (Hx x Hr Hn) as (ct & b & Hct & Hb & Hres).
    exists ct, (XB b). rewrite lookup_mapv, Hb. repeat split; auto.
    intros Hxml. destruct (Hres Hxml) as (b' & Hb'). exists (xtag b'). cbn [reser xenv]. rewrite Hb'. reflexivity.
  - intros x Hr. apply reach_x in Hr. rewrite rels_for_x. apply H2; auto.
  - intros x Hr. apply H3. apply reach_x; auto.
  - intros x y Hx Hy. apply H4; apply reach_x; auto.
Qed.

Lemma ct_in_x q n : ct_in xenv (mapv XB q) n = ct_in E q n.
Proof. unfold ct_in. rewrite lookup_mapv. destruct (lookup ct_uri q); reflexivity. Qed.

(* ---- reading a package of the larger env that holds no kept list ---- *)

Lemma lookup_clean q u x : clean_phys q = true -> lookup u q = Some x -> clean x = true.
Proof.
  induction q as [|[k v] q IH]; [discriminate|]. cbn [clean_phys forallb snd lookup].
  intros H. apply andb_true_iff in H as [Hv Hq]. destruct (str_eqb k u).
  - intros Hx. inversion Hx; subst. exact Hv.
  - apply IH. exact Hq.
Qed.

Lemma rels_for_unx q n : clean_phys q = true -> rels_for xenv q n = rels_for E (mapv unx q) n.
Proof.
  intros Hq. unfold rels_for. destruct (rels_uri n) as [u|e]; [|reflexivity].
  rewrite lookup_mapv. destruct (lookup u q) as [x|] eqn:Ex; [|reflexivity].
  pose proof (lookup_clean q u x Hq Ex) as Hc. destruct x; try discriminate; reflexivity.
Qed.

Lemma ct_in_unx q n : clean_phys q = true -> ct_in xenv q n = ct_in E (mapv unx q) n.
Proof.
  intros Hq. unfold ct_in. rewrite lookup_mapv. destruct (lookup ct_uri q) as [x|] eqn:Ex; [|reflexivity].
  pose proof (lookup_clean q ct_uri x Hq Ex) as Hc. destruct x; try discriminate; reflexivity.
Qed.

(* ---- saving ---- *)

Lemma find_part_x k n : find_part (emb_pkg k) n = option_map emb_part (find_part k n).
Proof.
  unfold find_part. cbn [emb_pkg k_parts]. induction (k_parts k) as [|pt l IH]; [reflexivity|].
  cbn [map find]. change (p_name (emb_part pt)) with (p_name pt).
  destruct (str_eqb (p_name pt) n); [reflexivity|]. exact IH.
Qed.

Lemma lsuccs_x k n : lsuccs (emb_pkg k) n = lsuccs k n.
Proof. unfold lsuccs. rewrite find_part_x. destruct (find_part k n); reflexivity. Qed.

Lemma iter_part_names_x k : iter_part_names (emb_pkg k) = iter_part_names k.
Proof.
  unfold iter_part_names, fuel_of. cbn [emb_pkg k_parts k_rels]. rewrite map_length. f_equal.
  apply walk_ext. intros x. apply lsuccs_x.
Qed.

Lemma iter_parts_x k : iter_parts (emb_pkg k) = map emb_part (iter_parts k).
Proof.
  unfold iter_parts. rewrite iter_part_names_x. induction (iter_part_names k) as [|n l IH]; [reflexivity|].
  cbn [flat_map]. rewrite map_app, IH, find_part_x. destruct (find_part k n); reflexivity.
Qed.

Lemma cti_fold_x parts : forall acc,
  fold_left (cti_step xenv) (map emb_part parts) acc = fold_left (cti_step E) parts acc.
Proof. induction parts as [|pt l IH]; intros acc; [reflexivity|]. cbn [map fold_left]. rewrite IH. reflexivity. Qed.

Lemma cti_x parts : content_types_item xenv (map emb_part parts) = content_types_item E parts.
Proof.
  unfold content_types_item, defaults_and_overrides. rewrite cti_fold_x. reflexivity.
Qed.

(** whatever the lists are, the saved members carry the same text once a kept list is
    written out *)
Lemma members_unx l :
  mapv unx (flat_map (part_members xenv) (map emb_part l)) = flat_map (part_members E) l.
Proof.
  induction l as [|pt l IH]; [reflexivity|].
  cbn [map flat_map]. unfold mapv in *. rewrite map_app, IH. f_equal.
  unfold part_members. cbn [emb_part p_name p_blob p_rels].
  destruct (p_rels pt) as [|r rs]; cbn [map fst snd]; rewrite unx_emb_blob; [reflexivity|].
  cbn [enc_rels xenv]. destruct (P _); reflexivity.
Qed.

Lemma save_unx k : mapv unx (save xenv (emb_pkg k)) = save E k.
Proof.
  unfold save. rewrite iter_parts_x, cti_x. cbn [emb_pkg k_rels].
  cbn [mapv map fst snd enc_ct enc_rels xenv]. f_equal; [|f_equal].
  - destruct (Q _); reflexivity.
  - destruct (P _); reflexivity.
  - apply members_unx.
Qed.

(** when every list handed to the encoders is inside [P] / [Q], no list is kept *)
Lemma members_clean l :
  (forall pt, In pt l -> p_rels pt <> [] -> P (out_rels (p_name pt) (p_rels pt)) = true) ->
  clean_phys (flat_map (part_members xenv) (map emb_part l)) = true.
Proof.
  induction l as [|pt l IH]; intros Hp; [reflexivity|].
  cbn [map flat_map]. unfold clean_phys in *. rewrite forallb_app, IH by (intros; apply Hp; auto; right; auto).
  rewrite andb_true_r. unfold part_members. cbn [emb_part p_name p_blob p_rels].
  specialize (Hp pt (or_introl eq_refl)).
  destruct (p_rels pt) as [|r rs]; cbn [forallb snd]; rewrite clean_emb_blob; [reflexivity|].
  cbn [enc_rels xenv]. rewrite Hp by discriminate. reflexivity.
Qed.

Lemma save_clean k : writes_ok P Q E k -> clean_phys (save xenv (emb_pkg k)) = true.
Proof.
  intros (Hk & Hp & Hc). unfold save. rewrite iter_parts_x, cti_x. cbn [emb_pkg k_rels].
  unfold clean_phys. cbn [forallb snd enc_ct enc_rels xenv]. rewrite Hk, Hc. cbn [clean andb].
  apply members_clean. exact Hp.
Qed.

(** without marking, they are the same members *)
Lemma members_x l : tagged = false ->
  (forall pt, In pt l -> p_rels pt <> [] -> P (out_rels (p_name pt) (p_rels pt)) = true) ->
  flat_map (part_members xenv) (map emb_part l) = mapv XB (flat_map (part_members E) l).
Proof.
  intros Ht. induction l as [|pt l IH]; intros Hp; [reflexivity|].
  cbn [map flat_map]. unfold mapv in *. rewrite map_app, <- IH by (intros; apply Hp; auto; right; auto). f_equal.
  unfold part_members. cbn [emb_part p_name p_blob p_rels].
  specialize (Hp pt (or_introl eq_refl)).
  assert (Hb : emb_blob (p_ct pt) (p_blob pt) = XB (p_blob pt)).
  { unfold emb_blob, xtag. rewrite Ht. destruct (is_xml_ct E (p_ct pt)); reflexivity. }
  destruct (p_rels pt) as [|r rs]; cbn [map fst snd]; rewrite Hb; [reflexivity|].
  cbn [enc_rels xenv]. rewrite Hp by discriminate. reflexivity.
Qed.

Lemma save_x k : tagged = false -> writes_ok P Q E k -> save xenv (emb_pkg k) = mapv XB (save E k).
Proof.
  intros Ht (Hk & Hp & Hc). unfold save. rewrite iter_parts_x, cti_x. cbn [emb_pkg k_rels].
  cbn [mapv map fst snd enc_ct enc_rels xenv]. rewrite Hk, Hc. f_equal. f_equal.
  apply members_x; auto.
Qed.
End Transfer.

(* ---- the three theorems ---- *)

(** relationships: only the reader / writer pair is used *)
Theorem c01_rels_on {blob} (E : env blob) P Q p : wf E p -> codec_rt_on P Q E ->
  (forall k, load E p = Ok k -> writes_ok P Q E k) ->
  exists k, load E p = Ok k /\
    forall src, reachable E p src ->
      exists rs rs', rels_for E p src = Some rs /\ rels_for E (save E k) src = Some rs' /\
                     Permutation (map (rel_sem src) rs) (map (rel_sem src) rs').
Proof.
  intros Hwf Hc Hw.
  destruct (c01_rels (xenv E P Q true) (mapv XB p) (wf_x E P Q true p Hwf)
              (codec_x E P Q true Hc (or_introl eq_refl))) as (k' & Hl & H).
  destruct (load_x_inv E P Q true p k' Hl) as (k & Hk & ->). exists k. split; [exact Hk|].
  intros src Hr. destruct (H src (proj2 (reach_x E P Q true p src) Hr)) as (rs & rs' & A & B & C).
  exists rs, rs'. rewrite rels_for_x in A.
  rewrite (rels_for_unx E P Q true _ src (save_clean E P Q true k (Hw k Hk))), save_unx in B. auto.
Qed.

(** content type and payload: likewise *)
Theorem c01_payload_type_on {blob} (E : env blob) P Q p : wf E p -> codec_rt_on P Q E -> env_ok E ->
  (forall k, load E p = Ok k -> writes_ok P Q E k) ->
  exists k, load E p = Ok k /\
    forall q ct b, reachable E p q -> q <> root -> ct_in E p q = Ok ct -> lookup q p = Some b ->
      ct_in E (save E k) q = Ok ct /\
      lookup q (save E k) = (if is_xml_ct E ct then reser E b else Some b).
Proof.
  intros Hwf Hc Henv Hw.
  destruct (c01_payload_type (xenv E P Q true) (mapv XB p) (wf_x E P Q true p Hwf)
              (codec_x E P Q true Hc (or_introl eq_refl)) (env_ok_x E P Q true Henv)) as (k' & Hl & H).
  destruct (load_x_inv E P Q true p k' Hl) as (k & Hk & ->). exists k. split; [exact Hk|].
  intros q ct b Hr Hn Hct Hb.
  destruct (H q ct (XB b) (proj2 (reach_x E P Q true p q) Hr) Hn) as [A B].
  { rewrite ct_in_x. exact Hct. }
  { rewrite lookup_mapv, Hb. reflexivity. }
  rewrite (ct_in_unx E P Q true _ q (save_clean E P Q true k (Hw k Hk))), save_unx in A.
  split; [exact A|].
  apply (f_equal (option_map (unx E))) in B. rewrite <- lookup_mapv, save_unx in B. rewrite B.
  change (is_xml_ct (xenv E P Q true) ct) with (is_xml_ct E ct).
  destruct (is_xml_ct E ct); [|reflexivity].
  cbn [reser xenv]. destruct (reser E b); reflexivity.
Qed.

(** second save: this one does need the re-serialiser to be idempotent *)
Theorem c01_idem_on {blob} (E : env blob) P Q p : wf E p -> codec_ok_on P Q E -> env_ok E ->
  (forall k, load E p = Ok k -> writes_ok P Q E k) ->
  exists k k2, load E p = Ok k /\ load E (save E k) = Ok k2 /\ same_package (save E k2) (save E k).
Proof.
  intros Hwf [Hc Hid] Henv Hw.
  destruct (c01_idem (xenv E P Q false) (mapv XB p) (wf_x E P Q false p Hwf)
              (codec_x E P Q false Hc (or_intror Hid)) (env_ok_x E P Q false Henv)) as (k' & k2' & Hl & Hl2 & Hs).
  destruct (load_x_inv E P Q false p k' Hl) as (k & Hk & ->).
  rewrite (save_x E P Q false k eq_refl (Hw k Hk)) in Hl2, Hs.
  destruct (load_x_inv E P Q false _ k2' Hl2) as (k2 & Hk2 & ->).
  exists k, k2. split; [exact Hk|]. split; [exact Hk2|].
  apply (same_package_mapv (unx E)) in Hs. rewrite save_unx in Hs.
  rewrite mapv_mapv in Hs. cbn [unx] in Hs. rewrite mapv_id in Hs. exact Hs.
Qed.


(** ---- what a package of XML strings hands to the encoders ---- *)

Lemma xml_str_app a b : xml_str (a ++ b) = xml_str a && xml_str b.
Proof. apply forallb_app. Qed.

Lemma xml_join L : Forall (fun s => xml_str s = true) L -> xml_str (join_with s_slash L) = true.
Proof.
  induction 1 as [|s L Hs HL IH]; [reflexivity|].
  destruct L as [|s' L']; [exact Hs|].
  change (join_with s_slash (s :: s' :: L')) with (s ++ s_slash ++ join_with s_slash (s' :: L')).
  rewrite !xml_str_app, Hs, IH. reflexivity.
Qed.

Lemma xml_join_inv L : xml_str (join_with s_slash L) = true -> Forall (fun s => xml_str s = true) L.
Proof.
  induction L as [|s L IH]; intros H; [constructor|].
  destruct L as [|s' L']; [constructor; [exact H|constructor]|].
  change (join_with s_slash (s :: s' :: L')) with (s ++ s_slash ++ join_with s_slash (s' :: L')) in H.
  rewrite !xml_str_app in H. apply andb_true_iff in H as [Hs H]. apply andb_true_iff in H as [_ H].
  constructor; auto.
Qed.

Lemma in_skipn_in {A} (x : A) n l : In x (skipn n l) -> In x l.
Proof. intros H. rewrite <- (firstn_skipn n l). apply in_or_app. right. exact H. Qed.

(** the reference the writer computes is made of two-dot segments, or one dot, and
    segments of the target name *)
Lemma relative_ref_render D Q : wf_name D -> wf_name Q ->
  exists rel, relative_ref (render Q) (render D) = Ok (join_with s_slash rel)
              /\ Forall (fun s => s = s_dotdot \/ s = s_dot \/ In s Q) rel.
Proof.
  intros HD HQ. destruct D as [|d D'].
  - exists Q. split; [reflexivity|]. apply Forall_forall. auto.
  - assert (Hne : d :: D' <> []) by discriminate. set (D := d :: D') in *.
    unfold relative_ref. rewrite render_ne_root by auto. unfold px_relpath.
    change (render Q) with (c_slash :: join_with s_slash Q) at 1. cbv iota.
    rewrite !px_abspath_render. rewrite !bind_ok.
    rewrite !normpath_render_wf by auto. rewrite !nonempty_comps_render by auto.
    set (i := common_prefix_len D Q).
    assert (Hall : Forall (fun s => s = s_dotdot \/ s = s_dot \/ In s Q)
                     (repeat s_dotdot (length D - i) ++ skipn i Q)).
    { apply Forall_app; split; apply Forall_forall; intros x Hx.
      - apply repeat_spec in Hx. auto.
      - right; right. eapply in_skipn_in; eauto. }
    destruct (repeat s_dotdot (length D - i) ++ skipn i Q) as [|r0 rel'] eqn:Hrel.
    + exists [s_dot]. split; [reflexivity|]. constructor; auto.
    + rewrite <- Hrel in *. exists (repeat s_dotdot (length D - i) ++ skipn i Q). split; auto.
      rewrite px_join_all_join; [reflexivity|].
      apply Forall_app; split.
      * apply Forall_forall. intros x Hx. apply repeat_spec in Hx. subst.
        split; [discriminate | reflexivity].
      * apply Forall_skipn, wf_name_seg_ok; auto.
Qed.

Lemma rel_ref_xml src t : (src = root \/ part_name src) -> part_name t -> xml_str t = true ->
  xml_str (rel_ref t (baseURI src)) = true.
Proof.
  intros Hs (Q & HQ & _ & -> & _) Hx.
  assert (HxQ : Forall (fun s => xml_str s = true) Q).
  { apply xml_join_inv. unfold render in Hx. cbn [xml_str forallb] in Hx.
    apply andb_true_iff in Hx as [_ Hx]. exact Hx. }
  assert (exists D, wf_name D /\ baseURI src = render D) as (D & HD & ->).
  { destruct Hs as [->|(P & HP & Hne & -> & _)].
    - exists []. split; [constructor|reflexivity].
    - destruct (rev_cons_exists P Hne) as (d & f & ->).
      apply Forall_app in HP as [Hd Hf]. inversion Hf; subst.
      exists d. split; auto. apply baseURI_render; auto. }
  destruct (relative_ref_render D Q HD HQ) as (rel & Hr & Hall).
  unfold rel_ref. rewrite Hr. apply xml_join.
  rewrite Forall_forall in *. intros s Hin. destruct (Hall s Hin) as [->|[->|Hq]]; auto.
Qed.

Lemma is_xml_lower_c c : is_xml_char c = true -> is_xml_char (lower_c c) = true.
Proof.
  unfold lower_c. destruct ((65 <=? c)%N && (c <=? 90)%N) eqn:Eu; auto.
  intros _. unfold is_xml_char. lia.
Qed.

Lemma xml_lower s : xml_str s = true -> xml_str (lower s) = true.
Proof.
  unfold xml_str, lower. rewrite !forallb_forall. intros H c Hc.
  apply in_map_iff in Hc as (c0 & <- & Hc0). apply is_xml_lower_c. auto.
Qed.

Lemma in_take_while {A} (f : A -> bool) x l : In x (take_while f l) -> In x l.
Proof.
  induction l as [|y l IH]; cbn [take_while]; auto.
  destruct (f y); cbn [In]; [|tauto]. intros [H|H]; auto.
Qed.

Lemma in_rsplit_snd c s x : In x (snd (rsplit_at c s)) -> In x s.
Proof.
  unfold rsplit_at. cbn [snd]. intros H. apply in_rev in H. apply in_take_while in H.
  apply in_rev. exact H.
Qed.

Lemma in_ext x p : In x (ext p) -> In x p.
Proof.
  unfold ext, px_splitext.
  destruct (rsplit_at c_slash p) as [h t] eqn:E1.
  assert (Ht : forall y, In y t -> In y p).
  { intros y Hy. apply (in_rsplit_snd c_slash). rewrite E1. exact Hy. }
  destruct (existsb is_dot t); [|cbn [snd]; intros []].
  destruct (rsplit_at c_dot t) as [a b] eqn:E2.
  destruct (existsb _ (removelast a)); [|cbn [snd]; intros []].
  cbn [snd]. change (is_dot c_dot) with true. cbv iota.
  intros H. apply Ht. apply (in_rsplit_snd c_dot). rewrite E2. exact H.
Qed.

Lemma xml_ext p : xml_str p = true -> xml_str (ext p) = true.
Proof.
  unfold xml_str. rewrite !forallb_forall. intros H x Hx. apply H. apply in_ext. exact Hx.
Qed.

Lemma dict_set_Forall {V} (R : str * V -> Prop) k v d :
  Forall R d -> R (k, v) -> Forall R (dict_set k v d).
Proof.
  intros Hd Hkv. induction Hd as [|[k' v'] d Hx Hd IH]; cbn [dict_set]; [constructor; auto|].
  destruct (str_eqb_spec k' k) as [->|Hn]; constructor; auto.
Qed.

Definition xml_pairs (l : list (str * str)) : Prop := Forall (fun kv => xml_pair kv = true) l.

Lemma xml_pair_mk a b : xml_str a = true -> xml_str b = true -> xml_pair (a, b) = true.
Proof. intros Ha Hb. unfold xml_pair. cbn [fst snd]. rewrite Ha, Hb. reflexivity. Qed.

Lemma cti_fold_xml {blob} (E : env blob) parts : forall acc,
  (forall pt, In pt parts -> xml_str (p_name pt) = true /\ xml_str (p_ct pt) = true) ->
  xml_pairs (fst acc) -> xml_pairs (snd acc) ->
  xml_pairs (fst (fold_left (cti_step E) parts acc)) /\ xml_pairs (snd (fold_left (cti_step E) parts acc)).
Proof.
  induction parts as [|pt l IH]; intros acc Hp Hd Ho; [auto|].
  cbn [fold_left]. destruct (Hp pt (or_introl eq_refl)) as [Hn Hc].
  apply IH; [intros; apply Hp; right; auto| |]; unfold cti_step;
    destruct (in_table _ _ _); cbn [fst snd]; auto; apply dict_set_Forall; auto;
    apply xml_pair_mk; auto. apply xml_lower, xml_ext. exact Hn.
Qed.

Lemma forallb_perm {A} (f : A -> bool) l l' : Permutation l l' -> forallb f l' = true -> forallb f l = true.
Proof.
  intros HP. rewrite !forallb_forall. intros H x Hx. apply H. eapply Permutation_in; eauto.
Qed.

Lemma cti_xml {blob} (E : env blob) parts :
  (forall pt, In pt parts -> xml_str (p_name pt) = true /\ xml_str (p_ct pt) = true) ->
  (forall kv, In kv (initdefs E) -> xml_pair kv = true) ->
  xml_cts (content_types_item E parts) = true.
Proof.
  intros Hp Hi. unfold content_types_item, defaults_and_overrides.
  destruct (cti_fold_xml E parts (initdefs E, []) Hp) as [Hd Ho].
  { apply Forall_forall. exact Hi. } { constructor. }
  destruct (fold_left (cti_step E) parts (initdefs E, [])) as [d o]. cbn [fst snd] in *.
  unfold xml_cts. cbn [fst snd]. apply andb_true_iff. split.
  - apply (forallb_perm _ _ d (sort_by_perm _ d)). apply forallb_forall. apply Forall_forall. exact Hd.
  - apply (forallb_perm _ _ o (sort_by_perm _ o)). apply forallb_forall. apply Forall_forall. exact Ho.
Qed.

Section XmlPackage.
Context {blob : Type}.
Variable E : env blob.
Variable p : phys blob.
Hypothesis Hwf : wf E p.
Hypothesis Hxml : xml_package E p.

Lemma out_rels_xml src : reachable E p src ->
  xml_rels (out_rels src (map (conv_rel src) (rels_or_nil E p src))) = true.
Proof.
  intros Hr. destruct Hxml as (Hnames & Hrels & _ & _).
  destruct (Opc_proofs.wf_rels E p Hwf src Hr) as (rs & Hrs & _ & Hm).
  rewrite (rels_or_nil_eq E p _ _ Hrs).
  unfold xml_rels, out_rels. apply forallb_forall. intros r Hin.
  apply in_map_iff in Hin as (l & <- & Hl).
  apply (Permutation_in _ (sort_by_perm _ _)) in Hl.
  apply in_map_iff in Hl as (r0 & <- & Hr0).
  destruct (Hrels src rs r0 Hr Hrs Hr0) as (Hi & Ht & Hg). destruct (Hm r0 Hr0) as [_ Hnr].
  unfold out_rel, conv_rel. cbn [l_ext l_id l_type l_target].
  destruct (is_ext r0) eqn:Ee; unfold xml_rel; cbn [r_id r_type r_target r_mode].
  - rewrite Hi, Ht, Hg. reflexivity.
  - rewrite Hi, Ht. cbn [andb]. rewrite andb_true_r.
    assert (Hreach : reachable E p (resolve (baseURI src) (r_target r0))).
    { eapply r1; [exact Hr|]. rewrite (succs_rels E p _ _ Hrs). apply int_target_in; auto. }
    apply rel_ref_xml.
    + destruct (str_eqb_spec src root) as [->|Hn]; [left; reflexivity|right].
      apply (wf_part_name E p Hwf); auto.
    + apply (wf_part_name E p Hwf); auto.
    + apply Hnames. exact Hreach.
Qed.

Theorem xml_package_writes_ok k : load E p = Ok k -> writes_ok xml_rels xml_cts E k.
Proof.
  intros Hk. destruct (load_wf E p Hwf) as (cb & c & Hcb & Hc & Hl).
  rewrite Hl in Hk. inversion Hk; subst k. clear Hk.
  destruct (iter_part_names_spec E p Hwf c) as [Hnames _].
  split; [|split].
  - cbn [spec_pkg k_rels]. apply out_rels_xml. apply r0.
  - intros pt Hin _. rewrite (iter_parts_spec E p Hwf c) in Hin.
    apply in_map_iff in Hin as (n & <- & Hn). apply Hnames in Hn as [Hr _].
    cbn [spec_part p_name p_rels]. apply out_rels_xml. exact Hr.
  - destruct Hxml as (Hxn & _ & Hxc & Hxi). apply cti_xml; [|exact Hxi].
    intros pt Hin. rewrite (iter_parts_spec E p Hwf c) in Hin.
    apply in_map_iff in Hin as (n & <- & Hn). apply Hnames in Hn as [Hr Hne].
    cbn [spec_part p_name p_ct]. split; [apply Hxn; auto|].
    destruct (wf_ct_c E p Hwf cb c Hcb Hc n Hr Hne) as (ct & b & Hct & _).
    unfold ct_or. rewrite Hct. apply (Hxc n ct Hr). rewrite (ct_in_c E p cb c Hcb Hc). exact Hct.
Qed.
End XmlPackage.

(** ---- the C01 theorems for packages of XML strings, under any env that is exact on
    XML strings; and for the concrete codec ---- *)

Theorem c01_rels_xml {blob} (E : env blob) p :
  wf E p -> codec_rt_on xml_rels xml_cts E -> xml_package E p ->
  exists k, load E p = Ok k /\
    forall src, reachable E p src ->
      exists rs rs', rels_for E p src = Some rs /\ rels_for E (save E k) src = Some rs' /\
                     Permutation (map (rel_sem src) rs) (map (rel_sem src) rs').
Proof.
  intros Hwf Hc Hx. apply (c01_rels_on E xml_rels xml_cts p Hwf Hc).
  intros k. apply xml_package_writes_ok; auto.
Qed.

Theorem c01_payload_type_xml {blob} (E : env blob) p :
  wf E p -> codec_rt_on xml_rels xml_cts E -> env_ok E -> xml_package E p ->
  exists k, load E p = Ok k /\
    forall q ct b, reachable E p q -> q <> root -> ct_in E p q = Ok ct -> lookup q p = Some b ->
      ct_in E (save E k) q = Ok ct /\
      lookup q (save E k) = (if is_xml_ct E ct then reser E b else Some b).
Proof.
  intros Hwf Hc He Hx. apply (c01_payload_type_on E xml_rels xml_cts p Hwf Hc He).
  intros k. apply xml_package_writes_ok; auto.
Qed.

Theorem c01_idem_xml {blob} (E : env blob) p :
  wf E p -> codec_ok_on xml_rels xml_cts E -> env_ok E -> xml_package E p ->
  exists k k2, load E p = Ok k /\ load E (save E k) = Ok k2 /\ same_package (save E k2) (save E k).
Proof.
  intros Hwf Hc He Hx. apply (c01_idem_on E xml_rels xml_cts p Hwf Hc He).
  intros k. apply xml_package_writes_ok; auto.
Qed.

(** the concrete codec: nothing is assumed of lxml any more for the relationships and for
    content types / payloads ... *)
Theorem c01_rels_concrete rs dt xc idf pc od p :
  let E := cenv rs dt xc idf pc od in
  wf E p -> xml_package E p ->
  exists k, load E p = Ok k /\
    forall src, reachable E p src ->
      exists l l', rels_for E p src = Some l /\ rels_for E (save E k) src = Some l' /\
                   Permutation (map (rel_sem src) l) (map (rel_sem src) l').
Proof. intros E Hwf Hx. apply c01_rels_xml; auto. apply cenv_codec_rt_on. Qed.

Theorem c01_payload_type_concrete rs dt xc idf pc od p :
  let E := cenv rs dt xc idf pc od in
  wf E p -> env_ok E -> xml_package E p ->
  exists k, load E p = Ok k /\
    forall q ct b, reachable E p q -> q <> root -> ct_in E p q = Ok ct -> lookup q p = Some b ->
      ct_in E (save E k) q = Ok ct /\
      lookup q (save E k) = (if is_xml_ct E ct then reser E b else Some b).
Proof. intros E Hwf He Hx. apply c01_payload_type_xml; auto. apply cenv_codec_rt_on. Qed.

(** ... and for the second save what is left is that re-serialising a payload lxml has
    serialised changes nothing *)
Theorem c01_idem_concrete rs dt xc idf pc od p :
  (forall b b', rs b = Some b' -> rs b' = Some b') ->
  let E := cenv rs dt xc idf pc od in
  wf E p -> env_ok E -> xml_package E p ->
  exists k k2, load E p = Ok k /\ load E (save E k) = Ok k2 /\ same_package (save E k2) (save E k).
Proof.
  intros Hid E Hwf He Hx. apply c01_idem_xml; auto. apply cenv_codec_ok_on. exact Hid.
Qed.


(** ---- what the concrete reader returns is made of XML characters ---- *)

Definition acc_ok (st : lst) : Prop :=
  match st with Run _ acc | Closed acc => xml_str acc = true | Dead => True end.

Lemma xml_cons x acc : is_xml_char x = true -> xml_str acc = true -> xml_str (x :: acc) = true.
Proof. intros Hx Ha. unfold xml_str in *. cbn [forallb]. rewrite Hx, Ha. reflexivity. Qed.

Lemma xml_tl acc : xml_str acc = true -> xml_str (tl acc) = true.
Proof.
  destruct acc as [|x acc]; auto. unfold xml_str. cbn [forallb tl]. intros H.
  apply andb_true_iff in H. tauto.
Qed.

Lemma decode_ref_xml nm d : decode_ref nm = Some d -> is_xml_char d = true.
Proof.
  unfold decode_ref. destruct nm as [|h t]; [discriminate|]. destruct (h =? c_hash)%N.
  - destruct t as [|h2 t2]; [discriminate|]. destruct (h2 =? c_x)%N.
    + destruct t2 as [|a b]; [discriminate|]. destruct (hex_value (a :: b) 0) as [v|]; [|discriminate].
      unfold char_ref. destruct (is_xml_char v) eqn:Ev; intros H; inversion H; subst; exact Ev.
    + destruct (forallb is_digit (h2 :: t2)); [|discriminate].
      unfold char_ref. destruct (is_xml_char (dec_value (h2 :: t2))) eqn:Ev; intros H; inversion H; subst; exact Ev.
  - destruct (str_eqb (h :: t) n_amp); [intros H; inversion H; reflexivity|].
    destruct (str_eqb (h :: t) n_lt); [intros H; inversion H; reflexivity|].
    destruct (str_eqb (h :: t) n_gt); [intros H; inversion H; reflexivity|].
    destruct (str_eqb (h :: t) n_quot); [intros H; inversion H; reflexivity|].
    destruct (str_eqb (h :: t) n_apos); [intros H; inversion H; reflexivity|]. discriminate.
Qed.

Lemma attr_ws_xml c : is_xml_char c = true -> is_xml_char (attr_ws c) = true.
Proof. intros H. unfold attr_ws. destruct ((c =? c_tab)%N || (c =? c_lf)%N); [reflexivity|exact H]. Qed.

Lemma step_ok st c : acc_ok st -> acc_ok (Escape.step AttrDq st c).
Proof.
  destruct st as [m acc|acc|]; [|intros _; exact I|intros _; exact I].
  cbn [acc_ok]. intros H. unfold Escape.step. destruct m as [rb cr|nm|k|rb cr].
  - destruct (negb (is_xml_char c)) eqn:Ex; [exact I|]. apply negb_false_iff in Ex.
    destruct (c =? c_amp)%N; [exact H|]. destruct (c =? c_lt)%N; [exact I|].
    destruct (c =? c_cr)%N; [apply xml_cons; [reflexivity|exact H]|].
    destruct ((c =? c_lf)%N && cr); [exact H|].
    destruct (c =? c_quot)%N; [exact H|].
    apply xml_cons; [apply attr_ws_xml; exact Ex|exact H].
  - destruct (c =? c_semi)%N; [|exact H].
    destruct (decode_ref (rev nm)) as [d|] eqn:Ed; [|exact I].
    apply xml_cons; [eapply decode_ref_xml; eauto|exact H].
  - destruct (c =? nth k cdata_open 0)%N; [|exact I]. destruct (S k =? 8)%nat; exact H.
  - destruct (negb (is_xml_char c)) eqn:Ex; [exact I|]. apply negb_false_iff in Ex.
    destruct (c =? c_cr)%N; [apply xml_cons; [reflexivity|exact H]|].
    destruct ((c =? c_lf)%N && cr); [exact H|].
    destruct ((c =? c_gt)%N && (2 <=? rb)%nat); [apply xml_tl, xml_tl; exact H|].
    apply xml_cons; auto.
Qed.

Lemma fold_ok l : forall st, acc_ok st -> acc_ok (fold_left (Escape.step AttrDq) l st).
Proof. induction l as [|c l IH]; intros st H; [exact H|]. cbn [fold_left]. apply IH, step_ok, H. Qed.

Lemma lex_attr_xml s v : lex_attr s = OneValue v -> xml_str v = true.
Proof.
  unfold lex_attr. destruct s as [|c r]; [discriminate|]. destruct (c =? c_quot)%N; [|discriminate].
  pose proof (fold_ok r start eq_refl) as H.
  destruct (fold_left (Escape.step AttrDq) r start) as [m acc|acc|]; try discriminate.
  intros Hv. inversion Hv; subst. cbn [acc_ok] in H. unfold xml_str in *. rewrite forallb_rev. exact H.
Qed.

Lemma attr_val_xml piece v : attr_val piece = Some v -> xml_str v = true.
Proof.
  unfold attr_val. destruct (lex_attr _) as [w|] eqn:E; [|discriminate].
  intros H. inversion H; subst. eapply lex_attr_xml; eauto.
Qed.

Lemma xml_fields_mk i t g m vi vt vg : attr_val vi = Some i -> attr_val vt = Some t -> attr_val vg = Some g ->
  xml_fields (mkRel i t g m) = true.
Proof.
  intros Hi Ht Hg. unfold xml_fields. cbn [r_id r_type r_target].
  rewrite (attr_val_xml _ _ Hi), (attr_val_xml _ _ Ht), (attr_val_xml _ _ Hg). reflexivity.
Qed.

Lemma dec_rel_pieces_xml n : forall ps l, (length ps <= n)%nat -> dec_rel_pieces ps = Some l ->
  forallb xml_fields l = true.
Proof.
  induction n as [|n IH]; intros ps l Hn.
  - destruct ps; [discriminate|cbn [length] in Hn; lia].
  - destruct ps as [|vi [|mt [|vt [|mg [|vg [|m more]]]]]]; try discriminate.
    cbn [length] in Hn. cbn [dec_rel_pieces].
    destruct (str_eqb mt x_type && str_eqb mg x_target); [|discriminate].
    destruct (attr_val vi) as [i|] eqn:Ei; [|discriminate].
    destruct (attr_val vt) as [t|] eqn:Et; [|discriminate].
    destruct (attr_val vg) as [g|] eqn:Eg; [|discriminate].
    destruct (str_eqb m x_next_rel).
    { destruct (dec_rel_pieces more) as [l'|] eqn:Em; [|discriminate]. cbn [cons_opt].
      intros H. inversion H; subst l. cbn [forallb].
      rewrite (xml_fields_mk i t g MInt vi vt vg Ei Et Eg). apply (IH more l'); [lia|exact Em]. }
    destruct (str_eqb m x_last_rel).
    { destruct more; [|discriminate]. intros H. inversion H; subst l. cbn [forallb].
      rewrite (xml_fields_mk i t g MInt vi vt vg Ei Et Eg). reflexivity. }
    destruct (str_eqb m x_mode); [|discriminate].
    destruct more as [|vm [|m2 more2]]; try discriminate. cbn [length] in Hn.
    destruct (attr_val vm) as [md|]; [|discriminate].
    destruct (str_eqb m2 x_next_rel).
    { destruct (dec_rel_pieces more2) as [l'|] eqn:Em; [|discriminate]. cbn [cons_opt].
      intros H. inversion H; subst l. cbn [forallb].
      rewrite (xml_fields_mk i t g _ vi vt vg Ei Et Eg). apply (IH more2 l'); [lia|exact Em]. }
    destruct (str_eqb m2 x_last_rel); [|discriminate].
    destruct more2; [|discriminate]. intros H. inversion H; subst l. cbn [forallb].
    rewrite (xml_fields_mk i t g _ vi vt vg Ei Et Eg). reflexivity.
Qed.

Theorem dec_rels_c_xml s l : dec_rels_c s = Some l -> forallb xml_fields l = true.
Proof.
  unfold dec_rels_c. destruct (split_on c_quot s) as [|p0 [|ns rest]]; try discriminate.
  destruct (_ && _); [|discriminate]. destruct rest as [|m ps]; [discriminate|].
  destruct (str_eqb m x_end).
  - destruct ps; [|discriminate]. intros H. inversion H. reflexivity.
  - destruct (str_eqb m (x_gt ++ x_rel_open)); [|discriminate].
    apply (dec_rel_pieces_xml (length ps)). lia.
Qed.

Lemma ct_add_xml b a v o c : attr_val a = Some (fst v) -> attr_val b = Some (snd v) ->
  forall isd, ct_add isd v o = Some c -> (forall c', o = Some c' -> xml_cts c' = true) -> xml_cts c = true.
Proof.
  intros Ha Hb isd H Ho. destruct o as [[ds os]|]; [|discriminate]. specialize (Ho _ eq_refl).
  unfold xml_cts in *. cbn [fst snd] in Ho. apply andb_true_iff in Ho as [Hd Hos].
  assert (Hv : xml_pair v = true).
  { unfold xml_pair. rewrite (attr_val_xml _ _ Ha), (attr_val_xml _ _ Hb). reflexivity. }
  cbn [ct_add] in H. destruct isd; inversion H; subst c; cbn [fst snd forallb]; rewrite ?Hv, ?Hd, ?Hos; reflexivity.
Qed.

Lemma dec_ct_pieces_xml n : forall isd ps c, (length ps <= n)%nat -> dec_ct_pieces isd ps = Some c ->
  xml_cts c = true.
Proof.
  induction n as [|n IH]; intros isd ps c Hn.
  - destruct ps; [discriminate|cbn [length] in Hn; lia].
  - destruct ps as [|v1 [|mc [|v2 [|m more]]]]; try discriminate.
    cbn [length] in Hn. cbn [dec_ct_pieces].
    destruct (str_eqb mc x_ctattr); [|discriminate].
    destruct (attr_val v1) as [a|] eqn:Ea; [|discriminate].
    destruct (attr_val v2) as [b|] eqn:Eb; [|discriminate].
    destruct (str_eqb m x_next_default).
    { intros H. apply (ct_add_xml v2 v1 (a, b) _ c Ea Eb isd H).
      intros c' Hc'. apply (IH true more c'); [lia|exact Hc']. }
    destruct (str_eqb m x_next_override).
    { intros H. apply (ct_add_xml v2 v1 (a, b) _ c Ea Eb isd H).
      intros c' Hc'. apply (IH false more c'); [lia|exact Hc']. }
    destruct (str_eqb m x_last_ct); [|discriminate].
    destruct more; [|discriminate].
    intros H. apply (ct_add_xml v2 v1 (a, b) _ c Ea Eb isd H).
    intros c' Hc'. inversion Hc'. reflexivity.
Qed.

Theorem dec_ct_c_xml s c : dec_ct_c s = Some c -> xml_cts c = true.
Proof.
  unfold dec_ct_c. destruct (split_on c_quot s) as [|p0 [|ns rest]]; try discriminate.
  destruct (_ && _); [|discriminate]. destruct rest as [|m ps]; [discriminate|].
  destruct (str_eqb m x_end).
  - destruct ps; [|discriminate]. intros H. inversion H. reflexivity.
  - destruct (str_eqb m (x_gt ++ x_default_open)).
    + apply (dec_ct_pieces_xml (length ps)). lia.
    + destruct (str_eqb m (x_gt ++ x_override_open)); [|discriminate].
      apply (dec_ct_pieces_xml (length ps)). lia.
Qed.

(** content type lookup returns a value of the table *)
Lemma lookup_in {V} k (d : list (str * V)) v : lookup k d = Some v -> exists k', In (k', v) d.
Proof.
  induction d as [|[k0 v0] d IH]; [discriminate|]. cbn [lookup].
  destruct (str_eqb k0 k).
  - intros H. inversion H; subst. exists k0. left. reflexivity.
  - intros H. destruct (IH H) as (k' & Hin). exists k'. right. exact Hin.
Qed.

Lemma lower_keys_vals l : Forall (fun kv : str * str => xml_str (snd kv) = true) l ->
  Forall (fun kv : str * str => xml_str (snd kv) = true) (lower_keys l).
Proof.
  intros H. unfold lower_keys, dict_of.
  assert (G : forall l0 acc, Forall (fun kv : str * str => xml_str (snd kv) = true) l0 ->
              Forall (fun kv : str * str => xml_str (snd kv) = true) acc ->
              Forall (fun kv : str * str => xml_str (snd kv) = true)
                (fold_left (fun d kv => dict_set (fst kv) (snd kv) d) l0 acc)).
  { induction l0 as [|kv l0 IH]; intros acc Hl Ha; [exact Ha|]. cbn [fold_left].
    inversion Hl; subst. apply IH; auto. apply dict_set_Forall; auto. }
  apply G; [|constructor]. apply Forall_forall. intros kv Hin.
  apply in_map_iff in Hin as (kv0 & <- & Hin0). cbn [snd]. rewrite Forall_forall in H. apply H. exact Hin0.
Qed.

Lemma ct_lookup_xml c x ct : xml_cts c = true -> ct_lookup c x = Ok ct -> xml_str ct = true.
Proof.
  unfold xml_cts. intros H. apply andb_true_iff in H as [Hd Ho].
  assert (Hv : forall l, forallb xml_pair l = true -> Forall (fun kv : str * str => xml_str (snd kv) = true) l).
  { intros l Hl. apply Forall_forall. intros kv Hin. rewrite forallb_forall in Hl.
    specialize (Hl kv Hin). unfold xml_pair in Hl. apply andb_true_iff in Hl. tauto. }
  unfold ct_lookup.
  destruct (lookup (lower x) (lower_keys (snd c))) as [t|] eqn:E1.
  - intros H. inversion H; subst. destruct (lookup_in _ _ _ E1) as (k' & Hin).
    pose proof (lower_keys_vals _ (Hv _ Ho)) as HF. rewrite Forall_forall in HF. apply (HF _ Hin).
  - destruct (lookup (lower (ext x)) (lower_keys (fst c))) as [t|] eqn:E2; [|discriminate].
    intros H. inversion H; subst. destruct (lookup_in _ _ _ E2) as (k' & Hin).
    pose proof (lower_keys_vals _ (Hv _ Hd)) as HF. rewrite Forall_forall in HF. apply (HF _ Hin).
Qed.

(** for the concrete codec, relationship fields and content types of a package are XML
    strings as soon as the items decode: what is left of [xml_package] is the names and
    the table of the env *)
Theorem cenv_xml_package rs dt xc idf pc od p :
  let E := cenv rs dt xc idf pc od in
  (forall x, reachable E p x -> xml_str x = true) ->
  (forall kv, In kv idf -> xml_pair kv = true) ->
  xml_package E p.
Proof.
  intros E Hn Hi. split; [exact Hn|]. split; [|split; [|exact Hi]].
  - intros x l r _ Hl Hin. unfold rels_for in Hl.
    assert (Hf : forallb xml_fields l = true).
    { destruct (rels_uri x) as [u|e]; [|inversion Hl; reflexivity].
      destruct (lookup u p) as [b|]; [|inversion Hl; reflexivity].
      apply (dec_rels_c_xml b l Hl). }
    rewrite forallb_forall in Hf. specialize (Hf r Hin). unfold xml_fields in Hf.
    apply andb_true_iff in Hf as [Hf H3]. apply andb_true_iff in Hf as [H1 H2]. auto.
  - intros x ct _ Hct. unfold ct_in in Hct.
    destruct (lookup ct_uri p) as [cb|]; [|discriminate].
    destruct (dec_ct E cb) as [c|] eqn:Ec; [|discriminate].
    apply (ct_lookup_xml c x ct); [|exact Hct]. apply (dec_ct_c_xml cb c Ec).
Qed.

(** C01 for the concrete codec, with no hypothesis on what the items contain *)
Theorem c01_rels_concrete_names rs dt xc idf pc od p :
  let E := cenv rs dt xc idf pc od in
  wf E p -> (forall x, reachable E p x -> xml_str x = true) ->
  (forall kv, In kv idf -> xml_pair kv = true) ->
  exists k, load E p = Ok k /\
    forall src, reachable E p src ->
      exists l l', rels_for E p src = Some l /\ rels_for E (save E k) src = Some l' /\
                   Permutation (map (rel_sem src) l) (map (rel_sem src) l').
Proof.
  intros E Hwf Hn Hi. apply c01_rels_concrete; auto. apply cenv_xml_package; auto.
Qed.

Theorem c01_payload_type_concrete_names rs dt xc idf pc od p :
  let E := cenv rs dt xc idf pc od in
  wf E p -> env_ok E -> (forall x, reachable E p x -> xml_str x = true) ->
  (forall kv, In kv idf -> xml_pair kv = true) ->
  exists k, load E p = Ok k /\
    forall q ct b, reachable E p q -> q <> root -> ct_in E p q = Ok ct -> lookup q p = Some b ->
      ct_in E (save E k) q = Ok ct /\
      lookup q (save E k) = (if is_xml_ct E ct then reser E b else Some b).
Proof.
  intros E Hwf He Hn Hi. apply c01_payload_type_concrete; auto. apply cenv_xml_package; auto.
Qed.

Theorem c01_idem_concrete_names rs dt xc idf pc od p :
  (forall b b', rs b = Some b' -> rs b' = Some b') ->
  let E := cenv rs dt xc idf pc od in
  wf E p -> env_ok E -> (forall x, reachable E p x -> xml_str x = true) ->
  (forall kv, In kv idf -> xml_pair kv = true) ->
  exists k k2, load E p = Ok k /\ load E (save E k) = Ok k2 /\ same_package (save E k2) (save E k).
Proof.
  intros Hid E Hwf He Hn Hi. apply c01_idem_concrete; auto. apply cenv_xml_package; auto.
Qed.

(** ---- decidable form of [xml_package], for the examples ---- *)
Definition xml_packageb {blob} (E : env blob) (p : phys blob) : bool :=
  let L := xml_rels_names E p in
  forallb xml_str L
  && forallb (fun x => match rels_for E p x with
                       | Some l => forallb (fun r => xml_str (r_id r) && xml_str (r_type r) && xml_str (r_target r)) l
                       | None => true
                       end) L
  && forallb (fun x => match ct_in E p x with Ok ct => xml_str ct | Err _ => true end) L
  && forallb xml_pair (initdefs E).

Lemma xml_packageb_sound {blob} (E : env blob) p : wf E p -> xml_packageb E p = true -> xml_package E p.
Proof.
  intros Hwf H. destruct (names_spec E p Hwf) as [HL _].
  unfold xml_packageb in H. apply andb_true_iff in H as [H H4]. apply andb_true_iff in H as [H H3].
  apply andb_true_iff in H as [H1 H2]. rewrite forallb_forall in H1, H2, H3, H4.
  split; [|split; [|split]].
  - intros x Hr. apply H1, HL, Hr.
  - intros x l r Hr Hl Hin. specialize (H2 x (proj2 (HL x) Hr)). rewrite Hl in H2.
    rewrite forallb_forall in H2. specialize (H2 r Hin).
    apply andb_true_iff in H2 as [H2 Hc]. apply andb_true_iff in H2 as [Ha Hb]. auto.
  - intros x ct Hr Hct. specialize (H3 x (proj2 (HL x) Hr)). rewrite Hct in H3. exact H3.
  - exact H4.
Qed.

(** ---- non-vacuity: the example deck of C01 as real XML text ---- *)
From V.model Require Import OpcRun.
From V.gen Require Import GenC01.

Definition tenv : env str :=
  cenv (fun b => Some b) gen_default_table gen_xml_cts gen_init_defaults gen_pres_cts gen_rt_office_document.

(** rels items and the content types item written by the concrete writer; a small
    element for every payload *)
Definition text_of_wblob (w : wblob) : str :=
  match w_rels w, w_ct w with
  | Some l, _ => enc_rels_c l
  | None, Some c => enc_ct_c c
  | None, None => [60; 97; 47; 62]%N
  end.
Definition ex_deck_text : phys str := mapv text_of_wblob ex_deck.

Lemma tenv_codec_ok_on : codec_ok_on xml_rels xml_cts tenv.
Proof. apply cenv_codec_ok_on. intros b b' H. inversion H; subst. reflexivity. Qed.

Lemma tenv_env_ok : env_ok tenv.
Proof. exact wenv_env_ok. Qed.

Lemma ex_deck_text_wfb : wfb tenv ex_deck_text = true.
Proof. vm_compute. reflexivity. Qed.

Lemma ex_deck_text_wf : wf tenv ex_deck_text.
Proof. apply wfb_sound, ex_deck_text_wfb. Qed.

Lemma ex_deck_text_xml : xml_package tenv ex_deck_text.
Proof. apply xml_packageb_sound; [apply ex_deck_text_wf|vm_compute; reflexivity]. Qed.

(** the text of its package rels item, and what the reader makes of it *)
Lemma ex_deck_text_rels :
  match lookup (rels_item_name root) ex_deck_text with
  | Some t => dec_rels_c t = Some [mkRel [114; 73; 100; 49]%N gen_rt_office_document
                                         [112; 112; 116; 47; 112; 114; 101; 115; 101; 110; 116; 97; 116; 105; 111; 110; 46; 120; 109; 108]%N MInt]
  | None => False
  end.
Proof. vm_compute. reflexivity. Qed.

(** a relationship list with every escaped character, a non-ASCII and a beyond-BMP
    character, an empty string and both modes *)
Definition ex_rels : list rel :=
  [mkRel [114; 73; 100; 49]%N [38; 60; 62; 34; 39; 9; 10; 13; 32; 233; 128512]%N [97; 47; 98]%N MInt;
   mkRel [] [93; 93; 62]%N [104; 116; 116; 112; 58; 47; 47; 120; 47; 63; 97; 61; 49; 38; 98; 61; 50]%N MExt].
Lemma ex_rels_ok : xml_rels ex_rels = true /\ dec_rels_c (enc_rels_c ex_rels) = Some ex_rels.
Proof. vm_compute. split; reflexivity. Qed.

Definition ex_cts : cts :=
  ([([120; 109; 108]%N, [97; 47; 120; 38; 121]%N)], [([47; 97; 46; 120; 109; 108]%N, [60; 34; 62]%N); ([47; 98]%N, [])]).
Lemma ex_cts_ok : xml_cts ex_cts = true /\ dec_ct_c (enc_ct_c ex_cts) = Some ex_cts.
Proof. vm_compute. split; reflexivity. Qed.

Lemma ex_deck_text_names :
  (forall x, reachable tenv ex_deck_text x -> xml_str x = true) /\
  (forall kv, In kv gen_init_defaults -> xml_pair kv = true).
Proof. destruct ex_deck_text_xml as (H1 & _ & _ & H4). split; [exact H1|exact H4]. Qed.

(** the example deck is saved as real text: seven members, and the package rels item reads
    back as the one relationship to the main part *)
Lemma ex_deck_text_saved :
  match load tenv ex_deck_text with
  | Ok k => length (save tenv k) = 7%nat
            /\ match lookup (rels_item_name root) (save tenv k) with
               | Some t => t = enc_rels_c [mkRel [114; 73; 100; 49]%N gen_rt_office_document
                                                [112; 112; 116; 47; 112; 114; 101; 115; 101; 110; 116; 97; 116; 105; 111; 110; 46; 120; 109; 108]%N MInt]
               | None => False
               end
  | Err _ => False
  end.
Proof. vm_compute. split; reflexivity. Qed.
