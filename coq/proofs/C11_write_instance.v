(** Write-side theorems for the remaining classes without a canonical descriptor, proved on
    the Gallina regenerated from simpletypes.py (gen/GenC11.v) for ALL python values:
    ST_TextSpacingPoint (EMU in, centipoints out), XsdDouble / ST_AxisUnit (as far as
    str(float) is modelled), and the refutations the faithful model yields:
    ST_Extension / ST_ContentType accept every string although their schema types carry a
    pattern, and three float classes let a huge int escape as OverflowError. *)
From V.lib Require Import Prelude PyFloat PyVal.
From V.model Require Import SimpleTypeLib.
From V.proofs Require Import PyFloat_proofs SimpleTypeLib_proofs C11_float_instance C11_regex C11_patterns.
From V.gen Require Import GenC11.
Local Open Scope Z_scope.

Lemma py_lt_ints a b : py_lt (PInt a) (PInt b) = Ok (a <? b).
Proof. unfold py_lt, py_order. cbn [as_num cmp_num]. unfold Z.ltb. destruct (a ?= b); reflexivity. Qed.
Lemma py_gt_ints a b : py_gt (PInt a) (PInt b) = Ok (b <? a).
Proof.
  unfold py_gt, py_order. cbn [as_num cmp_num]. rewrite Z.ltb_antisym, Z.leb_compare.
  destruct (a ?= b); reflexivity.
Qed.

(** ST_TextSpacingPoint (a:spcPts/@val, ST_TextSpacingPoint = 0..158400 centipoints):
    validate_int_in_range(value, 0, 20116800) on the EMU value, then
    str(Emu(value).centipoints) = str(value // 127) *)
Theorem W_TextSpacingPoint : forall v s,
  ST_TextSpacingPoint__to_xml v = Ok (PStr s) -> lex_ok (LInt 0 158400) s = true.
Proof.
  intros v s H.
  unfold ST_TextSpacingPoint__to_xml, ST_TextSpacingPoint__validate, ST_TextSpacingPoint__validate_int_in_range,
    ST_TextSpacingPoint__validate_int, ST_TextSpacingPoint__convert_to_xml in H.
  destruct v as [z|b|f|s0| |l|n]; cbn [py_isinstance existsb isinstance1 as_bool bind py_truth negb orb] in H;
    try discriminate H.
  - rewrite py_lt_ints, py_gt_ints in H. cbn [bind] in H.
    destruct (Z.ltb_spec z 0) as [Hlo|Hlo]; cbn [bind] in H; [discriminate H|].
    destruct (Z.ltb_spec 20116800 z) as [Hhi|Hhi]; cbn [bind] in H; [discriminate H|].
    unfold py_Emu, py_centipoints_attr, py_floordiv, arith in H.
    cbn [py_int bind as_num py_str] in H. change (127 =? 0) with false in H. cbv iota in H.
    cbn [bind py_str] in H.
    injection H as <-. apply lex_int_between.
    split; [apply Z.div_pos; lia|].
    apply Z.div_le_upper_bound; lia.
  - destruct b; vm_compute in H; injection H as <-; reflexivity.
Qed.

Example TextSpacingPoint_examples :
  ST_TextSpacingPoint__to_xml (PInt 20116800) = Ok (PStr [49; 53; 56; 52; 48; 48]%N)     (* 158400 *)
  /\ ST_TextSpacingPoint__to_xml (PInt 12700) = Ok (PStr [49; 48; 48]%N)
  /\ ST_TextSpacingPoint__to_xml (PInt 126) = Ok (PStr [48]%N)
  /\ ST_TextSpacingPoint__to_xml (PBool true) = Ok (PStr [48]%N)
  /\ ST_TextSpacingPoint__to_xml (PInt 20116801) = Err ValueErr
  /\ ST_TextSpacingPoint__to_xml (PInt (-1)) = Err ValueErr
  /\ ST_TextSpacingPoint__to_xml (PFloat (Fin 1 0)) = Err TypeErr.
Proof. vm_compute. repeat split. Qed.

(** ---- xsd:double classes ---- *)
Lemma py_float_inf : py_float (PStr [105; 110; 102]%N) = Ok (PFloat PInf).
Proof. vm_compute. reflexivity. Qed.
Lemma py_float_ninf : py_float (PStr [45; 105; 110; 102]%N) = Ok (PFloat NInf).
Proof. vm_compute. reflexivity. Qed.

Lemma f_of_Z_finite z x : f_of_Z z = Ok x -> f_is_finite x = true.
Proof.
  unfold f_of_Z. pose proof (round_dy_not_nan z 0) as Hn.
  destruct (round_dy z 0); try discriminate; try congruence. intros [= <-]. reflexivity.
Qed.

(** FULL STATEMENT (not provable in this model): every accepted value is written as a valid
    xsd:double lexical form.  str(float) is not modelled digit by digit (lib/PyVal.v
    repr_float is a marker followed by mantissa and exponent), so what is proved is: the
    text written is the repr of float(value), and that float is FINITE (neither inf nor
    nan, which python would print as inf / nan, not valid xsd:double).  Missing: python repr of
    a finite binary64 is a valid xsd:double literal (digits, optional point, optional
    e+NN / e-NN exponent); this is in the trusted base and compared through float(text) by
    the correspondence. *)
Definition float_written (v : pyval) (s : str) : Prop :=
  exists f, py_float v = Ok (PFloat f) /\ f_is_finite f = true /\ s = repr_float f.

Theorem W_XsdDouble_partial : forall v s,
  XsdDouble__to_xml v = Ok (PStr s) -> float_written v s.
Proof.
  intros v s H.
  unfold XsdDouble__to_xml, XsdDouble__validate, XsdDouble__convert_to_xml in H.
  rewrite py_float_inf, py_float_ninf in H.
  destruct v as [z|b|f|s0| |l|n]; cbn [py_isinstance existsb isinstance1 as_bool bind py_truth negb orb] in H;
    try discriminate H.
  - unfold py_ne in H. rewrite py_eqb_int in H. cbn [negb bind py_in existsb py_eqb as_num cmp_num f_cmp orb] in H.
    cbn [py_float] in H. destruct (f_of_Z z) as [x|] eqn:E; cbn [bind py_str] in H; [|discriminate H].
    injection H as <-. exists x. cbn [py_float]. rewrite E. cbn [bind]. repeat split.
    eapply f_of_Z_finite; eassumption.
  - destruct b; vm_compute in H; injection H as <-; eexists; (split; [reflexivity|split; reflexivity]).
  - unfold py_ne in H. cbn [py_eqb as_num cmp_num] in H.
    destruct f as [m e| | |]; try (vm_compute in H; discriminate H).
    rewrite f_cmp_fin, Z.compare_refl in H.
    cbn [negb bind py_in existsb py_eqb as_num cmp_num f_cmp orb py_float py_str] in H.
    injection H as <-. exists (Fin m e). repeat split.
Qed.

(** ST_AxisUnit (c:majorUnit/@val ...): the same, and the value is positive *)
Theorem W_AxisUnit_partial : forall v s,
  ST_AxisUnit__to_xml v = Ok (PStr s) ->
  float_written v s /\ py_le v (PFloat (Fin 0 0)) = Ok false.
Proof.
  intros v s H.
  unfold ST_AxisUnit__to_xml, ST_AxisUnit__validate, ST_AxisUnit__validate__from_BaseFloatType,
    ST_AxisUnit__convert_to_xml in H.
  rewrite py_float_inf, py_float_ninf in H.
  destruct v as [z|b|f|s0| |l|n]; cbn [py_isinstance existsb isinstance1 as_bool bind py_truth negb orb] in H;
    try discriminate H.
  - unfold py_ne in H. rewrite py_eqb_int in H. cbn [negb bind py_in existsb py_eqb as_num cmp_num f_cmp orb] in H.
    destruct (py_le (PInt z) (PFloat (Fin 0 0))) as [[|]|] eqn:L; cbn [bind] in H; try discriminate H.
    cbn [py_float] in H. destruct (f_of_Z z) as [x|] eqn:E; cbn [bind py_str] in H; [|discriminate H].
    injection H as <-. split; [|reflexivity]. exists x. cbn [py_float]. rewrite E. cbn [bind]. repeat split.
    eapply f_of_Z_finite; eassumption.
  - destruct b; vm_compute in H; [|discriminate H]. injection H as <-.
    split; [eexists; (split; [reflexivity|split; reflexivity])|reflexivity].
  - unfold py_ne in H. cbn [py_eqb as_num cmp_num] in H.
    destruct f as [m e| | |]; try (vm_compute in H; discriminate H).
    rewrite f_cmp_fin, Z.compare_refl in H.
    cbn [negb bind py_in existsb py_eqb as_num cmp_num f_cmp orb] in H.
    destruct (py_le (PFloat (Fin m e)) (PFloat (Fin 0 0))) as [[|]|] eqn:L; cbn [bind] in H; try discriminate H.
    cbn [py_float py_str bind] in H. injection H as <-.
    split; [|reflexivity]. exists (Fin m e). repeat split.
Qed.

Example XsdDouble_examples :
  (exists s, XsdDouble__to_xml (PFloat (Fin 3 (-1))) = Ok (PStr s))                       (* 1.5 *)
  /\ (exists s, XsdDouble__to_xml (PInt 7) = Ok (PStr s))
  /\ XsdDouble__to_xml (PFloat NaN) = Err ValueErr
  /\ XsdDouble__to_xml (PFloat PInf) = Err ValueErr
  /\ XsdDouble__to_xml (PFloat NInf) = Err ValueErr
  /\ XsdDouble__to_xml (PStr [49]%N) = Err TypeErr
  /\ (exists s, ST_AxisUnit__to_xml (PFloat (Fin 1 (-1074))) = Ok (PStr s))               (* 5e-324 *)
  /\ ST_AxisUnit__to_xml (PInt 0) = Err ValueErr
  /\ ST_AxisUnit__to_xml (PFloat (Fin (-1) 0)) = Err ValueErr.
Proof. vm_compute. repeat split; eexists; reflexivity. Qed.

(** ---- refuted statements ---- *)

(** Rej (a refused value is refused with TypeError or ValueError) fails for the classes that
    call float() on an int AFTER validating it: an int beyond the binary64 range passes
    validate (isinstance; value != value is False; value in (inf, -inf) is False because an
    int compares exactly) and float(value) raises OverflowError.  Observed on the library:
    XsdDouble.to_xml(10**400), ST_AxisUnit.to_xml(10**400), ST_Angle.to_xml(10**400). *)
Definition huge_int : pyval := PInt (10 ^ 400).

Theorem Rej_XsdDouble_refuted : exists v, XsdDouble__to_xml v = Err OverflowErr.
Proof. exists huge_int. vm_compute. reflexivity. Qed.
Theorem Rej_AxisUnit_refuted : exists v, ST_AxisUnit__to_xml v = Err OverflowErr.
Proof. exists huge_int. vm_compute. reflexivity. Qed.
Theorem Rej_Angle_refuted : exists v, ST_Angle__to_xml v = Err OverflowErr.
Proof. exists huge_int. vm_compute. reflexivity. Qed.

(** the same int is handled by the classes that range-check first (exact int/float
    comparison) and by ST_PositiveFixedAngle (int % int stays an int) *)
Example huge_int_elsewhere :
  ST_Percentage__to_xml huge_int = Err ValueErr
  /\ ST_TextFontScalePercentOrPercentString__to_xml huge_int = Err ValueErr
  /\ ST_PositiveFixedAngle__to_xml huge_int = Ok (PStr [49; 54; 56; 48; 48; 48; 48; 48]%N).
Proof. vm_compute. repeat split. Qed.

(** W fails for the two OPC string types: the classes accept EVERY str, the schema types
    carry a pattern (C11_patterns.re_ext, re_ctype) *)
Lemma str_class_accepts_all_ext s : ST_Extension__to_xml (PStr s) = Ok (PStr s).
Proof. reflexivity. Qed.
Lemma str_class_accepts_all_ctype s : ST_ContentType__to_xml (PStr s) = Ok (PStr s).
Proof. reflexivity. Qed.

Theorem W_Extension_refuted :
  exists v s, ST_Extension__to_xml v = Ok (PStr s) /\ re_matches re_ext s = false.
Proof. exists (PStr [97; 32; 98]%N), [97; 32; 98]%N. vm_compute. split; reflexivity. Qed.      (* a b *)

Theorem W_ContentType_refuted :
  exists v s, ST_ContentType__to_xml v = Ok (PStr s) /\ re_matches re_ctype s = false.
Proof. exists (PStr [120; 109; 108]%N), [120; 109; 108]%N. vm_compute. split; reflexivity. Qed. (* xml *)

(** what IS true of them: exactly the strings are accepted, written unchanged *)
Theorem W_Extension_partial : forall v s, ST_Extension__to_xml v = Ok (PStr s) -> v = PStr s.
Proof. intros v s H. destruct v; try discriminate H. vm_compute in H. congruence. Qed.
Theorem W_ContentType_partial : forall v s, ST_ContentType__to_xml v = Ok (PStr s) -> v = PStr s.
Proof. intros v s H. destruct v; try discriminate H. vm_compute in H. congruence. Qed.
