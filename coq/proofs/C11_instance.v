(** Instance obligations of C11 over the data regenerated from /repo (gen/GenC11.v). *)
From V.lib Require Import Prelude PyFloat PyVal.
From V.model Require Import SimpleTypeLib.
From V.proofs Require Import PyFloat_proofs SimpleTypeLib_proofs.
From V.gen Require Import GenC11.

Lemma no_unmodelled : n_unmodelled = 0.
Proof. vm_compute. reflexivity. Qed.

Definition w_row_ok (r : attr_row) : bool := memN (ar_id r) known_write || negb (N.eqb (w_verdict r) 1).
Definition r_row_ok (r : attr_row) : bool := memN (ar_id r) known_read || negb (N.eqb (r_verdict r) 1).

Lemma all_w : forallb w_row_ok rows = true.
Proof. vm_compute. reflexivity. Qed.
Lemma all_r : forallb r_row_ok rows = true.
Proof. vm_compute. reflexivity. Qed.

Lemma no_write_failures r : In r rows -> memN (ar_id r) known_write = false -> w_verdict r <> 1%N.
Proof.
  intros Hin Hk. pose proof (proj1 (forallb_forall _ _) all_w r Hin) as H.
  unfold w_row_ok in H. rewrite Hk in H. simpl in H. apply negb_true_iff in H. apply N.eqb_neq; auto.
Qed.
Lemma no_read_failures r : In r rows -> memN (ar_id r) known_read = false -> r_verdict r <> 1%N.
Proof.
  intros Hin Hk. pose proof (proj1 (forallb_forall _ _) all_r r Hin) as H.
  unfold r_row_ok in H. rewrite Hk in H. simpl in H. apply negb_true_iff in H. apply N.eqb_neq; auto.
Qed.

Lemma W_rows r : In r rows -> w_verdict r = 0%N ->
  forall v s, ar_to_xml r v = Ok (PStr s) -> lex_ok (ar_lex r) s = true.
Proof.
  intros Hin Hv v s H. unfold w_verdict in Hv.
  destruct (is_custom_w (ar_desc r)) eqn:Ec; [discriminate|].
  destruct (write_ok (ar_desc r) (ar_lex r)) eqn:Ew; [|destruct (has_unknown _); discriminate].
  pose proof (proj1 (Forall_forall _ _) rows_write_desc r Hin Ec v) as E. rewrite E in H.
  eapply write_ok_sound; eauto.
Qed.

Lemma Rej_rows r : In r rows -> is_custom_w (ar_desc r) = false ->
  forall v e, ar_to_xml r v = Err e -> e = TypeErr \/ e = ValueErr.
Proof.
  intros Hin Ec v e H.
  pose proof (proj1 (Forall_forall _ _) rows_write_desc r Hin Ec v) as E. rewrite E in H.
  eapply desc_rejects_type_or_value; eauto.
Qed.

Lemma R_rows r : In r rows -> r_verdict r = 0%N ->
  forall s, lex_ok (ar_lex r) s = true -> (N.of_nat (length s) <= int_max_str_digits)%N ->
  exists v, ar_from_xml r (PStr s) = Ok v.
Proof.
  intros Hin Hv s Hl Hlen. unfold r_verdict in Hv.
  destruct (is_custom_r (ar_rdesc r)) eqn:Ec; [discriminate|].
  destruct (has_unknown (ar_lex r)); [discriminate|].
  destruct (read_ok (ar_rdesc r) (ar_lex r)) eqn:Er; [|discriminate].
  pose proof (proj1 (Forall_forall _ _) rows_read_desc r Hin Ec s) as E. rewrite E.
  eapply read_ok_sound; eauto.
Qed.

Lemma RT_rows r : In r rows -> rt_ok (ar_desc r) (ar_rdesc r) = true ->
  forall v s, ar_to_xml r v = Ok (PStr s) ->
  exists v', ar_from_xml r (PStr s) = Ok v' /\ py_eqb v' v = true.
Proof.
  intros Hin Hrt v s H.
  assert (Ec : is_custom_w (ar_desc r) = false) by (destruct (ar_desc r); auto; discriminate Hrt).
  assert (Er : is_custom_r (ar_rdesc r) = false) by (destruct (ar_desc r), (ar_rdesc r); auto; discriminate Hrt).
  pose proof (proj1 (Forall_forall _ _) rows_write_desc r Hin Ec v) as E. rewrite E in H.
  pose proof (proj1 (Forall_forall _ _) rows_read_desc r Hin Er s) as E2. rewrite E2.
  eapply roundtrip; eauto.
Qed.

Definition known_real (r : attr_row) : bool :=
  (negb (memN (ar_id r) known_write) || N.eqb (w_verdict r) 1)
  && (negb (memN (ar_id r) known_read) || N.eqb (r_verdict r) 1).
Lemma known_are_failing : forallb known_real rows = true.
Proof. vm_compute. reflexivity. Qed.
