"""Shared machinery of every check: Coq build + obligation accounting, extracted-model
runner, verdict logic (VIOLATION / KNOWN-FINDING lines, exit code), evidence file.

Run under /venv/bin/python with PYTHONPATH=/repo/src (see bin/check).
"""
from __future__ import annotations

import fcntl
import hashlib
import json
import os
import re
import subprocess
import sys
import time

VERIF = os.path.dirname(os.path.dirname(os.path.abspath(__file__)))
COQ = os.path.join(VERIF, "coq")
REPO = os.environ.get("VERIF_REPO", "/repo")
# runs against a scratch tree (seeded changes) must not overwrite the evidence of /repo itself
EVID = os.environ.get("VERIF_EVIDENCE_DIR") or os.path.join(VERIF, "evidence" if os.path.realpath(REPO) == "/repo" else ".scratch_evidence")
REPLAY = os.path.join(EVID, "replay")
os.makedirs(REPLAY, exist_ok=True)

KERNEL_TB = [
    "Coq 8.16.1 kernel (coqc, full .vo build; vm_compute used for reflection; no native_compute)",
    "extraction: ExtrOcamlBasic only (bool, option, unit, list, prod, sumbool, sumor; andb, orb inlined); numbers stay Coq inductives",
    "extract/driver_body.ml (generic line-based OCaml driver) and OCaml 4.13.1 compiler",
    "correspondence harness, generators and canonicalisation in /verif/corr and /verif/checks",
    "tx/tx_memo.py (memoisation sites of the anchored source files, re-extracted each run and compared with tx/memo_known.json)",
]


# ----------------------------------------------------------------------------- wire
def enc(s: str) -> str:
    return ",".join(str(ord(c)) for c in s) or "-"


def dec(field: str) -> str:
    """Decode a [show_str] field: space-separated decimal code points."""
    field = field.strip()
    if not field:
        return ""
    return "".join(chr(int(t)) for t in field.split(" "))


def case_line(fields) -> str:
    return "\t".join(enc(str(f)) for f in fields)


def exc_name(e: BaseException) -> str:
    """Map an exception to the model's error enum."""
    for cls, name in (
        (TypeError, "Type"),
        (KeyError, "Key"),
        (IndexError, "Index"),
        (OverflowError, "Overflow"),
        (StopIteration, "Stop"),
        (ValueError, "Value"),
    ):
        if isinstance(e, cls):
            return name
    return "Other"


# ----------------------------------------------------------------------------- build
class BuildResult:
    def __init__(self):
        self.ok = False
        self.log = ""
        self.obligations = 0
        self.discharged = 0
        self.theorems = []  # names in props file
        self.assumptions = {}  # theorem -> text
        self.failed_at = None  # description of what no longer checks
        self.checker_cmd = ""
        self.wall = 0.0


def _run(cmd, cwd=None, timeout=1800, input=None):
    p = subprocess.run(
        cmd, cwd=cwd, input=input, stdout=subprocess.PIPE, stderr=subprocess.STDOUT, timeout=timeout,
        text=True, shell=isinstance(cmd, str),
    )
    return p.returncode, p.stdout


def forbidden_vernac_scan():
    """No Admitted/admit/Axiom/Parameter/... anywhere in the development."""
    pat = re.compile(
        r"\b(Admitted|admit|Axiom|Axioms|Parameter|Parameters|Conjecture|Admit Obligations|"
        r"Unset Guard Checking|Unset Positivity Checking|Unset Universe Checking|bypass_check|"
        r"type-in-type|impredicative-set)\b"
    )
    bad = []
    for root, _d, files in os.walk(COQ):
        for f in files:
            if f.endswith(".v"):
                path = os.path.join(root, f)
                txt = open(path, encoding="utf-8").read()
                # strip comments (non-nested approximation is enough: we also flag inside comments)
                for m in pat.finditer(txt):
                    # Variable/Hypothesis inside sections are fine; those words are not in pat
                    bad.append("%s: %s" % (os.path.relpath(path, COQ), m.group(0)))
    return bad


def coq_build(pid: str, extra_targets=(), runner=True, jobs=16) -> BuildResult:
    """Bring the whole Coq development up to date (serialised by a lock), then
    re-check props/<pid>.v from scratch capturing Print Assumptions; rebuild the
    extracted runner for <pid> when its sources changed."""
    t0 = time.time()
    br = BuildResult()
    low = pid.lower()
    props = os.path.join(COQ, "props", pid + ".v")
    br.checker_cmd = (
        "cd /verif/coq && ./mk.sh && make -j%d && coqc -Q . V props/%s.v  (full .vo build; "
        "Print Assumptions under every property theorem)" % (jobs, pid)
    )
    bad = forbidden_vernac_scan()
    if bad:
        br.log = "forbidden vernacular: " + "; ".join(bad)
        br.failed_at = br.log
        return br
    lock = open(os.path.join(VERIF, ".build.lock"), "w")
    fcntl.flock(lock, fcntl.LOCK_EX)
    try:
        rc, out = _run(["./mk.sh"], cwd=COQ)
        # only the targets this property needs: its props file + its extraction file
        targets = ["props/%s.vo" % pid]
        ext_v = os.path.join(COQ, "extract", "Extract_%s.v" % pid)
        if runner and os.path.exists(ext_v):
            targets.append("extract/Extract_%s.vo" % pid)
        targets += list(extra_targets)
        # force the props file to be re-checked so that its output is captured
        for suffix in (".vo", ".vok", ".vos", ".glob"):
            try:
                os.remove(props[:-2] + suffix)
            except OSError:
                pass
        rc, out = _run(["timeout", "1500", "make", "-k", "-j%d" % jobs] + targets, cwd=COQ)
        br.log = out
        text = open(props, encoding="utf-8").read()
        br.theorems = re.findall(r"^\s*(?:Theorem|Lemma|Example|Corollary)\s+([A-Za-z0-9_']+)", text, re.M)
        br.obligations = len(br.theorems)
        if rc != 0:
            m = re.search(r'File "\./([^"]+)", line (\d+), characters [^\n]*\nError', out)
            where = "unknown"
            if m:
                f, line = m.group(1), int(m.group(2))
                where = "%s:%d" % (f, line)
                if f == "props/%s.v" % pid:
                    # theorems stated before the failing line are discharged
                    lines = text.split("\n")
                    done = 0
                    failing = None
                    for name in br.theorems:
                        idx = next(i for i, l in enumerate(lines, 1) if re.search(r"\b%s\b" % re.escape(name), l))
                        if idx <= line:
                            failing = name
                            done += 1
                    br.discharged = max(0, done - 1)
                    where += " (theorem %s)" % failing
                else:
                    src = open(os.path.join(COQ, f), encoding="utf-8").read().split("\n")
                    name = None
                    for l in src[:line][::-1]:
                        mm = re.match(r"\s*(?:Theorem|Lemma|Example|Corollary|Definition|Fixpoint)\s+([A-Za-z0-9_']+)", l)
                        if mm:
                            name = mm.group(1)
                            break
                    where += " (%s)" % name
            err = out.strip().split("\n")[-6:]
            br.failed_at = "Coq obligation no longer checks at %s: %s" % (where, " / ".join(err))
            return br
        # parse Print Assumptions output: blocks after the compile of props file
        br.discharged = br.obligations
        blocks = re.split(r"(?=Closed under the global context|Axioms:)", out)
        pa = [b.strip() for b in blocks[1:]]
        # associate in order with Print Assumptions commands
        printed = re.findall(r"Print Assumptions\s+([A-Za-z0-9_']+)", text)
        for name, b in zip(printed, pa):
            b = b.split("\nCOQC")[0].split("\nmake")[0].strip()
            br.assumptions[name] = b
        br.ok = True
        if runner and os.path.exists(ext_v):
            ml = os.path.join(COQ, "extract", low + ".ml")
            exe = os.path.join(COQ, "extract", "run_" + low)
            if (not os.path.exists(exe)) or os.path.getmtime(exe) < os.path.getmtime(ml):
                rc, o2 = _run(["./extract/build.sh", low], cwd=COQ)
                if rc != 0:
                    br.ok = False
                    br.failed_at = "extracted runner for %s failed to compile: %s" % (pid, o2[-400:])
        return br
    finally:
        br.wall = time.time() - t0
        fcntl.flock(lock, fcntl.LOCK_UN)
        lock.close()


def run_model(pid: str, cases, exe=None, shards=1):
    """cases: list of field-lists.  Returns list of output lines (same order)."""
    exe = exe or os.path.join(COQ, "extract", "run_" + pid.lower())
    if not cases:
        return []
    data = "\n".join(case_line(c) for c in cases) + "\n"
    p = subprocess.run([exe], input=data.encode("ascii"), stdout=subprocess.PIPE, stderr=subprocess.PIPE, timeout=3600)
    if p.returncode != 0:
        raise RuntimeError("model runner failed: " + p.stderr.decode()[-500:])
    lines = p.stdout.decode("utf-8", "surrogatepass").split("\n")
    if lines and lines[-1] == "":
        lines.pop()
    if len(lines) != len(cases):
        raise RuntimeError("model runner returned %d lines for %d cases" % (len(lines), len(cases)))
    return lines


# ----------------------------------------------------------------------------- verdict
class Check:
    """One run of one property's check."""

    def __init__(self, pid: str, tier: str, seed: int):
        self.pid, self.tier, self.seed = pid, tier, seed
        self.t0 = time.time()
        self.violations = []  # dicts: {sig, what, replay}
        self.known_hits = []
        self.coverage = {}
        self.assumptions = []
        self.build = None
        self.samples = []
        self.evaluations = 0
        self.nontrivial = set()
        self.dist = {}
        self.notes = []
        kf = os.path.join(VERIF, "known_findings.json")
        self.known = []
        if os.path.exists(kf):
            for e in json.load(open(kf)):
                if e.get("property") == pid and e.get("status") == "known":
                    self.known.append(e)

    # -- counting
    def count(self, case_key, nontrivial: bool, klass: str | None = None):
        self.evaluations += 1
        if nontrivial:
            self.nontrivial.add(hashlib.sha1(repr(case_key).encode("utf-8", "surrogatepass")).hexdigest()[:16])
        if klass:
            self.dist[klass] = self.dist.get(klass, 0) + 1

    def sample(self, obj, limit=8):
        if len(self.samples) < limit:
            self.samples.append(obj)

    # -- violations
    def _write_replay(self, rec) -> str:
        os.makedirs(REPLAY, exist_ok=True)
        h = hashlib.sha1(json.dumps(rec, sort_keys=True, default=str).encode()).hexdigest()[:10]
        path = os.path.join(REPLAY, "%s-%s.json" % (self.pid, h))
        with open(path, "w") as f:
            json.dump(rec, f, indent=1, sort_keys=True, default=str)
        return path

    def violation(self, sig: str, what: str, record: dict, concrete: bool = True):
        """Report a failing input (concrete=True) or an obligation/correspondence that
        no longer checks without a failing input (concrete=False)."""
        for k in self.known:
            if k.get("signature") == sig and concrete:
                if sig not in [h[0] for h in self.known_hits]:
                    self.known_hits.append((sig, k.get("what", what)))
                return
        if any(v["sig"] == sig for v in self.violations):
            return
        rec = dict(record)
        rec.update({"property": self.pid, "signature": sig, "what": what, "seed": self.seed,
                    "kind": "input" if concrete else "unchecked-obligation"})
        path = self._write_replay(rec)
        self.violations.append({"sig": sig, "what": what, "replay": path, "concrete": concrete})

    def broken_build(self, oracle_found_concrete: bool):
        """Called when a Coq obligation fails to check."""
        if self.build is not None and not self.build.ok and not oracle_found_concrete:
            self.violation(
                "build:" + (self.build.failed_at or "?")[:80],
                self.build.failed_at or "Coq build failed",
                {"theorem_or_correspondence": self.build.failed_at, "log_tail": (self.build.log or "")[-1500:]},
                concrete=False,
            )

    # -- tie: the memoisation sites of the anchored source files are the ones the models were written against
    def memo_tie(self):
        """tx/tx_memo.py re-extracts every memoising decorator of the source tree; a site that is new in a file this
        property is anchored in is a cache the model does not have (fail-closed translator).  Reported as a broken
        tie only when the run's own search produced no failing input."""
        try:
            sys.path.insert(0, os.path.join(VERIF, "tx"))
            import tx_memo
            cur, new = tx_memo.new_sites_for(self.pid, REPO)
        except Exception as e:  # noqa
            self.notes.append("memoisation-site translator failed: %r" % e)
            return None
        finally:
            if sys.path and sys.path[0] == os.path.join(VERIF, "tx"):
                sys.path.pop(0)
        if new and not any(v["concrete"] for v in self.violations):
            for site in new[:5]:
                self.violation(
                    "unmodelled-memoisation:" + site,
                    "the source now memoises %s, a cache the model of %s was not written against (tx/memo_known.json); the theorems say "
                    "nothing about a tree that caches more than the model, and this run's histories found no failing input" % (site, self.pid),
                    {"theorem_or_correspondence": "tie tx_memo: memoisation sites of the files %s is anchored in = tx/memo_known.json" % self.pid,
                     "construct": site}, concrete=False)
        return {"memoisation_sites_in_anchor_files": len(cur), "memoisation_sites_new": new}

    # -- finish
    def finish(self, rule: str, trusted_base, assumptions, extra=None) -> int:
        memo = self.memo_tie()
        b = self.build
        cov = {
            "obligations": b.obligations if b else 0,
            "discharged": b.discharged if b else 0,
            "checker_cmd": b.checker_cmd if b else "",
            "trusted_base": KERNEL_TB + list(trusted_base),
            "evaluations": self.evaluations,
            "distinct_nontrivial": len(self.nontrivial),
            "rule": rule,
            "samples": self.samples or ["(no samples)"],
            "input_distribution": self.dist,
            "print_assumptions": b.assumptions if b else {},
            "theorems": b.theorems if b else [],
            "build_wall_s": round(b.wall, 1) if b else 0,
            "known_findings_hit": [s for s, _ in self.known_hits],
            "notes": self.notes,
        }
        if extra:
            cov.update(extra)
        if memo:
            cov.update(memo)
        ev = {
            "property_id": self.pid,
            "tier": self.tier,
            "seed": self.seed,
            "level": "proof",
            "coverage": cov,
            "assumptions": list(assumptions),
            "wall_s": round(time.time() - self.t0, 2),
            "violations": len(self.violations),
        }
        os.makedirs(EVID, exist_ok=True)
        with open(os.path.join(EVID, self.pid + ".json"), "w") as f:
            json.dump(ev, f, indent=1, default=str)
        for sig, what in self.known_hits:
            print("KNOWN-FINDING: property=%s %s [%s]" % (self.pid, what, sig))
        for v in self.violations:
            tail = "" if v["concrete"] else " no-failing-input-found"
            print("VIOLATION property=%s replay=%s%s" % (self.pid, v["replay"], tail))
            print("  what: %s" % v["what"])
        if not self.violations:
            print("OK property=%s tier=%s obligations=%d/%d evaluations=%d nontrivial=%d wall=%.1fs" % (
                self.pid, self.tier, cov["discharged"], cov["obligations"], self.evaluations,
                len(self.nontrivial), time.time() - self.t0))
        sys.stdout.flush()
        return 1 if self.violations else 0
