From Coq Require Import Extraction ExtrOcamlBasic.
From V.lib Require Import PyFloatRun.
Extraction Language OCaml.
Cd "extract".
Extraction "pyfloat.ml" run_pyfloat.
Cd "..".
