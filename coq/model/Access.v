(** C12 -- inspecting a presentation does not change it.

    XML trees, the effect classes of accessors, the primitive steps an accessor can be made
    of (xmlchemy reads, get_or_add of a declared child at any element, arbitrary insertion,
    save), and [strip]: the normal form under which the property compares documents
    (empty, attribute-less formatting containers removed bottom-up).
    Reads (find / findall / xpath / attribute get) are functions returning values: the tree
    they are given is the tree afterwards, by construction.
    The child-list operations are those of model/Xmlchemy.v lifted from tag lists to node
    lists (tied by [insert_node_tags] / [goa_children_tags] in proofs/Access_proofs.v).
    Definitions only. *)
From V.lib Require Import Prelude.
From V.model Require Import Schema Xmlchemy.

Definition attr := (N * str)%type.          (* interned attribute name, value *)

Inductive node := Elem (t : tag) (attrs : list attr) (children : list node) (text : str).

Definition tag_of (n : node) : tag := match n with Elem t _ _ _ => t end.
Definition attrs_of (n : node) : list attr := match n with Elem _ a _ _ => a end.
Definition children_of (n : node) : list node := match n with Elem _ _ c _ => c end.
Definition text_of (n : node) : str := match n with Elem _ _ _ x => x end.

Definition is_nil {A} (l : list A) : bool := match l with [] => true | _ => false end.

(** an element that says nothing: container tag, no attribute, no child, no text *)
Definition removable (cs : list tag) (n : node) : bool :=
  match n with Elem t a c x => memt t cs && is_nil a && is_nil c && is_nil x end.

(** bottom-up: children first, then the children that have become removable are dropped;
    the root is never dropped *)
Fixpoint strip (cs : list tag) (n : node) : node :=
  match n with
  | Elem t a c x => Elem t a (filter (fun m => negb (removable cs m)) (map (strip cs) c)) x
  end.

Definition strip_children (cs : list tag) (c : list node) : list node :=
  filter (fun m => negb (removable cs m)) (map (strip cs) c).

(** an element carries meaning when it has an attribute, text, a non-container tag, or a
    descendant that does *)
Fixpoint significant (cs : list tag) (n : node) : bool :=
  match n with
  | Elem t a c x =>
      negb (memt t cs) || negb (is_nil a) || negb (is_nil x) || existsb (significant cs) c
  end.

(** ---- xmlchemy on node lists ---- *)
Definition empty_elem (x : tag) : node := Elem x [] [] [].

Fixpoint ins_node_at (s : tag) (new : node) (l : list node) : list node :=
  match l with
  | [] => [new]
  | c :: l' => if N.eqb (tag_of c) s then new :: c :: l' else c :: ins_node_at s new l'
  end.

(** insert_element_before(new, *S) *)
Definition insert_node (new : node) (S : list tag) (l : list node) : list node :=
  match first_found S (map tag_of l) with
  | Some s => ins_node_at s new l
  | None => l ++ [new]
  end.

(** get_or_add_x with the metaclass default _new_x: OxmlElement(tag) *)
Definition goa_children (x : tag) (S : list tag) (l : list node) : list node :=
  if memt x (map tag_of l) then l else insert_node (empty_elem x) S l.

(** ---- addressing an element: path of child indices from the root ---- *)
Fixpoint update_nth {A} (i : nat) (g : A -> A) (l : list A) : list A :=
  match l, i with
  | [], _ => []
  | a :: l', O => g a :: l'
  | a :: l', S i' => a :: update_nth i' g l'
  end.

(** apply [f] to the child list of the element at path [p]; an invalid path changes nothing *)
Fixpoint at_path (f : list node -> list node) (p : list nat) (t : node) : node :=
  match p with
  | [] => match t with Elem tg a c x => Elem tg a (f c) x end
  | i :: p' => match t with Elem tg a c x => Elem tg a (update_nth i (at_path f p') c) x end
  end.

(** insert [new] as the child number [i] (clamped to the end) *)
Fixpoint insert_nth {A} (i : nat) (new : A) (l : list A) : list A :=
  match i, l with
  | O, _ => new :: l
  | S i', a :: l' => a :: insert_nth i' new l'
  | S _, [] => [new]
  end.

(** ---- effects and steps ---- *)
Inductive effect := Pure | AddsEmpty (ts : list tag) | Creates (what : N).

Record accessor := { acc_id : N; acc_surface : bool; acc_documented : bool; acc_eff : effect }.

(** a package: parts in a fixed order, each with its (interned) name *)
Definition pkg := list (N * node).

Inductive step :=
| Read                                                         (* find / findall / xpath / attribute get *)
| GoA (part : nat) (p : list nat) (x : tag) (S : list tag)     (* get_or_add_x on the element at p *)
| AddAt (part : nat) (p : list nat) (i : nat) (x : tag)        (* an empty <x/> put at any position *)
| Put (part : nat) (p : list nat) (i : nat) (new : node)       (* any element put at any position *)
| Save.                                                        (* serialise: a function of the state *)

Record state := { st_pkg : pkg; st_saved : list pkg }.

Definition on_part (k : nat) (f : node -> node) (pk : pkg) : pkg :=
  update_nth k (fun nt => (fst nt, f (snd nt))) pk.

Definition apply_step (s : state) (st : step) : state :=
  match st with
  | Read => s
  | GoA k p x Sx => {| st_pkg := on_part k (at_path (goa_children x Sx) p) (st_pkg s); st_saved := st_saved s |}
  | AddAt k p i x => {| st_pkg := on_part k (at_path (insert_nth i (empty_elem x)) p) (st_pkg s);
                        st_saved := st_saved s |}
  | Put k p i new => {| st_pkg := on_part k (at_path (insert_nth i new) p) (st_pkg s); st_saved := st_saved s |}
  | Save => {| st_pkg := st_pkg s; st_saved := st_saved s ++ [st_pkg s] |}
  end.

Definition run (steps : list step) (s : state) : state := fold_left apply_step steps s.

Definition strip_pkg (cs : list tag) (pk : pkg) : pkg := map (fun nt => (fst nt, strip cs (snd nt))) pk.

(** what a step of an accessor with a given effect may be *)
Definition step_within (e : effect) (st : step) : bool :=
  match e, st with
  | _, Read => true
  | _, Save => true
  | Pure, _ => false
  | AddsEmpty ts, GoA _ _ x _ => memt x ts
  | AddsEmpty ts, AddAt _ _ _ x => memt x ts
  | AddsEmpty _, Put _ _ _ _ => false
  | Creates _, _ => true
  end.

(** one evaluation of an accessor: its effect and the steps it performed *)
Definition realises (e : effect) (steps : list step) : bool := forallb (step_within e) steps.

Definition subset_tags (ts cs : list tag) : bool := forallb (fun t => memt t cs) ts.

(** effects under which the document stays strip-equal *)
Definition eff_ok (cs : list tag) (e : effect) : bool :=
  match e with
  | Pure => true
  | AddsEmpty ts => subset_tags ts cs
  | Creates _ => false
  end.

(** the obligation on one accessor of the table: gateways (outside the read surface) and the
    documented creating accessors are not judged *)
Definition allowed (cs : list tag) (a : accessor) : bool :=
  negb (acc_surface a) || acc_documented a || eff_ok cs (acc_eff a).

Definition is_creates (e : effect) : bool := match e with Creates _ => true | _ => false end.
