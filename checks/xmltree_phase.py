"""Correspondence phase `xml-codec` of property C09: the generic writer / reader of XML element trees of
coq/model/XmlTree.v (theorems C09_reopen_tree*, proofs/XmlTree_proofs.v) tied to lxml byte for byte.

Per document
 (a) etree.tostring(root, encoding='UTF-8', standalone=True)  ==  enc_doc(T)   where T is the tree READ OFF the lxml
     tree element by element (qualified tag as lxml writes it, the namespace declarations new at the element in the
     order lxml emits them (start-ns events of iterwalk = the nsDef list), the attributes in order, children or text);
 (b) pptx.oxml.parse_xml(bytes) read off the same way  ==  dec_doc(bytes)  (the reader keeps declarations where they
     stand in the source, lxml moves them in front of the attributes: the model's tree is compared after the same
     stable move);
 (c) malformed streams: the verdict of parse_xml (tree or XMLSyntaxError) against dec_doc (tree or None).
Documents outside the model's shape (comments, processing instructions, CDATA, DOCTYPE, mixed content, an attribute
whose prefix cannot be told because two prefixes are bound to its namespace, a declared encoding other than UTF-8)
are counted as `outside`, never alarmed.
Inputs: every XML part of every corpus deck, random trees, part elements after assignments through the public API.
"""
from __future__ import annotations

import glob
import hashlib
import io
import os
import re
import resource
import subprocess
import time
import zipfile

from corr.harness import COQ, REPO

_UNESC = {"b": "\\", "n": "\n", "r": "\r", "p": "|"}


def dec(field):
    """a string written by out_str of model/XmlTreeRun.v"""
    if "\\" not in field:
        return field
    return re.sub(r"\\([bnrp])", lambda m: _UNESC[m.group(1)], field)

XML_NS = "http://www.w3.org/XML/1998/namespace"
EXE = os.path.join(COQ, "extract", "run_xmltree")
DECL = "<?xml version='1.0' encoding='UTF-8' standalone='yes'?>\n"


class Outside(Exception):
    pass


# ----------------------------------------------------------------------------- reading a tree off lxml
def read_off(root):
    """-> ('N', name, attrs, kids) | ('L', name, attrs, text); raises Outside(reason)."""
    from lxml import etree
    nsdefs = {}
    pending = []
    for ev, x in etree.iterwalk(root, events=("start-ns", "start", "comment", "pi")):
        if ev == "start-ns":
            pending.append(x)
        elif ev == "start":
            nsdefs[x] = pending
            pending = []
        else:
            raise Outside(ev)

    get_text = etree._Element.text.__get__      # the custom element classes of pptx.oxml override .text
    get_tail = etree._Element.tail.__get__

    def build(el):
        tag = el.tag
        local = tag.split("}", 1)[1] if tag[0] == "{" else tag
        name = (el.prefix + ":" + local) if el.prefix else local
        attrs = [("xmlns:" + p if p else "xmlns", u or "") for p, u in nsdefs.get(el, ())]
        nsmap = None
        for k, v in el.attrib.items():
            if k[0] == "{":
                uri, loc = k[1:].split("}", 1)
                if uri == XML_NS:
                    k = "xml:" + loc
                else:
                    if nsmap is None:
                        nsmap = el.nsmap
                    cands = [p for p, u in nsmap.items() if u == uri and p]
                    if len(cands) != 1:
                        raise Outside("attr-prefix")
                    k = cands[0] + ":" + loc
            attrs.append((k, v))
        kids = list(el)
        for k in kids:
            if get_tail(k) is not None:
                raise Outside("mixed")
        text = get_text(el)
        if kids:
            if text is not None:
                raise Outside("mixed")
            return ("N", name, attrs, [build(k) for k in kids])
        if text is None:
            return ("N", name, attrs, [])
        return ("L", name, attrs, text)

    return build(root)


def canon(t):
    if t[0] == "N":
        return ("N", t[1], t[2], [canon(k) for k in t[3]])
    return t if t[3] != "" else ("N", t[1], t[2], [])


def decl_first(t):
    """the stable move of the namespace declarations in front of the other attributes (what lxml's nsDef does)"""
    a = t[2]
    a2 = [kv for kv in a if kv[0] == "xmlns" or kv[0].startswith("xmlns:")] + [kv for kv in a if not (kv[0] == "xmlns" or kv[0].startswith("xmlns:"))]
    if t[0] == "N":
        return ("N", t[1], a2, [decl_first(k) for k in t[3]])
    return ("L", t[1], a2, t[3])


def wire(t, out=None):
    out = [] if out is None else out
    out.append(t[0])
    out.append(t[1])
    for k, v in t[2]:
        out.extend(("A", k, v))
    if t[0] == "N":
        for k in t[3]:
            wire(k, out)
        out.append("E")
    else:
        out.extend(("T", t[3]))
    return out


def unwire(line):
    """the output of op xd -> tree | None"""
    if line == "None":
        return None
    toks = line.split("|")
    pos = [0]

    def s(field):
        return dec(field)

    def tree():
        m = toks[pos[0]]
        name = s(toks[pos[0] + 1])
        pos[0] += 2
        attrs = []
        while toks[pos[0]] == "A":
            attrs.append((s(toks[pos[0] + 1]), s(toks[pos[0] + 2])))
            pos[0] += 3
        if m == "L":
            assert toks[pos[0]] == "T"
            tx = s(toks[pos[0] + 1])
            pos[0] += 2
            return ("L", name, attrs, tx)
        assert m == "N", m
        kids = []
        while toks[pos[0]] != "E":
            kids.append(tree())
        pos[0] += 1
        return ("N", name, attrs, kids)

    t = tree()
    assert pos[0] == len(toks)
    return t


def outside_source(text):
    """markup the reader deliberately does not know"""
    body = text
    m = re.match(r"\s*<\?xml[^>]*\?>", body)
    if m:
        enc = re.search(r"encoding\s*=\s*[\"']([^\"']+)", m.group(0))
        if enc and enc.group(1).upper() not in ("UTF-8", "UTF8"):
            return "encoding"
        if not re.match(r"<\?xml\s+version\s*=\s*([\"'])1\.[0-9]+\1(\s+encoding\s*=\s*([\"'])[A-Za-z][A-Za-z0-9._-]*\3)?(\s+standalone\s*=\s*([\"'])(yes|no)\5)?\s*\?>", m.group(0)):
            return "declaration"
        body = body[m.end():]
    for mark, why in (("<!--", "comment"), ("<?", "pi"), ("<![CDATA[", "cdata"), ("<!DOCTYPE", "doctype"), ("<!", "markup-decl"), ("xml:space", "xml-space")):
        if mark in body:
            return why
    return None


# ----------------------------------------------------------------------------- runner
def _ensure_runner():
    ml = os.path.join(COQ, "extract", "xmltree.ml")
    if not os.path.exists(ml):
        return False
    if (not os.path.exists(EXE)) or os.path.getmtime(EXE) < os.path.getmtime(ml):
        subprocess.run(["./extract/build.sh", "xmltree"], cwd=COQ, stdout=subprocess.PIPE, stderr=subprocess.STDOUT, timeout=600)
    return os.path.exists(EXE)


def _model(run_model_fn, cases, budget=400000):
    """cases through the extracted runner, in batches of bounded size (a large part is one case; the batch holds fewer)"""
    from concurrent.futures import ThreadPoolExecutor
    batches = []
    batch, size = [], 0
    for c in cases:
        n = sum(len(f) for f in c)
        if batch and size + n > budget:
            batches.append(batch)
            batch, size = [], 0
        batch.append(c)
        size += n
    if batch:
        batches.append(batch)
    with ThreadPoolExecutor(max_workers=6) as ex:
        parts = list(ex.map(lambda b: run_model_fn("XmlTree", b, exe=EXE), batches))
    return [o for p_ in parts for o in p_]


# ----------------------------------------------------------------------------- generators
BLANKS = [" ", "\t", "\n", "\r", "\r\n", "  ", " \n ", "\r \r"]
ODD = ['"', "'", "&", "<", ">", "\t", "\n", "\r", "\r\n", " ", "]]>", "&amp;", "&#13;", "&lt;", "\u00e9", "\u4e2d", "\u00a0", "\u2028", "\ud7ff", "\ue000", "\ufffd",
       "\U0001F600", "\U00010000", "\U0010FFFF", "=", "/", "x", "Z", "0", "-", ";", "#"]
NS = {"p": "http://schemas.openxmlformats.org/presentationml/2006/main", "a": "http://schemas.openxmlformats.org/drawingml/2006/main",
      "r": "http://schemas.openxmlformats.org/officeDocument/2006/relationships", "c": "urn:x-test:c&amp;d=1"}
LOCALS = ["sp", "t", "r", "nvSpPr", "cNvPr", "txBody", "p", "rPr", "a.b", "x-y", "_u", "él", "T9", "spPr", "xfrm", "off", "ext", "ln", "solidFill", "srgbClr"]
ANAMES = ["id", "name", "val", "x", "y", "cx", "cy", "sz", "b", "i", "lang", "descr", "a.b", "_q", "typ-e", "é"]


def gen_value(rng):
    k = rng.random()
    if k < 0.12:
        return ""
    if k < 0.27:
        return "".join(rng.choice(BLANKS) for _ in range(rng.randint(1, 4)))
    if k < 0.32:
        return rng.choice([" ", "\n", "\t", "\r"]) * rng.choice([299, 300, 301, 600])
    n = rng.randint(1, 12)
    s = "".join(rng.choice(ODD) if rng.random() < 0.6 else chr(rng.choice([rng.randint(32, 126), rng.randint(160, 0x2FF), rng.randint(0x4E00, 0x4EFF), rng.randint(0x10000, 0x10FFF)])) for _ in range(n))
    if rng.random() < 0.3:
        s = rng.choice(BLANKS) + s
    if rng.random() < 0.3:
        s = s + rng.choice(BLANKS)
    return s


def gen_lxml_tree(rng, max_depth=8):
    """a random lxml tree (element-only or text-only content), built through the lxml API"""
    from lxml import etree
    root_ns = dict((p, NS[p]) for p in rng.sample(sorted(NS), rng.randint(1, 4)))
    if rng.random() < 0.3:
        root_ns[None] = "urn:x-test:default"

    def qn(scope):
        p = rng.choice(sorted(scope, key=lambda z: z or ""))
        local = rng.choice(LOCALS)
        return "{%s}%s" % (scope[p], local)

    def attrs(el, scope):
        used = set()
        for _ in range(rng.choice([0, 0, 1, 1, 2, 3, 6])):
            nm = rng.choice(ANAMES)
            pfx = [p for p in scope if p]
            if pfx and rng.random() < 0.3:
                nm = "{%s}%s" % (scope[rng.choice(sorted(pfx))], nm)
            if nm in used:
                continue
            used.add(nm)
            el.set(nm, gen_value(rng))

    def fill(el, scope, depth):
        attrs(el, scope)
        k = rng.random()
        if depth >= max_depth or k < 0.3:
            if rng.random() < 0.75:
                el.text = gen_value(rng)
            return
        for _ in range(rng.choice([1, 1, 2, 2, 3, 5])):
            sc = scope
            nsmap = None
            if rng.random() < 0.15:
                p = rng.choice(["q", "a", "z9"])
                nsmap = {p: "urn:x-test:" + p + str(rng.randint(0, 2))}
                sc = dict(scope)
                sc.update(nsmap)
            if None not in sc and rng.random() < 0.15:
                tag = rng.choice(LOCALS)
            else:
                tag = qn(sc)
            kid = etree.SubElement(el, tag, nsmap=nsmap)
            fill(kid, sc, depth + (1 if rng.random() < 0.8 else 3))

    root = etree.Element(qn(root_ns), nsmap=root_ns)
    fill(root, root_ns, rng.choice([0, 0, 0, 2, 5]))
    return root


BAD_REFS = ["&#0;", "&foo;", "&#xZZ;", "&;", "&#;", "&#x;", "&#65535;", "&#xD800;", "&#1;", "&amp", "&#x41", "&#1114112;", "&#x110000;"]
GOOD_REFS = ["&#65;", "&#x41;", "&apos;", "&quot;", "&#x9;", "&#10;", "&#xD;", "&#x20;", "&#32;", "&#x10FFFF;", "&gt;"]


def mutate(rng, text):
    """one malformed (or, now and then, still well-formed) variant of a serialised document"""
    body0 = len(DECL) if text.startswith(DECL) else 0
    k = rng.randrange(12)
    if k == 0:
        return text[:rng.randint(body0, len(text) - 1)]
    pos = rng.randint(body0 + 1, len(text))
    if k == 1:
        return text[:pos] + "<" + text[pos:]
    if k == 2:
        return text[:pos] + "&" + text[pos:]
    if k == 3:
        return text[:pos] + rng.choice(BAD_REFS) + text[pos:]
    if k == 4:
        return text[:pos] + rng.choice(GOOD_REFS) + text[pos:]
    if k == 5:      # duplicate an attribute
        ms = list(re.finditer(r' [^\s="<>/]+="[^"]*"', text[body0:]))
        if ms:
            m = rng.choice(ms)
            return text[:body0 + m.end()] + m.group(0) + text[body0 + m.end():]
        return text + "x"
    if k == 6:      # another name in an end tag
        ms = list(re.finditer(r"</([^>]+)>", text))
        if ms:
            m = rng.choice(ms)
            return text[:m.start(1)] + rng.choice(["x", m.group(1) + "x", m.group(1)[:-1], m.group(1).upper()]) + text[m.end(1):]
        return text + "</x>"
    if k == 7:      # a quote lost or changed
        ms = [m.start() for m in re.finditer('"', text[body0:])]
        if ms:
            p = body0 + rng.choice(ms)
            return text[:p] + rng.choice(["", "'", '""']) + text[p + 1:]
        return text + '"'
    if k == 8:
        return text[:pos] + rng.choice(["]]>", "\x00", "\x01", "\x0b", "\ufffe", "\uffff", ">", "/", "=", " ", "\r", "\n\n", "\t"]) + text[pos:]
    if k == 9:      # blanks inside tags and between elements (still well-formed most of the time)
        t2 = re.sub(r"(/?>)", lambda m: (rng.choice(["", " ", "\n", "\r\n ", "\t"]) + m.group(1)) if rng.random() < 0.4 else m.group(1), text[body0:])
        t2 = re.sub(r"><", lambda m: (">" + rng.choice(["", " ", "\n  ", "\r\n\t", "\r"]) + "<") if rng.random() < 0.5 else "><", t2)
        t2 = re.sub(r'="([^"\']*)"', lambda m: ("='" + m.group(1) + "'") if rng.random() < 0.3 else (rng.choice(["=", " = ", "\n="]) + '"' + m.group(1) + '"'), t2)
        return rng.choice([text[:body0], "", '<?xml version="1.0" encoding="UTF-8" standalone="yes"?>\r\n', "<?xml version='1.0'?>", " "]) + t2 + rng.choice(["", "\n", " \r\n", "x"])
    if k == 10:     # drop one character
        p = rng.randint(body0, len(text) - 1)
        return text[:p] + text[p + 1:]
    p = rng.randint(body0, len(text) - 1)
    return text[:p] + rng.choice("<>&\"'/= ;#x:") + text[p + 1:]


# ----------------------------------------------------------------------------- documents
def corpus_parts():
    decks = sorted(glob.glob(os.path.join(REPO, "features", "steps", "test_files", "*.pptx"))) + [os.path.join(REPO, "src", "pptx", "templates", "default.pptx")]
    for d in decks:
        try:
            z = zipfile.ZipFile(d)
        except Exception:
            continue
        for nm in sorted(z.namelist()):
            if nm.endswith(".xml") or nm.endswith(".rels"):
                yield os.path.basename(d), nm, z.read(nm)


def api_documents(rng, n):
    """part elements after a handful of assignments through the public API"""
    from pptx import Presentation
    from pptx.util import Emu, Pt
    from pptx.dml.color import RGBColor
    tf = os.path.join(REPO, "features", "steps", "test_files")
    names = ["shp-shapes.pptx", "txt-text.pptx", "tbl-cell.pptx", "shp-common-props.pptx", "sld-slide.pptx", "prs-properties.pptx", "cht-charts.pptx", "shp-autoshape-props.pptx"]
    blobs = []
    for nm in names:
        p = os.path.join(tf, nm)
        if os.path.exists(p):
            blobs.append((nm, open(p, "rb").read()))
    blobs.append(("default.pptx", open(os.path.join(REPO, "src", "pptx", "templates", "default.pptx"), "rb").read()))
    out = []

    def text_val():
        return gen_value(rng).replace("\r", " ") if rng.random() < 0.5 else rng.choice(["Title & <more>", "  lead", "trail  ", " ", "a\tb", "café \U0001F600", 'say "hi"', ""])

    for i in range(n):
        nm, blob = blobs[i % len(blobs)]
        try:
            prs = Presentation(io.BytesIO(blob))
        except Exception:
            continue
        done = []
        try:
            if nm == "default.pptx" or not len(prs.slides):
                s = prs.slides.add_slide(prs.slide_layouts[rng.choice([0, 1, 5, 6])])
                if rng.random() < 0.6:
                    tb = s.shapes.add_textbox(Emu(rng.randint(0, 10 ** 6)), Emu(rng.randint(0, 10 ** 6)), Emu(914400), Emu(914400))
                    tb.text_frame.text = text_val()
                if rng.random() < 0.4:
                    s.shapes.add_table(2, 2, Emu(0), Emu(0), Emu(914400 * 4), Emu(914400))
            slide = prs.slides[rng.randrange(len(prs.slides))]
            shapes = list(slide.shapes)
            for _ in range(rng.randint(2, 7)):
                what = rng.randrange(12)
                try:
                    if what == 0:
                        prs.core_properties.title = text_val()
                        prs.core_properties.keywords = text_val()
                    elif what == 1:
                        prs.core_properties.author = text_val()
                        prs.core_properties.revision = rng.randint(1, 99)
                    elif what == 2:
                        slide.name = text_val()
                    elif shapes:
                        sh = rng.choice(shapes)
                        if what == 3:
                            sh.name = text_val()
                        elif what == 4:
                            sh.left, sh.top = Emu(rng.randint(-10 ** 7, 10 ** 7)), Emu(rng.randint(0, 10 ** 7))
                        elif what == 5:
                            sh.width, sh.height = Emu(rng.randint(0, 10 ** 7)), Emu(rng.randint(0, 10 ** 7))
                        elif what == 6:
                            sh.rotation = rng.choice([0, 45.5, 359.99, -30, 720.25])
                        elif what == 7 and sh.has_text_frame:
                            sh.text_frame.text = text_val()
                        elif what == 8 and sh.has_text_frame:
                            p = sh.text_frame.paragraphs[0]
                            r = p.add_run()
                            r.text = text_val()
                            r.font.size = Pt(rng.choice([8, 12, 40]))
                            r.font.bold = rng.choice([True, False, None])
                            r.font.name = text_val() or None
                        elif what == 9 and hasattr(sh, "fill"):
                            sh.fill.solid()
                            sh.fill.fore_color.rgb = RGBColor(rng.randrange(256), rng.randrange(256), rng.randrange(256))
                        elif what == 10 and hasattr(sh, "line"):
                            sh.line.width = Emu(rng.choice([0, 12700, 25400]))
                        elif what == 11 and getattr(sh, "has_table", False):
                            sh.table.cell(0, 0).text = text_val()
                            sh.table.first_row = rng.choice([True, False])
                    done.append(what)
                except Exception:
                    pass
            out.append(("api:%s#%d:slide" % (nm, i), slide.part._element))
            if 0 in done or 1 in done:
                out.append(("api:%s#%d:core" % (nm, i), prs.core_properties._element if hasattr(prs.core_properties, "_element") else prs.part.package.core_properties._element))
        except Exception:
            continue
    return out


# ----------------------------------------------------------------------------- the phase
def codec_phase(ck, tier, rng, run_model_fn):
    from lxml import etree
    from pptx.oxml import parse_xml
    t0 = time.time()
    res = {"ran": False}
    if not _ensure_runner():
        ck.violation("correspondence-xml-codec", "the extracted runner of model/XmlTree.v (extract/run_xmltree) is not built",
                     {"theorem_or_correspondence": "correspondence XmlTree.enc_doc / dec_doc ~ lxml (runner missing)"}, concrete=False)
        return res
    quick = tier == "quick"
    old_stack = resource.getrlimit(resource.RLIMIT_STACK)
    try:
        resource.setrlimit(resource.RLIMIT_STACK, (old_stack[1], old_stack[1]))   # inherited by the runner: deep lists
    except Exception:
        pass
    try:
        # each document: (label, root element or None, source text or None, klass)
        docs = []          # (label, kind, root, src_text)
        outside = {}
        n_parts = n_parts_in = n_parts_dup = 0
        parts = list(corpus_parts())
        n_total_parts = len(parts)
        if quick and len(parts) > 400:
            step = len(parts) / 400.0
            parts = [parts[int(i * step)] for i in range(400)]
        seen_blobs = {}
        for deck, nm, blob in parts:
            n_parts += 1
            label = "part:%s!%s" % (deck, nm)
            h = hashlib.sha1(blob).digest()
            if h in seen_blobs:          # the same bytes as a part already taken (layouts, masters, themes recur)
                if seen_blobs[h]:
                    n_parts_in += 1
                    n_parts_dup += 1
                else:
                    outside["same-as-outside"] = outside.get("same-as-outside", 0) + 1
                continue
            seen_blobs[h] = False
            try:
                if blob.startswith(b"\xef\xbb\xbf"):
                    blob = blob[3:]
                text = blob.decode("utf-8")
                why = outside_source(text)
                if why:
                    raise Outside(why)
                root = parse_xml(blob)
                tree = read_off(root)
            except Outside as e:
                outside[str(e)] = outside.get(str(e), 0) + 1
                continue
            except (UnicodeDecodeError, etree.XMLSyntaxError):
                outside["not-xml"] = outside.get("not-xml", 0) + 1
                continue
            n_parts_in += 1
            seen_blobs[h] = True
            docs.append((label, "part", root, tree, text))
        n_rand = 1500 if quick else 20000
        for i in range(n_rand):
            root = gen_lxml_tree(rng)
            docs.append(("random#%d" % i, "random", root, read_off(root), None))
        n_api = 0
        for label, el in api_documents(rng, 120 if quick else 600):
            try:
                tree = read_off(el)
            except Outside as e:
                outside[str(e)] = outside.get(str(e), 0) + 1
                continue
            n_api += 1
            docs.append((label, "api", el, tree, None))

        # ---- (a) writer, (b) reader on lxml's own bytes and on the source of the part
        cases = []
        plan = []
        for label, kind, root, tree, src in docs:
            real = etree.tostring(root, encoding="UTF-8", standalone=True)
            cases.append(["xe"] + wire(tree))
            cases.append(["xd", real.decode("utf-8")])
            if src is not None:
                cases.append(["xd", src])
            plan.append((label, kind, root, tree, src, real))
        outs = _model(run_model_fn, cases)
        diffs = 0
        first = None
        examples = []
        reopen_bad = 0
        boundary_hits = 0
        probe = boundary_probe(ck)
        k = 0
        for label, kind, root, tree, src, real in plan:
            m_enc = dec(outs[k]).encode("utf-8", "surrogatepass")
            m_dec = unwire(outs[k + 1])
            k += 2
            m_src = None
            if src is not None:
                m_src = unwire(outs[k])
                k += 1
            ck.count(("xml-codec", label, real[:200]), True, "xml-codec")
            want = canon(tree)
            try:
                back = read_off(parse_xml(real))
            except (Outside, etree.XMLSyntaxError) as e:
                back = "error:%r" % (e,)
            if back != want and _at_block_boundary(real):
                boundary_hits += 1
                _boundary_violation(ck, label, real)
                continue
            if back != want:
                reopen_bad += 1
                ck.violation("reopen-xml-tree", "the element tree of %s differs after lxml serialisation + pptx.oxml.parse_xml" % label,
                             {"entry_point": "serialize_part_xml + pptx.oxml.parse_xml (save / re-open of one part)", "input": label,
                              "serialised": real.decode("utf-8", "replace")[:3000], "tree_before": repr(want)[:3000], "tree_after": repr(back)[:3000]})
                continue
            bad = None
            if m_enc != real:
                bad = ("writer", "lxml wrote %r, enc_doc %r" % (_around(real, m_enc), _around(m_enc, real)))
            elif m_dec is None or decl_first(m_dec) != want:
                bad = ("reader", "parse_xml read %r, dec_doc %r" % (_tdiff(want, m_dec), "None" if m_dec is None else _tdiff(decl_first(m_dec), want)))
            elif src is not None and (m_src is None or decl_first(m_src) != want):
                bad = ("reader-source", "parse_xml read %r, dec_doc %r" % (_tdiff(want, m_src), "None" if m_src is None else _tdiff(decl_first(m_src), want)))
            if bad:
                diffs += 1
                first = first or (label, bad[0], bad[1], real.decode("utf-8", "replace")[:2000])
                if len(examples) < 8:
                    examples.append((label, bad[0], bad[1][:600]))

        # ---- (c) malformed streams
        n_mal = 1500 if quick else 20000
        pool = [real.decode("utf-8") for (_l, kind, _r, _t, _s, real) in plan if kind != "part" and len(real) < 3000]
        pool += [real.decode("utf-8") for (_l, kind, _r, _t, _s, real) in plan if kind == "part" and len(real) < 3000][:200]
        muts = []
        for i in range(n_mal):
            m = mutate(rng, rng.choice(pool))
            try:
                m.encode("utf-8")
            except UnicodeEncodeError:
                continue
            muts.append(m)
        mouts = _model(run_model_fn, [["xd", m] for m in muts])
        rejected = accepted = mal_outside = 0
        for m, mo in zip(muts, mouts):
            ns_only = False
            try:
                root = parse_xml(m.encode("utf-8"))
            except etree.XMLSyntaxError as ex:
                root = None
                log = list(ex.error_log)
                ns_only = bool(log) and log[-1].domain_name == "NAMESPACE"     # the log of the shared parser accumulates: the last entry is this document's
            if root is None and ns_only and mo != "None":
                # refused for a namespace-level reason only (prefix not declared, a declaration whose value is not a
                # URI, two attributes with one expanded name): declarations are ordinary attributes in the model
                mal_outside += 1
                outside["malformed:namespace-wf"] = outside.get("malformed:namespace-wf", 0) + 1
                continue
            if root is None:
                verdict = None
                rejected += 1
            else:
                why = outside_source(m)
                if why is None:
                    try:
                        verdict = read_off(root)
                    except Outside as e:
                        why = str(e)
                if why is not None:
                    mal_outside += 1
                    outside["malformed:" + why] = outside.get("malformed:" + why, 0) + 1
                    continue
                accepted += 1
            ck.count(("xml-codec-src", m[:300]), True, "xml-codec")
            got = unwire(mo)
            if got is not None:
                got = decl_first(got)
            if got != verdict:
                diffs += 1
                if len(examples) < 16:
                    examples.append(("malformed", m[:600], "parse_xml: %s, dec_doc: %s" % ("XMLSyntaxError" if verdict is None else _tdiff(verdict, got), "None" if got is None else _tdiff(got, verdict))))
                first = first or ("malformed stream", "verdict", "parse_xml: %s, dec_doc: %s" % ("XMLSyntaxError" if verdict is None else _tdiff(verdict, got), "None" if got is None else _tdiff(got, verdict)), m[:2000])
        if diffs:
            ck.violation("correspondence-xml-codec",
                         "model/XmlTree.v and lxml / parse_xml disagree on %d of %d documents, e.g. %s (%s): %s" % (diffs, len(plan) + len(muts), first[0], first[1], first[2]),
                         {"theorem_or_correspondence": "correspondence XmlTree.enc_doc / dec_doc ~ libxml2 serialiser (serialize_part_xml) + pptx.oxml.parse_xml "
                                                       "(the C09_reopen_tree* theorems are about the model only)", "input": first[0], "source": first[3], "diff": first[2]}, concrete=False)
        res = {"ran": True, "corpus_parts_total": n_total_parts, "corpus_parts_sampled": n_parts, "corpus_parts_covered": n_parts_in, "corpus_parts_identical_to_an_earlier_one": n_parts_dup,
               "random_trees": n_rand, "api_documents": n_api, "documents_compared": len(plan),
               "malformed_streams": len(muts), "malformed_rejected_by_parser": rejected, "malformed_accepted_in_shape": accepted, "malformed_outside": mal_outside,
               "outside": outside, "reopen_tree_differs": reopen_bad, "blank_text_lost_at_block_boundary": {"probe": probe, "met_in_generated_documents": boundary_hits}, "diffs": diffs, "diff_examples": examples, "wall_s": round(time.time() - t0, 1)}
        return res
    finally:
        try:
            resource.setrlimit(resource.RLIMIT_STACK, old_stack)
        except Exception:
            pass


BOUNDARY_SIG = "reopen-blank-text-at-input-block-boundary"


def _at_block_boundary(real):
    """a blank-only leaf text of 200 bytes or more whose end tag starts on the last byte of a 4000-byte block"""
    return any(m.end() % 4000 == 0 for m in re.finditer(rb">[ \t\n]{200,}<(?=/)", real))


def _boundary_violation(ck, label, real, extra=None):
    rec = {"entry_point": "Presentation.save + Presentation (serialize_part_xml + pptx.oxml.parse_xml with remove_blank_text=True)", "input": label,
           "explanation": "libxml2 %s reads its input in blocks of 4000 bytes; areBlanks looks one byte past the less-than sign of the end tag "
                          "without making it available, so a blank-only text of about 250 bytes or more that ends on the last-but-one byte of a block is taken for ignorable "
                          "white space and dropped" % _libxml_version(),
           "serialised_head": real.decode("utf-8", "replace")[:600]}
    rec.update(extra or {})
    ck.violation(BOUNDARY_SIG, "a blank-only text (about 250 blanks or more) whose end tag starts on the last byte of a 4000-byte block of the part is lost on re-open: %s" % label, rec)


def _libxml_version():
    from lxml import etree
    return ".".join(str(x) for x in etree.LIBXML_VERSION)


def boundary_probe(ck):
    """deterministic: 300 blanks assigned to a text box, the shape name padded so that the end tag of the a:t starts at
    byte 3999 of the slide part; save, re-open, read"""
    import io as _io
    from pptx import Presentation
    from pptx.util import Emu
    from pptx.opc.serialized import serialize_part_xml
    out = {}
    for nblank, klass in ((300, "300 blanks"), (3, "3 blanks"), (0, "300 letters")):
        prs = Presentation()
        s = prs.slides.add_slide(prs.slide_layouts[6])
        tb = s.shapes.add_textbox(Emu(0), Emu(0), Emu(914400), Emu(914400))
        val = " " * nblank if nblank else "x" * 300
        tb.text_frame.text = val
        idx = serialize_part_xml(s.part._element).index(b"</a:t>")
        name = tb.name + "x" * ((3999 - idx) % 4000)
        tb.name = name
        blob = serialize_part_xml(s.part._element)
        buf = _io.BytesIO()
        prs.save(buf)
        after = Presentation(_io.BytesIO(buf.getvalue())).slides[0].shapes[0].text_frame.text
        ck.count(("xml-codec-boundary", klass), True, "xml-codec")
        out[klass] = "kept" if after == val else "lost (read back %r)" % after[:20]
        if after != val:
            _boundary_violation(ck, "text box, text_frame.text = %d blanks, shape.name = %r + 'x' * %d (the end tag of the a:t at byte %d of ppt/slides/slide1.xml)" % (nblank, name[:9], len(name) - 9, blob.index(b"</a:t>")),
                                blob, {"assigned": "%d blanks" % nblank, "read_after_reopen": after})
    return out


def _around(a, b, w=60):
    """the part of a where it first differs from b"""
    n = 0
    while n < len(a) and n < len(b) and a[n] == b[n]:
        n += 1
    return a[max(0, n - w): n + w]


def _tdiff(a, b):
    """the first subtree of a that differs from b (short)"""
    if a is None or b is None or not isinstance(a, tuple) or not isinstance(b, tuple):
        return repr(a)[:300]
    if a[0] != b[0] or a[1] != b[1] or a[2] != b[2]:
        return repr((a[0], a[1], a[2], a[3] if a[0] == "L" else "..."))[:400]
    if a[0] == "L":
        return repr(a)[:400]
    if len(a[3]) != len(b[3]):
        return repr((a[1], "kids", [k[1] for k in a[3]]))[:400]
    for x, y in zip(a[3], b[3]):
        if x != y:
            return _tdiff(x, y)
    return repr(a)[:300]


def boundary_probe_core(ck):
    """deterministic, for docProps/core.xml: a string property of 255 blanks (within the documented limit), the other string
    properties padded (255 characters at most each, three-byte characters so that the part passes 4000 bytes) until the end
    tag of the blank one starts on the last byte of a 4000-byte block; save, re-open, read"""
    import io as _io
    from pptx import Presentation
    from pptx.opc.serialized import serialize_part_xml
    names = ["author", "category", "comments", "content_status", "identifier", "keywords", "language", "last_modified_by",
             "subject", "title", "version"]
    pad = "我"
    for victim in ("version", "title", "subject", "keywords"):
        prs = Presentation()
        cp = prs.core_properties
        for p in names:
            setattr(cp, p, " " * 255 if p == victim else pad * 255)
        el = cp._element

        def where():
            blob = serialize_part_xml(el)
            m = re.search(rb">[ ]{255}</", blob)
            return m.end() - 2, blob
        for p in names:
            if p == victim:
                continue
            for n in range(255, -1, -1):
                for tail in ("", "x", "xx"):
                    if n + len(tail) > 255:
                        continue
                    setattr(cp, p, pad * n + tail)
                    i, blob = where()
                    if i % 4000 != 3999:
                        continue
                    buf = _io.BytesIO()
                    prs.save(buf)
                    got = getattr(Presentation(_io.BytesIO(buf.getvalue())).core_properties, victim)
                    ck.count(("xml-codec-boundary-core", victim), True, "xml-codec")
                    if got != " " * 255:
                        _boundary_violation(ck, "core_properties.%s = 255 blanks, the other string properties = 255 x U+6211 except %s = %d x U+6211 + %r "
                                            "(the end tag of the blank element at byte %d of docProps/core.xml)" % (victim, p, n, tail, i),
                                            blob, {"assigned": "255 blanks", "read_after_reopen": got})
                        return {"victim": victim, "outcome": "lost (read back %r)" % got[:20]}
                    return {"victim": victim, "outcome": "kept"}
            setattr(cp, p, pad * 255)
    return {"outcome": "no arrangement puts the end tag on a block boundary"}
