From Coq Require Import Extraction ExtrOcamlBasic.
From V.model Require Import XlsxRun.
Extraction Language OCaml.
Cd "extract".
Extraction "c08.ml" run_c08.
Cd "..".
