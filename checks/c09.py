"""C09 -- a property reads back as set, survives save/re-open; None restores inheritance.

translate (tx/tx_c11.py, tx/tx_c09.py: every settable property of the proxy classes, the
attribute declarations of the element classes with their translated simple-type code,
enumeration tables) -> prove (props/C09.v: generic combinator theorems over model/Props.v,
instance over model/PropCatalogue.v + gen/GenC09.v) -> diagnose (diag/Diag_C09.v: entries
whose setter is not atomic in the model, uncovered properties) -> correspondence: random
assignment histories on fresh objects and on objects of the corpus decks, the model's exact
predicted outcomes, read-backs and element state against the implementation -> oracle: the
property's statement evaluated directly on the implementation (read-after-write within the
quantum, same after save + re-open, None restores the default/inherited reading, out-of-domain
values raise TypeError/ValueError, readings of the other independent properties unchanged -- also after a
refused assignment, after which every getter must still work).
"""
import glob
import io
import json
import math
import os
from fractions import Fraction

from corr.harness import COQ, VERIF, REPO, coq_build, run_model, _run, exc_name
from checks.c11 import enc_float
from checks import xmltree_phase

TB = [
    "tx/tx_c09.py (enumeration of settable properties, attribute declarations recovered from property closures, enumeration tables) and tx/tx_c11.py + tx/pyshallow.py (translated simple-type code)",
    "model/PropCatalogue.v: the proxy-level getters/setters (which child is get_or_add'ed, removed, which attribute is assigned, value pre/post-processing) are hand-transcribed from the python sources and tied by this correspondence (exact outcomes, read-backs and element state over random histories), not translated",
    "coq/lib/PyVal.v + PyFloat.v: python value semantics and exact binary64 arithmetic (validated bit-exactly against CPython)",
    "lxml: attribute set/get/delete, child insert/remove, serialise + parse round trip (save + re-open is observed by the oracle, not modelled)",
    "tx/xsdlib.py (structural reading of the XSDs of /repo/spec: content models, choice groups, attribute declarations, enumerations) generates the foreign pre-states; libxml2 (lxml.etree.XMLSchema over pml.xsd / dml-chart.xsd) decides whether a pre-state is schema-valid",
    "repr(float) round trip for xsd:double attributes (str(float(v)) is modelled as a marker + exact mantissa/exponent)",
]
ASSUME = [
    "element states are well-formed trees (an attribute needs its element, an element its parent) in which every child named by a catalogue path is unique among its siblings; repeated children (a:p, a:r, c:ser, a:gs, c:dLbl) are outside the state model and reached only through the anchor chosen by the harness",
    "getters that call get_or_add (paragraph alignment/level) are modelled by their value; their own insertion of an empty element is C12's subject (the harness reads every property once before the initial snapshot)",
    "foreign pre-states are single and paired variations of a fresh object: each state variable of a property (the keys its getter reads and its setter may write, from the model; for oracle-only properties the keys an assignment is seen to touch) takes the values the XSDs of /repo/spec permit (enumerations in full, sample values of the other simple types, presence of optional elements, the other members of an xsd:choice); a variation is used only when libxml2 reports no new error for the part; where the property's own getter raises in the pre-state, or the property is one facet of a shared setting (dependency group), a refusal of the assignment is not judged",
    "what a placeholder inherits (the readings left / top / width / height of its base placeholder, another element that an assignment history does not touch) enters the model as pseudo attributes ~base@left .. ~base@height, taken once by the harness before the history; an attribute is absent when the base reports None or there is no base",
    "oracle-only properties (tx/c09_oracle_only.json) are judged by the direct oracle only",
    "get_set is proved as get (set v t) = quantize v with quantize the translated conversion; the bound |quantize v - v| <= quantum is proved for EMU (exact), centipoints (Font.size, paragraph spacing in points), ST_Percentage (crop, gradient stop, lumMod/lumOff: C09_percentage_quantum) and ST_Angle (rotation: C09_angle_quantum) for every accepted value; for line spacing in lines, gradient angle (ST_PositiveFixedAngle), adjustments and xsd:double attributes it is checked bit-exactly on threshold grids only",
    "binary64 arithmetic is the exact model lib/PyFloat.v (error bounds of rounding, product and quotient proved in proofs/Props_proofs.v); that CPython computes the same is validated bit-exactly, not proved",
]


# ------------------------------------------------------------------ wire
def cps(s):
    return ".".join(str(ord(c)) for c in s)


def is_length(v):
    from pptx.util import Length
    return isinstance(v, Length)


def enc_aval(v):
    import enum
    from pptx.dml.color import RGBColor
    if v is None:
        return "n"
    if isinstance(v, bool):
        return "b:1" if v else "b:0"
    if isinstance(v, RGBColor):
        return "ms:" + cps(str(v))
    if isinstance(v, enum.Enum):
        return "m:%d" % int(v.value)
    if is_length(v):
        return "l:%d" % int(v)
    if isinstance(v, int):
        return "i:%d" % v
    if isinstance(v, float):
        return "f:" + enc_float(v)
    if isinstance(v, str):
        return "s:" + cps(v)
    return "o"


def show_val(v):
    """What the model prints (show_pyval) for a value the implementation returned."""
    import enum
    from pptx.dml.color import RGBColor
    if v is None:
        return "n"
    if isinstance(v, bool):
        return "b:1" if v else "b:0"
    if isinstance(v, RGBColor):
        return "s:" + " ".join(str(ord(c)) for c in str(v))
    if isinstance(v, enum.Enum):
        return "i:%d" % int(v.value)
    if isinstance(v, int):
        return "i:%d" % int(v)
    if isinstance(v, float):
        return "f:" + enc_float(v)
    if isinstance(v, str):
        return "s:" + " ".join(str(ord(c)) for c in v)
    return "o"


def modelable(v):
    """values the wire can carry faithfully (the 'other object' is complex only)"""
    if isinstance(v, str):
        return True
    if isinstance(v, (bytes, list, tuple, dict)) and not _is_rgb(v):
        return False
    return True


def _is_rgb(v):
    from pptx.dml.color import RGBColor
    return isinstance(v, RGBColor)


# ------------------------------------------------------------------ element state
_PFX = None


def _prefixes():
    global _PFX
    if _PFX is None:
        from pptx.oxml.ns import _nsmap
        _PFX = {uri: p for p, uri in _nsmap.items()}
    return _PFX


def ptag(clark):
    if clark.startswith("{"):
        uri, local = clark[1:].split("}")
        p = _prefixes().get(uri)
        return "%s:%s" % (p, local) if p else "{%s}%s" % (uri, local)
    return clark


def flatten(elem, nv=False, depth=7):
    """anchor element -> {key: text}; key = 'a/b/c' (element present) or 'a/b/c@attr'."""
    out = {}

    def walk(e, path, d):
        for k, v in e.attrib.items():
            out["/".join(path) + "@" + ptag(k)] = v
        if d == 0:
            return
        kids = [c for c in e if isinstance(c.tag, str)]
        counts = {}
        for c in kids:
            counts[c.tag] = counts.get(c.tag, 0) + 1
        for i, c in enumerate(kids):
            if counts[c.tag] > 1:
                continue
            t = ptag(c.tag)
            if nv and not path and i == 0:
                t = "*nv"
            p = path + [t]
            out["/".join(p)] = None
            walk(c, p, d - 1)

    walk(elem, [], depth)
    return out


def state_field(st):
    items = []
    for k, v in sorted(st.items()):
        if v is None:
            items.append(k)
        else:
            items.append("%s=%s" % (k, cps(v)))
    return "|".join(items)


def parse_state(s):
    out = {}
    if not s:
        return out
    for item in s.split("|"):
        if "=" in item:
            k, v = item.split("=", 1)
            out[k] = "".join(chr(int(t)) for t in v.split(".")) if v else ""
        else:
            if item:
                out[item] = None
    return out


def drop_opaque(st, opaque):
    return {k: v for k, v in st.items()
            if not any(k.startswith(o + "/") or k.startswith(o + "@") for o in opaque)}


# ------------------------------------------------------------------ property descriptions
class P:
    def __init__(self, attr, label, valid=(), invalid=(), unjudged=(), none=None, quantum=0, cmp=None,
                 cls=None, group=None, truthy=False, persist=True):
        self.attr = attr            # python attribute name
        self.label = label          # catalogue label Class.prop[@variant] or None (oracle only)
        self.valid = list(valid)
        self.invalid = list(invalid)
        self.unjudged = list(unjudged)
        self.none = none            # ("reads", value): None is documented and then reads value
        self.quantum = quantum
        self.cmp = cmp
        self.cls = cls or (label.split(".")[0] if label else None)
        self.group = group          # name of a dependency group (properties that are facets of one setting)
        self.truthy = truthy
        self.persist = persist       # False: an in-memory setting that is not written to the file

    @property
    def name(self):
        return "%s.%s" % (self.cls, self.attr)


class SlideRef:
    """a value that only exists relative to the presentation under test: the idx-th slide"""
    def __init__(self, idx):
        self.idx = idx

    def resolve(self, prs):
        return prs.slides[self.idx]

    def __repr__(self):
        return "<slide #%d of the same presentation>" % self.idx


COMPLEX = 7.5 + 2j
MARK = chr(0x10FFFF)
WRONG = ["abc", COMPLEX]


def same_num(read, v, q):
    try:
        return abs(Fraction(read) - Fraction(v)) <= Fraction(q) * (1 + Fraction(1, 10**9)) + Fraction(1, 10**12) * (q != 0)
    except Exception:  # noqa
        return False


def same_angle(read, v, q=Fraction(1, 60000)):
    try:
        d = (Fraction(read) - Fraction(v)) % 360
        return min(d, 360 - d) <= q * (1 + Fraction(1, 10**6)) + Fraction(1, 10**9)
    except Exception:  # noqa
        return False


def int_prop(attr, label, lo, hi, rng, none=None, extra_invalid=(), unjudged=(), length=True, **kw):
    from pptx.util import Emu
    mid = (lo + hi) // 2
    vals = [lo, hi, lo + 1, hi - 1, mid] + [rng.randint(lo, hi) for _ in range(3)] + [max(lo, min(hi, x)) for x in (0, 1, 12700, 914400)]
    valid = []
    for i, v in enumerate(dict.fromkeys(vals)):
        valid.append(Emu(v) if (length and i % 2 == 0) else v)
    invalid = [lo - 1, hi + 1, lo - 10**6, hi + 10**9, 1.5] + WRONG + list(extra_invalid)
    if none is None:
        invalid.append(None)
    return P(attr, label, valid, invalid, unjudged, none=none, **kw)


def float_prop(attr, label, lo, hi, rng, q, none=None, extra_valid=(), extra_invalid=(), unjudged=(), cmp=None, **kw):
    vals = [float(lo), float(hi), (lo + hi) / 2.0, lo + (hi - lo) * 0.123456789, lo + (hi - lo) * rng.random(),
            lo + (hi - lo) * rng.random(), math.nextafter(float(hi), -math.inf), math.nextafter(float(lo), math.inf)]
    valid = list(dict.fromkeys(vals)) + list(extra_valid)
    invalid = [math.nan, math.inf, -math.inf] + WRONG + list(extra_invalid)
    if none is None:
        invalid.append(None)
    return P(attr, label, valid, invalid, unjudged, none=none, quantum=q, cmp=cmp, **kw)


def bool_prop(attr, label, nullable=False, none_reads=None, **kw):
    invalid = ["abc", 2, 5.5, COMPLEX] + ([] if nullable else [None])
    return P(attr, label, [True, False], invalid, [0, 1, 0.0, 1.0], none=("reads", none_reads) if nullable else None, **kw)


def truthy_prop(attr, label, **kw):
    return P(attr, label, [True, False, 0, 1, "x", "", None, 2.5, COMPLEX], [], [], truthy=True, **kw)


def enum_prop(attr, label, enum_cls, nullable=True, none_reads=None, extra_valid=(), extra_invalid=(), unjudged=(), **kw):
    valid = [m for m in enum_cls if getattr(m, "xml_value", "x")] + list(extra_valid)
    invalid = [m for m in enum_cls if not getattr(m, "xml_value", "x") and m not in extra_valid and m not in unjudged]
    invalid += ["abc", 987654, COMPLEX] + list(extra_invalid) + ([] if nullable else [None])
    return P(attr, label, valid, invalid, unjudged, none=("reads", none_reads) if nullable else None, **kw)


def str_prop(attr, label, nullable=False, none_reads=None, **kw):
    valid = ["", "x", "Title 1", "a<b>&\"c'", "café 日本 \U0001F600", " lead/trail ", "tab\tin"]
    invalid = [5, 1.5, COMPLEX, b"x"] + ([] if nullable else [None])
    return P(attr, label, valid, invalid, [], none=("reads", none_reads) if nullable else None, **kw)


# ------------------------------------------------------------------ object kinds
class Kind:
    def __init__(self, name, build, nav, anchor, props, nv=False, opaque=(), pseudo=None, part=None, groups=(), reopen=False):
        self.name, self.build, self.nav, self.anchor, self.props = name, build, nav, anchor, props
        self.reopen = reopen
        self.nv, self.opaque, self.pseudo, self.part = nv, tuple(opaque), pseudo, part
        self.groups = groups


PNG = os.path.join(REPO, "tests", "test_files", "python-powered.png")


def _blank(layout=6):
    from pptx import Presentation
    prs = Presentation()
    s = prs.slides.add_slide(prs.slide_layouts[layout])
    return prs, s


def b_autoshape():
    from pptx.enum.shapes import MSO_SHAPE
    from pptx.util import Emu
    prs, s = _blank()
    sp = s.shapes.add_shape(MSO_SHAPE.ROUNDED_RECTANGLE, Emu(100000), Emu(200000), Emu(3000000), Emu(1000000))
    sp.text_frame.text = "hello"
    sp.text_frame.paragraphs[0].runs[0].font.bold = None
    return prs


def b_textbox():
    from pptx.util import Emu
    prs, s = _blank()
    tb = s.shapes.add_textbox(Emu(100000), Emu(200000), Emu(3000000), Emu(1000000))
    tb.text_frame.text = "hello"
    tb.text_frame.paragraphs[0].runs[0].font   # creates a:rPr
    return prs


def b_picture():
    from pptx.util import Emu
    prs, s = _blank()
    s.shapes.add_picture(PNG, Emu(100000), Emu(200000))
    return prs


def b_connector():
    from pptx.enum.shapes import MSO_CONNECTOR
    from pptx.util import Emu
    prs, s = _blank()
    s.shapes.add_connector(MSO_CONNECTOR.STRAIGHT, Emu(100000), Emu(200000), Emu(3000000), Emu(1000000))
    return prs


def b_table():
    from pptx.util import Emu
    prs, s = _blank()
    s.shapes.add_table(3, 3, Emu(100000), Emu(200000), Emu(3000000), Emu(1200000))
    return prs


def b_group():
    from pptx.enum.shapes import MSO_SHAPE
    from pptx.util import Emu
    prs, s = _blank()
    g = s.shapes.add_group_shape()
    g.shapes.add_shape(MSO_SHAPE.RECTANGLE, Emu(100000), Emu(200000), Emu(300000), Emu(100000))
    return prs


def b_placeholder():
    prs, s = _blank(1)
    return prs


def b_solid():
    from pptx.dml.color import RGBColor
    prs = b_autoshape()
    f = prs.slides[0].shapes[0].fill
    f.solid()
    f.fore_color.rgb = RGBColor(0x12, 0x34, 0x56)
    return prs


def b_scheme():
    from pptx.enum.dml import MSO_THEME_COLOR
    prs = b_autoshape()
    f = prs.slides[0].shapes[0].fill
    f.solid()
    f.fore_color.theme_color = MSO_THEME_COLOR.ACCENT_2
    return prs


def b_gradient():
    prs = b_autoshape()
    prs.slides[0].shapes[0].fill.gradient()
    return prs


def b_pattern():
    prs = b_autoshape()
    prs.slides[0].shapes[0].fill.patterned()
    return prs


def _chart(kind_name):
    from pptx.chart.data import CategoryChartData, BubbleChartData
    from pptx.enum.chart import XL_CHART_TYPE
    from pptx.util import Emu
    prs, s = _blank()
    if kind_name == "bubble":
        cd = BubbleChartData()
        ser = cd.add_series("S1")
        ser.add_data_point(1, 2, 3)
        ser.add_data_point(2, 3, 4)
        ct = XL_CHART_TYPE.BUBBLE
    else:
        cd = CategoryChartData()
        cd.categories = ["a", "b", "c"]
        cd.add_series("S1", (1.0, 2.5, 3.0))
        cd.add_series("S2", (2.0, 1.5, 0.5))
        if kind_name == "scatter":
            from pptx.chart.data import XyChartData
            cd = XyChartData()
            ser = cd.add_series("S1")
            ser.add_data_point(1, 2)
            ser.add_data_point(2, 3)
        ct = {"bar": XL_CHART_TYPE.BAR_CLUSTERED, "line": XL_CHART_TYPE.LINE_MARKERS, "area": XL_CHART_TYPE.AREA,
              "pie": XL_CHART_TYPE.PIE, "doughnut": XL_CHART_TYPE.DOUGHNUT, "radar": XL_CHART_TYPE.RADAR,
              "scatter": XL_CHART_TYPE.XY_SCATTER}[kind_name]
    s.shapes.add_chart(ct, Emu(100000), Emu(200000), Emu(5000000), Emu(3000000), cd)
    return prs


def b_bar():
    prs = _chart("bar")
    ch = prs.slides[0].shapes[0].chart
    ch.has_legend = True
    ch.plots[0].has_data_labels = True
    return prs


def b_line():
    return _chart("line")


def b_bubble():
    return _chart("bubble")


def sh0(prs):
    return prs.slides[0].shapes[0]


def chart0(prs):
    return prs.slides[0].shapes[0].chart


def _toggle(obj, attr):
    setattr(obj, attr, False)
    setattr(obj, attr, True)


def _retext(prs):
    sh0(prs).text_frame.text = "hello"


# kind name -> how the container of that kind of object is removed and created again through the public API
REGATES = {
    "legend": lambda prs: _toggle(chart0(prs), "has_legend"),
    "data_labels": lambda prs: _toggle(chart0(prs).plots[0], "has_data_labels"),
    "axis_title": lambda prs: _toggle(chart0(prs).value_axis, "has_title"),
    "chart_title": lambda prs: _toggle(chart0(prs), "has_title"),
    "paragraph": _retext, "font": _retext, "run": _retext, "paragraph_text": _retext, "run_hyperlink": _retext,
    "gradient": lambda prs: sh0(prs).fill.gradient(), "gradfill": lambda prs: sh0(prs).fill.gradient(),
    "gradstop": lambda prs: sh0(prs).fill.gradient(),
    "pattern": lambda prs: sh0(prs).fill.patterned(), "pattfill": lambda prs: sh0(prs).fill.patterned(),
}


def base_reading(obj, attr):
    try:
        b = obj._base_placeholder
        return None if b is None else getattr(b, attr)
    except Exception:  # noqa
        return None


def pseudo_placeholder(obj):
    out = {}
    any_ = False
    for a in ("left", "top", "width", "height"):
        v = base_reading(obj, a)
        if v is not None:
            out["~base@" + a] = str(int(v))
            any_ = True
    if any_:
        out["~base"] = None
    return out


def pseudo_row(obj):
    rows = list(obj._parent)
    return {"~others": None, "~others@sum": str(sum(int(r.height) for r in rows if r._tr is not obj._tr))}


def pseudo_col(obj):
    cols = list(obj._parent)
    return {"~others": None, "~others@sum": str(sum(int(c.width) for c in cols if c._gridCol is not obj._gridCol))}


def pseudo_adj(obj):
    out = {"~adj": None, "~adj@def": str(int(obj.def_val))}
    if obj.actual is not None:
        out["~adj@actual"] = str(int(obj.actual))
    return out


def shape_props(variant, rng, cls="BaseShape", ph=False):
    C = 27273042316900
    lab = (lambda n: "%s.%s@%s" % ("_InheritsDimensions" if ph and n in ("left", "top", "width", "height") else "BaseShape", n, "sp" if ph else variant))
    return [
        int_prop("left", lab("left"), -27273042329600, C, rng),
        int_prop("top", lab("top"), -27273042329600, C, rng),
        int_prop("width", lab("width"), 0, C, rng),
        int_prop("height", lab("height"), 0, C, rng),
        float_prop("rotation", lab("rotation"), -720.0, 720.0, rng, Fraction(1, 60000), cmp=same_angle,
                   extra_valid=[0, 90, -45, 359.99999999, 0.0000083, 45.0000083333, 1e6], unjudged=[1e15, -1e15, 1e300]),
        str_prop("name", lab("name")),
    ]


def make_kinds(rng):
    from pptx.enum.text import MSO_ANCHOR, MSO_AUTO_SIZE, PP_ALIGN, MSO_UNDERLINE
    from pptx.enum.lang import MSO_LANGUAGE_ID
    from pptx.enum.dml import MSO_THEME_COLOR, MSO_LINE, MSO_PATTERN
    from pptx.enum.chart import (XL_TICK_MARK, XL_TICK_LABEL_POSITION, XL_AXIS_CROSSES, XL_LEGEND_POSITION,
                                 XL_LABEL_POSITION, XL_MARKER_STYLE)
    from pptx.enum.shapes import MSO_SHAPE
    from pptx.dml.color import RGBColor
    from pptx.util import Emu, Pt

    K = []
    K.append(Kind("autoshape", b_autoshape, sh0, lambda o: o._element, shape_props("sp", rng), nv=True))
    K.append(Kind("picture", b_picture, sh0, lambda o: o._element, shape_props("sp", rng) + [
        float_prop("crop_left", "_BasePicture.crop_left", -1.0, 1.0, rng, Fraction(1, 100000), extra_valid=[0, 0.25, 21474.83647, -21474.83648, 0.123455, 0.000005], extra_invalid=[30000.0, -30000.0]),
        float_prop("crop_top", "_BasePicture.crop_top", -1.0, 1.0, rng, Fraction(1, 100000), extra_valid=[0.5], extra_invalid=[30000.0]),
        float_prop("crop_right", "_BasePicture.crop_right", -1.0, 1.0, rng, Fraction(1, 100000), extra_valid=[0.5], extra_invalid=[30000.0]),
        float_prop("crop_bottom", "_BasePicture.crop_bottom", -1.0, 1.0, rng, Fraction(1, 100000), extra_valid=[0.5], extra_invalid=[30000.0]),
        enum_prop("auto_shape_type", None, MSO_SHAPE, nullable=False, cls="Picture"),
    ], nv=True))
    conn = shape_props("sp", rng)
    for q in conn[:4]:
        q.group = "geometry"         # begin/end points are another view of the same a:off / a:ext / flip
    K.append(Kind("connector", b_connector, sh0, lambda o: o._element, conn + [
        P(a, None, [0, 1, 914400, 10**7, Emu(123456), 5000000], ["abc", None], [-1, -10**6, 1.5], cls="Connector", group="geometry")
        for a in ("begin_x", "begin_y", "end_x", "end_y")], nv=True))
    K.append(Kind("graphicframe", b_table, sh0, lambda o: o._element, shape_props("gf", rng), nv=True))
    K.append(Kind("group", b_group, sh0, lambda o: o._element, shape_props("grp", rng), nv=True))
    K.append(Kind("placeholder", b_placeholder, lambda prs: prs.slides[0].shapes[1], lambda o: o._element,
                  shape_props("sp", rng, ph=True), nv=True, pseudo=pseudo_placeholder))
    K.append(Kind("presentation", lambda: _blank()[0], lambda prs: prs, lambda o: o._element, [
        int_prop("slide_width", "Presentation.slide_width", 914400, 51206400, rng),
        int_prop("slide_height", "Presentation.slide_height", 914400, 51206400, rng)],
        part=lambda prs, o: prs.part))
    K.append(Kind("slide", lambda: _blank()[0], lambda prs: prs.slides[0], lambda o: o._element, [
        str_prop("name", "_BaseSlide.name", nullable=True, none_reads="")]))
    M32 = 2147483647
    K.append(Kind("textframe", b_textbox, lambda prs: sh0(prs).text_frame, lambda o: o._txBody, [
        int_prop("margin_left", "TextFrame.margin_left", -M32 - 1, M32, rng),
        int_prop("margin_top", "TextFrame.margin_top", -M32 - 1, M32, rng),
        int_prop("margin_right", "TextFrame.margin_right", -M32 - 1, M32, rng),
        int_prop("margin_bottom", "TextFrame.margin_bottom", -M32 - 1, M32, rng),
        enum_prop("vertical_anchor", "TextFrame.vertical_anchor", MSO_ANCHOR),
        bool_prop("word_wrap", "TextFrame.word_wrap", nullable=True),
        P("auto_size", "TextFrame.auto_size", [MSO_AUTO_SIZE.NONE, MSO_AUTO_SIZE.SHAPE_TO_FIT_TEXT, MSO_AUTO_SIZE.TEXT_TO_FIT_SHAPE],
          [MSO_AUTO_SIZE.MIXED, "abc", 7, COMPLEX], [0, 1, 2], none=("reads", None)),
        str_prop("text", None, cls="TextFrame"),
    ]))
    K.append(Kind("paragraph", b_textbox, lambda prs: sh0(prs).text_frame.paragraphs[0], lambda o: o._p, [
        enum_prop("alignment", "_Paragraph.alignment", PP_ALIGN),
        int_prop("level", "_Paragraph.level", 0, 8, rng, length=False),
        P("line_spacing", "_Paragraph.line_spacing",
          [1.0, 0.0, 132.0, 1.75, 0.999995, 2, 20, 1.2345678, Pt(12), Pt(0), Emu(20116800), Emu(127), Emu(126), Emu(12700 * 7 + 55)],
          [-0.5, 132.5, math.nan, math.inf, "abc", COMPLEX, Emu(-1), Emu(20116801)], [], none=("reads", None),
          quantum=Fraction(1, 100000), cmp=lambda r, v: (same_num(r, v, 127) and is_length(r) and 0 <= int(v) - int(r)) if is_length(v) else (same_num(r, v, Fraction(1, 100000)) and not is_length(r))),
        int_prop("space_before", "_Paragraph.space_before", 0, 20116800, rng, none=("reads", None), quantum=126, cmp=lambda r, v: 0 <= int(v) - int(r) <= 126),
        int_prop("space_after", "_Paragraph.space_after", 0, 20116800, rng, none=("reads", None), quantum=126, cmp=lambda r, v: 0 <= int(v) - int(r) <= 126),
    ]))
    K.append(Kind("font", b_textbox, lambda prs: sh0(prs).text_frame.paragraphs[0].runs[0].font, lambda o: o._rPr, [
        int_prop("size", "Font.size", 12700, 50800126, rng, none=("reads", None), quantum=126, cmp=lambda r, v: 0 <= int(v) - int(r) <= 126,
                 extra_invalid=[0, 6350, 12699, 50800127]),
        bool_prop("bold", "Font.bold", nullable=True),
        bool_prop("italic", "Font.italic", nullable=True),
        P("underline", "Font.underline", [True, False] + [m for m in MSO_UNDERLINE if m.xml_value],
          [m for m in MSO_UNDERLINE if not m.xml_value] + ["abc", 987654, COMPLEX], [0, 1], none=("reads", None),
          cmp=lambda r, v: r == (False if v == MSO_UNDERLINE.NONE else True if v == MSO_UNDERLINE.SINGLE_LINE else v)),
        str_prop("name", "Font.name", nullable=True),
        P("language_id", "Font.language_id", [m for m in list(MSO_LANGUAGE_ID)[:40] if m.xml_value] + [MSO_LANGUAGE_ID.NONE],
          [MSO_LANGUAGE_ID.MIXED, "abc", 987654, COMPLEX], [], none=("reads", MSO_LANGUAGE_ID.NONE)),
    ]))
    K.append(Kind("table", b_table, lambda prs: sh0(prs).table, lambda o: o._tbl, [
        bool_prop(a, "Table." + a) for a in ("first_row", "first_col", "last_row", "last_col", "horz_banding", "vert_banding")]))
    K.append(Kind("cell", b_table, lambda prs: sh0(prs).table.cell(1, 1), lambda o: o._tc, [
        int_prop("margin_left", "_Cell.margin_left", -M32 - 1, M32, rng, none=("reads", 91440)),
        int_prop("margin_right", "_Cell.margin_right", -M32 - 1, M32, rng, none=("reads", 91440)),
        int_prop("margin_top", "_Cell.margin_top", -M32 - 1, M32, rng, none=("reads", 45720)),
        int_prop("margin_bottom", "_Cell.margin_bottom", -M32 - 1, M32, rng, none=("reads", 45720)),
        enum_prop("vertical_anchor", "_Cell.vertical_anchor", MSO_ANCHOR),
        str_prop("text", None, cls="_Cell"),
    ]))
    BIG = 27273042316900
    K.append(Kind("row", b_table, lambda prs: sh0(prs).table.rows[1], lambda o: o._tr, [
        int_prop("height", "_Row.height", 0, 2 * 10**9, rng, unjudged=[-1, 2 * 10**9 + 1, -10**6, 3 * 10**9], extra_invalid=[BIG + 1, -27273042329601])],
        pseudo=pseudo_row))
    K[-1].props[0].invalid = [v for v in K[-1].props[0].invalid if v not in (-1, 2 * 10**9 + 1, -10**6, 3 * 10**9)]
    K.append(Kind("column", b_table, lambda prs: sh0(prs).table.columns[1], lambda o: o._gridCol, [
        int_prop("width", "_Column.width", 0, 2 * 10**9, rng, unjudged=[-1, 2 * 10**9 + 1, -10**6, 3 * 10**9], extra_invalid=[BIG + 1, -27273042329601])],
        pseudo=pseudo_col))
    K[-1].props[0].invalid = [v for v in K[-1].props[0].invalid if v not in (-1, 2 * 10**9 + 1, -10**6, 3 * 10**9)]
    K.append(Kind("line", b_autoshape, lambda prs: sh0(prs).line, lambda o: o._parent._element, [
        int_prop("width", "LineFormat.width@sp", 0, 20116800, rng, none=("reads", 0)),
        enum_prop("dash_style", "LineFormat.dash_style@sp", MSO_LINE),
    ]))
    rgbs = [RGBColor(0, 0, 0), RGBColor(255, 255, 255), RGBColor(0x3C, 0x2F, 0x80), RGBColor(0xAB, 0xCD, 0xEF), RGBColor(1, 2, 3)]
    cprops = lambda: [
        P("rgb", "ColorFormat.rgb", rgbs, ["FF0000", None, (255, 0, 0), 0xFF0000, COMPLEX], [], group="color"),
        enum_prop("theme_color", "ColorFormat.theme_color", MSO_THEME_COLOR, nullable=False, group="color"),
        float_prop("brightness", "ColorFormat.brightness", -1.0, 1.0, rng, Fraction(1, 100000), extra_valid=[0, 0.4, -0.25, 1, -1, 0.000004, -0.000004],
                   extra_invalid=[-1.5, 1.01, 2], group="color"),
    ]
    K.append(Kind("color-rgb", b_solid, lambda prs: sh0(prs).fill.fore_color, lambda o: o._xFill, cprops()))
    K.append(Kind("color-scheme", b_scheme, lambda prs: sh0(prs).fill.fore_color, lambda o: o._xFill, cprops()))
    K.append(Kind("gradient", b_gradient, lambda prs: sh0(prs).fill, lambda o: o._xPr, [
        float_prop("gradient_angle", "FillFormat.gradient_angle", 0.0, 360.0, rng, Fraction(1, 60000), cmp=same_angle,
                   extra_valid=[45, 90.0, 270, 123.456], unjudged=[-30.0, 400.0, 720.5])]))
    K.append(Kind("gradfill", b_gradient, lambda prs: sh0(prs).fill._fill, lambda o: o._gradFill, [
        float_prop("gradient_angle", "_GradFill.gradient_angle", 0.0, 360.0, rng, Fraction(1, 60000), cmp=same_angle,
                   extra_valid=[45, 90.0], unjudged=[-30.0, 400.0])]))
    K.append(Kind("gradstop", b_gradient, lambda prs: sh0(prs).fill.gradient_stops[0], lambda o: o._gs, [
        float_prop("position", "_GradientStop.position", 0.0, 1.0, rng, Fraction(1, 100000), extra_valid=[0, 1, 0.333333], extra_invalid=[-0.1, 1.5], unjudged=["0.5"])]))
    K.append(Kind("pattern", b_pattern, lambda prs: sh0(prs).fill, lambda o: o._xPr, [
        enum_prop("pattern", "FillFormat.pattern", MSO_PATTERN)]))
    K.append(Kind("pattfill", b_pattern, lambda prs: sh0(prs).fill._fill, lambda o: o._pattFill, [
        enum_prop("pattern", "_PattFill.pattern", MSO_PATTERN)]))
    K.append(Kind("shadow", b_autoshape, lambda prs: sh0(prs).shadow, lambda o: o._element, [
        truthy_prop("inherit", "ShadowFormat.inherit")]))
    K.append(Kind("srgbcolor", b_solid, lambda prs: sh0(prs).fill.fore_color._color, lambda o: o._srgbClr, [
        P("rgb", "_SRgbColor.rgb", rgbs, ["XYZ123", 5, None], ["ff00aa", "FF0000"])]))
    K.append(Kind("schemecolor", b_scheme, lambda prs: sh0(prs).fill.fore_color._color, lambda o: o._schemeClr, [
        enum_prop("theme_color", "_SchemeColor.theme_color", MSO_THEME_COLOR, nullable=False)]))
    chart_part = lambda prs, o: chart0(prs).part
    K.append(Kind("chart", b_bar, chart0, lambda o: o._chartSpace, [
        int_prop("chart_style", "Chart.chart_style", 1, 48, rng, none=("reads", None), length=False),
        truthy_prop("has_legend", "Chart.has_legend"),
        truthy_prop("has_title", "Chart.has_title"),
    ], opaque=("c:chart/c:title", "c:chart/c:legend"), part=chart_part))
    axis_props = lambda: [
        truthy_prop("has_major_gridlines", "_BaseAxis.has_major_gridlines"),
        truthy_prop("has_minor_gridlines", "_BaseAxis.has_minor_gridlines"),
        truthy_prop("has_title", "_BaseAxis.has_title"),
        enum_prop("major_tick_mark", "_BaseAxis.major_tick_mark", XL_TICK_MARK, nullable=False),
        enum_prop("minor_tick_mark", "_BaseAxis.minor_tick_mark", XL_TICK_MARK, nullable=False),
        float_prop("maximum_scale", "_BaseAxis.maximum_scale", -1e6, 1e6, rng, 0, none=("reads", None), extra_valid=[0, 10, 1e-7, 123456789.125]),
        float_prop("minimum_scale", "_BaseAxis.minimum_scale", -1e6, 1e6, rng, 0, none=("reads", None), extra_valid=[0, -5]),
        truthy_prop("reverse_order", "_BaseAxis.reverse_order"),
        enum_prop("tick_label_position", "_BaseAxis.tick_label_position", XL_TICK_LABEL_POSITION, nullable=True, none_reads=XL_TICK_LABEL_POSITION.NEXT_TO_AXIS),
        bool_prop("visible", "_BaseAxis.visible"),
    ]
    K.append(Kind("value_axis", b_bar, lambda prs: chart0(prs).value_axis, lambda o: o._element, axis_props() + [
        float_prop("major_unit", "ValueAxis.major_unit", 0.001, 1e6, rng, 0, none=("reads", None), extra_valid=[1, 0.5, 1e-9], extra_invalid=[0, -1.0, 0.0]),
        float_prop("minor_unit", "ValueAxis.minor_unit", 0.001, 1e6, rng, 0, none=("reads", None), extra_valid=[1], extra_invalid=[0, -1.0]),
    ], opaque=("c:title",), part=chart_part))
    K.append(Kind("category_axis", b_bar, lambda prs: chart0(prs).category_axis, lambda o: o._element, axis_props(),
                  opaque=("c:title",), part=chart_part))
    K.append(Kind("axis_crosses", b_bar, lambda prs: chart0(prs).value_axis, lambda o: o._cross_xAx, [
        P("crosses", "ValueAxis.crosses@cross", list(XL_AXIS_CROSSES), ["abc", 987654, None, COMPLEX], [], group="cross"),
        float_prop("crosses_at", "ValueAxis.crosses_at@cross", -1e6, 1e6, rng, 0, none=("reads", None), extra_valid=[0, 2.5], group="cross"),
    ], part=chart_part))
    tl = lambda variant, nav: Kind("tick_labels_" + variant, b_bar, nav, lambda o: o._element, [
        str_prop("number_format", "TickLabels.number_format", group="numfmt"),
        P("number_format_is_linked", "TickLabels.number_format_is_linked", [True, False], ["abc", 2, COMPLEX], [0, 1, None], group="numfmt"),
        int_prop("offset", "TickLabels.offset@" + variant, 0, 1000, rng, length=False) if variant == "catAx" else
        P("offset", "TickLabels.offset@valAx", [], [5, 100, "abc", None], []),
    ], part=chart_part)
    K.append(tl("catAx", lambda prs: chart0(prs).category_axis.tick_labels))
    K.append(tl("valAx", lambda prs: chart0(prs).value_axis.tick_labels))
    K.append(Kind("legend", b_bar, lambda prs: chart0(prs).legend, lambda o: o._element, [
        enum_prop("position", "Legend.position", XL_LEGEND_POSITION, nullable=False),
        P("include_in_layout", "Legend.include_in_layout", [True, False, 0, 1, "x", ""], [], [], none=("reads", True), truthy=True),
        float_prop("horz_offset", "Legend.horz_offset", -1.0, 1.0, rng, 0, extra_valid=[0, 0.25], unjudged=[1.5, -1.5]),
    ], part=chart_part))
    K.append(Kind("data_labels", b_bar, lambda prs: chart0(prs).plots[0].data_labels, lambda o: o._element, [
        str_prop("number_format", "DataLabels.number_format", group="numfmt"),
        P("number_format_is_linked", "DataLabels.number_format_is_linked", [True, False], ["abc", 2, COMPLEX], [0, 1, None], group="numfmt"),
        enum_prop("position", "DataLabels.position", XL_LABEL_POSITION),
    ] + [truthy_prop(a, "DataLabels." + a) for a in ("show_category_name", "show_legend_key", "show_percentage", "show_series_name", "show_value")],
        part=chart_part))
    K.append(Kind("bar_plot", b_bar, lambda prs: chart0(prs).plots[0], lambda o: o._element, [
        int_prop("gap_width", "BarPlot.gap_width", 0, 500, rng, length=False),
        int_prop("overlap", "BarPlot.overlap", -100, 100, rng, length=False),
        truthy_prop("vary_by_categories", "_BasePlot.vary_by_categories"),
        truthy_prop("has_data_labels", "_BasePlot.has_data_labels"),
    ], opaque=("c:dLbls",), part=chart_part))
    K.append(Kind("bubble_plot", b_bubble, lambda prs: chart0(prs).plots[0], lambda o: o._element, [
        int_prop("bubble_scale", "BubblePlot.bubble_scale", 0, 300, rng, none=("reads", 100), length=False),
        truthy_prop("vary_by_categories", "_BasePlot.vary_by_categories"),
    ], part=chart_part))
    for cname in ("area", "pie", "doughnut", "radar", "scatter"):
        K.append(Kind(cname + "_plot", (lambda c=cname: _chart(c)), lambda prs: chart0(prs).plots[0], lambda o: o._element, [
            truthy_prop("vary_by_categories", None, cls="_BasePlot"),
            truthy_prop("has_data_labels", None, cls="_BasePlot"),
        ], part=chart_part))
    K.append(Kind("bar_series", b_bar, lambda prs: chart0(prs).plots[0].series[0], lambda o: o._element, [
        truthy_prop("invert_if_negative", "BarSeries.invert_if_negative")], part=chart_part))
    K.append(Kind("line_series", b_line, lambda prs: chart0(prs).plots[0].series[0], lambda o: o._element, [
        bool_prop("smooth", "LineSeries.smooth")], part=chart_part))
    K.append(Kind("marker", b_line, lambda prs: chart0(prs).plots[0].series[0].marker, lambda o: o._element, [
        int_prop("size", "Marker.size", 2, 72, rng, none=("reads", None), length=False),
        enum_prop("style", "Marker.style", XL_MARKER_STYLE),
    ], part=chart_part))
    txt = lambda: ["", "x", "Title 1", "a<b>&\"c'", "café 日本 \U0001F600", " lead/trail "]
    K.append(Kind("shape_text", b_autoshape, sh0, lambda o: o._element, [
        P("text", None, txt() + ["two\nparagraphs"], [5, None], [], cls="Shape")], nv=True, reopen=True))
    K.append(Kind("paragraph_text", b_textbox, lambda prs: sh0(prs).text_frame.paragraphs[0], lambda o: o._p, [
        P("text", None, txt(), [5, None], [], cls="_Paragraph")]))
    K.append(Kind("run", b_textbox, lambda prs: sh0(prs).text_frame.paragraphs[0].runs[0], lambda o: o._r, [
        P("text", None, txt(), [5, None], [], cls="_Run")]))
    urls = ["http://example.org/a?b=1&c=2", "https://example.com/", "mailto:x@y.z"]
    K.append(Kind("shape_hyperlink", b_autoshape, lambda prs: sh0(prs).click_action.hyperlink, None, [
        P("address", None, urls, [5, 1.5], [], none=("reads", None), cls="Hyperlink")], reopen=True))
    K.append(Kind("run_hyperlink", b_textbox, lambda prs: sh0(prs).text_frame.paragraphs[0].runs[0].hyperlink, None, [
        P("address", None, urls, [5, 1.5], [], none=("reads", None), cls="_Hyperlink")], reopen=True))

    def b_two_slides():
        prs = b_autoshape()
        prs.slides.add_slide(prs.slide_layouts[6])
        return prs
    K.append(Kind("click_action", b_two_slides, lambda prs: sh0(prs).click_action, None, [
        P("target_slide", None, [SlideRef(1), SlideRef(0)], [5, "abc"], [], none=("reads", None), cls="ActionSetting")], reopen=True))
    K.append(Kind("shapes", b_autoshape, lambda prs: prs.slides[0].shapes, None, [
        truthy_prop("turbo_add_enabled", None, cls="_BaseShapes", persist=False)]))
    K.append(Kind("color_object", b_solid, lambda prs: sh0(prs).fill.fore_color._color, None, [
        float_prop("brightness", None, -1.0, 1.0, rng, Fraction(1, 100000), extra_valid=[0, 0.4, -0.25], cls="_Color",
                   unjudged=[1.5, -1.5, math.nan])], reopen=True))
    K[-1].props[0].invalid = [v for v in K[-1].props[0].invalid if not (isinstance(v, float) and v != v)]
    K.append(Kind("axis_title", b_bar, lambda prs: chart0(prs).value_axis.axis_title, None, [
        truthy_prop("has_text_frame", None, cls="AxisTitle")], part=chart_part, reopen=True))

    def b_titled():
        prs = b_bar()
        chart0(prs).has_title = True
        return prs
    K.append(Kind("chart_title", b_titled, lambda prs: chart0(prs).chart_title, None, [
        truthy_prop("has_text_frame", None, cls="ChartTitle")], part=chart_part, reopen=True))
    K.append(Kind("data_label", b_bar, lambda prs: chart0(prs).plots[0].series[0].points[1].data_label, None, [
        enum_prop("position", None, XL_LABEL_POSITION, cls="DataLabel"),
        truthy_prop("has_text_frame", None, cls="DataLabel")], part=chart_part, reopen=True))

    def b_chart_data():
        from pptx.chart.data import CategoryChartData
        cd = CategoryChartData()
        cd.categories = ["a", "b"]
        return cd
    K.append(Kind("chart_data", b_chart_data, lambda cd: cd, None, [
        P("categories", None, [["x", "y", "z"], ["only"]], [], [], cls="CategoryChartData",
          cmp=lambda r, v: [c.label for c in r] == list(v))], part=lambda prs, o: None))
    K.append(Kind("chart_data_categories", b_chart_data, lambda cd: cd.categories, None, [
        P("number_format", None, ["General", "0.0", "yyyy\\-mm"], [], [], cls="Categories")], part=lambda prs, o: None))
    K.append(Kind("adjustment", b_autoshape, lambda prs: sh0(prs).adjustments._adjustments_[0], None, [
        float_prop("effective_value", "Adjustment.effective_value", -2.0, 3.0, rng, Fraction(1, 100000), extra_valid=[0, 1, 0.29, 0.16667, 0.5],
                   unjudged=[1e300])],
        pseudo=pseudo_adj))
    K[-1].props[0].invalid = [v for v in K[-1].props[0].invalid if not isinstance(v, complex)]
    return K


# ------------------------------------------------------------------ running the implementation
def getp(obj, attr):
    try:
        return ("ok", getattr(obj, attr))
    except Exception as e:  # noqa
        return ("err", exc_name(e), type(e).__name__)


def setp(obj, attr, v):
    try:
        setattr(obj, attr, v)
        return ("ok",)
    except Exception as e:  # noqa
        return ("err", exc_name(e), type(e).__name__)


def part_of(kind, prs, obj):
    if kind.part is not None:
        return kind.part(prs, obj)
    return prs.slides[0].part


def c14n(part):
    from lxml import etree
    if part is None:
        return b""
    return etree.tostring(part._element, method="c14n")


def model_state(kind, obj):
    st = {}
    if kind.anchor is not None:
        st.update(flatten(kind.anchor(obj), nv=kind.nv))
    if kind.pseudo is not None:
        st.update(kind.pseudo(obj))
    return st


def reading_repr(r):
    return "ok:" + show_val(r[1]) if r[0] == "ok" else "err:" + r[1]


def value_class(v):
    import enum
    if v is None:
        return "None"
    if isinstance(v, bool):
        return "bool"
    if isinstance(v, enum.Enum):
        return "member:" + v.name
    if isinstance(v, float):
        if v != v:
            return "nan"
        if v in (math.inf, -math.inf):
            return "inf"
        return "float"
    return type(v).__name__


def find_by_path(anchor, path, nv=False):
    """element below the anchor at a model path ('a/b/c'), or None"""
    e = anchor
    for i, t in enumerate(path.split("/")):
        kids = [c for c in e if isinstance(c.tag, str)]
        nxt = None
        for j, c in enumerate(kids):
            if (nv and i == 0 and t == "*nv" and j == 0) or ptag(c.tag) == t:
                nxt = c
                break
        if nxt is None:
            return None
        e = nxt
    return e


def strip(anchor, paths, nv=False):
    """remove the optional elements a setter would create: the state the model's witnesses start from"""
    n = 0
    for pth_ in sorted(paths, key=lambda x: -x.count("/")):
        if not pth_ or pth_.startswith("~"):
            continue
        e = find_by_path(anchor, pth_, nv)
        if e is not None and e.getparent() is not None:
            e.getparent().remove(e)
            n += 1
    return n


# ------------------------------------------------------------------ oracle
def eq_reading(a, b):
    if a[0] != b[0]:
        return False
    if a[0] == "err":
        return a[2] == b[2]
    x, y = a[1], b[1]
    if hasattr(x, "slide_id") and hasattr(y, "slide_id"):
        return x.slide_id == y.slide_id
    if isinstance(x, float) and isinstance(y, float):
        return x == y or (x != x and y != y)
    return type(x) is type(y) and x == y


def expected_ok(p, read, v):
    """read-after-write within the quantum"""
    if read[0] != "ok":
        return False
    r = read[1]
    if p.cmp is not None:
        try:
            return bool(p.cmp(r, v))
        except Exception:  # noqa
            return False
    if p.truthy:
        return r is bool(v) or r == bool(v)
    if getattr(v, "xml_value", None) and getattr(r, "xml_value", None) == v.xml_value and type(r) is type(v):
        return True          # two members carrying the same XML token: bijectivity of the enumerations is C20's obligation
    if isinstance(v, bool) or isinstance(r, bool):
        return r == v
    if isinstance(v, (int, float)) and isinstance(r, (int, float)):
        return same_num(r, v, p.quantum)
    return r == v


def val_spec(v):
    """JSON description of an assigned value, for exact replay"""
    import enum
    from pptx.dml.color import RGBColor
    if v is None:
        return {"t": "none"}
    if isinstance(v, bool):
        return {"t": "bool", "v": v}
    if isinstance(v, RGBColor):
        return {"t": "rgb", "v": str(v)}
    if isinstance(v, enum.Enum):
        return {"t": "enum", "module": type(v).__module__, "cls": type(v).__name__, "name": v.name}
    if is_length(v):
        return {"t": "length", "v": int(v)}
    if isinstance(v, int):
        return {"t": "int", "v": v}
    if isinstance(v, float):
        return {"t": "float", "v": v.hex() if v == v and abs(v) != math.inf else repr(v)}
    if isinstance(v, str):
        return {"t": "str", "v": v}
    if isinstance(v, complex):
        return {"t": "complex", "v": [v.real, v.imag]}
    if isinstance(v, bytes):
        return {"t": "bytes", "v": v.decode("latin-1")}
    if isinstance(v, tuple):
        return {"t": "tuple", "v": list(v)}
    if isinstance(v, SlideRef):
        return {"t": "slide", "v": v.idx}
    if hasattr(v, "slide_id"):
        return {"t": "other", "v": "slide"}
    return {"t": "other", "v": repr(v)}


def val_from_spec(d):
    import importlib
    from pptx.dml.color import RGBColor
    from pptx.util import Emu
    t = d["t"]
    if t == "none":
        return None
    if t in ("bool", "int", "str"):
        return d["v"]
    if t == "rgb":
        return RGBColor.from_string(d["v"])
    if t == "enum":
        return getattr(getattr(importlib.import_module(d["module"]), d["cls"]), d["name"])
    if t == "length":
        return Emu(d["v"])
    if t == "float":
        return float.fromhex(d["v"]) if d["v"].lstrip("-").startswith("0x") else float(d["v"])
    if t == "complex":
        return complex(*d["v"])
    if t == "bytes":
        return d["v"].encode("latin-1")
    if t == "tuple":
        return tuple(d["v"])
    if t == "slide":
        return SlideRef(d["v"])
    return object()


def oracle_trial(ck, kind, p, v, verdict, reopen, stats, where="fresh", prs=None, nav=None, prepare=None, twin=None, frame=True, prep_spec=None,
                 foreign=False):
    """One assignment on a fresh object, judged by the property's statement alone.
    prepare: brings the object into another state first (a prior assignment, or removal of the optional
    elements the setter would create); twin: builds an identical second object on which the readings
    before the assignment are taken when reading would itself insert elements."""
    prs = prs if prs is not None else kind.build()
    nav = nav or kind.nav
    obj = nav(prs)
    if not isinstance(getattr(type(obj), p.attr, None), property):
        stats["skipped_not_a_property_of_this_class"] = stats.get("skipped_not_a_property_of_this_class", 0) + 1
        return
    for q in kind.props:           # getters that get_or_add run once before the snapshot
        getp(obj, q.attr)
    if prepare is not None:
        prepare(obj)
        obj = nav(prs)
    part = part_of(kind, prs, obj)
    if isinstance(v, SlideRef):
        v = v.resolve(prs)
    if twin is not None:
        prs_t = twin()
        obj_t = nav(prs_t)
        for q in kind.props:
            getp(obj_t, q.attr)
        prepare(obj_t)
        obj_t = nav(prs_t)
        before = {q.attr: getp(obj_t, q.attr) for q in kind.props}
        before_xml = c14n(part)
    else:
        before_xml = c14n(part)
        before = {q.attr: getp(obj, q.attr) for q in kind.props}
        if c14n(part) != before_xml:        # a getter inserted something: take the snapshot after it
            before_xml = c14n(part)
    res = setp(obj, p.attr, v)
    ck.count((kind.name, p.attr, repr(v), where), verdict != "unjudged" or res[0] == "ok", "oracle:%s:%s" % (verdict, res[0]))
    stats["oracle"] += 1
    rec = {"entry_point": p.name, "object": "%s (%s)" % (kind.name, where), "input": repr(v), "value_class": value_class(v),
           "object_kind": kind.name, "attr": p.attr, "value": val_spec(v), "prepare": prep_spec, "label": p.label}
    if res[0] == "err":
        # a foreign pre-state may turn the object into one the property does not apply to (its own getter raises: another
        # fill type, a gradient that is not linear, no colour) or change what a facet of a shared setting can hold
        # (begin_x beside a foreign a:off/a:ext): there a refusal is not judged, only what it leaves behind
        if foreign and (before[p.attr][0] == "err" or (p.group is not None and res[1] in ("Type", "Value"))):
            stats["foreign_refusal_not_judged"] = stats.get("foreign_refusal_not_judged", 0) + 1
        elif res[1] not in ("Type", "Value"):
            ck.violation("wrong-exception:%s:%s" % (p.name, res[2]), "%s = %r on a %s raises %s, not TypeError/ValueError" % (p.name, v, kind.name, res[2]),
                         dict(rec, impl_outcome=res[2]))
        elif verdict == "valid":
            ck.violation("rejects-valid:%s:%s" % (p.name, value_class(v)), "%s = %r (in the documented domain) is refused with %s" % (p.name, v, res[2]),
                         dict(rec, impl_outcome=res[2]))
        # What a refusal may NOT do (clause d and the readability of the object): change the reading of a
        # different, independent property, or leave a getter of the object raising.  Leaving an empty element
        # behind, or dropping the old explicit value of the SAME property, is outside the property's statement
        # and only counted.
        after_xml = c14n(part)
        after = {q.attr: getp(obj, q.attr) for q in kind.props}
        changed = [a for a in after if not eq_reading(after[a], before[a])]
        raising = [a for a in changed if after[a][0] == "err" and before[a][0] == "ok"]
        groupmates = {q.attr for q in kind.props if q is p or (p.group is not None and q.group == p.group)}
        siblings = [a for a in changed if a not in groupmates]
        desc = ", ".join("%s %s -> %s" % (a, reading_repr(before[a]), reading_repr(after[a])) for a in changed)
        if raising:
            ck.violation("reject-breaks-getter:%s" % p.name,
                         "%s = %r raises %s and afterwards reading %s raises (%s)" % (p.name, v, res[2], ", ".join(raising), desc),
                         dict(rec, impl_outcome=res[2], readings_changed=changed))
        elif siblings:
            ck.violation("reject-breaks-sibling:%s" % p.name,
                         "%s = %r raises %s but changes the reading of another property (%s)" % (p.name, v, res[2], desc),
                         dict(rec, impl_outcome=res[2], readings_changed=changed))
        elif changed:
            stats.setdefault("rejected_lost_own_value", set()).add(p.name)
        elif after_xml != before_xml:
            stats.setdefault("rejected_with_residue", set()).add(p.name)
        return
    # accepted
    read = getp(obj, p.attr)
    # an accepted assignment must leave every getter of the object working
    now_all = {q.attr: getp(obj, q.attr) for q in kind.props}
    mates = {q.attr for q in kind.props if q is not p and p.group is not None and q.group == p.group}
    raising = [a for a in now_all if now_all[a][0] == "err" and before[a][0] == "ok" and a not in mates]   # facets of the same setting (colour type) excluded
    if raising:
        ck.violation("accept-breaks-getter:%s" % p.name,
                     "%s = %r on a %s (%s) is accepted and afterwards reading %s raises (%s)" % (
                         p.name, v, kind.name, where, ", ".join(raising), ", ".join("%s -> %s" % (a, reading_repr(now_all[a])) for a in raising)),
                     dict(rec, impl_outcome=", ".join("%s: %s" % (a, reading_repr(now_all[a])) for a in raising)))
    if verdict == "invalid":
        ck.violation("ood-accepted:%s" % p.name, "%s = %r (outside the documented domain) is accepted; it then reads %s" % (
            p.name, v, reading_repr(read)), dict(rec, impl_outcome=reading_repr(read)))
    elif v is None:
        if p.none is not None and not p.truthy:
            want = p.none[1]
            if not (read[0] == "ok" and (read[1] is want or (read[1] == want and type(read[1]) is type(want)) or (isinstance(want, int) and read[1] == want))):
                ck.violation("none:%s" % p.name, "%s = None then reads %s, expected the default/inherited reading %r" % (p.name, reading_repr(read), want),
                             dict(rec, impl_outcome=reading_repr(read)))
    elif verdict in ("valid", "unjudged") and not (verdict == "unjudged" and p.truthy):
        if not expected_ok(p, read, v) and verdict == "valid":
            ck.violation("readback:%s:%s" % (p.name, value_class(v)), "%s = %r then reads %s (quantum %s)" % (p.name, v, reading_repr(read), p.quantum),
                         dict(rec, impl_outcome=reading_repr(read)))
    # frame: other, independent properties read as before
    for q in (kind.props if frame else []):
        if q is p or (p.group is not None and q.group == p.group):
            continue
        now = getp(obj, q.attr)
        if q.attr in raising:
            continue
        if not eq_reading(now, before[q.attr]):
            ck.violation("frame:%s->%s" % (p.name, q.name), "%s = %r on a %s changes the reading of %s from %s to %s" % (
                p.name, v, kind.name, q.name, reading_repr(before[q.attr]), reading_repr(now)),
                dict(rec, impl_outcome="%s: %s -> %s" % (q.name, reading_repr(before[q.attr]), reading_repr(now))))
    # save + re-open
    if reopen and p.persist and (kind.anchor is not None or kind.reopen):
        from pptx import Presentation
        buf = io.BytesIO()
        try:
            prs.save(buf)
            buf.seek(0)
            prs2 = Presentation(buf)
            obj2 = nav(prs2)
            again = getp(obj2, p.attr)
        except Exception as e:  # noqa
            again = ("err", exc_name(e), type(e).__name__)
        stats["reopen"] += 1
        if not eq_reading(again, read):
            ck.violation("reopen:%s" % p.name, "%s = %r reads %s, but %s after save + re-open" % (p.name, v, reading_repr(read), reading_repr(again)),
                         dict(rec, impl_outcome=reading_repr(again)))


# ------------------------------------------------------------------ correspondence
def history(kind, rng, n):
    mp = [p for p in kind.props if p.label]
    ops = []
    for _ in range(n):
        p = rng.choice(mp)
        pool = p.valid * 3 + p.invalid + p.unjudged + ([None] if p.none else [])
        pool = [v for v in pool if modelable(v)]
        if not pool:
            continue
        ops.append((p, rng.choice(pool)))
    return ops


def run_history(kind, ops, prs=None, nav=None):
    """-> (model case fields, implementation outcomes, final implementation state)"""
    prs = prs if prs is not None else kind.build()
    obj = (nav or kind.nav)(prs)
    isprop = lambda p: isinstance(getattr(type(obj), p.attr, None), property)
    mp = [p for p in kind.props if p.label and isprop(p)]
    ops = [(p, v) for p, v in ops if isprop(p)]
    for q in kind.props:
        getp(obj, q.attr)
    st0 = model_state(kind, obj)
    mops, outs = [], []
    for p, v in ops:
        res = setp(obj, p.attr, v)
        mops.append("s %s %s" % (p.label, enc_aval(v)))
        outs.append("ok" if res[0] == "ok" else "err:" + res[1])
        mops.append("g %s" % p.label)
        outs.append(reading_repr(getp(obj, p.attr)))
    st1 = model_state(kind, obj)        # before the final sweep of getters (some getters insert empty elements)
    for q in mp:
        mops.append("g %s" % q.label)
        outs.append(reading_repr(getp(obj, q.attr)))
    return ["seq", state_field(st0), "|".join(mops)], outs, st1


def compare_history(kind, case, outs, st1, mo):
    """-> None or a description of the first difference"""
    if "#" not in mo:
        return "model: " + mo[:80]
    res, state = mo.split("#", 1)
    mouts = res.split("|") if res else []
    ops = case[2].split("|")
    if len(mouts) != len(outs):
        return "model returned %d results for %d operations" % (len(mouts), len(outs))
    for i, (a, b) in enumerate(zip(mouts, outs)):
        if a != b:
            # the model refuses what it does not cover (other colour kinds, foreign objects)
            return "op %d (%s): model=%s impl=%s" % (i, ops[i][:80], a, b)
    ms = drop_opaque(parse_state(state), kind.opaque)
    ist = dict(drop_opaque(st1, kind.opaque))
    for k, v in list(ms.items()):
        # xsd:double texts: the model writes a marker + exact mantissa/exponent, compared through float(text)
        if v and v[0] == MARK:
            try:
                if enc_float(float(ist.get(k))) == v[1:]:
                    ist[k] = v
            except (TypeError, ValueError):
                pass
    if ms != ist:
        ks = sorted(set(ms) | set(ist))
        d = [(k, ms.get(k, "<absent>"), ist.get(k, "<absent>")) for k in ks if ms.get(k, "<absent>") != ist.get(k, "<absent>")]
        return "final element state differs: %r (key, model, impl)" % (d[:4],)
    return None


def placeholder_scenarios(kind):
    """(name, prepare(prs), ops): placeholder states that separate the order of evaluation of
    _InheritsDimensions._set_dimension (own values and base readings first, then the assignment, then the
    write-backs in the order left, top, width, height) -- correspondence only, the oracle does not judge them"""
    from lxml import etree
    A = "{http://schemas.openxmlformats.org/drawingml/2006/main}"
    P = {p.attr: p for p in kind.props}

    def bases(prs):
        out, b = [], kind.nav(prs)._base_placeholder
        while b is not None:
            out.append(b._element)
            b = b._base_placeholder if hasattr(type(b), "_base_placeholder") else None
        return out

    def off_x_only(prs):
        off = etree.SubElement(kind.nav(prs)._element.spPr.get_or_add_xfrm(), A + "off")
        off.set("x", "5")

    def ext_cx_text(prs):
        ext = etree.SubElement(kind.nav(prs)._element.spPr.get_or_add_xfrm(), A + "ext")
        ext.set("cx", "abc")
        ext.set("cy", "7")

    def base_cx_negative(prs):
        for e in bases(prs):
            if e.spPr.xfrm is not None and e.spPr.xfrm.ext is not None:
                e.spPr.xfrm.ext.set("cx", "-3")

    def base_without(tag):
        def f(prs):
            for e in bases(prs):
                x = e.spPr.xfrm
                if x is None:
                    continue
                if tag is None:
                    e.spPr.remove(x)
                elif x.find(A + tag) is not None:
                    x.remove(x.find(A + tag))
        return f

    both = lambda prs: (off_x_only(prs), ext_cx_text(prs))
    sc = [
        ("a:off without y, width assigned", off_x_only, [("width", 914400), ("left", 3)]),
        ("a:off without y, top assigned", off_x_only, [("top", 1), ("width", 5)]),
        ("base cx refused, left assigned", base_cx_negative, [("left", 1), ("height", 10), ("width", 7), ("left", 2)]),
        ("base cx refused, width assigned first", base_cx_negative, [("width", 1), ("left", 2)]),
        ("no base reading", base_without(None), [("left", 5), ("height", 9), ("top", "abc")]),
        ("base without a:ext, left assigned", base_without("ext"), [("left", 5), ("width", 9), ("top", -10**15)]),
        ("base without a:ext, height assigned", base_without("ext"), [("height", 5), ("top", 1)]),
        ("base without a:off, width assigned", base_without("off"), [("width", 5), ("left", 1)]),
        ("own cx unreadable, left assigned", ext_cx_text, [("left", 1), ("width", 3), ("left", 4)]),
        ("own y missing and cx unreadable, top assigned", both, [("top", 1)]),
        ("own y missing and cx unreadable, height assigned", both, [("height", 1)]),
        ("refused, then accepted", lambda prs: None, [("left", "abc"), ("left", -27273042329601), ("width", -1), ("left", 7), ("top", 1.5), ("height", True)]),
    ]
    return [(n, prep, [(P[a], v) for a, v in ops if a in P and P[a].label]) for n, prep, ops in sc]


# ------------------------------------------------------------------ corpus
def corpus_objects(rng, limit):
    """(kind name, deck path, navigator) for objects of the corpus decks."""
    from pptx import Presentation
    from pptx.shapes.placeholder import _InheritsDimensions
    decks = sorted(glob.glob(os.path.join(REPO, "**", "*.pptx"), recursive=True))
    found = []
    for path in decks:
        try:
            prs = Presentation(path)
        except Exception:  # noqa
            continue
        for si, slide in enumerate(prs.slides):
            for hi, shape in enumerate(slide.shapes):
                tag = shape._element.tag.split("}")[1]
                base = (lambda si=si, hi=hi: (lambda prs: prs.slides[si].shapes[hi]))()
                if isinstance(shape, _InheritsDimensions):
                    found.append(("placeholder", path, base))
                elif tag in ("sp", "pic", "cxnSp"):
                    found.append(({"sp": "autoshape", "pic": "picture", "cxnSp": "connector"}[tag], path, base))
                elif tag == "graphicFrame":
                    found.append(("graphicframe", path, base))
                    if getattr(shape, "has_table", False) and shape.has_table:
                        found.append(("table", path, (lambda b=base: (lambda prs: b(prs).table))()))
                        found.append(("cell", path, (lambda b=base: (lambda prs: b(prs).table.cell(0, 0)))()))
                        found.append(("row", path, (lambda b=base: (lambda prs: b(prs).table.rows[0]))()))
                        found.append(("column", path, (lambda b=base: (lambda prs: b(prs).table.columns[0]))()))
                elif tag == "grpSp":
                    found.append(("group", path, base))
                if getattr(shape, "has_text_frame", False) and shape.has_text_frame:
                    found.append(("textframe", path, (lambda b=base: (lambda prs: b(prs).text_frame))()))
                    tf = shape.text_frame
                    if tf.paragraphs:
                        found.append(("paragraph", path, (lambda b=base: (lambda prs: b(prs).text_frame.paragraphs[0]))()))
                        if tf.paragraphs[0].runs:
                            found.append(("font", path, (lambda b=base: (lambda prs: b(prs).text_frame.paragraphs[0].runs[0].font))()))
        found.append(("presentation", path, lambda prs: prs))
        if len(prs.slides):
            found.append(("slide", path, lambda prs: prs.slides[0]))
    rng.shuffle(found)
    # keep a spread over kinds
    out, per = [], {}
    for k, path, nav in found:
        if per.get(k, 0) < max(2, limit // 12):
            per[k] = per.get(k, 0) + 1
            out.append((k, path, nav))
        if len(out) >= limit:
            break
    return out, len(decks)


def corpus_part(prs, obj):
    """the part whose XML must stay unchanged on a refused assignment"""
    try:
        return obj.part
    except Exception:  # noqa
        return prs.part


# ------------------------------------------------------------------ foreign pre-states (derived from the schema)
# A setter that stores a setting in more than one place (a mode element beside the value, one of several
# alternative children, a value attribute beside a flag) is only right if it puts ALL of them into the state its
# own getter understands, whatever was there.  python-pptx itself writes one spelling of each setting; other
# producers (PowerPoint) write the others.  For every property the state variables are taken from the model (every
# key the getter reads, every key or subtree the setter may write: run_c09 keys) or, without a catalogue entry, from
# the elements an assignment is observed to touch; the ISO/IEC 29500 XSDs of /repo/spec give every variable its
# domain: each enumeration value / sample values of the simple type of an attribute (the attributes the getter or
# setter names, and every attribute the schema declares for an element the setter creates or removes), presence
# of an optional element (created with its required attributes and children, in schema order), each alternative of
# the xsd:choice the element belongs to.  A pre-state is used only if libxml2 finds the part as valid as before.
_BUILTIN = {
    "boolean": ["1", "0", "true", "false"],
    "double": ["0.5", "-0.25", "2", "0"], "float": ["0.5", "-0.25"], "decimal": ["0.5", "2"],
    "hexBinary": ["00FF00", "A1B2C3"],
}
for _n in ("int", "integer", "long", "short", "byte", "unsignedInt", "unsignedShort", "unsignedByte", "unsignedLong",
           "nonNegativeInteger", "positiveInteger"):
    _BUILTIN[_n] = ["1", "7", "100", "50000", "0", "-3"]


class Xsd:
    def __init__(self):
        import sys
        from lxml import etree
        tx = os.path.join(VERIF, "tx")
        if tx not in sys.path:
            sys.path.insert(0, tx)
        import xsdlib
        self.S = xsdlib.Schemas()
        self.XS = xsdlib.XS
        self.pfxns = {v: k for k, v in xsdlib.NSPFX.items()}
        d = xsdlib.XSD_DIRS[0][0]
        self.validators = {}
        for pfx, f in (("p", "pml.xsd"), ("c", "dml-chart.xsd")):
            try:
                self.validators[pfx] = etree.XMLSchema(etree.parse(d + f))
            except Exception:  # noqa
                pass
        self._kids, self._attrs, self._order, self._alts, self._req = {}, {}, {}, {}, {}

    # ---- validity of a whole part, as a set of messages (new messages = the edit made it invalid)
    def errors(self, root):
        v = self.validators.get(ptag(root.tag).split(":")[0])
        if v is None:
            return None
        if v.validate(root):
            return frozenset()
        return frozenset(e.message for e in v.error_log)

    # ---- types
    def kids(self, q):
        if q not in self._kids:
            acc = {}
            if q in self.S.ctypes:
                self.S._child_types(self.S.ctype_cm(q), acc)
            self._kids[q] = {t: next((x for x in sorted(tys, key=str) if x), None) for t, tys in acc.items()}
        return self._kids[q]

    def type_of(self, elem):
        chain = [elem] + list(elem.iterancestors())
        chain.reverse()
        rt = ptag(chain[0].tag)
        q = None
        if ":" in rt:
            rec = self.S.gelems.get(tuple(rt.split(":")))
            if rec is not None and rec[0].get("type"):
                q = self.S.qn(rec[0].get("type"), rec[1], rec[2])
        for e in chain[1:]:
            if not isinstance(e.tag, str):
                return None
            t = ptag(e.tag)
            nq = self.kids(q).get(t) if q else None
            if nq is None:
                tys = [x for x in self.S.tag_types.get(t, ()) if x]
                nq = tys[0] if len(tys) == 1 else None
            q = nq
        return q

    def attrs(self, q):
        """-> [(clark name, simple type or None, required)]"""
        if q in self._attrs:
            return self._attrs[q]
        out = []
        self._attrs[q] = out
        rec = self.S.ctypes.get(q)
        if rec is None:
            return out
        XS, S = self.XS, self.S

        def from_node(node, nsmap, pfx):
            for c in node:
                if not isinstance(c.tag, str):
                    continue
                if c.tag == XS + "attribute":
                    if c.get("use") == "prohibited":
                        continue
                    if c.get("ref"):
                        rq = S.qn(c.get("ref"), nsmap, pfx)
                        ge = S.gattrs.get(rq)
                        if ge is None or rq[0] not in self.pfxns:
                            continue
                        ty = S.qn(ge[0].get("type"), ge[1], ge[2]) if ge[0].get("type") else None
                        out.append(("{%s}%s" % (self.pfxns[rq[0]], rq[1]), ty, c.get("use") == "required"))
                    else:
                        ty = S.qn(c.get("type"), nsmap, pfx) if c.get("type") else None
                        out.append((c.get("name"), ty, c.get("use") == "required"))
                elif c.tag == XS + "attributeGroup" and c.get("ref"):
                    g = S.agroups.get(S.qn(c.get("ref"), nsmap, pfx))
                    if g is not None:
                        from_node(g[0], g[1], g[2])
                elif c.tag in (XS + "complexContent", XS + "simpleContent"):
                    for ext in c:
                        if isinstance(ext.tag, str) and ext.get("base"):
                            base = S.qn(ext.get("base"), nsmap, pfx)
                            if base in S.ctypes:
                                out.extend(self.attrs(base))
                            from_node(ext, nsmap, pfx)
        from_node(rec[0], rec[1], rec[2])
        return out

    def samples(self, ty, depth=0):
        """lexical values the simple type may permit (enumerations: all of them); the validator has the last word"""
        if ty is None or depth > 6:
            return ["x"]
        if ty[0] == "xsd":
            return list(_BUILTIN.get(ty[1], ["x"]))
        rec = self.S.stypes.get(ty)
        if rec is None:
            return ["x"]
        e, nsmap, pfx = rec[0], rec[1], rec[2]
        XS = self.XS
        r = e.find(XS + "restriction")
        if r is not None:
            enums = [x.get("value") for x in r.findall(XS + "enumeration")]
            if enums:
                return enums
            base = self.samples(self.S.qn(r.get("base"), nsmap, pfx), depth + 1) if r.get("base") else ["x"]
            lim = [x.get("value") for f in ("minInclusive", "maxInclusive") for x in r.findall(XS + f)]
            return base[:2] + lim + base[2:]          # interior values first, then the bounds
        u = e.find(XS + "union")
        if u is not None:
            out = []
            for m in (u.get("memberTypes") or "").split():
                out += self.samples(self.S.qn(m, nsmap, pfx), depth + 1)[:4]
            return out or ["x"]
        li = e.find(XS + "list")
        if li is not None and li.get("itemType"):
            return self.samples(self.S.qn(li.get("itemType"), nsmap, pfx), depth + 1)
        return ["x"]

    def is_enum(self, ty):
        rec = self.S.stypes.get(ty) if ty else None
        if rec is None:
            return False
        r = rec[0].find(self.XS + "restriction")
        return r is not None and r.find(self.XS + "enumeration") is not None

    def order(self, q):
        if q not in self._order:
            tags = self.S.cm_tags(self.S.ctype_cm(q)) if q in self.S.ctypes else []
            self._order[q] = {t: i for i, t in reversed(list(enumerate(tags)))}
        return self._order[q]

    def alts(self, q):
        """the exclusive xsd:choice groups of a content model, each a list of alternatives (lists of tags)"""
        if q in self._alts:
            return self._alts[q]
        out = []

        def walk(cm, excl):
            k = cm[0]
            if k == "rep":
                walk(cm[3], excl and cm[2] == 1)
            elif k == "seq":
                for c in cm[1]:
                    walk(c, excl)
            elif k == "alt":
                if excl:
                    out.append([self.S.cm_tags(c) for c in cm[1]])
                for c in cm[1]:
                    walk(c, excl)
        if q in self.S.ctypes:
            walk(self.S.ctype_cm(q), True)
        self._alts[q] = out
        return out

    def required_kids(self, q):
        if q in self._req:
            return self._req[q]
        out = []

        def walk(cm):
            k = cm[0]
            if k == "elt":
                out.append(cm[1])
            elif k == "rep":
                if cm[1] >= 1:
                    walk(cm[3])
            elif k == "seq":
                for c in cm[1]:
                    walk(c)
            elif k == "alt" and cm[1]:
                walk(cm[1][0])
        if q in self.S.ctypes:
            walk(self.S.ctype_cm(q))
        self._req[q] = out
        return out

    # ---- editing
    def child(self, e, t, first_is_nv=False):
        kids = [c for c in e if isinstance(c.tag, str)]
        if t == "*nv":
            return kids[0] if first_is_nv and kids else None
        for c in kids:
            if ptag(c.tag) == t:
                return c
        return None

    def create(self, parent, tag, depth=0):
        q = self.type_of(parent)
        if q is None or tag not in self.kids(q) or ":" not in tag:
            return None
        pfx, local = tag.split(":")
        if pfx not in self.pfxns:
            return None
        el = parent.makeelement("{%s}%s" % (self.pfxns[pfx], local))
        for group in self.alts(q):          # the new child takes the place of the other members of its xsd:choice
            if any(tag in alt for alt in group):
                for alt in group:
                    for t in alt:
                        c = self.child(parent, t)
                        if c is not None and t != tag and tag not in alt:
                            parent.remove(c)
        order = self.order(q)
        rank = order.get(tag, 10**6)
        pos = len(parent)
        for i, c in enumerate(parent):
            if isinstance(c.tag, str) and order.get(ptag(c.tag), -1) > rank:
                pos = i
                break
        parent.insert(pos, el)
        kt = self.kids(q).get(tag)
        if kt is not None and depth <= 3:
            for name, ty, req in self.attrs(kt):
                if req:
                    el.set(name, (self.samples(ty) or ["x"])[0])
            for t in self.required_kids(kt):
                if self.child(el, t) is None:
                    self.create(el, t, depth + 1)
        return el

    def ensure(self, anchor, path, nv):
        e = anchor
        for i, t in enumerate(path):
            nxt = self.child(e, t, nv and i == 0)
            if nxt is None:
                if t[:1] in "*~":
                    return None
                nxt = self.create(e, t)
                if nxt is None:
                    return None
            e = nxt
        return e

    def apply(self, anchor, edit, nv):
        """-> True when the edit could be made"""
        kind, path = edit[0], edit[1].split("/") if edit[1] else []
        if kind == "attr":
            e = self.ensure(anchor, path, nv)
            if e is None:
                return False
            e.set(edit[2], edit[3])
            return True
        if kind == "elem":
            return self.ensure(anchor, path, nv) is not None
        if kind == "alt":
            par = self.ensure(anchor, path[:-1], nv)
            if par is None:
                return False
            for t in edit[3]:
                c = self.child(par, t)
                if c is not None:
                    par.remove(c)
            return self.create(par, edit[2]) is not None
        return False


def clark_show(a):
    return ptag(a) if a.startswith("{") else a


def model_keys(label):
    """(attribute keys [(path, attr)], element paths the getter tests or the setter creates / removes)"""
    out = run_model("C09", [["keys", label]])[0]
    if "#" not in out:
        return [], []
    rd, wr = out.split("#", 1)
    akeys, elems = [], []
    for item in [x for x in rd.split("|") + wr.split("|") if x]:
        if item.endswith("/*"):
            item = item[:-2]
        if "@" in item:
            pth_, a = item.split("@", 1)
            if (pth_, a) not in akeys:
                akeys.append((pth_, a))
        elif item and item not in elems:
            elems.append(item)
    return akeys, elems


def observed_keys(kind, p):
    """without a catalogue entry: what assignments to the property are seen to add, remove or rewrite"""
    akeys, elems = [], []
    if kind.anchor is None:
        return akeys, elems
    vals = [v for v in p.valid if v is not None][:4] + ([None] if p.none else [])
    try:
        prs = kind.build()
        obj = kind.nav(prs)
        if not isinstance(getattr(type(obj), p.attr, None), property):
            return akeys, elems
        for q in kind.props:
            getp(obj, q.attr)
        st = flatten(kind.anchor(obj), nv=kind.nv)
        for v in vals:
            setp(obj, p.attr, v.resolve(prs) if isinstance(v, SlideRef) else v)
            st2 = flatten(kind.anchor(kind.nav(prs)), nv=kind.nv)
            for k_ in sorted(set(st) | set(st2)):
                if st.get(k_, "<absent>") != st2.get(k_, "<absent>"):
                    if "@" in k_:
                        pa = tuple(k_.split("@", 1))
                        if pa not in akeys:
                            akeys.append(pa)
                    elif k_ not in elems:
                        elems.append(k_)
            st = st2
    except Exception:  # noqa
        pass
    return akeys, elems


def foreign_edits(xsd, kind, p, akeys, elems, rng, quick):
    """-> [(priority, description, edit)] ; edit = ('attr', path, clark attr, text) | ('elem', path) | ('alt', path, tag, group)"""
    prs = kind.build()
    obj = kind.nav(prs)
    anchor = kind.anchor(obj)
    out, seen = [], set()

    def add(prio, desc, edit):
        if edit not in seen:
            seen.add(edit)
            out.append((prio, desc, edit))

    def elem_type(path):
        e, q = anchor, xsd.type_of(anchor)
        for i, t in enumerate(path.split("/") if path else []):
            if t[:1] == "~":
                return None
            c = xsd.child(e, t, kind.nv and i == 0) if e is not None else None
            if t == "*nv":
                if c is None:
                    return None
                q, e = xsd.type_of(c), c
                continue
            q = xsd.kids(q).get(t) if q else None
            e = c
            if q is None:
                return None
        return q

    def elem_at(path):
        e = anchor
        for i, t in enumerate(path.split("/") if path else []):
            if t[:1] == "~" or e is None:
                return None
            e = xsd.child(e, t, kind.nv and i == 0)
        return e

    def attr_edits(path, q, only=None, prio=1, enum_only=False):
        for name, ty, _req in xsd.attrs(q) if q else []:
            shown = clark_show(name)
            if only is not None and shown not in only:
                continue
            if enum_only and not (xsd.is_enum(ty) or ty == ("xsd", "boolean")):
                continue
            vals = xsd.samples(ty)
            if xsd.is_enum(ty):
                if quick and len(vals) > 6:
                    vals = rng.sample(vals, 4)
            elif ty == ("xsd", "boolean"):
                vals = vals if prio == 1 else vals[2:3]        # the spellings python-pptx never writes: true / false
            else:
                vals = vals[:2 if quick else 4] if prio == 1 else vals[:1 if quick else 2]
            pr = 0 if prio == 1 and (xsd.is_enum(ty) or ty == ("xsd", "boolean")) else prio
            for v in vals:
                add(pr, "%s@%s=%r" % (path, shown, v), ("attr", path, name, v))

    # 1: the attributes the getter or setter names
    by_path = {}
    for pth_, a in akeys:
        by_path.setdefault(pth_, set()).add(a)
    for pth_, names in by_path.items():
        if pth_.startswith("~"):
            continue
        attr_edits(pth_, elem_type(pth_), only=names, prio=1)
    for pth_ in elems:
        if not pth_ or pth_[:1] in "~*":
            continue
        q = elem_type(pth_)
        if q is None:
            continue
        par = pth_.rsplit("/", 1)[0] if "/" in pth_ else ""
        tag = pth_.rsplit("/", 1)[-1]
        pq = elem_type(par)
        # 2: the other members of the choice the element belongs to
        for group in xsd.alts(pq) if pq else []:
            mine = [alt for alt in group if tag in alt]
            if not mine:
                continue
            members = [t for alt in group for t in alt]
            for alt in group:
                if tag in alt or not alt or alt[0] == "#any":
                    continue
                add(2, "%s instead of %s" % (alt[0], pth_), ("alt", pth_, alt[0], tuple(members)))
        # 3: the element itself, as another producer would leave it (required content only)
        add(3, "%s present" % pth_, ("elem", pth_))
        # 4: every attribute the schema declares for it
        attr_edits(pth_, q, prio=4)
        # 5: the enumeration / boolean attributes of the siblings that exist next to it in this object: a setting of the
        #    same parent that a getter or setter could (wrongly) start to depend on (grouping next to overlap, ...)
        pe = elem_at(par)
        if pe is not None:
            for sib in [c for c in pe if isinstance(c.tag, str)]:
                st = ptag(sib.tag)
                if st == tag or ":" not in st:
                    continue
                sp = (par + "/" + st) if par else st
                attr_edits(sp, elem_type(sp), prio=5, enum_only=True)
    return out


def prepared(xsd, kind, edits):
    """-> (prs, ok): a fresh object of the kind brought into the pre-state, valid as far as it was before"""
    prs = kind.build()
    obj = kind.nav(prs)
    for q in kind.props:
        getp(obj, q.attr)
    obj = kind.nav(prs)
    part = part_of(kind, prs, obj)
    if part is None:
        return prs, False
    before = xsd.errors(part._element)
    if before is None:
        return prs, False
    for ed in edits:
        if not xsd.apply(kind.anchor(obj), ed, kind.nv):
            return prs, False
    after = xsd.errors(part._element)
    return prs, after is not None and after <= before


def select_edits(eds, rng, quick, cap=14):
    """quick: every enumeration value of the attributes the getter or setter names; of the rest (their other values,
    the alternatives of a choice, element presence) as many as the cap leaves; one of the remaining attributes"""
    if not quick:
        return [(d, [e]) for _p, d, e in eds]
    out = [(d, [e]) for pr, d, e in eds if pr == 0]
    if len(out) > cap:
        out = rng.sample(out, cap)
    core = [(d, [e]) for pr, d, e in eds if 1 <= pr <= 3]
    room = max(3, cap - len(out))
    out += core if len(core) <= room else rng.sample(core, room)
    rest = [(d, [e]) for pr, d, e in eds if pr == 4]
    sibs = [(d, [e]) for pr, d, e in eds if pr == 5]
    return out + rng.sample(rest, min(1, len(rest))) + rng.sample(sibs, min(5, len(sibs)))


def edit_pairs(eds, rng, n):
    """two variables at once (a foreign mode AND a foreign value, ...)"""
    base = [(d, e) for pr, d, e in eds if pr <= 2 or (pr == 4 and e[0] == "attr")]
    base = base if len(base) <= 40 else rng.sample(base, 40)
    out, tries = [], 0
    while len(out) < n and len(base) >= 2 and tries < 10 * n:
        tries += 1
        (d1, e1), (d2, e2) = rng.sample(base, 2)
        if (e1[1], e1[2]) == (e2[1], e2[2]) or "alt" in (e1[0], e2[0]) and e1[1].rsplit("/", 1)[0] == e2[1].rsplit("/", 1)[0]:
            continue
        out.append((d1 + " + " + d2, [e1, e2]))
    return out


def foreign_trials(ck, kinds, rng, quick, have_model, stats, cases, expect):
    stats.update(foreign_prestates=0, foreign_rejected_by_schema=0, foreign_oracle=0, foreign_histories=0, foreign_properties=0)
    try:
        xsd = Xsd()
    except Exception as e:  # noqa
        ck.notes.append("foreign pre-states unavailable (schemas): %r" % e)
        return
    if not xsd.validators:
        ck.notes.append("foreign pre-states unavailable: the XSDs of /repo/spec did not compile")
        return
    for k in kinds:
        if k.anchor is None:
            continue
        for p in k.props:
            try:
                akeys, elems = model_keys(p.label) if (p.label and have_model) else observed_keys(k, p)
                eds = foreign_edits(xsd, k, p, akeys, elems, rng, quick)
            except Exception as e:  # noqa
                ck.notes.append("foreign pre-states of %s %s could not be derived: %r" % (k.name, p.attr, e))
                continue
            plan = select_edits(eds, rng, quick) + edit_pairs(eds, rng, 2 if quick else 10)
            first = [v for v in p.valid if v is not None and not (p.truthy and not v)]
            if not plan or not first:
                continue
            stats["foreign_properties"] += 1
            for i, (desc, edits) in enumerate(plan):
                where = "foreign pre-state: " + desc
                vals = first[:1] if quick else first[:2]
                if p.none and (not quick or i % 2 == 0):
                    vals = vals + [None]
                if len(first) > 1 and quick and i % 2 == 1:
                    vals = vals + [first[1 + (i // 2) % (len(first) - 1)]]
                used = False
                for j, v in enumerate(vals):
                    try:
                        prs_f, ok = prepared(xsd, k, edits)
                        if not ok:
                            break
                        used = True
                        oracle_trial(ck, k, p, v, "valid", reopen=j == 0 or (not quick and v is None), stats=stats, where=where, prs=prs_f,
                                     prep_spec={"foreign": [list(e) for e in edits]}, foreign=True)
                        stats["foreign_oracle"] += 1
                    except Exception as e:  # noqa
                        ck.notes.append("foreign pre-state trial crashed: %s %s %s %r: %r" % (k.name, p.attr, desc, v, e))
                if not used:
                    stats["foreign_rejected_by_schema"] += 1
                    continue
                stats["foreign_prestates"] += 1
                if p.label and have_model:
                    try:
                        prs_h, ok = prepared(xsd, k, edits)
                        ops = [(p, v) for v in vals if modelable(v)] + history(k, rng, 2)
                        case, outs, st1 = run_history(k, ops, prs=prs_h)
                    except Exception as e:  # noqa
                        ck.notes.append("foreign pre-state history crashed: %s %s %s: %r" % (k.name, p.attr, desc, e))
                        continue
                    cases.append(case)
                    expect.append((k, outs, st1, where))
                    stats["histories"] += 1
                    stats["foreign_histories"] += 1
                    stats["history_ops"] += len(ops)
                    ck.count((k.name, p.attr, desc, case[2]), True, "history-foreign:" + k.name)


# ------------------------------------------------------------------ main
def parse_diag(out):
    """Eval vm_compute in (70xx%N, [list of str]) -> {70xx: [python strings]}"""
    import re
    res = {}
    for blk in re.split(r"\n\s*=\s*\(", "\n" + out)[1:]:
        m = re.match(r"(7\d\d\d)%N,", blk)
        if not m:
            continue
        body = blk[m.end():]
        body = body.split("\n     :")[0]
        strs = []
        for sm in re.finditer(r"\[((?:\d+%N;?\s*)+)\]", body):
            strs.append("".join(chr(int(x)) for x in re.findall(r"(\d+)%N", sm.group(1))))
        res[int(m.group(1))] = strs
    return res


def recover_assumptions(br, pid):
    """When only the LAST theorem of the props file fails (unrecorded findings), keep the Print
    Assumptions output of the theorems before it."""
    import re
    if br.ok or not br.log:
        return
    text = open(os.path.join(COQ, "props", pid + ".v"), encoding="utf-8").read()
    printed = re.findall(r"Print Assumptions\s+([A-Za-z0-9_']+)", text)
    tail = br.log.split("COQC props/%s.v" % pid)[-1]
    blocks = re.split(r"(?=Closed under the global context|Axioms:)", tail)[1:]
    for name, b in zip(printed, blocks):
        br.assumptions[name] = b.split("\nFile ")[0].split("\nmake")[0].strip()


def run(ck, tier, rng):
    stats = {"oracle": 0, "reopen": 0, "histories": 0, "history_ops": 0, "corpus_objects": 0}
    for tx in ("tx_c11.py", "tx_c09.py"):
        rc, out = _run(["/venv/bin/python", os.path.join(VERIF, "tx", tx)], cwd=VERIF)
        if rc != 0:
            ck.violation("translator", "%s failed on the current tree: %s" % (tx, out[-600:]),
                         {"theorem_or_correspondence": "translator %s (model regeneration)" % tx}, concrete=False)
            return ck.finish("translator failed", TB, ASSUME)
        ck.notes.append(out.strip().split("\n")[-1])
    meta = json.load(open(os.path.join(COQ, "gen", "c09_meta.json")))
    ck.build = coq_build("C09", extra_targets=["gen/GenC11.vo", "gen/GenC09.vo", "model/PropsRun.vo", "proofs/XmlTree_proofs.vo", "extract/Extract_XmlTree.vo"])
    recover_assumptions(ck.build, "C09")
    for u in meta["unmodelled"]:
        ck.violation("unmodelled:" + u[:100], "translator met a construct outside the model: " + u,
                     {"theorem_or_correspondence": "C09_no_unmodelled", "construct": u}, concrete=False)

    kinds = make_kinds(rng)
    by_name = {k.name: k for k in kinds}
    have_model = os.path.exists(os.path.join(COQ, "extract", "run_c09"))
    labels = set()
    if have_model:
        try:
            labels = set(run_model("C09", [["list"]])[0].split("|"))
        except Exception as e:  # noqa
            ck.notes.append("model runner unavailable: %r" % e)
            have_model = False

    # ---- coverage: every settable property is in the catalogue, on the oracle-only list, or flagged
    cat_pairs = {tuple(l.split("@")[0].split(".", 1)) for l in labels}
    oo_pairs = {(e["cls"], e["prop"]) for e in meta["oracle_only"]}
    exercised = {(p.cls, p.attr) for k in kinds for p in k.props}
    for sp in meta["settable"]:
        pair = (sp["cls"], sp["prop"])
        if have_model and pair not in cat_pairs and pair not in oo_pairs:
            ck.violation("uncovered:%s.%s" % pair, "settable property %s.%s (%s) is neither in the catalogue nor on the oracle-only list" % (
                pair[0], pair[1], sp["module"]), {"theorem_or_correspondence": "C09_catalogue_complete", "property": "%s.%s" % pair}, concrete=False)
    for k in kinds:
        for p in k.props:
            if p.label and have_model and p.label not in labels:
                ck.notes.append("catalogue has no entry %s (oracle only)" % p.label)
                p.label = None

    # ---- oracle on fresh objects
    quick = tier == "quick"
    for k in kinds:
        for p in k.props:
            trials = [(v, "valid") for v in p.valid] + [(v, "invalid") for v in p.invalid] + [(v, "unjudged") for v in p.unjudged]
            if p.none is not None:
                trials.append((None, "valid"))
            if quick and len(trials) > 16:
                keep = [t for t in trials if t[1] != "valid"][:9]
                vs = [t for t in trials if t[1] == "valid"]
                keep += vs[:4] + rng.sample(vs[4:], min(3, len(vs[4:])))
                trials = keep
            for i, (v, verdict) in enumerate(trials):
                try:
                    oracle_trial(ck, k, p, v, verdict, reopen=(not quick) or i % 3 == 0, stats=stats)
                except Exception as e:  # noqa
                    ck.notes.append("oracle trial crashed: %s %s %r: %r" % (k.name, p.attr, v, e))

    # ---- oracle on stripped objects: the optional elements a setter would create are removed first
    #      (the states the model's witnesses of non-atomic setters start from)
    footprints = {}
    if have_model:
        lbls = sorted({p.label for k in kinds for p in k.props if p.label})
        try:
            outs = run_model("C09", [["fp", l] for l in lbls])
            footprints = {l: [x for x in o.split("|") if x] for l, o in zip(lbls, outs) if o != "badcase"}
        except Exception as e:  # noqa
            ck.notes.append("footprints unavailable: %r" % e)
    stats["stripped"] = 0
    for k in kinds:
        if k.anchor is None:
            continue
        for p in k.props:
            fp = footprints.get(p.label or "", [])
            if not fp:
                continue
            prep = (lambda k=k, fp=fp: (lambda obj: strip(k.anchor(obj), fp, k.nv)))()
            vals = [(v, "invalid") for v in p.invalid[:5]] + [(v, "valid") for v in p.valid[:2]]
            for v, verdict in vals:
                try:
                    oracle_trial(ck, k, p, v, verdict, reopen=False, stats=stats, where="stripped", prepare=prep, twin=k.build, frame=False,
                                 prep_spec={"strip": fp})
                    stats["stripped"] += 1
                except Exception as e:  # noqa
                    ck.notes.append("stripped trial crashed: %s %s %r: %r" % (k.name, p.attr, v, e))

    # ---- oracle after a prior accepted assignment: a refused value must not lose the explicit setting
    stats["primed"] = 0
    for k in kinds:
        for p in k.props:
            firsts = [v for v in p.valid if v is not None and not (p.truthy and not v)][:1]
            if not firsts or not p.invalid:
                continue
            prep = (lambda p=p, v0=firsts[0]: (lambda obj: setp(obj, p.attr, v0)))()
            for v in p.invalid[:4]:
                try:
                    oracle_trial(ck, k, p, v, "invalid", reopen=False, stats=stats, where="after %s = %r" % (p.attr, firsts[0]), prepare=prep,
                                 prep_spec={"assign": val_spec(firsts[0])})
                    stats["primed"] += 1
                except Exception as e:  # noqa
                    ck.notes.append("primed trial crashed: %s %s %r: %r" % (k.name, p.attr, v, e))

    # ---- oracle with every sibling property set explicitly first: an assignment must not disturb them
    stats["siblings_primed"] = 0
    for k in kinds:
        if len(k.props) < 2:
            continue
        for p in k.props:
            vals = [v for v in p.valid if v is not None][:2] + ([None] if p.none else [])
            if not vals:
                continue

            def prep(obj, k=k, p=p):
                for q in k.props:
                    if q is p or (p.group is not None and q.group == p.group):
                        continue
                    cand = [v for v in q.valid if v is not None and not (q.truthy and not v)]
                    if cand:
                        setp(obj, q.attr, cand[-1] if len(cand) > 1 else cand[0])
            for v in vals:
                try:
                    oracle_trial(ck, k, p, v, "valid", reopen=quick is False, stats=stats, where="siblings set", prepare=prep,
                                 prep_spec={"siblings": True})
                    stats["siblings_primed"] += 1
                except Exception as e:  # noqa
                    ck.notes.append("sibling trial crashed: %s %s %r: %r" % (k.name, p.attr, v, e))

    # ---- oracle after the object's container was removed and created again through the public API (the legend
    # switched off and on, the data labels, an axis title, the chart title, a text body rewritten, a gradient or
    # pattern fill re-applied): the object reached again through the API must be the live one -- an assignment
    # through it reads back and survives save + re-open
    stats["regated"] = 0
    for k in kinds:
        gate = REGATES.get(k.name)
        if gate is None:
            continue
        for p in k.props:
            vals = [v for v in p.valid if v is not None and not (p.truthy and not v)][:3]
            for v in vals:
                try:
                    prs_g = k.build()
                    oracle_trial(ck, k, p, v, "valid", reopen=True, stats=stats, where="after its container was re-created", prs=prs_g,
                                 prepare=(lambda obj, prs_g=prs_g, gate=gate: gate(prs_g)), prep_spec={"regate": True})
                    stats["regated"] += 1
                except Exception as e:  # noqa
                    ck.notes.append("regated trial crashed: %s %s %r: %r" % (k.name, p.attr, v, e))

    # ---- correspondence on fresh objects: random histories
    cases, expect = [], []
    n_hist = 12 if quick else 400
    for k in kinds:
        if not any(p.label for p in k.props):
            continue
        for _ in range(n_hist):
            ops = history(k, rng, rng.randint(3, 10))
            if not ops:
                continue
            try:
                case, outs, st1 = run_history(k, ops)
            except Exception as e:  # noqa
                ck.notes.append("history crashed on %s: %r" % (k.name, e))
                continue
            cases.append(case)
            expect.append((k, outs, st1, "fresh"))
            stats["histories"] += 1
            stats["history_ops"] += len(ops)
            ck.count((k.name, case[1], case[2]), len(ops) >= 2, "history:" + k.name)

    # ---- placeholder geometry: prepared states that separate the order of evaluation of _set_dimension
    kph = by_name.get("placeholder")
    stats["prepared"] = 0
    if kph is not None and any(p.label for p in kph.props):
        for name, prep, ops in placeholder_scenarios(kph):
            try:
                prs_ = kph.build()
                prep(prs_)
                case, outs, st1 = run_history(kph, ops, prs=prs_, nav=kph.nav)
            except Exception as e:  # noqa
                ck.notes.append("prepared placeholder history crashed (%s): %r" % (name, e))
                continue
            cases.append(case)
            expect.append((kph, outs, st1, "prepared: " + name))
            stats["histories"] += 1
            stats["prepared"] += 1
            stats["history_ops"] += len(ops)
            ck.count((kph.name, name, case[1], case[2]), True, "history-prepared:placeholder")

    # ---- foreign pre-states: every state variable of a property (what its getter reads, what its setter may write)
    # given the values the schema permits but python-pptx does not write itself; set -> get -> save + re-open -> get by
    # the oracle, and the same assignments on the extracted model from the same element state
    foreign_trials(ck, kinds, rng, quick, have_model, stats, cases, expect)

    # ---- corpus decks
    from pptx import Presentation
    objs, ndecks = corpus_objects(rng, 60 if quick else 900)
    stats["corpus_decks"] = ndecks
    for kname, path, nav in objs:
        k = by_name.get(kname)
        if k is None:
            continue
        stats["corpus_objects"] += 1
        kk = Kind(k.name, None, nav, k.anchor, k.props, nv=k.nv, opaque=k.opaque, pseudo=k.pseudo, part=corpus_part)
        where = os.path.relpath(path, REPO)
        # oracle: a few assignments per property
        for p in k.props:
            pool = [(v, "valid") for v in p.valid[:3]] + [(v, "invalid") for v in p.invalid[:2]] + ([(None, "valid")] if p.none else [])
            for v, verdict in (pool if not quick else rng.sample(pool, min(2, len(pool)))):
                try:
                    oracle_trial(ck, kk, p, v, verdict, reopen=True, stats=stats, where=where, prs=Presentation(path), nav=nav)
                except Exception as e:  # noqa
                    ck.notes.append("corpus oracle trial crashed: %s %s %s %r: %r" % (where, k.name, p.attr, v, e))
        if any(p.label for p in k.props):
            for _ in range(1 if quick else 3):
                ops = history(k, rng, rng.randint(3, 8))
                try:
                    case, outs, st1 = run_history(kk, ops, prs=Presentation(path), nav=nav)
                except Exception as e:  # noqa
                    ck.notes.append("corpus history crashed on %s %s: %r" % (where, k.name, e))
                    continue
                cases.append(case)
                expect.append((k, outs, st1, where))
                stats["histories"] += 1
                stats["history_ops"] += len(ops)
                ck.count((k.name, where, case[1], case[2]), True, "history-corpus:" + k.name)

    diffs, first = 0, None
    if have_model and cases:
        try:
            mouts = run_model("C09", cases)
        except Exception as e:  # noqa
            ck.notes.append("model runner failed: %r" % e)
            mouts = None
        if mouts is not None:
            for case, (k, outs, st1, where), mo in zip(cases, expect, mouts):
                d = compare_history(k, case, outs, st1, mo)
                if d:
                    diffs += 1
                    if diffs <= 10:
                        ck.notes.append("diff %s (%s): %s" % (k.name, where, d))
                    if first is None:
                        first = (k.name, where, d, case)
    for c in cases[:2] + cases[len(cases) // 2: len(cases) // 2 + 2]:
        ck.sample({"state": c[1][:300], "ops": c[2][:300]}, limit=6)

    # ---- diagnostics: catalogue entries whose setter is not atomic in the model
    diag = {}
    rc, dout = _run(["timeout", "600", "coqc", "-Q", ".", "V", "diag/Diag_C09.v"], cwd=COQ)
    if rc != 0:
        ck.notes.append("diagnostics did not compile: " + dout[-300:])
    else:
        diag = parse_diag(dout)
    found_sigs = {v["sig"] for v in ck.violations} | {s_ for s_, _w in ck.known_hits}
    unreplayed = []
    for cn in sorted(set(diag.get(7003, []))):
        if ("reject-breaks-getter:" + cn) not in found_sigs:
            unreplayed.append(cn)
            ck.violation("breaking-unreplayed:" + cn,
                         "the model finds a refused assignment to %s after which its getter raises (Diag_C09, C09_breaking_witness_sound) but no such assignment was reproduced on the implementation" % cn,
                         {"theorem_or_correspondence": "C09_no_unknown_breaking", "property": cn}, concrete=False)

    # ---- save / re-open of ANY part: the generic tree codec of model/XmlTree.v tied to lxml (klass xml-codec)
    xml_codec = xmltree_phase.codec_phase(ck, tier, rng, run_model) if ck.build.ok else {"ran": False}
    from checks import c09_sweeps
    sweeps = {"adjustments": c09_sweeps.adjustment_sweep(ck), "collections": c09_sweeps.collection_sweep(ck, rng, 12 if tier == "quick" else 60)}

    any_concrete = any(v["concrete"] for v in ck.violations)
    if diffs and not any_concrete:
        ck.violation("correspondence",
                     "model/PropCatalogue.v and the implementation disagree on %d of %d histories, e.g. %s (%s): %s" % (diffs, len(cases), first[0], first[1], first[2]),
                     {"theorem_or_correspondence": "correspondence PropCatalogue.v ~ proxy classes", "input": first[3], "diff": first[2]}, concrete=False)
    ck.broken_build(oracle_found_concrete=any_concrete)
    cat = sorted(l for l in labels)
    return ck.finish(
        rule="every object kind (%d: shapes of each element flavour, placeholder, presentation, slide, text frame, paragraph, font, table, cell, row, column, line, colour, fills, picture, chart, axes, tick labels, legend, data labels, plots, series, marker, adjustment) x every settable property x boundary, interior and out-of-domain values (oracle, one assignment on a fresh object, a third of them also saved and re-opened in quick, all in thorough), random assignment histories of 3-10 operations per kind compared exactly with the extracted model (outcome, read-back, final element state), and the same on sampled objects of the %d corpus decks; foreign pre-states: every state variable of each property (keys its getter reads / its setter may write, from the model) given the values the XSDs permit (enumeration values in full, other members of an xsd:choice, optional elements present, sample values), singly and in pairs, validated with libxml2, then set -> get -> save + re-open -> get by the oracle and the same assignments on the extracted model from the same element state; non-trivial = an assignment whose verdict is judged, or a history of >= 2 operations" % (len(kinds), ndecks),
        trusted_base=TB, assumptions=ASSUME,
        extra={"catalogue": cat, "oracle_only": ["%s.%s" % (e["cls"], e["prop"]) for e in meta["oracle_only"]],
               "oracle_only_reasons": {"%s.%s" % (e["cls"], e["prop"]): e["reason"] for e in meta["oracle_only"]},
               "settable_properties": len(meta["settable"]),
               "oracle_only_exercised": sorted("%s.%s" % x for x in exercised if x in oo_pairs),
               "oracle_only_not_exercised": sorted("%s.%s" % x for x in oo_pairs if x not in exercised),
               "model_nonatomic": diag.get(7002, []), "model_getter_breaking": diag.get(7004, []),
               "model_getter_breaking_unrecorded": sorted(set(diag.get(7003, []))),
               "model_getter_breaking_not_reproduced": unreplayed,
               "rejected_with_residue": sorted(stats.get("rejected_with_residue", ())),
               "rejected_lost_own_value": sorted(stats.get("rejected_lost_own_value", ())),
               "xml_tree_codec": xml_codec, "sweeps": sweeps,
               "counts": {k_: v_ for k_, v_ in stats.items() if not isinstance(v_, set)}, "correspondence_diffs": diffs, "histories": len(cases), "exhaustive": False})


def replay(rec):
    """Re-execute one stored assignment on the implementation (and on the model when the property is
    in the catalogue) and print both outcomes."""
    import random
    if "object_kind" not in rec:
        print(json.dumps({k: rec.get(k) for k in ("signature", "what", "theorem_or_correspondence")}, indent=1))
        return 0
    kinds = {k.name: k for k in make_kinds(random.Random(0))}
    k = kinds[rec["object_kind"]]
    if not any(t in rec.get("object", "") for t in ("(fresh)", "(stripped)", "(after ", "(siblings set)", "(foreign pre-state")):
        from pptx import Presentation
        where = rec["object"].split("(", 1)[1].rstrip(")")
        print("corpus object of", where, "- replaying on a fresh", k.name)
    p = next(q for q in k.props if q.attr == rec["attr"])
    v = val_from_spec(rec["value"])
    prs = k.build()
    obj = k.nav(prs)
    for q in k.props:
        getp(obj, q.attr)
    prep = rec.get("prepare") or {}
    if "strip" in prep and k.anchor is not None:
        strip(k.anchor(obj), prep["strip"], k.nv)
    if "assign" in prep:
        setp(obj, p.attr, val_from_spec(prep["assign"]))
    if prep.get("regate") and k.name in REGATES:
        REGATES[k.name](prs)
    if prep.get("foreign") and k.anchor is not None:
        xsd = Xsd()
        for ed in prep["foreign"]:
            print("pre-state edit", ed, "->", xsd.apply(k.anchor(k.nav(prs)), ed, k.nv))
    if prep.get("siblings"):
        for q in k.props:
            if q is p or (p.group is not None and q.group == p.group):
                continue
            cand = [x for x in q.valid if x is not None and not (q.truthy and not x)]
            if cand:
                setp(obj, q.attr, cand[-1] if len(cand) > 1 else cand[0])
    obj = k.nav(prs)
    part = part_of(k, prs, obj)
    st0 = model_state(k, obj)
    x0 = c14n(part)
    if isinstance(v, SlideRef):
        v = v.resolve(prs)
    res = setp(obj, p.attr, v)
    x1 = c14n(part)
    print("%s = %r on a %s -> %s ; XML of the part %s" % (p.name, v, k.name, res, "UNCHANGED" if x0 == x1 else "CHANGED"))
    print("readings after:", {q.attr: reading_repr(getp(obj, q.attr)) for q in k.props})
    if p.label and os.path.exists(os.path.join(COQ, "extract", "run_c09")) and modelable(v):
        mo = run_model("C09", [["seq", state_field(st0), "s %s %s|g %s" % (p.label, enc_aval(v), p.label)]])[0]
        print("model:", mo.split("#")[0])
    return 0


CLAIM = {
    "tech": "Coq proof: generic theorems over a small setter/getter language (model/Props.v) for ALL values and ALL well-formed element states, instantiated on a catalogue of the public properties whose attribute codecs are the translated simple-type code of C11; exact correspondence of the extracted model on random assignment histories (fresh objects + corpus decks); direct oracle incl. save + re-open",
    "text": "save and re-open of ANY part is the identity on the element tree every getter reads (C09_reopen_tree / _cycles / _any_getter / _injective over model/XmlTree.v, a concrete generic XML writer and reader with no bound on depth, width or lengths, tied to lxml byte for byte on all 1492 XML parts of the corpus decks, random trees and malformed streams); C09_get_set / C09_none / C09_reject / C09_frame / C09_history are proved for every state and value (so also from the element states only another producer writes: C09_get_set_moded / C09_get_set_horz_offset for the manual-layout store c:xMode + c:x of Legend.horz_offset, with the witness C09_ex_horz_offset_from_edge; placeholder geometry, whose setter reads the base placeholder and writes the displaced dimensions back, by C09_frame_placeholder / C09_get_set_placeholder over the Keep constructor); the catalogue (model/PropCatalogue.v) instantiates them for the public properties, with value domains and quanta taken from gen/GenC11.v; C09_catalogue_complete forces every settable property (regenerated from /repo each run) into the catalogue or the committed oracle-only list. The check compares the model's exact predicted outcome, read-back and element state with the implementation over random histories -- from fresh objects, corpus objects and schema-derived foreign pre-states (every enumeration value / alternative child / optional element of what a getter reads or a setter writes) -- and runs the property's statement directly (read-after-write, re-open, None, rejection leaves XML unchanged, sibling readings unchanged).",
    "note": "proxy-level plumbing is hand-transcribed (tied by correspondence); oracle-only properties are not covered by a theorem; quantum bounds are proved for EMU, centipoints, percentages and rotation, the other float conversions are checked bit-exactly only; reject-with-unchanged-state is REFUTED by the model for the setters that mutate before validating (witness theorems + replay); the real parser leaves the reader of XmlTree.v in one known place (a blank-only text of about 250 blanks or more ending on a 4000-byte input-block boundary is dropped by libxml2: known finding, deterministic probe); comments, PIs, CDATA, mixed content and xml:space are outside XmlTree.v (none occurs in the corpus parts).",
    "ref": "6/C09",
}
