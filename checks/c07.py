"""C07 -- a chart's XML is valid and reports exactly the data it was given.

Proof: props/C07.v over model/ChartData.v (writers, readers, replace_data as a state
machine over the data-bearing skeleton of a chart part).
Tie: correspondence of the extracted model with python-pptx on every writable chart type
(the list is read off ChartXmlWriter at run time) x generated chart data, followed by
histories of replace_data, on generated charts, on the charts of the .pptx corpus and on
FOREIGN start states made from both (c:ser elements stored out of c:order sequence, c:idx /
c:order with gaps, series spread over the plots of a combination chart with c:order values
interleaved across them) followed by growing, equal and shrinking replace_data.
Compared: the skeleton re-read from ChartPart.blob with plain lxml (per plot, per c:ser:
idx, order, tx text, cat / val / xVal / yVal / bubbleSize caches, the tags and content
hashes of every other child, hashes of everything else in the part) and the read API
(plot.categories incl. levels and flattened_labels, series.name, series.values).
Oracle: the property's statement evaluated directly on the implementation's output
(independent of the model) + XSD validation of the chart part.
"""
import copy
import datetime
import glob
import hashlib
import itertools
import json
import os
import re
import resource

from lxml import etree

from corr.harness import REPO, coq_build, exc_name, run_model

NS_C = "http://schemas.openxmlformats.org/drawingml/2006/chart"
NS_MC = "http://schemas.openxmlformats.org/markup-compatibility/2006"
C = "{%s}" % NS_C
NSMAP = {"c": NS_C}

# CT_SeriesComposite child sequence (positions are the tag ids of the model)
SER_TAGS = ["idx", "order", "tx", "spPr", "invertIfNegative", "pictureOptions", "marker", "explosion",
            "dPt", "dLbls", "trendline", "errBars", "cat", "val", "xVal", "yVal", "shape", "smooth",
            "bubbleSize", "bubble3D", "extLst"]
# CT_PlotArea.iter_xCharts plot tags (positions are the plot tag ids of the model)
PLOT_TAGS = ["area3DChart", "areaChart", "bar3DChart", "barChart", "bubbleChart", "doughnutChart",
             "line3DChart", "lineChart", "ofPieChart", "pie3DChart", "pieChart", "radarChart",
             "scatterChart", "stockChart", "surface3DChart", "surfaceChart"]
DATA_KID = {"tx": 0, "cat": 1, "val": 2, "xVal": 3, "yVal": 4, "bubbleSize": 5}

TB = [
    "a number is carried through the model as the text str() gives for it; float(repr(x)) == x and the float() / str() / '%.1f' of CPython are trusted, numbers are compared as exact rationals of float(text)",
    "lxml/libxml2: parsing of the text templates (entity and character-reference expansion; the writers escape markup characters and carriage returns, so the parsed text is the caller's), xpath, deepcopy, addnext, addprevious, remove, serialisation",
    "datetime.date arithmetic (the model uses lib/Calendar.v ordinal; tied by the correspondence on dates from 1899 to 9999)",
    "the skeleton extraction, payload hashing (exclusive c14n + sha1) and canonicalisation in checks/c07.py",
    "ISO-IEC-29500-4 dml-chart.xsd compiled by libxml2 is the oracle of validity; mc:AlternateContent is resolved to its mc:Fallback before validation (markup-compatibility preprocessing)",
    "XlsxWriter / the embedded workbook are not modelled (C08)",
]
ASSUME = [
    "c:f formula references and the workbook are outside the model (C08); characters outside the XML Char production are C05's",
    "numbers are finite ints below 2**53 in magnitude or finite floats; bool, Decimal, nan and inf values are not generated",
    "category labels are of one kind per chart (all str, all numbers or all dates); multi-level labels are str",
    "read API results on plots whose xChart tag python-pptx has no series class for (area3DChart) are compared as the error they raise",
]

_schema = None


def schema():
    global _schema
    if _schema is None:
        _schema = etree.XMLSchema(etree.parse(os.path.join(REPO, "spec/ISO-IEC-29500-4/xsd/dml-chart.xsd")))
    return _schema


# ------------------------------------------------------------------ live declarations
def live_chart_types():
    """[(int value, name, family, is_pie)] read off ChartXmlWriter's dispatch."""
    from pptx.chart import xmlwriter
    from pptx.enum.chart import XL_CHART_TYPE

    out = []
    for m in XL_CHART_TYPE:
        try:
            w = xmlwriter.ChartXmlWriter(m, [])
        except NotImplementedError:
            continue
        cls = type(w).__name__
        fam = "bub" if "Bubble" in cls else "xy" if "Xy" in cls else "cat"
        out.append((int(m), m.name, fam, "Pie" in cls))
    return out


def live_succs():
    """Successor tuples of the six data children of c:ser as tag ids, from the closures
    of the metaclass-generated _insert_x methods."""
    from pptx.oxml.chart.series import CT_SeriesComposite

    res = []
    extra = {}
    for n in ("tx", "cat", "val", "xVal", "yVal", "bubbleSize"):
        f = getattr(CT_SeriesComposite, "_insert_" + n)
        decl = [c.cell_contents for c in f.__closure__ if hasattr(c.cell_contents, "_successors")][0]
        res.append([tag_id(t.split(":")[1] if t.startswith("c:") else t, extra) for t in decl._successors])
    return res


def tag_id(local, extra):
    if local in SER_TAGS:
        return SER_TAGS.index(local)
    if local not in extra:
        extra[local] = 100 + len(extra)
    return extra[local]


# ------------------------------------------------------------------ chart data (JSON form)
# data = {"k": "cat", "nf": str, "fmt": None|str, "cats": [tree], "sers": [[name, fmt|None, [v|None]]]}
#        {"k": "xy",  "nf": str, "sers": [[name, fmt|None, [[x, y]]]]}
#        {"k": "bub", "nf": str, "sers": [[name, fmt|None, [[x, y, size]]]]}
# tree = [label, [tree]];  label = ["s", str] | ["n", number] | ["d", y, m, d] | ["t", y, m, d, H, M, S]
def py_label(l):
    if l[0] in ("s", "n"):
        return l[1]
    if l[0] == "d":
        return datetime.date(l[1], l[2], l[3])
    return datetime.datetime(*l[1:])


def build_chart_data(d):
    from pptx.chart.data import BubbleChartData, CategoryChartData, XyChartData

    if d["k"] == "cat":
        cd = CategoryChartData(number_format=d["nf"])

        def add(parent, t, top):
            c = parent.add_category(py_label(t[0])) if top else parent.add_sub_category(py_label(t[0]))
            for s in t[1]:
                add(c, s, False)

        for t in d["cats"]:
            add(cd, t, True)
        if d.get("fmt") is not None:
            cd.categories.number_format = d["fmt"]
        for name, fmt, vals in d["sers"]:
            cd.add_series(name, vals, fmt)
        return cd
    if d["k"] == "xy":
        cd = XyChartData(number_format=d["nf"])
        for name, fmt, pts in d["sers"]:
            s = cd.add_series(name, fmt)
            for x, y in pts:
                s.add_data_point(x, y)
        return cd
    cd = BubbleChartData(number_format=d["nf"])
    for name, fmt, pts in d["sers"]:
        s = cd.add_series(name, fmt)
        for x, y, z in pts:
            s.add_data_point(x, y, z)
    return cd


def grow_chart_data(cd, old, new):
    """Bring the live chart-data object cd (built from the description old) to the description new, which
    extends old monotonically, by IN-PLACE additions through the public API (add_category, add_sub_category,
    add_series, add_data_point): the way a caller re-uses one chart-data object for add_chart and later
    replace_data calls."""
    if new["k"] == "cat":
        def build(parent, t, top):
            c = parent.add_category(py_label(t[0])) if top else parent.add_sub_category(py_label(t[0]))
            for s in t[1]:
                build(c, s, False)

        def walk(parent, live, o, n, top):
            for i, t in enumerate(n):
                if i < len(o):
                    walk(live[i], list(live[i].sub_categories), o[i][1], t[1], False)
                else:
                    build(parent, t, top)

        walk(cd, list(cd.categories), old["cats"], new["cats"], True)
        for i, (name, fmt, vals) in enumerate(new["sers"]):
            if i < len(old["sers"]):
                for v in vals[len(old["sers"][i][2]):]:
                    cd[i].add_data_point(v)
            else:
                cd.add_series(name, vals, fmt)
        return cd
    for i, (name, fmt, pts) in enumerate(new["sers"]):
        if i < len(old["sers"]):
            sr, extra = cd[i], pts[len(old["sers"][i][2]):]
        else:
            sr, extra = cd.add_series(name, fmt), pts
        for pt in extra:
            sr.add_data_point(*pt)
    return cd


def numtext(v):
    return "" if v is None else str(v)


def data_tokens(d):
    t = []
    if d["k"] == "cat":
        t.append(0)
        if d.get("fmt") is None:
            t.append(0)
        else:
            t += [1, d["fmt"]]

        def tree(n):
            l = n[0]
            if l[0] == "s":
                t.extend([0, l[1]])
            elif l[0] == "n":
                t.extend([1, str(l[1])])
            else:
                t.extend([2, l[1], l[2], l[3]])
            t.append(len(n[1]))
            for s in n[1]:
                tree(s)

        t.append(len(d["cats"]))
        for n in d["cats"]:
            tree(n)
        t.append(len(d["sers"]))
        for name, fmt, vals in d["sers"]:
            t += [name, d["nf"] if fmt is None else fmt, len(vals)]
            t += [numtext(v) for v in vals]
        return t
    t.append(1 if d["k"] == "xy" else 2)
    t.append(len(d["sers"]))
    for name, fmt, pts in d["sers"]:
        t += [name, d["nf"] if fmt is None else fmt, len(pts)]
        for p in pts:
            t += [numtext(v) for v in p]
    return t


def chart_tokens(ch):
    t = [ch[0], ch[1], len(ch[2])]
    for tag, payload, sers in ch[2]:
        t += [tag, payload, len(sers)]
        for idx, order, kids in sers:
            t += [idx, order, len(kids)]
            for k in kids:
                t.append(k[0])
                if k[0] == 0:
                    t.append(len(k[1]))
                    t += k[1]
                elif k[0] == 1:
                    kind, fmt, counts, flat, lvls = k[1]
                    t.append(kind)
                    t += cache_tokens([fmt, counts, flat])
                    t.append(len(lvls))
                    for lv in lvls:
                        t.append(len(lv))
                        for i, v in lv:
                            t += [i, v]
                elif k[0] == 6:
                    t += [k[1], k[2]]
                else:
                    t += cache_tokens(k[1])
    return t


def cache_tokens(c):
    fmt, counts, pts = c
    t = [0] if fmt is None else [1, fmt]
    t.append(len(counts))
    t += counts
    t.append(len(pts))
    for i, v in pts:
        t += [i, v]
    return t


# ------------------------------------------------------------------ skeleton from the blob
class Ids:
    """Content hashes of opaque XML -> small numbers.  For charts created by the writers
    every content present in the first state is 0 (the model writes 0 everywhere)."""

    def __init__(self, zero_first_state):
        self.zero = zero_first_state
        self.first_done = False
        self.map = {}

    def get(self, kind, el):
        e = copy.deepcopy(el)
        e.tail = None
        h = kind + hashlib.sha1(etree.tostring(e, method="c14n", exclusive=True)).hexdigest()
        if h not in self.map:
            self.map[h] = 0 if (self.zero and not self.first_done) else 1 + sum(1 for v in self.map.values() if v)
        return self.map[h]


def localname(el):
    return etree.QName(el).localname if isinstance(el.tag, str) else "#comment"


def is_c(el, name):
    return el.tag == C + name


def xcharts(root):
    pa = root.find(C + "chart/" + C + "plotArea")
    if pa is None:
        return []
    return [e for e in pa if isinstance(e.tag, str) and e.tag.startswith(C) and localname(e) in PLOT_TAGS]


def pts_of(els):
    out = []
    for p in els:
        v = p.find(C + "v")
        out.append([int(p.get("idx")), (v.text or "") if v is not None else ""])
    return out


def cache_of(el):
    fc = el.xpath(".//c:formatCode", namespaces=NSMAP)
    return [(fc[0].text or "") if fc else None,
            [int(v) for v in el.xpath(".//c:ptCount/@val", namespaces=NSMAP)],
            pts_of(el.xpath(".//c:pt", namespaces=NSMAP))]


def catx_of(el):
    kinds = {"strRef": 0, "numRef": 1, "strLit": 3, "numLit": 4}
    if el.find(C + "multiLvlStrRef") is not None:
        kind = 2
    else:
        first = [e for e in el if isinstance(e.tag, str)]
        kind = kinds.get(localname(first[0]), 5) if first else 5
    fc = el.xpath(".//c:formatCode", namespaces=NSMAP)
    return [kind, (fc[0].text or "") if fc else None,
            [int(v) for v in el.xpath(".//c:ptCount/@val", namespaces=NSMAP)],
            pts_of(el.xpath(".//c:pt[not(ancestor::c:lvl)]", namespaces=NSMAP)),
            [pts_of(lv.findall(C + "pt")) for lv in el.xpath(".//c:lvl", namespaces=NSMAP)]]


def skeleton(root, ids, extra_tags):
    d = root.find(C + "date1904")
    d1904 = 0 if d is None else (1 if d.get("val") in (None, "1", "true") else 0)
    plots = []
    xcs = xcharts(root)
    for xc in xcs:
        sers = []
        for s in xc.findall(C + "ser"):
            kids = []
            for k in s:
                if not isinstance(k.tag, str):
                    continue
                ln = localname(k) if k.tag.startswith(C) else k.tag
                if ln in ("idx", "order"):
                    continue
                if ln == "tx":
                    kids.append([0, [str(x) for x in k.xpath(".//c:pt/c:v/text()", namespaces=NSMAP)]])
                elif ln == "cat":
                    kids.append([1, catx_of(k)])
                elif ln in DATA_KID:
                    kids.append([DATA_KID[ln], cache_of(k)])
                else:
                    kids.append([6, tag_id(ln, extra_tags), ids.get("k", k)])
            sers.append([int(s.find(C + "idx").get("val")), int(s.find(C + "order").get("val")), kids])
        frame = copy.deepcopy(xc)
        for s in frame.findall(C + "ser"):
            frame.remove(s)
        plots.append([PLOT_TAGS.index(localname(xc)), ids.get("p", frame), sers])
    rest = copy.deepcopy(root)
    for xc in xcharts(rest):
        xc.getparent().remove(xc)
    rest_id = ids.get("r", rest)
    ids.first_done = True
    return [d1904, rest_id, plots]


# ------------------------------------------------------------------ read API of the implementation
def ratio(x):
    n, d = float(x).as_integer_ratio()
    return "#%d/%d" % (n, d)


def canon_numtext(s):
    try:
        f = float(s)
        if f != f or f in (float("inf"), float("-inf")):
            return s
        return ratio(f)
    except (TypeError, ValueError):
        return s


def impl_reads(chart):
    out = []
    for plot in chart.plots:
        cats = plot.categories
        levels = [[[c.idx, c.label] for c in lv] for lv in cats.levels]
        flat = [list(t) for t in cats.flattened_labels]
        try:
            sers = []
            for s in plot.series:
                try:
                    vals = [0, [None if v is None else ratio(v) for v in s.values]]
                except Exception as e:  # noqa
                    vals = [1, exc_name(e)]
                sers.append([s.index, str(s.name), vals])
            series = [0, sers]
        except Exception as e:  # noqa
            series = [1, exc_name(e)]
        out.append([len(cats), [str(c) for c in cats], cats.depth, levels, flat, series])
    return out


def canon_chart(ch):
    """numeric c:v text -> exact rational (both sides)."""
    for _t, _p, sers in ch[2]:
        for _i, _o, kids in sers:
            for k in kids:
                if k[0] in (2, 3, 4, 5):
                    k[1][2] = [[i, canon_numtext(v)] for i, v in k[1][2]]
                elif k[0] == 1 and k[1][0] == 1:
                    k[1][3] = [[i, canon_numtext(v)] for i, v in k[1][3]]
    return ch


# ------------------------------------------------------------------ model output -> same form
def S(a):
    return "".join(map(chr, a))


def conv_pts(j):
    return [[p[0], S(p[1])] for p in j]


def conv_cache(j):
    return [None if j[0] is None else S(j[0]), j[1], conv_pts(j[2])]


def conv_chart(j):
    plots = []
    for tag, payload, sers in j[2]:
        ss = []
        for idx, order, kids in sers:
            kk = []
            for k in kids:
                if k[0] == 0:
                    kk.append([0, [S(n) for n in k[1]]])
                elif k[0] == 1:
                    c = k[1]
                    kk.append([1, [c[0], None if c[1] is None else S(c[1]), c[2], conv_pts(c[3]),
                                   [conv_pts(lv) for lv in c[4]]]])
                elif k[0] == 6:
                    kk.append([6, k[1], k[2]])
                else:
                    kk.append([k[0], conv_cache(k[1])])
            ss.append([idx, order, kk])
        plots.append([tag, payload, ss])
    return canon_chart([j[0], j[1], plots])


def conv_reads(j):
    out = []
    for n, labels, depth, levels, flat, series in j:
        if series[0] == 0:
            sers = []
            for idx, name, vals in series[1]:
                if vals[0] == 0:
                    v = [0, [None if x is None else canon_numtext(S(x)) for x in vals[1]]]
                else:
                    v = [1, S(vals[1])]
                sers.append([idx, S(name), v])
            series = [0, sers]
        else:
            series = [1, S(series[1])]
        out.append([n, [S(x) for x in labels], depth, [[[i, S(l)] for i, l in lv] for lv in levels],
                    [[S(x) for x in t] for t in flat], series])
    return out


def conv_states(line):
    if line == "badcase":
        return "badcase"
    out = []
    for st in json.loads(line):
        if st[0] == 1:
            out.append(["err", S(st[1])])
        else:
            out.append(["ok", conv_chart(st[1]), conv_reads(st[2])])
    return out


def first_diff(a, b, path="$"):
    if type(a) != type(b):
        return "%s: %r vs %r" % (path, a, b)
    if isinstance(a, list):
        if len(a) != len(b):
            return "%s: length %d vs %d (%s | %s)" % (path, len(a), len(b), repr(a)[:160], repr(b)[:160])
        for i, (x, y) in enumerate(zip(a, b)):
            d = first_diff(x, y, "%s[%d]" % (path, i))
            if d:
                return d
        return None
    return None if a == b else "%s: %r vs %r" % (path, a, b)


# ------------------------------------------------------------------ running a case on the implementation
class Deck:
    """A presentation to put generated charts on (renewed now and then)."""

    def __init__(self):
        self.n = 0
        self.slide = None

    def chart(self, ctype, cd):
        from pptx import Presentation
        from pptx.enum.chart import XL_CHART_TYPE
        from pptx.util import Inches

        if self.slide is None or self.n >= 40:
            prs = Presentation()
            self.slide = prs.slides.add_slide(prs.slide_layouts[6])
            self.n = 0
        self.n += 1
        try:
            ct = XL_CHART_TYPE(ctype)
        except ValueError:
            ct = ctype
        return self.slide.shapes.add_chart(ct, 0, 0, Inches(4), Inches(3), cd).chart


_corpus_cache = {}


def corpus_charts(path):
    """Charts of one deck, ordered by part name (fresh objects for every call)."""
    from pptx import Presentation
    from pptx.parts.chart import ChartPart

    prs = Presentation(path)
    parts = sorted((p for p in prs.part.package.iter_parts() if isinstance(p, ChartPart)), key=lambda p: str(p.partname))
    return [p.chart for p in parts]


def set_date1904(chart):
    cs = chart._chartSpace
    for e in cs.findall(C + "date1904"):
        cs.remove(e)
    el = etree.SubElement(cs, C + "date1904")
    cs.remove(el)
    el.set("val", "1")
    cs.insert(0, el)


# ------------------------------------------------------------------ foreign start states
# A chart python-pptx did not write: the c:ser elements of a plot are stored in a sequence that is not their
# c:order sequence (what a file holds after the user re-ordered series), c:idx / c:order values are not
# contiguous, the series are spread over several xChart elements (a combination chart) with c:order values
# interleaved across the plots.  Described by
#   spec = {"extra": [chart type, ...]    further plots, taken from charts of these types made from the same data
#           "plot_of": [k, ...]           (with "extra") the plot series i of the data goes to
#           "doc":   [i, ...]             document sequence of the series (read within each plot)
#           "order": [v, ...], "idx": [v, ...]     c:order / c:idx value of series i
#           "paint": bool}                every series gets a c:spPr of its own
# series i = the i-th c:ser of the base chart counted plot by plot in document order.
NS_A = "http://schemas.openxmlformats.org/drawingml/2006/main"


def paint_ser(s, i):
    from pptx.oxml import parse_xml

    rgb = "%06X" % ((0x3F1D4B * (i + 1) + 0x102030) % 0x1000000)
    sp = parse_xml('<c:spPr xmlns:c="%s" xmlns:a="%s"><a:solidFill><a:srgbClr val="%s"/></a:solidFill></c:spPr>' % (NS_C, NS_A, rgb))
    old = s.find(C + "spPr")
    if old is not None:
        s.replace(old, sp)
        return
    after = s.find(C + "tx")
    if after is None:
        after = s.find(C + "order")
    after.addnext(sp)


def apply_foreign(chart, spec, donors):
    from pptx.oxml import parse_xml

    cs = chart._chartSpace
    plots = xcharts(cs)
    host_ax = plots[0].findall(C + "axId")
    for d in donors:
        dx = parse_xml(etree.tostring(xcharts(d._chartSpace)[0]))
        dax = dx.findall(C + "axId")
        if len(dax) == len(host_ax):
            for a, b in zip(dax, host_ax):
                a.set("val", b.get("val"))
        xcharts(cs)[-1].addnext(dx)
    plots = xcharts(cs)
    by_i = {}
    if donors:
        for k, xc in enumerate(plots):
            for i, s in enumerate(xc.findall(C + "ser")):
                if spec["plot_of"][i] == k:
                    by_i[i] = s
                else:
                    xc.remove(s)
    else:
        i = 0
        for xc in plots:
            for s in xc.findall(C + "ser"):
                by_i[i] = s
                i += 1
    pos = dict((i, n) for n, i in enumerate(spec["doc"]))
    for xc in plots:
        ss = xc.findall(C + "ser")
        if not ss:
            if donors:
                xc.getparent().remove(xc)
            continue
        at = xc.index(ss[0])
        mine = sorted((i for i, s in by_i.items() if s.getparent() is xc), key=lambda i: pos[i])
        for s in ss:
            xc.remove(s)
        for j, i in enumerate(mine):
            xc.insert(at + j, by_i[i])
    for i, s in by_i.items():
        s.find(C + "idx").set("val", str(spec["idx"][i]))
        s.find(C + "order").set("val", str(spec["order"][i]))
        if spec.get("paint"):
            paint_ser(s, i)


def impl_run(case, deck):
    """-> (states, roots): states as the model prints them; roots = re-parsed blob per ok state."""
    init = case["init"]
    states, roots = [], []
    case["_raw0"] = None
    extra_tags = {}
    try:
        live = None
        if init[0] == "F":  # a generated or corpus chart brought into a foreign start state
            ids = Ids(False)
            base, spec = init[1], init[2]
            if base[0] == "W":
                chart = deck.chart(base[1], build_chart_data(base[2]))
                donors = [deck.chart(ct, build_chart_data(base[2])) for ct in spec.get("extra", [])]
            else:
                chart, donors = corpus_charts(base[1])[base[2]], []
            apply_foreign(chart, spec, donors)
        elif init[0] == "W":
            ids = Ids(True)
            live = build_chart_data(init[2])
            chart = deck.chart(init[1], live)
        elif init[0] == "G":  # generated, then switched to the 1904 date system
            ids = Ids(False)
            live = build_chart_data(init[2])
            chart = deck.chart(init[1], live)
            set_date1904(chart)
        else:
            ids = Ids(False)
            chart = corpus_charts(init[1])[init[2]]
    except Exception as e:  # noqa
        return [["err", exc_name(e)]], [], None, "%s: %s" % (type(e).__name__, e)
    msg = None

    def snap():
        root = etree.fromstring(chart.part.blob)
        roots.append(root)
        sk = skeleton(root, ids, extra_tags)
        if case["_raw0"] is None:
            case["_raw0"] = copy.deepcopy(sk)
        states.append(["ok", canon_chart(sk), impl_reads(chart)])

    snap()
    prev = init[2] if init[0] in ("W", "G") else None
    for d in case["ops"]:
        try:
            if d.get("grow") and live is not None and prev is not None:
                live = grow_chart_data(live, prev, d)      # the SAME object, extended in place
            else:
                live = build_chart_data(d)
            prev = d
            chart.replace_data(live)
        except Exception as e:  # noqa
            states.append(["err", exc_name(e)])
            msg = "%s: %s" % (type(e).__name__, e)
            break
        snap()
    return states, roots, chart, msg


def model_case(case, succs):
    """Token stream of the case for the model; charts that do not come from a writer are
    given as the skeleton extracted from the implementation's first state."""
    t = ["hist"]
    for s in succs:
        t.append(len(s))
        t += s
    init = case["init"]
    raw0 = case.pop("_raw0", None)
    if init[0] == "W" or raw0 is None:
        written = init[0] in ("W", "G")
        t += [0, init[1] if written else 0] + data_tokens(init[2] if written else {"k": "xy", "nf": "", "sers": []})
    else:
        t.append(1)
        t += chart_tokens(raw0)
    t.append(len(case["ops"]))
    for d in case["ops"]:
        t += data_tokens(d)
    return t


# ------------------------------------------------------------------ oracle (the property itself)
def excel_serial(y, m, d, d1904):
    """Serial date number, written from Excel's own anchors (not from the code under test)."""
    dt = datetime.date(y, m, d)
    if d1904:
        return (dt - datetime.date(1904, 1, 1)).days
    if dt >= datetime.date(1900, 3, 1):
        return (dt - datetime.date(1899, 12, 30)).days      # 1900-03-01 is day 61
    return (dt - datetime.date(1899, 12, 31)).days          # 1900-01-01 is day 1


def forest_paths(f):
    out = []
    for l, subs in f:
        if subs:
            out += [[l] + p for p in forest_paths(subs)]
        else:
            out.append([l])
    return out


def forest_levels_topdown(f):
    lv = []
    cur = f
    while cur:
        lv.append([n[0] for n in cur])
        cur = [s for n in cur for s in n[1]]
    return lv


def norm_cr(s):
    return s.replace("\r\n", "\n").replace("\r", "\n")


def label_matches(obs, l, d1904, quirks):
    """Does the reported label text [obs] stand for the supplied label?"""
    if l[0] == "s":
        if obs == l[1]:
            return True
        if obs == norm_cr(l[1]) and "\r" in l[1]:
            quirks.add("cr-in-string-becomes-lf")
            return True
        if l[1] == "" and obs == "None":
            quirks.add("empty-category-label-reads-None")
            return True
        return False
    try:
        f = float(obs)
    except ValueError:
        return False
    if l[0] == "n":
        return f.as_integer_ratio() == float(l[1]).as_integer_ratio() and re.fullmatch(r"-?[0-9.]+(e[-+]?[0-9]+)?", obs) is not None
    want = excel_serial(l[1], l[2], l[3], d1904)
    return f == want and obs == "%d.0" % want


def oracle_state(ck, ctx, data, root, reads, d1904, pie_write, baseline_xsd):
    """names / values / categories / idx-order uniqueness / validity of one state against
    the chart data it was made from.  [ctx] describes the input for the report."""
    problems = []   # (sig, what)
    xcs = xcharts(root)
    fam = data["k"]
    # series in plotArea.sers order, from the XML
    sers = []
    for xc in xcs:
        ss = xc.findall(C + "ser")
        ss = sorted(ss, key=lambda s: int(s.find(C + "order").get("val")))
        sers += [(xc, s) for s in ss]
    want = data["sers"]
    quirks = set()
    if pie_write and len(want) > 1 and len(sers) == 1:
        quirks.add("pie-writer-keeps-first-series-only")
        want = want[:1]
    if len(sers) != len(want):
        problems.append(("series-count", "%d series supplied, %d c:ser in the part" % (len(want), len(sers))))
    # names (XML and read API)
    names_xml = ["".join(s.xpath("./c:tx//c:pt/c:v/text()", namespaces=NSMAP)[:1]) for _x, s in sers]
    names_api = None
    vals_api = None
    if all(r[5][0] == 0 for r in reads):
        names_api = [s[1] for r in reads for s in r[5][1]]
        vals_api = [s[2] for r in reads for s in r[5][1]]
    for label, got in (("c:tx", names_xml), ("series.name", names_api)):
        if got is None:
            continue
        exp = [w[0] for w in want]
        if got != exp:
            if got == [norm_cr(x) for x in exp]:
                quirks.add("cr-in-string-becomes-lf")
            else:
                problems.append(("series-names", "%s reports %r, supplied %r" % (label, got[:6], exp[:6])))

    # values
    def cache_values(el):
        if el is None:
            return None
        n = el.xpath(".//c:ptCount/@val", namespaces=NSMAP)
        n = int(n[0]) if n else 0
        m = {}
        for p in el.xpath(".//c:pt", namespaces=NSMAP):
            m.setdefault(int(p.get("idx")), p.find(C + "v").text)
        return [None if i not in m else ratio(m[i]) for i in range(n)]

    def want_vals(vs):
        return [None if v is None else ratio(v) for v in vs]

    for i, ((xc, s), w) in enumerate(zip(sers, want)):
        if fam == "cat":
            cols = [("val", w[2])]
        elif fam == "xy":
            cols = [("xVal", [p[0] for p in w[2]]), ("yVal", [p[1] for p in w[2]])]
        else:
            cols = [("xVal", [p[0] for p in w[2]]), ("yVal", [p[1] for p in w[2]]), ("bubbleSize", [p[2] for p in w[2]])]
        if fam == "bub" and localname(xc) == "scatterChart":
            cols = cols[:2]
        for tag, vs in cols:
            got = cache_values(s.find(C + tag))
            if got != want_vals(vs):
                problems.append(("values", "series %d c:%s holds %r, supplied %r" % (i, tag, (got or [])[:8], want_vals(vs)[:8])))
        if vals_api is not None and i < len(vals_api):
            y = cols[0][1] if fam == "cat" else cols[1][1]
            if vals_api[i] != [0, want_vals(y)]:
                problems.append(("values", "series %d .values reports %r, supplied %r" % (i, vals_api[i][1][:8] if vals_api[i][0] == 0 else vals_api[i], want_vals(y)[:8])))
    # number formats kept as given
    def fmt_of(el):
        fc = el.xpath(".//c:formatCode", namespaces=NSMAP) if el is not None else []
        return (fc[0].text or "") if fc else None

    for i, ((xc, s), w) in enumerate(zip(sers, want)):
        wantf = data["nf"] if w[1] is None else w[1]
        for tag in (("val",) if fam == "cat" else ("xVal", "yVal", "bubbleSize")):
            got = fmt_of(s.find(C + tag))
            if s.find(C + tag) is not None and got != wantf:
                if got == norm_cr(wantf):
                    quirks.add("cr-in-string-becomes-lf")
                else:
                    problems.append(("number-format", "series %d c:%s formatCode %r, supplied %r" % (i, tag, got, wantf)))
        if fam == "cat" and data["cats"] and data["cats"][0][0][0] != "s" and not data["cats"][0][1]:
            wantc = data.get("fmt")
            if wantc is None:
                wantc = "yyyy\\-mm\\-dd" if data["cats"][0][0][0] in ("d", "t") else "General"
            got = fmt_of(s.find(C + "cat"))
            if got != wantc and got != norm_cr(wantc):
                problems.append(("number-format", "series %d c:cat formatCode %r, supplied %r" % (i, got, wantc)))
    # idx / order unique
    idxs = [int(s.find(C + "idx").get("val")) for _x, s in sers]
    orders = [int(s.find(C + "order").get("val")) for _x, s in sers]
    if len(set(idxs)) != len(idxs) or len(set(orders)) != len(orders):
        problems.append(("idx-order-not-unique", "c:idx %r c:order %r" % (idxs, orders)))
    # categories: every plot that has series reports the supplied categories
    if fam == "cat" and want:
        f = data["cats"]
        paths = forest_paths(f)
        lv_top = forest_levels_topdown(f)
        depth = len(lv_top)
        for pi, r in enumerate(reads):
            n, labels, rdepth, levels, flat, _ser = r
            if not xcs[pi].findall(C + "ser"):
                continue
            where = "plot %d" % pi
            if n != len(paths):
                problems.append(("categories", "%s: len(categories) %d, %d leaf categories supplied" % (where, n, len(paths))))
                continue
            if rdepth != depth:
                problems.append(("categories", "%s: depth %d, supplied %d" % (where, rdepth, depth)))
            if not (len(labels) == len(paths) and all(label_matches(o, p[-1], d1904, quirks) for o, p in zip(labels, paths))):
                problems.append(("categories", "%s: list(categories) %r, supplied %r" % (where, labels[:6], [p[-1] for p in paths][:6])))
            if not (len(flat) == len(paths) and all(len(o) == len(p) and all(label_matches(a, b, d1904, quirks) for a, b in zip(o, p)) for o, p in zip(flat, paths))):
                problems.append(("categories", "%s: flattened_labels %r, supplied paths %r" % (where, flat[:4], paths[:4])))
            if depth > 1:
                got = [[x[1] for x in lv] for lv in levels]
                exp = lv_top[::-1]
                if not (len(got) == len(exp) and all(len(a) == len(b) and all(label_matches(x, y, d1904, quirks) for x, y in zip(a, b)) for a, b in zip(got, exp))):
                    problems.append(("categories", "%s: levels %r, supplied (leaf level first) %r" % (where, got[:3], exp[:3])))
    # validity
    for sig, msg in xsd_problems(root, data_without_series=not data["sers"]):
        if sig not in baseline_xsd:
            problems.append((sig, msg))
    for q in sorted(quirks):
        problems.append((q, QUIRK_TEXT[q]))
    return problems


QUIRK_TEXT = {
    "cr-in-string-becomes-lf": "a carriage return in a series name, category label or number format comes back as a line feed (raw CR in the XML template is normalised by the parser; fixed in d4e5a870, the signature stays as a regression guard)",
    "empty-category-label-reads-None": "a category whose label is the empty string (or None) is reported as the string 'None' (category.Category.__new__: pt.v.text is None for an empty c:v and str.__new__(cls, None) is 'None'; fixed in fc4e9fce, the signature stays as a regression guard)",
    "pie-writer-keeps-first-series-only": "a pie chart created from chart data with several series contains the first series only (_PieChartXmlWriter._ser_xml uses self._chart_data[0]); the other series are dropped without an error",
}


def resolve_mc(root):
    r = copy.deepcopy(root)
    for ac in r.xpath("//mc:AlternateContent", namespaces={"mc": NS_MC}):
        parent = ac.getparent()
        fb = ac.find("{%s}Fallback" % NS_MC)
        pos = parent.index(ac)
        for i, ch in enumerate(list(fb) if fb is not None else []):
            parent.insert(pos + i, ch)
        parent.remove(ac)
    return r


def xsd_problems(root, data_without_series=False):
    sc = schema()
    doc = resolve_mc(root)
    if sc.validate(doc):
        return []
    out = {}
    for e in sc.error_log:
        m = re.match(r"Element '\{[^}]*\}(\w+)'(?:, attribute '(\w+)')?: (.*)", e.message)
        el, attr, rest = (m.group(1), m.group(2), m.group(3)) if m else ("?", None, e.message)
        if el in ("axId", "crossAx") and attr == "val" and re.match(r"'-\d+' is not a valid value of the atomic type 'xs:unsignedInt'", rest):
            sig = "xsd:negative-axis-id"
            msg = "c:axId / c:crossAx val is negative in the writer's template; the schema type is xsd:unsignedInt (%s)" % e.message[:160]
        elif data_without_series and not xcharts(root) and ((el in ("catAx", "valAx", "dateAx", "serAx", "dTable", "spPr", "extLst") and "This element is not expected" in rest) or (el == "plotArea" and "Missing child element" in rest)):
            sig = "xsd:plotArea-without-plot"
            msg = "replace_data with chart data that has no series removes every xChart: c:plotArea is left without any (the schema requires at least one): %s" % e.message[:200]
        else:
            sig = "xsd:%s:%s%s" % (e.type_name.replace("SCHEMAV_", ""), el, "@" + attr if attr else "")
            msg = e.message[:300]
            if el == "smooth" and root.xpath("//c:radarChart/c:ser/c:smooth", namespaces=NSMAP):
                sig = "xsd:radar-series-has-smooth"
                msg = "the radar writer puts c:smooth into c:ser of c:radarChart; CT_RadarSer has no such child (%s)" % e.message[:200]
        out.setdefault(sig, msg)
    return sorted(out.items())


def ser_order_list(root):
    out = []
    for xi, xc in enumerate(xcharts(root)):
        for s in sorted(xc.findall(C + "ser"), key=lambda s: int(s.find(C + "order").get("val"))):
            out.append((xi, s))
    return out


def c14n(el):
    e = copy.deepcopy(el)
    e.tail = None
    return etree.tostring(e, method="c14n", exclusive=True)


def oracle_replace(before, after, n_new):
    """Replacing data changes names, categories and values only."""
    problems = []
    bx = xcharts(before)
    first = localname(bx[0]) if bx else None
    data_tags = {"bubbleChart": ("tx", "xVal", "yVal", "bubbleSize"), "scatterChart": ("tx", "xVal", "yVal")}.get(first, ("tx", "cat", "val"))
    old, new = ser_order_list(before), ser_order_list(after)

    def nondata(s):
        return [c14n(k) for k in s if isinstance(k.tag, str) and not (k.tag.startswith(C) and localname(k) in data_tags)]

    # which series are left: the first n of plotArea.sers (plot by plot, c:order sequence within a plot, which
    # need not be the document sequence) with the c:idx / c:order they had; where they stand in the document
    # relative to each other is chart content like any other and stays
    def ident(s):
        return (int(s.find(C + "idx").get("val")), int(s.find(C + "order").get("val")))

    def doc_idents(root):
        return [ident(s) for xc in xcharts(root) for s in xc.findall(C + "ser")]

    ids_old, ids_new = [ident(s) for _x, s in old], [ident(s) for _x, s in new]
    m = min(len(old), n_new)
    if ids_new[:m] != ids_old[:m]:
        if n_new < len(old):
            problems.append(("replace-removed-wrong-series", "replace_data with %d series on a chart with %d: the series left have (c:idx, c:order) %r; the first %d in series order were %r (document sequence before: %r)" % (
                n_new, len(old), ids_new[:8], m, ids_old[:m][:8], doc_idents(before)[:8])))
        else:
            problems.append(("replace-changed-idx-order", "replace_data changed c:idx / c:order of existing series: %r, were %r" % (ids_new[:m][:8], ids_old[:m][:8])))
    elif len(set(ids_old)) == len(ids_old):
        keep = set(ids_old[:m])
        was = [x for x in doc_idents(before) if x in keep]
        now = [x for x in doc_idents(after) if x in keep]
        if was != now:
            problems.append(("replace-reordered-series", "replace_data changed the document sequence of the c:ser elements it kept: (c:idx, c:order) %r, were %r" % (now[:8], was[:8])))

    for i in range(min(len(old), len(new))):
        if nondata(old[i][1]) != nondata(new[i][1]):
            problems.append(("replace-changed-series-formatting", "series %d: children other than %s differ after replace_data" % (i, "/".join(data_tags))))
            break

    def frames(root, keep):
        out = []
        for xi, xc in enumerate(xcharts(root)):
            if not keep(xi, xc):
                continue
            f = copy.deepcopy(xc)
            for s in f.findall(C + "ser"):
                f.remove(s)
            out.append(c14n(f))
        return out

    surviving = set(xi for xi, _s in old[:n_new])
    exp = frames(before, lambda xi, xc: xi in surviving)
    got = frames(after, lambda xi, xc: len(xc.findall(C + "ser")) > 0)
    if n_new >= len(old):
        exp = frames(before, lambda xi, xc: len(xc.findall(C + "ser")) > 0)
    if exp != got:
        problems.append(("replace-changed-plots", "the xChart elements (series aside) after replace_data are not those that keep a series"))

    def rest(root):
        r = copy.deepcopy(root)
        for xc in xcharts(r):
            xc.getparent().remove(xc)
        return c14n(r)

    if rest(before) != rest(after):
        problems.append(("replace-changed-other-content", "chart content outside the xChart elements differs after replace_data"))
    return problems


# ------------------------------------------------------------------ generators
STRS = ["a", "Q1 2020", "East & West", "<b>", 'say "hi"', "it's", " lead", "trail ", "tab\there", "two\nlines",
        "été", "日本", "\U0001F600", "x" * 40, "0", "None", " ", "1.5", "]]>", "&amp;", "A/B", "100%", "cr\rhere", "crlf\r\nhere", "\r"]
FMTS = ["General", "0.00", "#,##0", "0.0%", "yyyy\\-mm\\-dd", "mm/dd/yyyy", '"$"#,##0.00', "[Red]0.0;[Blue]-0.0", "0.0E+00",
        "[<100]0;[>=100]0.0", '#,##0 "R&D"', '0.0 "<"', "d\" days\"", "&amp;0"]
DATES = [(1900, 1, 1), (1900, 2, 27), (1900, 2, 28), (1900, 3, 1), (1900, 3, 2), (1904, 1, 1), (1904, 1, 2), (1903, 12, 31),
         (1999, 12, 31), (2000, 2, 29), (2024, 2, 29), (2026, 9, 29), (9999, 12, 31), (1899, 12, 31), (1899, 12, 30), (1600, 3, 1)]
NUMS = [0, 1, -1, 2, 3.5, -2.25, 0.1, 1e-07, 1.0, 100, 12345678901, 1e+20, 0.30000000000000004, 2 ** 52 + 1, -0.0, 5e-324, 1.7976931348623157e+308]


def g_str(rng):
    return rng.choice(STRS) if rng.random() < 0.8 else "".join(rng.choice("abc XYZ&<>'\"ß中") for _ in range(rng.randint(1, 12)))


def g_num(rng):
    r = rng.random()
    if r < 0.35:
        return rng.choice(NUMS)
    if r < 0.6:
        return rng.randint(-1000, 1000)
    return round(rng.uniform(-1e4, 1e4), rng.randint(0, 6))


def g_vals(rng, n, p_none):
    return [None if rng.random() < p_none else g_num(rng) for _ in range(n)]


def g_forest(rng, depth, top, fan, label=None):
    label = label or (lambda: ["s", g_str(rng)])

    def node(level):
        if level == depth - 1:
            return [label(), []]
        return [label(), [node(level + 1) for _ in range(rng.randint(1, fan))]]

    return [node(0) for _ in range(top)]


def count_leaves(f):
    return sum(count_leaves(s) if s else 1 for _l, s in f)


def g_cat_data(rng, shape):
    nf = rng.choice(FMTS) if rng.random() < 0.4 else "General"
    kind = shape.get("cats", "str")
    fmt = None
    if kind == "str":
        cats = g_forest(rng, 1, shape.get("ncat", rng.randint(1, 8)), 1)
    elif kind == "multi":
        depth = shape.get("depth", rng.randint(2, 4))
        cats = g_forest(rng, depth, shape.get("top", rng.randint(1, 4)), shape.get("fan", 3))
    elif kind == "num":
        cats = g_forest(rng, 1, shape.get("ncat", rng.randint(1, 8)), 1, lambda: ["n", g_num(rng)])
        if rng.random() < 0.5:
            fmt = rng.choice(FMTS)
    else:
        ds = rng.sample(DATES, min(len(DATES), shape.get("ncat", rng.randint(2, 8))))
        if rng.random() < 0.5:
            ds.sort()
        cats = [[(["d"] + list(d)) if rng.random() < 0.7 else (["t"] + list(d) + [rng.randint(0, 23), rng.randint(0, 59), rng.randint(0, 59)]), []] for d in ds]
        if rng.random() < 0.5:
            fmt = rng.choice(FMTS)
    nleaf = count_leaves(cats)
    nser = shape.get("nser", rng.randint(1, 4))
    sers = []
    for _ in range(nser):
        npts = shape.get("npts")
        if npts is None:
            npts = nleaf if rng.random() < 0.7 else max(0, nleaf + rng.randint(-2, 2))
        sers.append([g_str(rng) if rng.random() < 0.9 else "", rng.choice(FMTS) if rng.random() < 0.3 else None,
                     g_vals(rng, npts, shape.get("p_none", 0.15))])
    return {"k": "cat", "nf": nf, "fmt": fmt, "cats": cats, "sers": sers}


def g_xy_data(rng, shape, bub):
    nf = rng.choice(FMTS) if rng.random() < 0.4 else "General"
    sers = []
    for _ in range(shape.get("nser", rng.randint(1, 4))):
        npts = shape.get("npts", rng.randint(0, 8))
        p = shape.get("p_none", 0.1)
        pts = [g_vals(rng, 3 if bub else 2, p) for _ in range(npts)]
        sers.append([g_str(rng) if rng.random() < 0.9 else "", rng.choice(FMTS) if rng.random() < 0.3 else None, pts])
    return {"k": "bub" if bub else "xy", "nf": nf, "sers": sers}


def g_data(rng, fam, shape):
    if fam == "cat":
        return g_cat_data(rng, shape)
    return g_xy_data(rng, shape, fam == "bub")


def cat_shapes(tier, ti, pie):
    big = [{"nser": 50, "ncat": 12, "p_none": 0.05}, {"nser": 3, "ncat": 300, "p_none": 0.05}, {"nser": 12, "cats": "multi", "depth": 4, "top": 4, "fan": 3}][ti % 3]
    shapes = [
        ("tiny", {"nser": 1, "ncat": 1, "npts": 1, "p_none": 0}),
        ("typical", {"nser": 3, "ncat": 5}),
        ("holes", {"nser": 2, "ncat": 6, "p_none": 0.5}),
        ("ragged-lengths", {"nser": 3, "ncat": 4}),
        ("no-series", {"nser": 0, "ncat": 3}),
        ("empty-series", {"nser": 2, "ncat": 3, "npts": 0}),
        ("multi2", {"cats": "multi", "depth": 2}),
        ("multi34", {"cats": "multi", "depth": 3 + ti % 2}),
        ("numeric", {"cats": "num"}),
        ("dates", {"cats": "date"}),
        ("big", big),
        ("random", {}), ("random", {}), ("random", {}), ("random", {"cats": "multi"}), ("random", {"cats": "date"}),
        ("random", {"cats": "num"}), ("random", {"p_none": 0.4}),
    ]
    if pie:
        shapes = [(n, dict(s, nser=1)) for n, s in shapes if n != "no-series"]
    if tier == "thorough":
        more = ([("random", {})] * 100 + [("multi-r", {"cats": "multi"})] * 40 + [("dates", {"cats": "date"})] * 20
                + [("numeric", {"cats": "num"})] * 20 + [("holes", {"p_none": 0.6})] * 10
                + [("big", {"nser": 50, "ncat": 300, "p_none": 0.02})] * (1 if ti % 6 == 0 else 0)
                + [("big", {"nser": 20, "cats": "multi", "depth": 4, "top": 4, "fan": 4})])
        shapes += [(n, dict(s, nser=1)) for n, s in more] if pie else more
    return shapes


def xy_shapes(tier, ti):
    shapes = [
        ("tiny", {"nser": 1, "npts": 1, "p_none": 0}),
        ("typical", {"nser": 3, "npts": 5}),
        ("holes", {"nser": 2, "npts": 6, "p_none": 0.5}),
        ("no-series", {"nser": 0}),
        ("empty-series", {"nser": 2, "npts": 0}),
        ("big", [{"nser": 50, "npts": 10}, {"nser": 2, "npts": 300}][ti % 2]),
        ("random", {}), ("random", {}), ("random", {}), ("random", {}), ("random", {}), ("random", {}),
    ]
    if tier == "thorough":
        shapes += [("random", {})] * 180 + [("big", {"nser": 50, "npts": 300, "p_none": 0.02})] * (1 if ti % 3 == 0 else 0)
    return shapes


def g_grow(rng, d):
    """a description that extends d monotonically (more categories / sub-categories / series / points), flagged so that
    the implementation run obtains it by mutating the previous chart-data object in place"""
    n = copy.deepcopy(d)
    n["grow"] = True
    if n["k"] == "cat":
        def depth(f):
            return 1 + depth(f[0][1]) if f and f[0][1] else 1
        def first_leaf(f):
            return first_leaf(f[0][1]) if f[0][1] else f[0][0]
        cats = n["cats"]
        dep = depth(cats) if cats else 1
        kind = first_leaf(cats)[0] if cats else "s"
        def label():
            if kind == "n":
                return ["n", g_num(rng)]
            if kind in ("d", "t"):
                return ["d"] + list(rng.choice(DATES))
            return ["s", g_str(rng)]
        def subtree(levels):
            return [label(), [] if levels <= 1 else [subtree(levels - 1) for _ in range(rng.randint(1, 2))]]
        for _ in range(rng.randint(1, 3)):
            r = rng.random()
            if r < 0.45 or dep == 1 or not cats:
                cats.append(subtree(dep))
            else:
                node, lv = rng.choice(cats), 1
                while lv < dep - 1 and rng.random() < 0.5:
                    node, lv = rng.choice(node[1]), lv + 1
                node[1].append(subtree(dep - lv))
        nleaf = count_leaves(cats)
        for sr in n["sers"]:
            while len(sr[2]) < nleaf and rng.random() < 0.9:
                sr[2].append(g_vals(rng, 1, 0.15)[0])
        if rng.random() < 0.4:
            n["sers"].append([g_str(rng), None, g_vals(rng, nleaf, 0.15)])
    else:
        w = 3 if n["k"] == "bub" else 2
        for sr in n["sers"]:
            for _ in range(rng.randint(0, 3)):
                sr[2].append(g_vals(rng, w, 0.1))
        if rng.random() < 0.5 or not n["sers"]:
            n["sers"].append([g_str(rng), None, [g_vals(rng, w, 0.1) for _ in range(rng.randint(1, 4))]])
    return n


def g_ops(rng, fam, n, allow_zero):
    ops = []
    for _ in range(n):
        r = rng.random()
        if fam == "cat":
            shape = {}
            if r < 0.3:
                shape = {"cats": "multi"}
            elif r < 0.45:
                shape = {"cats": "date"}
            elif r < 0.55:
                shape = {"cats": "num"}
            shape["nser"] = rng.choice([1, 1, 2, 3, 4, 6, 9])
        else:
            shape = {"nser": rng.choice([1, 1, 2, 3, 5, 8])}
        if allow_zero and rng.random() < 0.5:
            shape["nser"] = 0
        ops.append(g_data(rng, fam, shape))
    return ops


def gen_cases(tier, rng, types):
    cases = []
    for ti, (ct, name, fam, pie) in enumerate(types):
        shapes = cat_shapes(tier, ti, pie) if fam == "cat" else xy_shapes(tier, ti)
        for si, (sname, shape) in enumerate(shapes):
            data = g_data(rng, fam, shape)
            nops = 0 if sname == "big" and tier == "quick" and ti % 4 else rng.choice([1, 2, 2, 3])
            if sname == "no-series":
                nops = 0     # replace_data on a chart without series is a case of its own (below)
            ops = g_ops(rng, fam, nops, False)
            if sname == "big":
                ops = ops[:1]
            cases.append({"class": "%s/%s" % (name, sname), "init": ["W", ct, data], "ops": ops})
    # named situations, a few chart types each
    some = [t for i, t in enumerate(types) if i % 5 == 0]
    for ct, name, fam, pie in some:
        if not pie:
            d0 = g_data(rng, fam, {"nser": 0})
            cases.append({"class": "replace-on-chart-without-series", "init": ["W", ct, d0], "ops": g_ops(rng, fam, 1, False)})
        d = g_data(rng, fam, {"nser": 2})
        z = g_data(rng, fam, {"nser": 0})
        cases.append({"class": "replace-with-no-series-then-again", "init": ["W", ct, d], "ops": [z] + g_ops(rng, fam, 1, False)})
    for ct, name, fam, pie in types:
        if pie:
            d = g_cat_data(rng, {"nser": 3, "ncat": 3})
            cases.append({"class": "pie-several-series", "init": ["W", ct, d], "ops": g_ops(rng, fam, 1, False)})
    # one chart-data object re-used: add_chart, then the SAME object extended in place and passed to replace_data
    for ti, (ct, name, fam, pie) in enumerate(types):
        for rep in range(1 if tier == "quick" else 6):
            shape = {"nser": rng.randint(1, 3)}
            if fam == "cat":
                shape.update([{"cats": "multi", "depth": 2 + (ti + rep) % 3, "top": 2, "fan": 2}, {"ncat": rng.randint(1, 4)}, {"cats": "num"}, {"cats": "date", "ncat": 3}][(ti + rep) % 4])
            d0 = g_data(rng, fam, shape)
            ops, cur = [], d0
            for _ in range(rng.choice([1, 2, 3])):
                cur = g_grow(rng, cur)
                ops.append(cur)
            cases.append({"class": "reuse-grown-in-place", "init": ["W", ct, d0], "ops": ops})
    catt = [t for t in types if t[2] == "cat" and not t[3]]
    for k in range(3 if tier == "quick" else 12):
        ct, name, fam, pie = catt[(k * 7) % len(catt)]
        d = g_cat_data(rng, {"nser": 2, "ncat": 3})
        d["cats"][k % 3][0] = ["s", ""]
        cases.append({"class": "empty-category-label", "init": ["W", ct, d], "ops": []})
        d = g_cat_data(rng, {"nser": 2, "ncat": 3})
        d["cats"][k % 3][0] = ["s", ["a\rb", "a\r\nb", "\r"][k % 3]]
        d["sers"][0][0] = "n\rm"
        d["sers"][0][1] = '0 "a\rb"'
        cases.append({"class": "carriage-return", "init": ["W", ct, d], "ops": []})
        d = g_cat_data(rng, {"nser": 1, "cats": "date"})
        d["fmt"] = ['"$"0', 'd" days"', 'yy"-"mm'][k % 3]
        cases.append({"class": "date-format-with-quote", "init": ["W", ct, d], "ops": []})
        # 1904 date system
        d = g_cat_data(rng, {"nser": 2, "cats": "date"})
        cases.append({"class": "date1904", "init": ["G", ct, d], "ops": [g_cat_data(rng, {"cats": "date", "nser": rng.randint(1, 3)}), g_cat_data(rng, {"cats": "date"})]})
    # malformed stream: unknown chart types, data of the wrong family, non-uniform depth, pie without series
    known = set(t[0] for t in types)
    for k in range(12 if tier == "quick" else 60):
        r = k % 4
        if r == 0:
            ct = rng.choice([x for x in (-4100, 54, 60, 70, 78, 83, 88, 92, 109, 0, 2, 999) if x not in known])
            cases.append({"class": "malformed/unknown-type", "init": ["W", ct, g_cat_data(rng, {})], "ops": []})
        elif r == 1:
            ct, name, fam, pie = rng.choice(types)
            other = rng.choice([f for f in ("cat", "xy", "bub") if f != fam])
            cases.append({"class": "malformed/wrong-family", "init": ["W", ct, g_data(rng, other, {"nser": rng.randint(0, 2)})], "ops": []})
        elif r == 2:
            ct, name, fam, pie = rng.choice(catt)
            d = g_cat_data(rng, {"cats": "multi", "depth": 3, "top": 2, "nser": rng.randint(0, 2)})
            d["cats"][-1][1][-1][1] = []     # one branch is shallower
            cases.append({"class": "malformed/non-uniform-depth", "init": ["W", ct, d], "ops": []})
        else:
            ct = [t for t in types if t[3]][k % 2][0]
            cases.append({"class": "malformed/pie-without-series", "init": ["W", ct, g_cat_data(rng, {"nser": 0})], "ops": []})
    # the corpus
    files = sorted(glob.glob(os.path.join(REPO, "features/steps/test_files/*.pptx")) + glob.glob(os.path.join(REPO, "tests/test_files/*.pptx")))
    for f in files:
        try:
            charts = corpus_charts(f)
        except Exception:  # noqa
            continue
        for i, ch in enumerate(charts):
            xcs = xcharts(etree.fromstring(ch.part.blob))
            first = localname(xcs[0]) if xcs else None
            fam = {"bubbleChart": "bub", "scatterChart": "xy"}.get(first, "cat")
            reps = 2 if tier == "quick" else 24
            for _ in range(reps):
                cases.append({"class": "corpus/%s" % first, "init": ["S", f, i], "ops": g_ops(rng, fam, rng.choice([1, 2, 3]), False)})
    cases += gen_foreign_cases(tier, rng, types, files)
    return cases


def axis_class(name, fam):
    if fam != "cat":
        return fam
    return "radar" if "RADAR" in name else "round" if ("DOUGHNUT" in name or "PIE" in name) else "axes"


def g_foreign_spec(rng, n, nplots):
    """c:order / c:idx values and a document sequence for n series; with nplots > 1 also the plot of each."""
    def vals():
        r = rng.random()
        if r < 0.3:
            v = list(range(n))                              # contiguous, permuted
        elif r < 0.5:
            v = list(range(1, n + 1))                       # one-based
        else:
            v = rng.sample(range(0, 3 * n + 3), n)          # gaps
        rng.shuffle(v)
        return v

    doc = list(range(n))
    rng.shuffle(doc)
    spec = {"doc": doc, "order": vals(), "idx": vals(), "paint": True}
    if rng.random() < 0.25:
        spec["idx"] = list(spec["order"])                   # idx = order, as most producers write
    if nplots > 1:
        po = list(range(nplots)) + [rng.randrange(nplots) for _ in range(n - nplots)]
        rng.shuffle(po)
        spec["plot_of"] = po
    return spec


def g_count_ops(rng, fam, n):
    """replace_data steps for a chart with n series: growing, equal and (always at least one) shrinking"""
    plan = rng.choice(["s", "s", "sg", "es", "gs", "ss", "sgs", "ges"])
    ops, cur = [], n
    for step in plan:
        if step == "s" and cur > 1:
            cur = rng.randint(1, cur - 1)
        elif step == "g":
            cur = cur + rng.randint(1, 3)
        shape = {"nser": cur}
        if fam == "cat":
            r = rng.random()
            shape.update({"cats": "multi"} if r < 0.2 else {"cats": "date"} if r < 0.3 else {"cats": "num"} if r < 0.4 else {})
        ops.append(g_data(rng, fam, shape))
    return ops


def gen_foreign_cases(tier, rng, types, files):
    cases = []
    reps = 1 if tier == "quick" else 8
    plain = [t for t in types if not t[3]]
    # the start state of C07_ex_foreign_shrink (bar + line, document sequence order 9 2 5 | 7 3, idx 4 8 0 | 6 1),
    # replaced with two and with four series
    by_name = dict((t[1], t[0]) for t in types)
    if "COLUMN_CLUSTERED" in by_name and "LINE_MARKERS" in by_name:
        for nser in (2, 4):
            d = g_cat_data(rng, {"nser": 5, "ncat": 2})
            spec = {"extra": [by_name["LINE_MARKERS"]], "plot_of": [0, 0, 0, 1, 1], "doc": [0, 1, 2, 3, 4], "order": [9, 2, 5, 7, 3],
                    "idx": [4, 8, 0, 6, 1], "paint": True}
            cases.append({"class": "foreign/combination", "init": ["F", ["W", by_name["COLUMN_CLUSTERED"], d], spec],
                          "ops": [g_cat_data(rng, {"nser": nser, "ncat": 2})]})
    for ti, (ct, name, fam, pie) in enumerate(plain):
        mates = [t for t in plain if axis_class(t[1], t[2]) == axis_class(name, fam)]
        for rep in range(reps):
            # one plot, series stored out of c:order sequence
            n = rng.randint(3, 7)
            d = g_data(rng, fam, {"nser": n, "ncat": rng.randint(1, 4)} if fam == "cat" else {"nser": n, "npts": rng.randint(1, 4)})
            cases.append({"class": "foreign/one-plot", "init": ["F", ["W", ct, d], g_foreign_spec(rng, n, 1)], "ops": g_count_ops(rng, fam, n)})
            # a combination chart: two or three plots, c:order interleaved across them
            k = rng.choice([1, 1, 2])
            n = rng.randint(k + 2, 8)
            d = g_data(rng, fam, {"nser": n, "ncat": rng.randint(1, 4)} if fam == "cat" else {"nser": n, "npts": rng.randint(1, 4)})
            spec = g_foreign_spec(rng, n, k + 1)
            spec["extra"] = [rng.choice(mates)[0] for _ in range(k)]
            cases.append({"class": "foreign/combination", "init": ["F", ["W", ct, d], spec], "ops": g_count_ops(rng, fam, n)})
    # corpus charts with their series re-ordered
    for f in files:
        try:
            charts = corpus_charts(f)
        except Exception:  # noqa
            continue
        for i, ch in enumerate(charts):
            xcs = xcharts(etree.fromstring(ch.part.blob))
            n = sum(len(xc.findall(C + "ser")) for xc in xcs)
            if n < 2:
                continue
            first = localname(xcs[0])
            fam = {"bubbleChart": "bub", "scatterChart": "xy"}.get(first, "cat")
            for _ in range(reps):
                spec = g_foreign_spec(rng, n, 1)
                spec["paint"] = False
                cases.append({"class": "foreign/corpus", "init": ["F", ["S", f, i], spec], "ops": g_count_ops(rng, fam, n)})
    return cases


def nontrivial(case):
    d = case["init"][2] if case["init"][0] in ("W", "G") else None
    datas = ([d] if d else []) + case["ops"]
    ok = False
    for x in datas:
        if x["sers"] and any(len(s[2]) > 0 for s in x["sers"]) and (x["k"] != "cat" or x["cats"]):
            ok = True
    return ok


def foreign_levels_witness(deck):
    """Replay of C07_foreign_levels_refuted: a two-level chart whose first parent category
    has no c:pt (what PowerPoint writes for a blank parent cell).  -> (impl, model)"""
    from pptx.enum.chart import XL_CHART_TYPE

    d = {"k": "cat", "nf": "General", "fmt": None,
         "cats": [[["s", "A"], [[["s", "a0"], []]]], [["s", "P"], [[["s", "a1"], []]]]], "sers": [["s", None, [1, 2]]]}
    chart = deck.chart(int(XL_CHART_TYPE.COLUMN_CLUSTERED), build_chart_data(d))
    lvls = chart._chartSpace.xpath("//c:ser[1]/c:cat//c:lvl")
    first_parent = lvls[1].findall(C + "pt")[0]
    lvls[1].remove(first_parent)
    impl = [list(t) for t in chart.plots[0].categories.flattened_labels]
    toks = ["flat", 2, 2, 0, "a0", 1, "a1", 1, 1, "P"]
    line = run_model("C07", [toks])[0]
    model = [[S(x) for x in t] for t in json.loads(line)]
    return impl, model


# ------------------------------------------------------------------ main
def check_case(ck, case, deck, types_by_ct, report=True):
    """Run one case on the implementation and evaluate the oracle.  -> (states, first_state, problems)"""
    states, roots, chart, msg = impl_run(case, deck)
    init = case["init"]
    problems = []
    pie = init[0] == "W" and types_by_ct.get(init[1], (0, "", "", False))[3]
    datas = ([init[2]] if init[0] in ("W", "G") else [None]) + case["ops"]
    baseline = set()
    if init[0] in ("S", "F") and roots:
        baseline = set(s for s, _m in xsd_problems(roots[0]))
    ri = 0
    for k, st in enumerate(states):
        if st[0] == "err":
            if k == 0:
                # creation failed: in the property's domain that is a violation by itself
                d0 = init[2] if init[0] in ("W", "G") else None
                if d0 and d0["k"] == "cat" and d0["cats"] and d0["cats"][0][0][0] in ("d", "t") and '"' in (d0.get("fmt") or "") and "XMLSyntaxError" in (msg or ""):
                    problems.append(("number-format-quote-breaks-date-axis", "add_chart raises %s for date categories whose number format contains a double quote: the area, bar and line writers paste categories.number_format unescaped into the formatCode attribute of c:dateAx/c:numFmt" % msg))
                elif not case["class"].startswith("malformed/"):
                    problems.append(("add-chart-raises", "add_chart raised %s" % msg))
            else:
                prev_root = roots[ri - 1]
                has_new = len(case["ops"][k - 1]["sers"]) > 0
                if not xcharts(prev_root) and (msg or "").startswith("IndexError"):
                    problems.append(("replace-data-on-chart-without-plot", "replace_data raises %s on a chart whose plots were all removed by an earlier replace_data with no series (Chart.chart_type indexes plots[0])" % msg))
                elif xcharts(prev_root) and not prev_root.xpath("//c:ser", namespaces=NSMAP) and has_new and (msg or "").startswith("AttributeError"):
                    problems.append(("replace-data-on-chart-without-series", "replace_data raises %s on a chart that has no series (_add_cloned_sers clones plotArea.last_ser which is None)" % msg))
                else:
                    problems.append(("replace-data-raises", "replace_data raised %s" % msg))
            break
        root = roots[ri]
        d = datas[k]
        d1904 = st[1][0] == 1
        if d is not None and not (init[0] == "G" and k == 0):
            problems += oracle_state(ck, case, d, root, st[2], d1904, pie and k == 0, baseline)
        if k > 0:
            problems += oracle_replace(roots[ri - 1], root, len(d["sers"]))
        ri += 1
    return states, problems, msg


def report_problems(ck, case, problems, states):
    seen = set()
    for sig, what in problems:
        if sig in seen:
            continue
        seen.add(sig)
        ck.violation(sig, what, {"entry_point": "shapes.add_chart / Chart.replace_data", "input": dict((k, v) for k, v in case.items() if k != "_raw0"),
                                 "impl_outcome": [s[0] if s[0] == "ok" else s for s in states]})


def run(ck, tier, rng):
    ck.build = coq_build("C07")
    try:
        resource.setrlimit(resource.RLIMIT_STACK, (resource.RLIM_INFINITY, resource.getrlimit(resource.RLIMIT_STACK)[1]))
    except (ValueError, OSError):
        pass
    types = live_chart_types()
    types_by_ct = dict((t[0], t) for t in types)
    succs = live_succs()
    cases = gen_cases(tier, rng, types)
    deck = Deck()
    model_in, impl_states = [], []
    for case in cases:
        states, problems, _msg = check_case(ck, case, deck, types_by_ct)
        ck.count(json.dumps(dict((k, v) for k, v in case.items() if k != "_raw0"), sort_keys=True, default=str), nontrivial(case), case["class"] if case["class"].startswith("foreign") else case["class"].split("/")[0] if case["class"].startswith(("corpus", "malformed")) else case["class"].split("/")[-1])
        ck.dist["states"] = ck.dist.get("states", 0) + len(states)
        report_problems(ck, case, problems, states)
        impl_states.append(states)
        model_in.append(model_case(case, succs))
    for c in cases[:2] + [c for c in cases if c["class"].startswith("corpus")][:2] + [c for c in cases if "multi34" in c["class"]][:1]:
        ck.sample({"class": c["class"], "init": c["init"][:2] if c["init"][0] != "S" else c["init"], "n_ops": len(c["ops"])}, limit=8)
    for c in [c for c in cases if c["class"] == "foreign/combination"][:1] + [c for c in cases if c["class"] == "foreign/corpus"][:1]:
        ck.sample({"class": c["class"], "base": c["init"][1][:2] if c["init"][1][0] == "W" else c["init"][1], "foreign": c["init"][2],
                   "series_counts": [len(d["sers"]) for d in c["ops"]]}, limit=10)
    concrete_before = len(ck.violations)
    diffs = 0
    first_bad = None
    if ck.build.ok:
        model_out = run_model("C07", model_in)
        for case, line, st in zip(cases, model_out, impl_states):
            ms = conv_states(line)
            d = first_diff(ms, st) if ms != "badcase" else "model rejected the case encoding"
            if d:
                diffs += 1
                if diffs <= 5:
                    ck.notes.append("diff [%s] %s (model vs impl)" % (case["class"], d[:400]))
                if first_bad is None:
                    first_bad = (case, d)
        if diffs and len(ck.violations) == concrete_before:
            ck.violation("correspondence", "model/ChartData.v and python-pptx disagree on %d of %d cases, first [%s]: %s; %s" % (
                diffs, len(cases), first_bad[0]["class"], first_bad[1][:300],
                "the oracle's findings are reported separately" if concrete_before else "the oracle found no input on which the property itself fails"),
                {"theorem_or_correspondence": "correspondence ChartData.v ~ chart/xmlwriter.py, data.py, category.py, series.py, oxml/chart (theorems C07_* are about the model only)",
                 "input": first_bad[0], "diff": first_bad[1]}, concrete=False)
    witness = None
    if ck.build.ok:
        wi, wm = foreign_levels_witness(deck)
        witness = {"levels": "leaf [(0,a0),(1,a1)], parent [(1,P)]", "impl_flattened_labels": wi, "model": wm,
                   "remark": "leaf a0 lies before the first parent category and is attributed to it (reader quirk on levels python-pptx does not write; outside the property)"}
        if wi != wm:
            diffs += 1
            ck.violation("correspondence", "flattened_labels on foreign levels: model %r, implementation %r" % (wm, wi),
                         {"theorem_or_correspondence": "C07_foreign_levels_refuted replay", "model_outcome": wm, "impl_outcome": wi}, concrete=False)
    ck.broken_build(oracle_found_concrete=len(ck.violations) > 0)
    return ck.finish(
        rule="%d writable chart types (from ChartXmlWriter) x data shapes (tiny, typical, holes, unequal lengths, no series, empty series, 2 and 3-4 level ragged categories, numeric, dates around 1900-02-28/03-01, up to 50 series / 300 points, random) each followed by 0-3 replace_data with data of another shape; named situations (no series, all series removed, pie with several series, empty label, carriage return, 1904 date system); a malformed stream (unknown type, wrong data family, non-uniform depth, pie without series); every chart of the .pptx corpus with 1-3 replace_data; foreign start states (every non-pie chart type once as one plot and once as a combination chart of 2-3 plots of compatible types, every corpus chart with at least two series: c:ser elements permuted in the document, c:idx / c:order values permuted, with gaps, interleaved across plots, every series with a c:spPr of its own) each followed by 1-3 replace_data of which at least one has fewer series.  non-trivial = some chart data of the case has a series with at least one point (and at least one category for category data)" % len(types),
        trusted_base=TB, assumptions=ASSUME,
        extra={"correspondence_diffs": diffs, "foreign_start_states": sum(1 for c in cases if c["class"].startswith("foreign")),
               "shrinking_replaces_on_foreign_states": sum(1 for c in cases if c["class"].startswith("foreign") for a, b in zip([len(c["init"][2]["order"])] + [len(d["sers"]) for d in c["ops"]], [len(d["sers"]) for d in c["ops"]]) if b < a), "chart_types": [t[1] for t in types], "exhaustive": False,
               "successors_live": succs, "foreign_levels_witness": witness},
    )


def replay(rec):
    case = rec["input"]
    types = live_chart_types()
    types_by_ct = dict((t[0], t) for t in types)

    class _Ck:
        pass

    states, problems, msg = check_case(_Ck(), case, Deck(), types_by_ct)
    line = run_model("C07", [model_case(case, live_succs())])[0]
    ms = conv_states(line)
    print("case class", case.get("class"), "init", case["init"][:2])
    print("impl states", [s[0] if s[0] == "ok" else s for s in states], msg or "")
    print("model states", [s[0] if s[0] == "ok" else s for s in ms] if ms != "badcase" else ms)
    d = first_diff(ms, states) if ms != "badcase" else "badcase"
    print("model/impl diff:", d)
    for sig, what in problems:
        print("oracle:", sig, "-", what)
    return 0 if (not d and not problems) else 1


CLAIM = {
    "tech": "Coq proof over a Gallina model of the chart writers, the readers and replace_data as a state machine (all chart data, all category forests, all replace_data histories, arbitrary successor declarations) + extracted-model correspondence on real charts of every writable type and of the .pptx corpus + independent oracle on the XML and the read API incl. XSD validation",
    "text": "24 theorems and 8 examples closed under the global context: series names, values (None positions, empty series), X values and bubble sizes read back as supplied; categories read back at every level, flattened_labels = root-to-leaf paths for ragged forests of any depth (level idx = first-leaf offset), numbers as Python's text, dates as the Excel serial (1900 leap-year quirk and 1904 system); c:idx / c:order unique after any sequence of replace_data (fold over operations); replace_data reports the new names, values and categories, keeps idx, order and every non-data child of surviving series, the date system and everything outside the xChart elements, removes exactly the last series of plotArea.sers and exactly the plots left without any -- on any start state: the document sequence of the c:ser elements and their c:order sequence are modelled separately, the survivors of a shrinking replace are the first n in series sequence whatever the document sequence (C07_shrink_survivors), and no c:ser is ever moved in the document (C07_replace_document_order), with an example on a two-plot chart whose c:order values are interleaved and out of document sequence. names, labels and number formats come back verbatim for every string (empty, markup characters, carriage returns) and never make a writer fail. Where the model refutes the statement the witness is proved and replayed: pie writer keeps one series, replace_data fails on charts without series or without plots (three earlier refutations -- empty label read as 'None', a double quote in a date number format, carriage return read as line feed -- were fixed in python-pptx and are now regression examples). The model is tied to chart/xmlwriter.py, data.py, category.py, series.py, plot.py and oxml/chart by ~850 (quick) / ~9300 (thorough) histories on all 29 chart types (list read off ChartXmlWriter), the 95 corpus charts and ~120 (quick) / ~900 (thorough) foreign start states made from both (series permuted in the document, c:idx / c:order permuted with gaps, combination charts), comparing the skeleton re-read from ChartPart.blob and the read API state by state.",
    "note": "numbers travel as the text str() gives and are compared as exact rationals of float(text); c:f references and the workbook are C08's, non-XML characters C05's; validity is judged by libxml2 on dml-chart.xsd after resolving mc:AlternateContent; formatting children and everything outside c:ser are opaque content hashes.",
    "ref": "6/C07",
}
