(** Proofs about model/PackUri.v.  The statements of the main lemmas (those listed in
    props/C19.v) are fixed; each one is re-stated in props/C19.v and closed there by
    [exact <this lemma>].  Everything else in this file is auxiliary. *)
From V.lib Require Import Prelude.
From V.model Require Import PackUri.
From V.proofs Require Import Prelude_proofs.

Definition no_dot (s : str) : bool := forallb (fun c => negb (is_dot c)) s.

(** A reference the RFC statement covers: non-empty, pieces between slashes are
    non-empty except that the first may be empty (root-absolute reference), and the
    last piece is a real name (neither dot nor dot-dot). *)
Definition ref_ok (ref : str) : bool :=
  match split_on c_slash ref with
  | [] => false
  | first :: rest =>
      let pieces := match first with [] => rest | _ => first :: rest end in
      match pieces with
      | [] => false
      | _ => forallb (fun p => match p with [] => false | _ => true end) pieces
             && negb (str_eqb (last pieces []) s_dot)
             && negb (str_eqb (last pieces []) s_dotdot)
      end
  end.

(* ---- auxiliary lemmas ---- *)

Lemma wf_segb_inv s : wf_segb s = true ->
  s <> [] /\ nfree c_slash s = true /\ str_eqb s s_dot = false /\ str_eqb s s_dotdot = false.
Proof.
  unfold wf_segb. intros H.
  apply andb_true_iff in H as [H H4]. apply andb_true_iff in H as [H H3].
  apply andb_true_iff in H as [H1 H2].
  apply negb_true_iff in H3, H4.
  repeat split; auto. destruct s; [discriminate | discriminate].
Qed.

Lemma wf_name_nfree D : wf_name D -> Forall (fun s => nfree c_slash s = true) D.
Proof. intros H. eapply Forall_impl; [|exact H]. intros s Hs. apply wf_segb_inv in Hs. tauto. Qed.

Lemma wf_name_nonempty D : wf_name D -> Forall (fun s => s <> []) D.
Proof. intros H. eapply Forall_impl; [|exact H]. intros s Hs. apply wf_segb_inv in Hs. tauto. Qed.

Lemma seg_hd s : s <> [] -> nfree c_slash s = true -> exists x r, s = x :: r /\ is_slash x = false.
Proof.
  destruct s as [|x r]; [congruence|]. intros _ H. simpl in H.
  apply andb_true_iff in H as [H _]. apply negb_true_iff in H. exists x, r; auto.
Qed.

Definition last_ns (a : str) : bool :=
  match rev a with y :: _ => negb (is_slash y) | [] => false end.

Lemma last_ns_app a b : b <> [] -> last_ns (a ++ b) = last_ns b.
Proof.
  intros H. unfold last_ns. rewrite rev_app_distr.
  destruct (rev_cons_exists b H) as [r [y ->]]. rewrite rev_unit. reflexivity.
Qed.

Lemma last_ns_nonnil a : last_ns a = true -> a <> [].
Proof. intros H ->. discriminate. Qed.

Lemma last_ns_seg s : s <> [] -> nfree c_slash s = true -> last_ns s = true.
Proof.
  intros H Hf. destruct (rev_cons_exists s H) as [r [y ->]].
  unfold last_ns. rewrite rev_unit. unfold nfree in Hf. rewrite forallb_app in Hf.
  apply andb_true_iff in Hf as [_ Hf]. simpl in Hf. rewrite andb_true_r in Hf. exact Hf.
Qed.

Definition seg_ok (s : str) : Prop := s <> [] /\ nfree c_slash s = true.

Lemma wf_name_seg_ok D : wf_name D -> Forall seg_ok D.
Proof. intros H. eapply Forall_impl; [|exact H]. intros s Hs. apply wf_segb_inv in Hs. unfold seg_ok; tauto. Qed.

Lemma last_ns_join L : L <> [] -> Forall seg_ok L -> last_ns (join_with s_slash L) = true.
Proof.
  intros Hne HF. destruct (rev_cons_exists L Hne) as [L' [g ->]].
  apply Forall_app in HF as [_ HF]. inversion HF as [|? ? [Hg1 Hg2] _]; subst.
  destruct L' as [|a L''].
  - simpl. apply last_ns_seg; auto.
  - rewrite join_with_snoc by discriminate.
    rewrite last_ns_app. 2:{ unfold s_slash; simpl; discriminate. }
    rewrite last_ns_app by auto. apply last_ns_seg; auto.
Qed.

Lemma last_ns_render L : L <> [] -> Forall seg_ok L -> last_ns (render L) = true.
Proof.
  intros Hne HF. pose proof (last_ns_join L Hne HF) as H.
  unfold render. change (c_slash :: join_with s_slash L) with ([c_slash] ++ join_with s_slash L).
  rewrite last_ns_app; auto. apply last_ns_nonnil; auto.
Qed.

Lemma ends_with_last_ns a : last_ns a = true -> ends_with s_slash a = false.
Proof.
  unfold last_ns, ends_with. simpl rev at 1. destruct (rev a) as [|y r]; [discriminate|].
  intros H. apply negb_true_iff in H. unfold is_slash in H.
  change (starts_with (rev s_slash) (y :: r)) with (N.eqb c_slash y && true).
  rewrite N.eqb_sym, H. reflexivity.
Qed.

Lemma starts_with_slash_hd x r : is_slash x = false -> starts_with s_slash (x :: r) = false.
Proof.
  intros H. unfold is_slash in H.
  change (starts_with s_slash (x :: r)) with (N.eqb c_slash x && true).
  rewrite N.eqb_sym, H. reflexivity.
Qed.

Lemma px_join_rel a b : last_ns a = true -> (exists x r, b = x :: r /\ is_slash x = false) ->
  px_join a b = a ++ s_slash ++ b.
Proof.
  intros Ha [x [r [-> Hx]]]. unfold px_join.
  rewrite starts_with_slash_hd by auto.
  rewrite ends_with_last_ns by auto.
  destruct a; [discriminate | reflexivity].
Qed.

Lemma px_join_root b : starts_with s_slash b = false -> px_join s_slash b = s_slash ++ b.
Proof. intros H. unfold px_join. rewrite H. reflexivity. Qed.

(* ---- rsplit_at ---- *)

Lemma rsplit_at_app c a b : nfree c b = true -> rsplit_at c (a ++ c :: b) = (a ++ [c], b).
Proof.
  intros H. unfold rsplit_at.
  replace (rev (a ++ c :: b)) with (rev b ++ c :: rev a)
    by (rewrite rev_app_distr; simpl; rewrite <- app_assoc; reflexivity).
  assert (Hr : forallb (fun x => negb (N.eqb x c)) (rev b) = true) by (rewrite forallb_rev; exact H).
  rewrite take_while_app_stop, drop_while_app_stop; auto; try (rewrite N.eqb_refl; reflexivity).
  simpl. rewrite !rev_involutive. reflexivity.
Qed.

Lemma rsplit_at_free c s : nfree c s = true -> rsplit_at c s = ([], s).
Proof.
  intros H. unfold rsplit_at.
  assert (Hr : forallb (fun x => negb (N.eqb x c)) (rev s) = true) by (rewrite forallb_rev; exact H).
  rewrite take_while_all, drop_while_all by auto. simpl. rewrite rev_involutive. reflexivity.
Qed.

Lemma render_snoc d f :
  render (d ++ [f]) = match d with [] => [] | _ => render d end ++ c_slash :: f.
Proof.
  destruct d as [|s d']; [reflexivity|]. unfold render.
  rewrite join_with_snoc by discriminate. reflexivity.
Qed.

Lemma px_split_gen a f : forallb is_slash a = false -> last_ns a = true ->
  nfree c_slash f = true -> px_split (a ++ c_slash :: f) = (a, f).
Proof.
  intros Hns Hl Hf. unfold px_split. rewrite rsplit_at_app by auto.
  assert (Hall : forallb is_slash (a ++ [c_slash]) = false)
    by (rewrite forallb_app, Hns; reflexivity).
  rewrite Hall.
  assert (Hstrip : rstrip_slash (a ++ [c_slash]) = a).
  { unfold rstrip_slash. rewrite rev_unit. simpl.
    unfold last_ns in Hl. destruct (rev a) as [|y r] eqn:E; [discriminate|].
    simpl. apply negb_true_iff in Hl. rewrite Hl. rewrite <- E, rev_involutive. reflexivity. }
  rewrite Hstrip. destruct a; [discriminate|]. reflexivity.
Qed.

Lemma render_not_all_slash D : D <> [] -> Forall seg_ok D -> forallb is_slash (render D) = false.
Proof.
  intros Hne HF. destruct D as [|s D']; [congruence|].
  inversion HF as [|? ? [H1 H2] _]; subst.
  destruct (seg_hd s H1 H2) as [x [r [-> Hx]]].
  destruct (join_with_hd s_slash x r D') as [t Ht].
  change (render ((x :: r) :: D')) with (c_slash :: join_with s_slash ((x :: r) :: D')).
  rewrite Ht. simpl. rewrite Hx. reflexivity.
Qed.

Lemma px_split_render d f : wf_name d -> nfree c_slash f = true ->
  px_split (render (d ++ [f])) = (render d, f).
Proof.
  intros Hd Hf. rewrite render_snoc. destruct d as [|s d'].
  - simpl app. unfold px_split. change (c_slash :: f) with ([] ++ c_slash :: f).
    rewrite rsplit_at_app by auto. reflexivity.
  - apply px_split_gen; auto.
    + apply render_not_all_slash; [discriminate | apply wf_name_seg_ok; auto].
    + apply last_ns_render; [discriminate | apply wf_name_seg_ok; auto].
Qed.

Lemma rsplit_render d f : nfree c_slash f = true ->
  exists h, rsplit_at c_slash (render (d ++ [f])) = (h, f).
Proof. intros Hf. rewrite render_snoc. rewrite rsplit_at_app by auto. eauto. Qed.

(* ---- first group of statements ---- *)

Lemma baseURI_render d f : wf_name d -> wf_segb f = true ->
  baseURI (render (d ++ [f])) = render d.
Proof.
  intros Hd Hf. apply wf_segb_inv in Hf as (_ & Hf & _).
  unfold baseURI. rewrite px_split_render; auto.
Qed.

Lemma baseURI_root : baseURI (render []) = render [].
Proof. reflexivity. Qed.

Lemma filename_render_gen d f : wf_name d -> nfree c_slash f = true ->
  filename (render (d ++ [f])) = f.
Proof. intros Hd Hf. unfold filename. rewrite px_split_render; auto. Qed.

Lemma filename_render d f : wf_name d -> wf_segb f = true ->
  filename (render (d ++ [f])) = f.
Proof. intros Hd Hf. apply wf_segb_inv in Hf as (_ & Hf & _). apply filename_render_gen; auto. Qed.

Lemma membername_render P : membername (render P) = join_with s_slash P.
Proof. reflexivity. Qed.

Lemma packuri_new_render P : packuri_new (render P) = Ok (render P).
Proof. reflexivity. Qed.

Lemma rels_uri_render d f : wf_name d -> wf_segb f = true ->
  rels_uri (render (d ++ [f])) = Ok (render (d ++ [s_rels_dir; f ++ s_rels_ext])).
Proof.
  intros Hd Hf. unfold rels_uri. rewrite baseURI_render, filename_render by auto.
  apply wf_segb_inv in Hf as (Hf1 & Hf2 & _).
  destruct (seg_hd f Hf1 Hf2) as [x [r [-> Hx]]].
  assert (E1 : px_join (render d) s_rels_dir = render (d ++ [s_rels_dir])).
  { destruct d as [|s d'].
    - reflexivity.
    - rewrite px_join_rel.
      + rewrite render_snoc. reflexivity.
      + apply last_ns_render; [discriminate | apply wf_name_seg_ok; auto].
      + eexists _, _. split; [reflexivity|reflexivity]. }
  rewrite E1. rewrite px_join_rel.
  - rewrite <- packuri_new_render. f_equal.
    replace (d ++ [s_rels_dir; (x :: r) ++ s_rels_ext])
      with ((d ++ [s_rels_dir]) ++ [(x :: r) ++ s_rels_ext])
      by (rewrite <- app_assoc; reflexivity).
    rewrite (render_snoc (d ++ [s_rels_dir])).
    destruct (d ++ [s_rels_dir]) eqn:E; [destruct d; discriminate|]. reflexivity.
  - rewrite render_snoc. rewrite last_ns_app by discriminate. reflexivity.
  - eexists _, _. split; [reflexivity|auto].
Qed.

Lemma rels_uri_root : rels_uri (render []) = Ok (render [s_rels_dir; s_rels_ext]).
Proof. reflexivity. Qed.

(* ---- splitext ---- *)

Lemma no_dot_nfree s : no_dot s = nfree c_dot s.
Proof. reflexivity. Qed.

Lemma no_dot_existsb s : no_dot s = true -> existsb is_dot s = false.
Proof.
  induction s as [|x s IH]; simpl; auto. intros H.
  apply andb_true_iff in H as [H1 H2]. apply negb_true_iff in H1. rewrite H1, IH; auto.
Qed.

Lemma no_dot_nonnil_existsb s : no_dot s = true -> s <> [] ->
  existsb (fun c => negb (is_dot c)) s = true.
Proof.
  destruct s as [|x s]; [congruence|]. simpl. intros H _.
  apply andb_true_iff in H as [H1 _]. rewrite H1. reflexivity.
Qed.

Lemma px_splitext_of p h stem e : rsplit_at c_slash p = (h, stem ++ c_dot :: e) ->
  existsb (fun c => negb (is_dot c)) stem = true -> no_dot e = true ->
  px_splitext p = (h ++ stem, c_dot :: e).
Proof.
  intros Hr Hs He. unfold px_splitext. rewrite Hr.
  assert (Hd : existsb is_dot (stem ++ c_dot :: e) = true).
  { rewrite existsb_app. simpl. apply orb_true_r. }
  rewrite Hd. rewrite rsplit_at_app by exact He.
  rewrite removelast_last. rewrite Hs. reflexivity.
Qed.

Lemma px_splitext_nodot p h t : rsplit_at c_slash p = (h, t) -> no_dot t = true ->
  px_splitext p = (p, []).
Proof.
  intros Hr Ht. unfold px_splitext. rewrite Hr. rewrite no_dot_existsb by auto. reflexivity.
Qed.

Lemma ext_of p h stem e : rsplit_at c_slash p = (h, stem ++ c_dot :: e) ->
  existsb (fun c => negb (is_dot c)) stem = true -> no_dot e = true -> ext p = e.
Proof. intros Hh Hs He. unfold ext. rewrite (px_splitext_of _ _ _ _ Hh Hs He). reflexivity. Qed.

Lemma ext_of_nodot p h t : rsplit_at c_slash p = (h, t) -> no_dot t = true -> ext p = [].
Proof. intros Hh Hn. unfold ext. rewrite (px_splitext_nodot _ _ _ Hh Hn). reflexivity. Qed.

(** extension: text after the last dot of the file name, when something other than
    dots precedes that dot *)
Lemma ext_render d stem e : wf_name d -> wf_segb (stem ++ c_dot :: e) = true ->
  existsb (fun c => negb (is_dot c)) stem = true -> no_dot e = true ->
  ext (render (d ++ [stem ++ c_dot :: e])) = e.
Proof.
  intros Hd Hf Hs He. apply wf_segb_inv in Hf as (_ & Hf & _).
  destruct (rsplit_render d _ Hf) as [h Hh].
  eapply ext_of; eauto.
Qed.

Lemma ext_none d f : wf_name d -> wf_segb f = true -> no_dot f = true ->
  ext (render (d ++ [f])) = [].
Proof.
  intros Hd Hf Hn. apply wf_segb_inv in Hf as (_ & Hf & _).
  destruct (rsplit_render d _ Hf) as [h Hh].
  eapply ext_of_nodot; eauto.
Qed.

(* ---- idx ---- *)

Lemma forallb_impl {A} (f g : A -> bool) l :
  (forall x, f x = true -> g x = true) -> forallb f l = true -> forallb g l = true.
Proof.
  intros Hi. induction l as [|x l IH]; simpl; auto. intros H.
  apply andb_true_iff in H as [H1 H2]. rewrite Hi, IH; auto.
Qed.

Lemma alpha_not_slash c : is_alpha_ascii c = true -> not_slash c = true.
Proof.
  unfold is_alpha_ascii, not_slash, is_slash, c_slash. intros H.
  apply negb_true_iff. apply N.eqb_neq. intros ->. discriminate.
Qed.

Lemma digit_not_slash c : is_digit c = true -> not_slash c = true.
Proof.
  unfold is_digit, not_slash, is_slash, c_slash. intros H.
  apply negb_true_iff. apply N.eqb_neq. intros ->. discriminate.
Qed.

Lemma digit_not_alpha c : is_digit c = true -> is_alpha_ascii c = false.
Proof.
  unfold is_digit, is_alpha_ascii. intros H.
  apply andb_true_iff in H as [H1 H2]. apply N.leb_le in H1, H2.
  apply orb_false_iff; split; apply andb_false_iff; [left | left]; apply N.leb_gt; lia.
Qed.

Lemma idx_of p F : filename p = F -> F <> [] ->
  idx p =
  match take_while is_alpha_ascii (fst (px_splitext F)) with
  | [] => None
  | _ => match take_while is_digit (drop_while is_alpha_ascii (fst (px_splitext F))) with
         | [] => None
         | ds => Some (dec_value ds)
         end
  end.
Proof.
  intros HF Hne. unfold idx. rewrite HF. destruct F; [congruence | reflexivity].
Qed.

Lemma px_splitext_name stem e :
  forallb not_slash stem = true -> forallb not_slash e = true ->
  no_dot stem = true -> stem <> [] -> no_dot e = true ->
  fst (px_splitext (stem ++ c_dot :: e)) = stem.
Proof.
  intros Hs1 He1 Hs2 Hs3 He2.
  assert (Hfree : nfree c_slash (stem ++ c_dot :: e) = true).
  { unfold nfree. change (fun x => negb (N.eqb x c_slash)) with not_slash.
    rewrite forallb_app. simpl. rewrite Hs1, He1. reflexivity. }
  rewrite (px_splitext_of _ [] stem e); auto.
  - apply rsplit_at_free; auto.
  - apply no_dot_nonnil_existsb; auto.
Qed.

(** numeric index: stem = letters then digits (then anything that is not a digit) *)
Lemma idx_some d letters digits rest e : wf_name d ->
  letters <> [] -> forallb is_alpha_ascii letters = true ->
  digits <> [] -> forallb is_digit digits = true ->
  (match rest with [] => true | c :: _ => negb (is_digit c) end) = true ->
  no_dot (letters ++ digits ++ rest) = true -> forallb not_slash rest = true ->
  no_dot e = true -> forallb not_slash e = true ->
  idx (render (d ++ [letters ++ digits ++ rest ++ c_dot :: e])) = Some (dec_value digits).
Proof.
  intros Hd Hl1 Hl2 Hd1 Hd2 Hr Hnd Hr2 He1 He2.
  set (stem := letters ++ digits ++ rest).
  assert (EF : letters ++ digits ++ rest ++ c_dot :: e = stem ++ c_dot :: e)
    by (unfold stem; rewrite <- !app_assoc; reflexivity).
  rewrite EF.
  assert (Hstem_ns : forallb not_slash stem = true).
  { unfold stem. rewrite !forallb_app.
    rewrite (forallb_impl _ _ _ alpha_not_slash Hl2), (forallb_impl _ _ _ digit_not_slash Hd2), Hr2.
    reflexivity. }
  assert (Hstem_ne : stem <> []) by (unfold stem; destruct letters; [congruence | discriminate]).
  assert (Hfree : nfree c_slash (stem ++ c_dot :: e) = true).
  { unfold nfree. change (fun x => negb (N.eqb x c_slash)) with not_slash.
    rewrite forallb_app. simpl. rewrite Hstem_ns, He2. reflexivity. }
  rewrite (idx_of _ (stem ++ c_dot :: e)).
  2:{ apply filename_render_gen; auto. }
  2:{ destruct stem; [congruence | discriminate]. }
  rewrite px_splitext_name by auto.
  assert (Hhd : match digits ++ rest with [] => true | x :: _ => negb (is_alpha_ascii x) end = true).
  { destruct digits as [|dg ds]; [congruence|]. simpl in Hd2 |- *.
    apply andb_true_iff in Hd2 as [Hd2 _]. rewrite digit_not_alpha; auto. }
  unfold stem.
  rewrite take_while_app_hd, drop_while_app_hd by auto.
  rewrite take_while_app_hd by auto.
  destruct letters; [congruence|]. destruct digits; [congruence|]. reflexivity.
Qed.

Lemma idx_none d letters rest e : wf_name d ->
  forallb is_alpha_ascii letters = true ->
  (match rest with [] => true | c :: _ => negb (is_digit c) && negb (is_alpha_ascii c) end) = true ->
  no_dot (letters ++ rest) = true -> forallb not_slash rest = true ->
  letters ++ rest <> [] ->
  no_dot e = true -> forallb not_slash e = true ->
  idx (render (d ++ [letters ++ rest ++ c_dot :: e])) = None.
Proof.
  intros Hd Hl2 Hr Hnd Hr2 Hne He1 He2.
  set (stem := letters ++ rest) in *.
  assert (EF : letters ++ rest ++ c_dot :: e = stem ++ c_dot :: e)
    by (unfold stem; rewrite <- !app_assoc; reflexivity).
  rewrite EF.
  assert (Hstem_ns : forallb not_slash stem = true).
  { unfold stem. rewrite !forallb_app.
    rewrite (forallb_impl _ _ _ alpha_not_slash Hl2), Hr2. reflexivity. }
  assert (Hfree : nfree c_slash (stem ++ c_dot :: e) = true).
  { unfold nfree. change (fun x => negb (N.eqb x c_slash)) with not_slash.
    rewrite forallb_app. simpl. rewrite Hstem_ns, He2. reflexivity. }
  rewrite (idx_of _ (stem ++ c_dot :: e)).
  2:{ apply filename_render_gen; auto. }
  2:{ destruct stem; [congruence | discriminate]. }
  rewrite px_splitext_name by auto.
  assert (Hr_a : match rest with [] => true | x :: _ => negb (is_alpha_ascii x) end = true).
  { destruct rest; auto. apply andb_true_iff in Hr; tauto. }
  assert (Hr_d : match rest with [] => true | x :: _ => negb (is_digit x) end = true).
  { destruct rest; auto. apply andb_true_iff in Hr; tauto. }
  unfold stem.
  rewrite take_while_app_hd, drop_while_app_hd by auto.
  rewrite (take_while_nil_hd _ _ Hr_d).
  destruct letters; reflexivity.
Qed.

Lemma idx_root : idx (render []) = None.
Proof. reflexivity. Qed.

Lemma reject_not_rooted s : (forall r, s <> c_slash :: r) ->
  packuri_new s = Err IndexErr \/ packuri_new s = Err ValueErr.
Proof.
  intros H. destruct s as [|c r]; [left; reflexivity|]. right.
  unfold packuri_new, is_slash. destruct (N.eqb_spec c c_slash) as [->|Hn]; [|reflexivity].
  exfalso. eapply H; reflexivity.
Qed.

(* ---- normpath ---- *)

Lemma split_on_render L : L <> [] -> Forall (fun s => nfree c_slash s = true) L ->
  split_on c_slash (render L) = [] :: L.
Proof.
  intros Hne HF. unfold render.
  change (c_slash :: join_with s_slash L) with ([] ++ c_slash :: join_with s_slash L).
  rewrite split_on_app by reflexivity. unfold s_slash. rewrite split_join; auto.
Qed.

Lemma norm_step_nil init acc : norm_step init acc [] = acc.
Proof. reflexivity. Qed.

Lemma norm_step_dot init acc : norm_step init acc s_dot = acc.
Proof. reflexivity. Qed.

Lemma norm_step_dotdot init acc : norm_step init acc s_dotdot =
  match rev acc with
  | [] => if init then acc else acc ++ [s_dotdot]
  | lastc :: _ => if str_eqb lastc s_dotdot then acc ++ [s_dotdot] else removelast acc
  end.
Proof. reflexivity. Qed.

Lemma norm_step_push init acc s : s <> [] -> str_eqb s s_dot = false ->
  str_eqb s s_dotdot = false -> norm_step init acc s = acc ++ [s].
Proof.
  intros H0 H1 H2. unfold norm_step. destruct s; [congruence|]. rewrite H1, H2. reflexivity.
Qed.

Lemma norm_fold_wf init L acc : wf_name L -> fold_left (norm_step init) L acc = acc ++ L.
Proof.
  revert acc. induction L as [|s L IH]; intros acc H; simpl.
  - rewrite app_nil_r; reflexivity.
  - inversion H as [|? ? Hs HL]; subst. apply wf_segb_inv in Hs as (H0 & _ & H1 & H2).
    rewrite IH by auto. rewrite norm_step_push by auto. rewrite <- app_assoc. reflexivity.
Qed.

Lemma norm_step_up acc b : str_eqb b s_dotdot = false ->
  norm_step true (acc ++ [b]) s_dotdot = acc.
Proof.
  intros H. rewrite norm_step_dotdot. rewrite rev_unit. rewrite H. apply removelast_last.
Qed.

Lemma norm_fold_ups A B : Forall (fun b => str_eqb b s_dotdot = false) B ->
  fold_left (norm_step true) (repeat s_dotdot (length B)) (A ++ B) = A.
Proof.
  induction B as [|b B IH] using rev_ind; intros H.
  - simpl. apply app_nil_r.
  - apply Forall_app in H as [HB Hb]. inversion Hb; subst.
    rewrite app_length. simpl length. rewrite Nat.add_1_r. simpl.
    rewrite app_assoc. rewrite norm_step_up by auto. auto.
Qed.

Lemma normpath_render L : L <> [] -> Forall (fun s => nfree c_slash s = true) L ->
  hd [] L <> [] ->
  px_normpath (render L) = render (fold_left (norm_step true) L []).
Proof.
  intros Hne HF Hhd.
  pose proof (split_on_render L Hne HF) as Hsplit.
  assert (Hsw1 : starts_with s_slash (render L) = true) by reflexivity.
  assert (Hsw2 : starts_with [c_slash; c_slash] (render L) = false).
  { destruct L as [|s L']; [congruence|]. simpl in Hhd. inversion HF; subst.
    destruct (seg_hd s Hhd H1) as [x [r [-> Hx]]].
    destruct (join_with_hd s_slash x r L') as [t Ht].
    change (render ((x :: r) :: L')) with (c_slash :: join_with s_slash ((x :: r) :: L')).
    rewrite Ht.
    change (starts_with [c_slash; c_slash] (c_slash :: x :: t))
      with (N.eqb c_slash c_slash && (N.eqb c_slash x && true)).
    unfold is_slash in Hx. rewrite (N.eqb_sym c_slash x), Hx. reflexivity. }
  remember (render L) as p eqn:Hp. destruct p as [|c t]; [discriminate|].
  unfold px_normpath. rewrite Hsw1, Hsplit, Hsw2. simpl. reflexivity.
Qed.

Lemma px_abspath_render L : px_abspath (render L) = Ok (px_normpath (render L)).
Proof. reflexivity. Qed.

Lemma normpath_render_wf D : wf_name D -> px_normpath (render D) = render D.
Proof.
  intros H. destruct D as [|s D']; [reflexivity|].
  rewrite normpath_render.
  - rewrite norm_fold_wf by auto. reflexivity.
  - discriminate.
  - apply wf_name_nfree; auto.
  - simpl. inversion H; subst. apply wf_segb_inv in H2. tauto.
Qed.

Lemma filter_all {A} (f : A -> bool) l : Forall (fun x => f x = true) l -> filter f l = l.
Proof. induction 1; simpl; auto. rewrite H. congruence. Qed.

Lemma nonempty_comps_render D : wf_name D -> nonempty_comps (render D) = D.
Proof.
  intros H. destruct D as [|s D']; [reflexivity|].
  unfold nonempty_comps. rewrite split_on_render; [|discriminate|apply wf_name_nfree; auto].
  match goal with |- filter ?f ([] :: ?l) = _ => change (filter f l = l) end.
  apply filter_all.
  eapply Forall_impl; [|exact H]. intros a Ha. apply wf_segb_inv in Ha as (Ha & _).
  destruct a; [congruence | reflexivity].
Qed.

(* ---- common prefix ---- *)

Lemma cpl_firstn a b :
  firstn (common_prefix_len a b) a = firstn (common_prefix_len a b) b.
Proof.
  revert b. induction a as [|x a IH]; intros [|y b]; simpl; auto.
  destruct (str_eqb_spec x y) as [->|Hn]; simpl; auto. rewrite IH. reflexivity.
Qed.

Lemma cpl_le a b :
  common_prefix_len a b <= length a /\ common_prefix_len a b <= length b.
Proof.
  revert b. induction a as [|x a IH]; intros [|y b]; simpl; try lia.
  destruct (str_eqb x y); simpl; try lia. specialize (IH b). lia.
Qed.

(* ---- joins ---- *)

Lemma fold_px_join ps a : last_ns a = true -> Forall seg_ok ps ->
  fold_left px_join ps a = join_with s_slash (a :: ps).
Proof.
  revert a. induction ps as [|p ps IH]; intros a Ha HF; [reflexivity|].
  inversion HF as [|? ? [Hp1 Hp2] HF']; subst. simpl fold_left.
  rewrite px_join_rel; auto.
  2:{ destruct (seg_hd p Hp1 Hp2) as [x [r [-> Hx]]]. eauto. }
  rewrite IH; auto.
  2:{ rewrite last_ns_app by (destruct p; [congruence | discriminate]).
      rewrite last_ns_app by auto. apply last_ns_seg; auto. }
  destruct ps as [|q ps'].
  - reflexivity.
  - rewrite (join_with_cons _ a) by discriminate.
    rewrite (join_with_cons _ p) by discriminate.
    rewrite (join_with_cons _ (a ++ s_slash ++ p)) by discriminate.
    rewrite <- !app_assoc. reflexivity.
Qed.

Lemma px_join_all_join rel : Forall seg_ok rel -> px_join_all rel = join_with s_slash rel.
Proof.
  intros HF. destruct rel as [|p ps]; [reflexivity|]. inversion HF as [|? ? [H1 H2] HF']; subst.
  unfold px_join_all. apply fold_px_join; auto. apply last_ns_seg; auto.
Qed.

Lemma bind_ok {A B} (a : A) (f : A -> res B) : bind (Ok a) f = f a.
Proof. reflexivity. Qed.

(* ---- from_rel_ref on a joined list of pieces ---- *)

Lemma px_join_render D rel : wf_name D -> rel <> [] ->
  Forall (fun s => nfree c_slash s = true) rel -> hd [] rel <> [] ->
  px_join (render D) (join_with s_slash rel) = render (D ++ rel).
Proof.
  intros HD Hne HF Hhd.
  assert (Hj : exists x r, join_with s_slash rel = x :: r /\ is_slash x = false).
  { destruct rel as [|s rel']; [congruence|]. simpl in Hhd. inversion HF; subst.
    destruct (seg_hd s Hhd H1) as [x [r [-> Hx]]].
    destruct (join_with_hd s_slash x r rel') as [t Ht]. exists x, t. split; [exact Ht | exact Hx]. }
  destruct D as [|s D'].
  - change (render []) with s_slash. rewrite px_join_root.
    + reflexivity.
    + destruct Hj as [x [r [-> Hx]]]. apply starts_with_slash_hd; auto.
  - rewrite px_join_rel; auto.
    + unfold render. rewrite (join_with_app _ (s :: D') rel) by (auto; discriminate).
      reflexivity.
    + apply last_ns_render; [discriminate | apply wf_name_seg_ok; auto].
Qed.

Lemma from_rel_ref_segs D rel : wf_name D -> rel <> [] ->
  Forall (fun s => nfree c_slash s = true) rel -> hd [] rel <> [] ->
  from_rel_ref (render D) (join_with s_slash rel)
  = Ok (render (fold_left (norm_step true) (D ++ rel) [])).
Proof.
  intros HD Hne HF Hhd. unfold from_rel_ref.
  rewrite px_join_render by auto. rewrite px_abspath_render. rewrite bind_ok.
  rewrite normpath_render.
  - apply packuri_new_render.
  - destruct D; [simpl; auto | discriminate].
  - apply Forall_app; split; auto. apply wf_name_nfree; auto.
  - destruct D as [|s D']; [exact Hhd|]. simpl. inversion HD; subst.
    apply wf_segb_inv in H1. tauto.
Qed.

(* ---- round trip ---- *)

Lemma wf_not_dotdot L : wf_name L -> Forall (fun b => str_eqb b s_dotdot = false) L.
Proof. intros H. eapply Forall_impl; [|exact H]. intros a Ha. apply wf_segb_inv in Ha; tauto. Qed.

Lemma Forall_firstn {A} (P : A -> Prop) n l : Forall P l -> Forall P (firstn n l).
Proof. revert l; induction n; intros l H; simpl; auto. destruct H; auto. Qed.

Lemma Forall_skipn {A} (P : A -> Prop) n l : Forall P l -> Forall P (skipn n l).
Proof. revert l; induction n; intros l H; simpl; auto. destruct H; auto. Qed.

Lemma norm_fold_updown D i tail : wf_name D ->
  fold_left (norm_step true) (D ++ repeat s_dotdot (length D - i) ++ tail) []
  = fold_left (norm_step true) tail (firstn i D).
Proof.
  intros HD. rewrite !fold_left_app. rewrite (norm_fold_wf true D) by auto. simpl app.
  assert (Hsk : Forall (fun b => str_eqb b s_dotdot = false) (skipn i D))
    by (apply Forall_skipn, wf_not_dotdot; auto).
  rewrite <- (skipn_length i D).
  rewrite <- (firstn_skipn i D) at 2.
  rewrite norm_fold_ups by auto. reflexivity.
Qed.

Lemma render_ne_root D : wf_name D -> D <> [] -> str_eqb (render D) s_slash = false.
Proof.
  intros HD Hne. destruct D as [|s D']; [congruence|].
  inversion HD; subst. apply wf_segb_inv in H1 as (H1 & H1' & _).
  destruct (seg_hd s H1 H1') as [x [r [-> Hx]]].
  destruct (join_with_hd s_slash x r D') as [t Ht].
  change (render ((x :: r) :: D')) with (c_slash :: join_with s_slash ((x :: r) :: D')).
  rewrite Ht. reflexivity.
Qed.

Lemma roundtrip_dir_ne D Q : D <> [] -> wf_name D -> wf_name Q ->
  bind (relative_ref (render Q) (render D)) (from_rel_ref (render D)) = Ok (render Q).
Proof.
  intros Hne HD HQ.
  unfold relative_ref. rewrite render_ne_root by auto.
  unfold px_relpath.
  change (render Q) with (c_slash :: join_with s_slash Q) at 1. cbv iota.
  rewrite !px_abspath_render. rewrite !bind_ok.
  rewrite !normpath_render_wf by auto. rewrite !nonempty_comps_render by auto.
  set (i := common_prefix_len D Q).
  pose proof (cpl_firstn D Q) as Hfi. pose proof (cpl_le D Q) as [Hle1 Hle2].
  fold i in Hfi, Hle1, Hle2.
  destruct (repeat s_dotdot (length D - i) ++ skipn i Q) as [|r0 rel'] eqn:Hrel.
  - (* Q = D *)
    apply app_eq_nil in Hrel as [Hr1 Hr2].
    assert (Hi1 : length D - i = 0) by (destruct (length D - i); [reflexivity | discriminate]).
    assert (Hi2 : length Q <= i).
    { apply (f_equal (@length _)) in Hr2. rewrite skipn_length in Hr2. simpl in Hr2. lia. }
    assert (EQ : D = Q).
    { rewrite <- (firstn_all D), <- (firstn_all Q).
      replace (length D) with i by lia. replace (length Q) with i by lia. exact Hfi. }
    rewrite bind_ok. change s_dot with (join_with s_slash [s_dot]).
    rewrite from_rel_ref_segs; [| auto | discriminate | repeat constructor | discriminate].
    rewrite fold_left_app, (norm_fold_wf true D) by auto. simpl. rewrite EQ. reflexivity.
  - rewrite <- Hrel.
    assert (Hne2 : repeat s_dotdot (length D - i) ++ skipn i Q <> []) by (rewrite Hrel; discriminate).
    clear Hrel r0 rel'.
    assert (Hok : Forall seg_ok (repeat s_dotdot (length D - i) ++ skipn i Q)).
    { apply Forall_app; split.
      - apply Forall_forall. intros x Hx. apply repeat_spec in Hx. subst.
        split; [discriminate | reflexivity].
      - apply Forall_skipn, wf_name_seg_ok; auto. }
    rewrite bind_ok. rewrite px_join_all_join by auto.
    rewrite from_rel_ref_segs; auto.
    + rewrite norm_fold_updown by auto.
      rewrite norm_fold_wf by (apply Forall_skipn; auto).
      rewrite Hfi, firstn_skipn. reflexivity.
    + eapply Forall_impl; [|exact Hok]. intros a [_ Ha]; exact Ha.
    + destruct (repeat s_dotdot (length D - i) ++ skipn i Q) as [|a l]; [congruence|].
      inversion Hok as [|? ? [Ha _] _]; subst. exact Ha.
Qed.

(** The round trip, for a directory D (possibly the root) and any part name Q
    (possibly the pseudo-name). *)
Lemma roundtrip_dir D Q : wf_name D -> wf_name Q ->
  bind (relative_ref (render Q) (render D)) (from_rel_ref (render D)) = Ok (render Q).
Proof.
  intros HD HQ. destruct D as [|s D'].
  - (* base is the root *)
    change (relative_ref (render Q) (render [])) with (Ok (join_with s_slash Q)).
    rewrite bind_ok. destruct Q as [|q Q'].
    + reflexivity.
    + rewrite from_rel_ref_segs; auto.
      * simpl app. rewrite norm_fold_wf by auto. reflexivity.
      * discriminate.
      * apply wf_name_nfree; auto.
      * simpl. inversion HQ; subst. apply wf_segb_inv in H1; tauto.
  - apply roundtrip_dir_ne; auto. discriminate.
Qed.

Lemma roundtrip P Q : wf_name P -> wf_name Q ->
  bind (relative_ref (render Q) (baseURI (render P))) (from_rel_ref (baseURI (render P)))
  = Ok (render Q).
Proof.
  intros HP HQ. destruct P as [|p P'] using rev_ind.
  - rewrite baseURI_root. apply roundtrip_dir; auto.
  - apply Forall_app in HP as [HP Hp]. inversion Hp; subst.
    rewrite baseURI_render by auto. apply roundtrip_dir; auto.
Qed.

(* ---- RFC 3986 ---- *)

Lemma Forall_removelast {A} (P : A -> Prop) l : Forall P l -> Forall P (removelast l).
Proof. induction 1 as [|x l Hx Hl IH]; simpl; auto. destruct l; auto. Qed.

Lemma norm_rfc_step acc s : s <> [] ->
  Forall (fun b => str_eqb b s_dotdot = false) acc ->
  norm_step true acc s = rfc_step acc s.
Proof.
  intros Hs Hacc. unfold rfc_step.
  destruct (str_eqb_spec s s_dot) as [->|Hd]; [apply norm_step_dot|].
  destruct (str_eqb_spec s s_dotdot) as [->|Hdd].
  - rewrite norm_step_dotdot. destruct (rev acc) as [|l r] eqn:E.
    + apply (f_equal (@rev _)) in E. rewrite rev_involutive in E. simpl in E. subst. reflexivity.
    + assert (Hin : In l acc) by (apply in_rev; rewrite E; left; reflexivity).
      rewrite Forall_forall in Hacc. rewrite (Hacc l Hin). reflexivity.
  - apply norm_step_push; auto.
    + destruct (str_eqb_spec s s_dot); congruence.
    + destruct (str_eqb_spec s s_dotdot); congruence.
Qed.

Lemma rfc_step_nodd acc s : Forall (fun b => str_eqb b s_dotdot = false) acc ->
  Forall (fun b => str_eqb b s_dotdot = false) (rfc_step acc s).
Proof.
  intros H. unfold rfc_step. destruct (str_eqb s s_dot); auto.
  destruct (str_eqb s s_dotdot) eqn:E.
  - apply Forall_removelast; auto.
  - apply Forall_app; split; auto.
Qed.

Lemma norm_rfc_fold L acc : Forall (fun s => s <> []) L ->
  Forall (fun b => str_eqb b s_dotdot = false) acc ->
  fold_left (norm_step true) L acc = fold_left rfc_step L acc.
Proof.
  revert acc. induction L as [|s L IH]; intros acc HL Hacc; simpl; auto.
  inversion HL; subst. rewrite norm_rfc_step by auto. apply IH; auto. apply rfc_step_nodd; auto.
Qed.

Lemma forallb_nonempty (L : list str) :
  forallb (fun p => match p with [] => false | _ => true end) L = true ->
  Forall (fun s => s <> []) L.
Proof.
  intros H. apply forallb_true_iff in H. eapply Forall_impl; [|exact H].
  intros a Ha ->. discriminate.
Qed.

Lemma rfc3986 D ref : wf_name D -> ref_ok ref = true ->
  from_rel_ref (render D) ref = Ok (render (rfc_resolve_segs D ref)).
Proof.
  intros HD Hok. unfold ref_ok in Hok. unfold rfc_resolve_segs.
  pose proof (join_split c_slash ref) as Hj. pose proof (split_on_nfree c_slash ref) as Hfree.
  destruct (split_on c_slash ref) as [|first rest] eqn:Hsp; [discriminate|].
  destruct first as [|x f'].
  - (* root-absolute reference *)
    destruct rest as [|r1 rest']; [discriminate|].
    apply andb_true_iff in Hok as [Hok _]. apply andb_true_iff in Hok as [Hok _].
    apply forallb_nonempty in Hok.
    assert (Href : ref = render (r1 :: rest')) by (rewrite <- Hj; reflexivity).
    assert (Hpj : px_join (render D) ref = ref) by (rewrite Href; reflexivity).
    unfold from_rel_ref. rewrite Hpj, Href, px_abspath_render, bind_ok.
    inversion Hfree; subst. inversion Hok; subst.
    rewrite normpath_render; auto; [|discriminate].
    rewrite packuri_new_render. f_equal. f_equal. apply norm_rfc_fold; auto.
  - (* merge with the base directory *)
    apply andb_true_iff in Hok as [Hok _]. apply andb_true_iff in Hok as [Hok _].
    apply forallb_nonempty in Hok.
    rewrite <- Hj. change [c_slash] with s_slash.
    rewrite from_rel_ref_segs; auto; try discriminate.
    f_equal. f_equal. apply norm_rfc_fold; auto.
    apply Forall_app; split; auto. apply wf_name_nonempty; auto.
Qed.
