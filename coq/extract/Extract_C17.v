From Coq Require Import Extraction ExtrOcamlBasic.
From V.model Require Import GeomRun.
Extraction Language OCaml.
Cd "extract".
Extraction "c17.ml" run_c17.
Cd "..".
