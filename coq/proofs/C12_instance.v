(** Instance obligations of C12 over the accessor table regenerated from /repo (gen/GenC12.v). *)
From V.lib Require Import Prelude.
From V.model Require Import Schema Xmlchemy Access.
From V.proofs Require Import Access_proofs.
From V.gen Require Import GenC12.

Lemma no_unmodelled : n_unmodelled = 0.
Proof. vm_compute. reflexivity. Qed.

Definition acc_ok (a : accessor) : bool := memN (acc_id a) known_failing || allowed containers a.

Lemma all_acc_ok : forallb acc_ok effects = true.
Proof. vm_compute. reflexivity. Qed.

Lemma effects_allowed : forall a, In a effects -> memN (acc_id a) known_failing = false ->
  allowed containers a = true.
Proof.
  intros a Hin Hk. pose proof (proj1 (forallb_forall _ _) all_acc_ok a Hin) as H.
  unfold acc_ok in H. rewrite Hk in H. exact H.
Qed.

(** a judged accessor of the table (in the read surface, not a documented creating one, not a
    recorded finding) leaves every document strip-equal, whatever steps realise its effect *)
Lemma judged_accessor_harmless : forall a, In a effects -> memN (acc_id a) known_failing = false ->
  acc_surface a = true -> acc_documented a = false ->
  forall steps s0, realises (acc_eff a) steps = true -> inv containers s0 (run steps s0).
Proof.
  intros a Hin Hk Hs Hd steps s0 Hr.
  pose proof (effects_allowed a Hin Hk) as H. unfold allowed in H. rewrite Hs, Hd in H. simpl in H.
  pose proof (traversal containers [(acc_eff a, steps)] s0) as T. simpl in T. rewrite app_nil_r in T.
  apply T. intros r [<-|[]]. simpl. auto.
Qed.

Lemma judged_accessor_harmless_pkg : forall a, In a effects -> memN (acc_id a) known_failing = false ->
  acc_surface a = true -> acc_documented a = false ->
  forall steps s0, realises (acc_eff a) steps = true ->
  strip_pkg containers (st_pkg (run steps s0)) = strip_pkg containers (st_pkg s0)
  /\ map fst (st_pkg (run steps s0)) = map fst (st_pkg s0).
Proof.
  intros a Hin Hk Hs Hd steps s0 Hr.
  destruct (judged_accessor_harmless a Hin Hk Hs Hd steps s0 Hr) as [[H1 H2] _]. auto.
Qed.

(** recorded findings are real: each is a judged accessor whose predicted effect is Creates *)
Definition known_real (a : accessor) : bool :=
  negb (memN (acc_id a) known_failing)
  || (acc_surface a && negb (acc_documented a) && is_creates (acc_eff a) && negb (allowed containers a)).

Lemma all_known_real : forallb known_real effects = true.
Proof. vm_compute. reflexivity. Qed.

Lemma known_failing_refuted : forall a, In a effects -> memN (acc_id a) known_failing = true ->
  allowed containers a = false /\ is_creates (acc_eff a) = true
  /\ (forall new i t, significant containers new = true ->
        realises (acc_eff a) [Put 0 [] i new] = true
        /\ strip containers (at_path (insert_nth i new) [] t) <> strip containers t).
Proof.
  intros a Hin Hk. pose proof (proj1 (forallb_forall _ _) all_known_real a Hin) as H.
  unfold known_real in H. apply orb_true_iff in H. destruct H as [H|H].
  - rewrite Hk in H. discriminate.
  - apply andb_true_iff in H as [H H4]. apply andb_true_iff in H as [H H3]. apply andb_true_iff in H as [H1 H2].
    apply negb_true_iff in H4. split; [exact H4|]. split; [exact H3|].
    intros new i t Hs. split.
    + destruct (acc_eff a); try discriminate H3. reflexivity.
    + apply creates_visible; auto.
Qed.
