(** C18 -- a concrete codec for docProps/core.xml, at the level of code points.

    Writer side (what lxml emits for the tree python-pptx holds):
      src/pptx/opc/package.py     XmlPart.blob = serialize_part_xml(self._element)
      src/pptx/opc/serialized.py  etree.tostring(encoding=UTF-8, standalone=True)
      src/pptx/oxml/coreprops.py  the children are appended by get_or_add (successors=());
                                  element.text = value; xsi:type is set on dcterms:created /
                                  dcterms:modified with the namespace declared on the root
    The text is the UTF-8 decoding of the bytes: the XML declaration with single quotes, a line
    feed, the root cp:coreProperties with its namespace declarations, then one element per child
    in the order of the state, nothing between them, no line feed at the end.  An empty root is
    written as an empty-element tag.  Element text is escaped as libxml2 escapes text: the
    ampersand, less-than, greater-than, and the carriage return as the reference to 13; quotes,
    TAB and LF stand as they are (sax_escape_g false false false true of model/Escape.v is
    exactly that substitution; model/TextRun.v calls it lxml_text_escape).
    Root declarations: the root of the default template (cp, dc, dcterms, dcmitype, xsi), or
    the root CorePropertiesPart.default builds (cp, dc, dcterms from new_coreProperties, xsi
    added by the xsi:foo step of _set_element_datetime when modified is assigned).  A root from
    another producer that leaves dc / dcterms undeclared makes lxml declare them on each child:
    that document shape is outside this codec (dec_core answers None).
    Empty text has two written forms: an element whose text was assigned the empty string is
    written with a start tag and an end tag; an element that never received a text node (created
    by get_or_add and left alone, or read from a file) is written as an empty-element tag.  The
    model state identifies the two (c_text = []), so the writer takes the state together with a
    mark per child saying that the child holds no text node; the mark is looked at only when the
    text is empty.  [enc_core] is the writer for states whose every text was assigned (what every
    accepted assignment through the API produces).

    Reader side (pptx.oxml.parse_xml: libxml2 with remove_blank_text, then tag / text /
    xsi:type of the children): a recogniser for the document shape above.  The text is cut at
    every less-than sign (escaped text holds none), which gives the pieces
      empty, declaration, root start tag, then per child either
        name attrs slash gt                      (empty-element tag), or
        name attrs gt text   and   slash name gt (start tag with text, end tag),
      and finally the end tag of the root.
    The text of a child is decoded by the element-text lexer lex_text of model/Escape.v
    (references, line ends, rejection of non-characters, and libxml2's blank-text removal).
    Any other text is answered None.  Recursion is structural on the list of pieces.

    A child outside the 15 declared ones has no name in the model (TOther n).  The writer gives
    it a place-holder name with a prefix that is not declared, which no XML parser accepts and
    dec_core refuses; the theorems are about states holding declared children only.

    Definitions only; proofs are in proofs/CorePropsCodec_proofs.v. *)
From V.lib Require Import Prelude.
From V.model Require Import Escape CoreProps.

(** ---- the literal pieces ---- *)
Definition k_decl_piece : str := (* ?xml version='1.0' encoding='UTF-8' standalone='yes'?> LF *)
  [63; 120; 109; 108; 32; 118; 101; 114; 115; 105; 111; 110; 61; 39; 49; 46; 48; 39; 32; 101; 110; 99; 111; 100; 105; 110; 103; 61; 39; 85; 84; 70; 45; 56; 39; 32; 115; 116; 97; 110; 100; 97; 108; 111; 110; 101; 61; 39; 121; 101; 115; 39; 63; 62; 10]%N.
Definition k_root_name : str := (* cp:coreProperties *)
  [99; 112; 58; 99; 111; 114; 101; 80; 114; 111; 112; 101; 114; 116; 105; 101; 115]%N.
Definition k_ns_cp : str := (* blank xmlns:cp=''http://schemas.openxmlformats.org/package/2006/metadata/core-properties'' *)
  [32; 120; 109; 108; 110; 115; 58; 99; 112; 61; 34; 104; 116; 116; 112; 58; 47; 47; 115; 99; 104; 101; 109; 97; 115; 46; 111; 112; 101; 110; 120; 109; 108; 102; 111; 114; 109; 97; 116; 115; 46; 111; 114; 103; 47; 112; 97; 99; 107; 97; 103; 101; 47; 50; 48; 48; 54; 47; 109; 101; 116; 97; 100; 97; 116; 97; 47; 99; 111; 114; 101; 45; 112; 114; 111; 112; 101; 114; 116; 105; 101; 115; 34]%N.
Definition k_ns_dc : str := (* blank xmlns:dc=''http://purl.org/dc/elements/1.1/'' *)
  [32; 120; 109; 108; 110; 115; 58; 100; 99; 61; 34; 104; 116; 116; 112; 58; 47; 47; 112; 117; 114; 108; 46; 111; 114; 103; 47; 100; 99; 47; 101; 108; 101; 109; 101; 110; 116; 115; 47; 49; 46; 49; 47; 34]%N.
Definition k_ns_dcterms : str := (* blank xmlns:dcterms=''http://purl.org/dc/terms/'' *)
  [32; 120; 109; 108; 110; 115; 58; 100; 99; 116; 101; 114; 109; 115; 61; 34; 104; 116; 116; 112; 58; 47; 47; 112; 117; 114; 108; 46; 111; 114; 103; 47; 100; 99; 47; 116; 101; 114; 109; 115; 47; 34]%N.
Definition k_ns_dcmitype : str := (* blank xmlns:dcmitype=''http://purl.org/dc/dcmitype/'' *)
  [32; 120; 109; 108; 110; 115; 58; 100; 99; 109; 105; 116; 121; 112; 101; 61; 34; 104; 116; 116; 112; 58; 47; 47; 112; 117; 114; 108; 46; 111; 114; 103; 47; 100; 99; 47; 100; 99; 109; 105; 116; 121; 112; 101; 47; 34]%N.
Definition k_ns_xsi : str := (* blank xmlns:xsi=''http://www.w3.org/2001/XMLSchema-instance'' *)
  [32; 120; 109; 108; 110; 115; 58; 120; 115; 105; 61; 34; 104; 116; 116; 112; 58; 47; 47; 119; 119; 119; 46; 119; 51; 46; 111; 114; 103; 47; 50; 48; 48; 49; 47; 88; 77; 76; 83; 99; 104; 101; 109; 97; 45; 105; 110; 115; 116; 97; 110; 99; 101; 34]%N.
Definition k_xsi : str := (* blank xsi:type=''dcterms:W3CDTF'' *)
  [32; 120; 115; 105; 58; 116; 121; 112; 101; 61; 34; 100; 99; 116; 101; 114; 109; 115; 58; 87; 51; 67; 68; 84; 70; 34]%N.
Definition k_slash : N := 47%N.
Definition k_other : str := (* undeclared:o *)
  [117; 110; 100; 101; 99; 108; 97; 114; 101; 100; 58; 111]%N.

(** ---- the root element ---- *)

(** which namespace declarations the root carries *)
Inductive rootk := RTemplate | RDefault.

(** the root start tag between the less-than sign and the closing of the tag *)
Definition root_head (r : rootk) : str :=
  match r with
  | RTemplate => k_root_name ++ k_ns_cp ++ k_ns_dc ++ k_ns_dcterms ++ k_ns_dcmitype ++ k_ns_xsi
  | RDefault => k_root_name ++ k_ns_cp ++ k_ns_dc ++ k_ns_dcterms ++ k_ns_xsi
  end.

Definition rootk_eqb (a b : rootk) : bool :=
  match a, b with RTemplate, RTemplate | RDefault, RDefault => true | _, _ => false end.

(** ---- writer ---- *)

(** libxml2's escaping of a text node (xmlEscapeContent) *)
Definition text_escape (s : str) : str := sax_escape_g false false false true s.

Definition ctag_name (t : ctag) : str :=
  match t with
  | TProp p => tag_qname p
  | TOther n => k_other ++ dec_of_N n
  end.

(** the attributes of a child as written: xsi:type or nothing *)
Definition attrs_of (x : bool) : str := if x then k_xsi else [].

(** a child holding no text node ([nt], looked at only when the text is empty) is an
    empty-element tag; otherwise start tag, escaped text, end tag; followed by [k] *)
Definition no_text_node (cm : child * bool) : bool := snd cm && is_nil (c_text (fst cm)).

Definition enc_child (cm : child * bool) (k : str) : str :=
  let c := fst cm in
  let name := ctag_name (c_tag c) in
  if no_text_node cm then
    c_lt :: name ++ attrs_of (c_xsi c) ++ k_slash :: c_gt :: k
  else
    c_lt :: name ++ attrs_of (c_xsi c) ++ c_gt :: text_escape (c_text c)
      ++ c_lt :: k_slash :: name ++ c_gt :: k.

Definition k_root_close_piece : str := k_slash :: k_root_name ++ [c_gt].

(** the document for a state with text-node marks *)
Definition enc_core_m (r : rootk) (w : list (child * bool)) : str :=
  c_lt :: k_decl_piece ++ c_lt :: root_head r ++
  match w with
  | [] => [k_slash; c_gt]
  | _ => c_gt :: fold_right enc_child (c_lt :: k_root_close_piece) w
  end.

(** every child holds a text node (its text was assigned) *)
Definition assigned (st : cpstate) : list (child * bool) := map (fun c => (c, false)) st.
(** no child with empty text holds a text node (the tree as the parser builds it) *)
Definition parsed (st : cpstate) : list (child * bool) := map (fun c => (c, true)) st.

Definition enc_core_r (r : rootk) (st : cpstate) : str := enc_core_m r (assigned st).

(** docProps/core.xml of a package started from the default template *)
Definition enc_core (st : cpstate) : str := enc_core_r RTemplate st.

(** ---- reader ---- *)

(** cut at the first occurrence of [c] *)
Fixpoint cut_at (c : N) (s : str) : option (str * str) :=
  match s with
  | [] => None
  | x :: r =>
      if N.eqb x c then Some ([], r)
      else match cut_at c r with
           | Some (a, b) => Some (x :: a, b)
           | None => None
           end
  end.

(** what may stand in a child's tag before the greater-than sign: name, attributes, and the
    slash of an empty-element tag *)
Definition head_of (p : prop) (x sc : bool) : str :=
  tag_qname p ++ attrs_of x ++ (if sc then [k_slash] else []).

Definition head_forms : list (str * (prop * bool * bool)) :=
  flat_map (fun p => [(head_of p false false, (p, false, false)); (head_of p false true, (p, false, true));
                      (head_of p true false, (p, true, false)); (head_of p true true, (p, true, true))])
           all_props.

Definition head_lookup (h : str) : option (prop * bool * bool) :=
  match find (fun e => str_eqb h (fst e)) head_forms with
  | Some e => Some (snd e)
  | None => None
  end.

Definition cons_opt {A} (x : A) (o : option (list A)) : option (list A) :=
  match o with Some l => Some (x :: l) | None => None end.

(** the text of an element as the oxml parser delivers it *)
Definition text_val (body : str) : option str :=
  match lex_text body with
  | OneText v => Some v
  | BrokenText => None
  end.

(** [ps] : the pieces after the root start tag *)
Fixpoint dec_children (ps : list str) : option cpstate :=
  match ps with
  | [] => None
  | op :: rest =>
      match rest with
      | [] => if str_eqb op k_root_close_piece then Some [] else None
      | cl :: rest' =>
          match cut_at c_gt op with
          | None => None
          | Some (h, body) =>
              match head_lookup h with
              | None => None
              | Some (p, x, true) =>
                  if is_nil body then cons_opt (mkChild (TProp p) [] x) (dec_children rest) else None
              | Some (p, x, false) =>
                  if str_eqb cl (k_slash :: tag_qname p ++ [c_gt]) then
                    match text_val body with
                    | Some v => cons_opt (mkChild (TProp p) v x) (dec_children rest')
                    | None => None
                    end
                  else None
              end
          end
      end
  end.

(** the root start tag: which declarations, and whether it is an empty-element tag *)
Definition root_lookup (piece : str) : option (rootk * bool) :=
  if str_eqb piece (root_head RTemplate ++ [c_gt]) then Some (RTemplate, false)
  else if str_eqb piece (root_head RTemplate ++ [k_slash; c_gt]) then Some (RTemplate, true)
  else if str_eqb piece (root_head RDefault ++ [c_gt]) then Some (RDefault, false)
  else if str_eqb piece (root_head RDefault ++ [k_slash; c_gt]) then Some (RDefault, true)
  else None.

Definition dec_core_r (s : str) : option (rootk * cpstate) :=
  match split_on c_lt s with
  | p0 :: p1 :: p2 :: rest =>
      if is_nil p0 && str_eqb p1 k_decl_piece then
        match root_lookup p2 with
        | Some (r, true) => match rest with [] => Some (r, []) | _ => None end
        | Some (r, false) =>
            match dec_children rest with Some st => Some (r, st) | None => None end
        | None => None
        end
      else None
  | _ => None
  end.

Definition dec_core (s : str) : option cpstate :=
  match dec_core_r s with Some (_, st) => Some st | None => None end.

(** ---- the states on which the codec is exact ---- *)

(** declared children only, every text a string of XML characters (what lxml accepts at all) *)
Definition wire_child (c : child) : bool :=
  match c_tag c with TProp _ => true | TOther _ => false end && xml_str (c_text c).
Definition wire_ok (st : cpstate) : bool := forallb wire_child st.

(** save and re-open: None when the reader refuses what the writer wrote *)
Definition reopen (st : cpstate) : option cpstate := dec_core (enc_core st).
