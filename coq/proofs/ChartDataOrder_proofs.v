(** C07 lemmas about the two sequences of the c:ser elements of a plot: the document sequence
    ([p_sers]) and the series sequence ([plot_sers], by c:order).  Nothing here supposes that the
    two agree, that c:order values are contiguous, or that they are unique: the start state is
    any chart (a file whose series were re-ordered, a combination chart whose plots interleave
    their c:order values). *)
From Coq Require Import Permutation Sorted.
From V.lib Require Import Prelude Wire Calendar.
From V.model Require Import ChartData.
From V.proofs Require Import ChartData_proofs.
Local Open Scope Z_scope.

(* ================================================================== subsequences *)

(** [subseq a b]: [a] is [b] with some elements left out (the others in the same sequence). *)
Inductive subseq {A} : list A -> list A -> Prop :=
| sub_nil : subseq [] []
| sub_skip x l1 l2 : subseq l1 l2 -> subseq l1 (x :: l2)
| sub_take x l1 l2 : subseq l1 l2 -> subseq (x :: l1) (x :: l2).

Lemma subseq_refl {A} (l : list A) : subseq l l.
Proof. induction l; [apply sub_nil|now apply sub_take]. Qed.

Lemma subseq_nil_l {A} (l : list A) : subseq [] l.
Proof. induction l; [apply sub_nil|now apply sub_skip]. Qed.

Lemma subseq_trans {A} (a b c : list A) : subseq a b -> subseq b c -> subseq a c.
Proof.
  intros H1 H2. revert a H1. induction H2 as [|x l1 l2 H IH|x l1 l2 H IH]; intros a H1.
  - exact H1.
  - apply sub_skip. auto.
  - inversion H1; subst.
    + apply sub_skip. auto.
    + apply sub_take. auto.
Qed.

Lemma subseq_map {A B} (f : A -> B) a b : subseq a b -> subseq (map f a) (map f b).
Proof. induction 1; simpl; [apply sub_nil|now apply sub_skip|now apply sub_take]. Qed.

Lemma subseq_length {A} (a b : list A) : subseq a b -> (length a <= length b)%nat.
Proof. induction 1; simpl; lia. Qed.

Lemma subseq_in {A} (a b : list A) x : subseq a b -> In x a -> In x b.
Proof. induction 1; simpl; intros Hx; auto. destruct Hx; auto. Qed.

Lemma remove_nth_subseq {A} (l : list A) : forall n, subseq (remove_nth n l) l.
Proof.
  induction l as [|x l IH]; intros n; [destruct n; apply sub_nil|].
  destruct n; simpl.
  - apply sub_skip. apply subseq_refl.
  - apply sub_take. apply IH.
Qed.

Lemma clone_at_subseq l : forall pos i o, subseq l (clone_at pos i o l).
Proof.
  induction l as [|x l IH]; intros pos i o; [destruct pos; apply sub_nil|].
  destruct pos; simpl.
  - apply sub_take. apply sub_skip. apply subseq_refl.
  - apply sub_take. apply IH.
Qed.

(* ================================================================== plots *)

(** [q] is the plot [p] with some c:ser elements taken out. *)
Definition plot_sub (q p : plot) : Prop := frame q = frame p /\ subseq (p_sers q) (p_sers p).

Lemma plot_sub_refl p : plot_sub p p.
Proof. split; [reflexivity|apply subseq_refl]. Qed.
Lemma plot_sub_trans a b c : plot_sub a b -> plot_sub b c -> plot_sub a c.
Proof. intros [F1 S1] [F2 S2]. split; [congruence|eapply subseq_trans; eauto]. Qed.

Lemma Forall2_refl {A} (R : A -> A -> Prop) l : (forall x, R x x) -> Forall2 R l l.
Proof. intros H. induction l; constructor; auto. Qed.
Lemma Forall2_trans {A} (R : A -> A -> Prop) :
  (forall a b c, R a b -> R b c -> R a c) -> forall x y z, Forall2 R x y -> Forall2 R y z -> Forall2 R x z.
Proof.
  intros HT x y z H1. revert z. induction H1; intros z H2; inversion H2; subst; constructor; eauto.
Qed.

Lemma drop_last_sub p : plot_sub (drop_last_ser p) p.
Proof.
  unfold drop_last_ser. destruct (rev (order_positions (p_sers p))) as [|pos r]; [apply plot_sub_refl|].
  split; [reflexivity|]. cbn [p_sers set_sers]. apply remove_nth_subseq.
Qed.

Lemma remove_last_sub ps : Forall2 plot_sub (remove_last_ser ps) ps.
Proof.
  induction ps as [|p ps IH]; [constructor|]. cbn [remove_last_ser].
  destruct (has_sers ps).
  - constructor; [apply plot_sub_refl|exact IH].
  - constructor; [apply drop_last_sub|]. apply Forall2_refl, plot_sub_refl.
Qed.

Lemma iter_remove_sub k ps : Forall2 plot_sub (Nat.iter k remove_last_ser ps) ps.
Proof.
  induction k as [|k IH]; simpl; [apply Forall2_refl, plot_sub_refl|].
  eapply Forall2_trans; [exact plot_sub_trans|apply remove_last_sub|exact IH].
Qed.

Definition nonempty_plot (p : plot) : bool := match p_sers p with [] => false | _ => true end.
Definition nonempty {A} (l : list A) : bool := match l with [] => false | _ => true end.

(** _trim_ser_count_by never moves a c:ser: every plot keeps a subsequence of its document
    sequence, and the plots whose subsequence is empty are the ones removed. *)
Theorem trim_document k ps :
  exists Q, Forall2 plot_sub Q ps /\ trim k ps = filter nonempty_plot Q.
Proof. exists (Nat.iter k remove_last_ser ps). split; [apply iter_remove_sub|reflexivity]. Qed.

(* ================================================================== growing *)

(** [q] is the plot [p] with some c:ser elements put in. *)
Definition plot_sup (q p : plot) : Prop := frame q = frame p /\ subseq (p_sers p) (p_sers q).

Lemma plot_sup_refl p : plot_sup p p.
Proof. split; [reflexivity|apply subseq_refl]. Qed.
Lemma plot_sup_trans a b c : plot_sup a b -> plot_sup b c -> plot_sup a c.
Proof. intros [F1 S1] [F2 S2]. split; [congruence|eapply subseq_trans; eauto]. Qed.

Lemma upd_last_sup (f : plot -> plot) ps : (forall p, plot_sup (f p) p) -> Forall2 plot_sup (upd_last f ps) ps.
Proof.
  intros Hf. induction ps as [|p ps IH]; [constructor|].
  destruct ps as [|p2 ps]; [constructor; [apply Hf|constructor]|].
  change (upd_last f (p :: p2 :: ps)) with (p :: upd_last f (p2 :: ps)).
  constructor; [apply plot_sup_refl|exact IH].
Qed.

Lemma add_cloned_sup k : forall pos ps, Forall2 plot_sup (add_cloned k pos ps) ps.
Proof.
  induction k as [|k IH]; intros pos ps; cbn [add_cloned]; [apply Forall2_refl, plot_sup_refl|].
  eapply Forall2_trans; [exact plot_sup_trans|apply IH|].
  apply upd_last_sup. intros p. split; [reflexivity|]. cbn [p_sers set_sers]. apply clone_at_subseq.
Qed.

(* ================================================================== rewriting *)

(** What identifies a c:ser apart from its data: idx, order and the children that are not
    data children. *)
Definition mark (tags : list N) (s : ser) : Z * Z * list child :=
  (s_idx s, s_order s, other_kids tags (s_kids s)).
(** The marks of a plot's c:ser elements in document sequence. *)
Definition doc_marks (tags : list N) (p : plot) : list (Z * Z * list child) := map (mark tags) (p_sers p).

Lemma mark_rewrite sc tags s sd : data_tags sd = tags -> mark tags (rewrite_ser sc s sd) = mark tags s.
Proof.
  intros <-. destruct (rewrite_others sc s sd) as [A [B C]]. unfold mark. now rewrite A, B, C.
Qed.

Lemma doc_marks_rewrite_plot sc tags data p : Forall (fun sd => data_tags sd = tags) data ->
  doc_marks tags (rewrite_plot sc data p) = doc_marks tags p.
Proof.
  intros HF. unfold doc_marks, rewrite_plot. cbn [p_sers set_sers]. rewrite map_map.
  transitivity (map (mark tags) (map snd (decorate (p_sers p)))); [|now rewrite decorate_snd].
  rewrite map_map. apply map_ext. intros [q s]. cbn [fst snd].
  destruct (index_of q (order_positions (p_sers p))) as [r|]; [|reflexivity].
  destruct (nth_error data r) as [sd|] eqn:E; [|reflexivity].
  apply mark_rewrite. rewrite Forall_forall in HF. apply HF. eapply nth_error_In; eauto.
Qed.

Lemma Forall_skipn {A} (P : A -> Prop) n : forall l, Forall P l -> Forall P (skipn n l).
Proof.
  induction n as [|n IH]; intros l H; [exact H|]. destruct l as [|x l]; [constructor|].
  simpl. apply IH. now inversion H.
Qed.

Lemma doc_marks_rewrite_plots sc tags ps : forall data, Forall (fun sd => data_tags sd = tags) data ->
  map (doc_marks tags) (rewrite_plots sc data ps) = map (doc_marks tags) ps.
Proof.
  induction ps as [|p ps IH]; intros data HF; [reflexivity|]. cbn [rewrite_plots map].
  rewrite doc_marks_rewrite_plot by exact HF. f_equal. apply IH. now apply Forall_skipn.
Qed.

Lemma filter_map_comm {A B} (f : A -> B) (g : B -> bool) l : filter g (map f l) = map f (filter (fun x => g (f x)) l).
Proof. induction l as [|x l IH]; simpl; auto. destruct (g (f x)); simpl; now rewrite IH. Qed.

(* ================================================================== replace_data *)

(** Shrinking replace_data on ANY chart: the series left are the first n of plotArea.sers
    (plot by plot, c:order sequence within a plot, whatever the document sequence is) and
    each keeps idx, order and every child that is not a data child. *)
Theorem shrink_survivors sc d c c' : replace sc d c = Ok c' ->
  (data_len d <= length (area_sers c))%nat ->
  exists rk, rewriter_kind c = Ok rk /\
  Forall2 (keeps (rk_tags rk)) (area_sers c') (firstn (data_len d) (area_sers c)).
Proof.
  intros Hr Hle. destruct (replace_keeps _ _ _ _ Hr) as [rk [Hk H]]. cbv zeta in H.
  destruct H as [_ [_ [Hlen [HF _]]]]. exists rk. split; [exact Hk|].
  rewrite firstn_all2 in HF by lia. exact HF.
Qed.

Lemma Forall2_of_maps {A B C} (f : A -> B) (g : A -> C) : forall l1 l2,
  map f l1 = map f l2 -> map g l1 = map g l2 -> Forall2 (fun a b => f a = f b /\ g a = g b) l1 l2.
Proof.
  induction l1 as [|a l1 IH]; intros [|b l2] H1 H2; simpl in *; try discriminate; constructor.
  - split; congruence.
  - apply IH; congruence.
Qed.

Lemma Forall2_compose {A B C} (R : A -> B -> Prop) (S : B -> C -> Prop) (T : A -> C -> Prop) :
  (forall a b c, R a b -> S b c -> T a c) ->
  forall x y z, Forall2 R x y -> Forall2 S y z -> Forall2 T x z.
Proof.
  intros H x y z H1. revert z. induction H1; intros z H2; inversion H2; subst; constructor; eauto.
Qed.

Lemma Forall2_map_l {A B C} (f : A -> B) (R : B -> C -> Prop) l1 l2 :
  Forall2 (fun a c => R (f a) c) l1 l2 -> Forall2 R (map f l1) l2.
Proof. induction 1; simpl; constructor; auto. Qed.

Lemma nonempty_doc_marks tags p : nonempty (doc_marks tags p) = nonempty_plot p.
Proof. unfold doc_marks, nonempty_plot. destruct (p_sers p); reflexivity. Qed.

(** replace_data never moves a c:ser.  When series are removed every plot keeps a subsequence
    of its document sequence of series (as idx, order, other children) and the plots left
    with none are gone; otherwise every plot keeps its whole sequence, new series come in
    between. *)
Theorem replace_document_order sc d c c' : replace sc d c = Ok c' ->
  exists rk, rewriter_kind c = Ok rk /\
  let tags := rk_tags rk in
  if Nat.ltb (data_len d) (length (area_sers c)) then
    exists M, Forall2 (fun m p => subseq m (doc_marks tags p)) M (ch_plots c) /\
              map (doc_marks tags) (ch_plots c') = filter nonempty M
  else
    Forall2 (fun p' p => frame p' = frame p /\ subseq (doc_marks tags p) (doc_marks tags p'))
            (ch_plots c') (ch_plots c).
Proof.
  intros Hr. destruct (replace_spec _ _ _ _ Hr) as [rk [ps [sds [Hk [Ha [Hs [Hl [_ [_ [Hps _]]]]]]]]]].
  exists rk. split; [exact Hk|]. cbv zeta.
  destruct (ser_datas_facts _ _ _ _ Hs) as [_ [_ [_ [_ [_ HF]]]]].
  assert (HT : Forall (fun sd => data_tags sd = rk_tags rk) sds).
  { eapply Forall_impl; [|exact HF]. intros sd [_ H]. exact H. }
  pose proof (doc_marks_rewrite_plots sc (rk_tags rk) ps sds HT) as HM. rewrite <- Hps in HM.
  pose proof (frames_rewrite_plots sc ps sds) as HFr. rewrite <- Hps in HFr.
  assert (Hsup : Forall2 plot_sup ps (ch_plots c) ->
                 Forall2 (fun p' p => frame p' = frame p /\ subseq (doc_marks (rk_tags rk) p) (doc_marks (rk_tags rk) p'))
                         (ch_plots c') (ch_plots c)).
  { intros H. eapply Forall2_compose; [|apply (Forall2_of_maps frame (doc_marks (rk_tags rk)) _ _ HFr HM)|exact H].
    intros a b p [E1 E2] [E3 E4]. split; [congruence|]. rewrite E2. unfold doc_marks. now apply subseq_map. }
  unfold adjust in Ha. change (area_sers_of (ch_plots c)) with (area_sers c) in Ha.
  destruct (Nat.ltb_spec (length (area_sers c)) (data_len d)) as [Hgrow|Hge].
  - destruct (Nat.ltb_spec (data_len d) (length (area_sers c))) as [Hx|_]; [lia|].
    destruct (rev (ch_plots c)) as [|lastp rps]; [discriminate|].
    destruct (rev (order_positions (p_sers lastp))) as [|pos r]; [discriminate|].
    injection Ha as <-. apply Hsup, add_cloned_sup.
  - destruct (Nat.ltb_spec (data_len d) (length (area_sers c))) as [Hlt|Hge2]; injection Ha as <-.
    + destruct (trim_document (length (area_sers c) - data_len d) (ch_plots c)) as [Q [HQ HE]].
      exists (map (doc_marks (rk_tags rk)) Q). split.
      * apply Forall2_map_l. clear -HQ. induction HQ as [|q p Q P [_ Hs'] _ IH]; constructor; [|exact IH].
        unfold doc_marks. now apply subseq_map.
      * rewrite HM, HE, filter_map_comm. f_equal. apply filter_ext. intros p. symmetry. apply nonempty_doc_marks.
    + apply Hsup, Forall2_refl, plot_sup_refl.
Qed.

(* ================================================================== a foreign start state *)

(** Two plots.  The first stores its three series in the document sequence order 9, 2, 5; the
    second its two series as order 7, 3: c:order values with gaps, not in document sequence
    and interleaved across the plots; c:idx values independent of c:order.  Each series has a
    formatting child of its own (spPr with payloads 1 to 5). *)
Definition fs (i o : Z) (pay : N) : ser :=
  mkSer i o [KTx [[115%N]]; KOther tg_spPr pay; KCat (mkCatx 0 None [0] [] []); KVal (mkCache None [0] [])].
Definition foreign_chart : chart :=
  mkChart false 7 [mkPlot pt_bar 1 [fs 4 9 1; fs 8 2 2; fs 0 5 3]; mkPlot pt_line 2 [fs 6 7 4; fs 1 3 5]].
Definition w_four : chart_data :=
  DCat w_cats None [w_ser [97%N] [Some [49%N]]; w_ser [98%N] []; w_ser [99%N] [None; Some [50%N]]; w_ser [100%N] []].

(** plotArea.sers of the start state is order 2, 5, 9 | 3, 7 (idx 8, 0, 4 | 1, 6); the document
    holds idx 4, 8, 0 | 6, 1.  Replacing with two series keeps idx 8 and 0 where they stood:
    the c:ser removed from the first plot is the one that comes FIRST in the document, and the
    second plot is gone (removal by document position would have kept idx 4 and 8).  Replacing
    with four keeps order 3 of the second plot, the element that is LAST in the document.  So
    the hypotheses of the theorems above are met by a state on which series sequence and
    document sequence give different answers. *)
Example foreign_shrink : exists c2 c4,
  replace std_succs w_two foreign_chart = Ok c2 /\
  map s_idx (area_sers foreign_chart) = [8; 0; 4; 1; 6] /\
  map s_order (area_sers foreign_chart) = [2; 5; 9; 3; 7] /\
  map s_idx (concat (map p_sers (ch_plots foreign_chart))) = [4; 8; 0; 6; 1] /\
  map s_idx (area_sers c2) = [8; 0] /\ map s_order (area_sers c2) = [2; 5] /\
  map (doc_marks [tg_tx; tg_cat; tg_val]) (ch_plots c2) =
    [[(8, 2, [KOther tg_spPr 2]); (0, 5, [KOther tg_spPr 3])]] /\
  map frame (ch_plots c2) = [(pt_bar, 1%N)] /\
  chart_names c2 = [[115%N]; [116%N]] /\
  replace std_succs w_four foreign_chart = Ok c4 /\
  map (doc_marks [tg_tx; tg_cat; tg_val]) (ch_plots c4) =
    [[(4, 9, [KOther tg_spPr 1]); (8, 2, [KOther tg_spPr 2]); (0, 5, [KOther tg_spPr 3])]; [(1, 3, [KOther tg_spPr 5])]] /\
  chart_names c4 = [[97%N]; [98%N]; [99%N]; [100%N]] /\
  (data_len w_two < length (area_sers foreign_chart))%nat.
Proof.
  eexists; eexists. split; [vm_compute; reflexivity|]. split; [reflexivity|]. split; [reflexivity|]. split; [reflexivity|].
  split; [vm_compute; reflexivity|]. split; [vm_compute; reflexivity|]. split; [vm_compute; reflexivity|].
  split; [vm_compute; reflexivity|]. split; [vm_compute; reflexivity|].
  split; [vm_compute; reflexivity|]. split; [vm_compute; reflexivity|]. split; [vm_compute; reflexivity|]. vm_compute. lia.
Qed.
